#!/bin/bash
# development helper (not a manifest command): re-runs the demonstrations of mutants on a scratch worktree: usage tools_reverify.sh <worktree> <corpus/id>...
# usage: reverify.sh <worktree> <corpus/id>...   demo on clean HEAD must pass, with the patch must fail
export GOFLAGS=-mod=mod GOPROXY=off GOSUMDB=off GOTOOLCHAIN=local; unset GOWORK
wt=$1; shift
cd $wt || exit 9
for p in "$@"; do
  src=/verif/$p
  git checkout -q -- . ; git clean -fdq -- client server test
  dd=$(python3 -c "import json;m=json.load(open('$src/meta.json'));print(m.get('demo_dir') or m.get('demo_package_dir') or '')")
  dd=${dd%/}
  [ -n "$dd" ] && [ -d "$wt/$dd" ] || { echo "$p DEMO-DIR-UNKNOWN '$dd'"; continue; }
  mod=${dd%%/*}; pkg=./${dd#*/}
  pat=$(grep -o 'func Test[A-Za-z0-9_]*' $src/zz_demo_test.go | sed 's/func //' | tr '\n' '|' | sed 's/|$//')
  cp $src/zz_demo_test.go $wt/$dd/
  clean=$(cd $mod && timeout 300 go test -vet=off -count=1 -run "^($pat)\$" $pkg 2>&1 | grep -E '^(ok|FAIL|---|panic)' | head -2 | tr '\n' ' ')
  git apply $src/patch.diff 2>/dev/null || { echo "$p APPLY-FAILED"; rm -f $wt/$dd/zz_demo_test.go; continue; }
  mut=$(cd $mod && timeout 300 go test -vet=off -count=1 -run "^($pat)\$" $pkg 2>&1 | grep -E '^(ok|FAIL|---|panic)' | head -2 | tr '\n' ' ')
  rm -f $wt/$dd/zz_demo_test.go
  st=OK
  case "$clean" in ok*) ;; *) st=CLEAN-FAILS;; esac
  case "$mut" in ok*) [ $st = OK ] && st=MUTANT-PASSES;; esac
  echo "$p $st clean=[${clean:0:60}] mutant=[${mut:0:70}]"
done
git checkout -q -- . ; git clean -fdq -- client server test
