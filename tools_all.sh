#!/bin/bash
# development helper: apply one patch to the scratch repo, run all 20 quick checks in parallel, print which properties/rules report it, revert.
# usage: tools_all.sh <patch> [binary]
REPO=${VERIF_REPO:-/repo}; bin=${2:-/verif/bin/ordalint}
T=$(mktemp -d /tmp/ta.XXXX)
git -C $REPO apply "$1" || { echo APPLY-FAILED; exit 3; }
for i in 01 02 03 04 05 06 07 08 09 10 11 12 13 14 15 16 17 18 19 20; do
  ($bin -repo $REPO -property C$i -tier quick -evidence $T/ev_C$i.json -known ${VERIF_KNOWN:-/verif/known_findings.json} > $T/out_C$i.txt 2>&1; echo $? > $T/code_C$i.txt) &
done; wait
git -C $REPO checkout -- . ; git -C $REPO clean -fdq -- client server >/dev/null 2>&1
res=""
for i in 01 02 03 04 05 06 07 08 09 10 11 12 13 14 15 16 17 18 19 20; do
  c=$(cat $T/code_C$i.txt)
  if [ "$c" != "0" ]; then
    rules=$(grep -o 'violated: rule=[A-Z0-9.]*' $T/out_C$i.txt | sed 's/violated: rule=//' | sort -u | tr '\n' ',')
    res="$res C$i:$rules"
  fi
done
rm -rf $T
echo "${res:-NONE}"
