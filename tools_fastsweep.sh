#!/bin/bash
# development helper: the verdict of all 20 properties for every patch of a corpus directory, one analyser process per
# patch (-all-props: the tree is loaded once), several scratch worktrees in parallel.
# usage: tools_fastsweep.sh <ABSOLUTE dir-with-*/patch.diff> [binary] [lanes=8]     (worktrees /tmp/lwN are created at /repo's HEAD)
cd /verif
dir=$1; bin=${2:-/verif/bin/ordalint}; lanes=${3:-8}
known=${VERIF_KNOWN:-/verif/known_findings.json}
head=$(git -C /repo rev-parse HEAD)
rm -f /tmp/fs_lane_*.txt
ids=$(ls -d $dir/*/ | xargs -n1 basename | grep -v "^_")
for i in $(seq 1 $lanes); do
  wt=/tmp/lw$i
  [ -d $wt ] || git -C /repo worktree add --detach $wt $head -q
  git -C $wt checkout -q --detach $head; git -C $wt checkout -q -- . ; git -C $wt clean -fdq
  (
    n=0
    for id in $ids; do
      n=$((n+1)); [ $((n % lanes)) -eq $((i % lanes)) ] || continue
      p=$dir/$id/patch.diff
      git -C $wt apply $p 2>/dev/null || { echo "$id APPLY-FAILED"; continue; }
      out=$(GOMAXPROCS=2 $bin -repo $wt -all-props /tmp/fs_$i -known $known 2>&1)
      git -C $wt checkout -q -- . ; git -C $wt clean -fdq -- client server >/dev/null 2>&1
      res=$(echo "$out" | awk '/violated: rule=/{match($0,/rule=[A-Z0-9.]+/); r[substr($0,RSTART+5,RLENGTH-5)]=1} /^PROP /{if($3!="exit=0"){s=""; for(k in r) s=s k ","; printf " %s(%s):%s", $2, substr($3,6), s}; delete r}')
      echo "$id${res:- CLEAN}"
    done
  ) > /tmp/fs_lane_$i.txt 2>&1 &
done
wait
cat /tmp/fs_lane_*.txt | LC_ALL=C sort
