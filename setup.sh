#!/bin/sh
# Builds the analyser from sources on disk (module cache only, no network).
set -e
cd "$(dirname "$0")/ordalint"
export GOFLAGS=-mod=mod GOPROXY=off GOSUMDB=off GOTOOLCHAIN=local
unset GOWORK
mkdir -p ../bin
go build -o ../bin/ordalint .
