#!/usr/bin/env python3
# regenerates MANIFEST.json from the property table below (development helper)
import json
decided = {
"C01":"apply is deterministic and exhaustive in the shape of the code (no identifier allocation under map iteration, emitted operations have local and remote arms, remote apply reads only transmitted fields, local/remote variants not mixed, comparison and LWW guards oriented correctly); remote map/object operations always reach the timestamp decision; forward-only checkpoint; stored operations keep every field",
"C02":"orientation of every last-writer-wins decision: Compare is the lexicographic sign function; every overwrite of an existing element is guarded on all paths by 'existing strictly older than incoming' on the right clock; updates never touch tombstones; sibling skip loop newest-first; counter only adds; remote put/remove never short-cut on liveness; clock synchronised on replay; stored operations keep their timestamps",
"C03":"validate-before-consume: positions validated before an operation is built, nil refused, operation id rolled back on every failing path, a failed local execution queues nothing, no result used before its error is checked; range validation covers the whole range without overflowing sums; reflective null rejection (typed nil, nested null); parsed indexes range-checked, paths below scalars and whole-document patch operations refused; no assertion on or Document around a possibly-nil result; a remote operation is recorded in the transaction buffer",
"C04":"identity addressing of remote list operations, no unlinking/forgetting of nodes, one registration per insert under the order time, size decremented once per live element, index walks skip tombstones, no resurrection, newest-first sibling order by the immutable order time; transmitted targets of every local list/array operation are order times; committed operations recorded for rollback regardless of origin",
"C05":"order and error-gating of the client's apply steps and of the server's handler steps, forward-only client checkpoint, log-ordered pull range from the checkpoint, normal forms of the checkpoint arithmetic, closed set of numbering writers; option-bit writer/reader agreement; remote operations recorded for the rollback replay",
"C06":"shape of the server's sequence assignment (accept iff seq==Cseq+1 with one Sseq increment, ignore iff seq<=Cseq, else MissingOps), injective _id format under the unique index, commit order, no storage error dropped; ordered bulk insert; end of log written back only by a handler that read it; cursor iteration errors consulted; option-bit agreement",
"C07":"the three structural defences against lost/duplicated/delayed messages: duplicate arm on the server, forward-only client checkpoint, origin filter for own operations (known finding F15: absent); option-bit writer/reader agreement and aliasing accessor; atomic lock registry; subscribe reset only while waiting; retried subscription (known finding F43)",
"C08":"storage errors surface and leave through the error pack; the client turns every server code into a returned error; reply/unlock discipline covers the panic path; atomicity of the push commit (known finding F14: two plain writes); recover() called by the deferred function itself; option-bit agreement; cursor iteration errors consulted",
"C09":"commit/rollback gating of transactions, rollback = restore then replay with errors propagated, announced length of a received unit checked against the batch before slicing and applying; a fresh rollback point forgets the replay list; Replay tells own from foreign operations by client id; import refreshes the rollback point; nested transactions join the enclosing one; a misfit unit is an error; member errors and checkpoint-before-apply (known findings F44, F45)",
"C10":"writer/reader agreement of the snapshot state: every state field written on restore and read on capture (or rebuilt), DTO key agreement, GetMeta/SetMeta agreement, list index keyed by order time after restore, export/import pair used by rollback and server rebuild; capture and restore are total (no early exit skips part of the state); import refreshes the rollback point; numbering writers",
"C11":"provenance of what the server stores (state and version from one rebuild), rebuild range and returned version, version recorded in the visible document, snapshot update is a proper critical section; ordered bulk insert; a misfit unit fails the rebuild; the rebuilt replica is reset on every path",
"C12":"lock discipline: every TryLock result guards its section, release on every exit including panic, no request context in the process-wide lock map, atomic one-mutex-per-name, injective lock names over (collection number, key), one reply per handler; bounded wait on the lease context; one lock name per datatype regardless of request options; no removal from the lock registry",
"C13":"the (option bits, case) dispatch table against the contract (known finding F13: six cells proceed), classification consults type/visibility/subscription, client state machine, refusal reaches the error handler; every accepted response subscribes a waiting replica; retried subscription adopts the datatype's DUID (known finding F43); option-bit agreement; no assertion on a refused creation's nil result",
"C14":"encode/decode/store/echo tables agree exhaustively; body structs fully serialisable; snapshot type arithmetic; stored document keeps and restores every operation field; container kinds agree between local and decoded construction; capture/restore totality; list index keyed by order time; unit bounds",
"C15":"injective identity key, total-order comparison, fresh delimiter for every repeatedly created element, closed set of numbering writers with expected increments/resets, clock sync before every remote apply; whole transaction buffer (marker included) recorded for rollback; Replay by client id",
"C16":"exactly one reply per handler on every exit with fields initialised first, storage mutated only by the final commit, no error reported as success, every RPC answers, client handles every error code and keeps its semaphore usable, unknown datatype refused (known finding F19); recover() effective; bounded lock wait; option-bit agreement",
"C17":"every lookup and purge scoped by collection: key lookups paired with the collection number, client bound to its collection, purge filters on the right field and value, fresh filter values, lock names and key lookup over (collection number, key); id-only lookup collection-checked (known finding F12: not); response packs applied by their own key; unique indexes include the collection number; reserved collection names refused",
"C18":"publish gating (post-reply goroutine, no error, at least one stored operation), notification content and topic provenance, topic agreement, own-notification filter, semaphore/re-check discipline of the realtime path; key recovered from the topic as the inverse of its format; re-delivery re-check covers every datatype; a replica that is behind syncs (no silent drop)",
"C19":"multi-operation patch is one transaction aborting on first failure, RFC 6901 decoding order, supported operation kinds, volatile REST client never registered, REST push result inspected (known finding F17: discarded); patch paths resolved from the patched Document; nested transactions join the enclosing one; rebuilt replica reset before patching; segments cut only under len >= 2",
"C20":"which accesses of the mutex-protected fields lie outside the lock brackets (known findings F18a-c), every exchange under the manager's semaphore (F18d) and map accesses (F18e), release of semaphore and mutex on every exit, transaction identifier taken after the lock; nested transactions never re-lock; remote operations recorded in the transaction buffer; Replay by client id",
}
undecided = {
"C01":"that the merge functions commute over all interleavings (the property itself)",
"C02":"that 'greatest timestamp wins' follows from these guards over whole histories; 32-bit wrap-around; value-level outcomes",
"C03":"value-level equality with the plain data structure; bounds arithmetic inside the validators; nil nested inside containers",
"C04":"the RGA ordering invariant over all interleavings; immediate readability at index i",
"C05":"exactly-once application and equality of client and server state over whole histories (run-time quantities)",
"C06":"that log, end-of-log and checkpoints agree after every request of every history",
"C07":"the count-based skipping itself (arithmetic over run-time checkpoints)",
"C08":"recovery after a restart; convergence after retries",
"C09":"that restore-and-replay reproduces the earlier state; a body that panics",
"C10":"that rebuilt indexes equal the originals, i.e. indistinguishability itself",
"C11":"equality of stored state with the log replay; version monotonicity under racing updaters",
"C12":"data-race freedom of the whole server and equivalence to a serial order (no pointer analysis available)",
"C13":"exactly one datatype under racing creators; the first state of a subscriber",
"C14":"value fidelity (integers above 2^53, invalid UTF-8, nil vs empty slices); decode panics on arbitrary bytes",
"C15":"gaplessness of numbering across whole histories with failures and rollbacks",
"C16":"promptness (timing); panics on nil sub-messages of well-formed requests",
"C17":"independence of same-key datatypes over whole histories",
"C18":"eventual convergence of realtime clients (schedules)",
"C19":"that the edit script reproduces the target (value-level)",
"C20":"absence of lost updates and deadlocks over real schedules",
}
ids=[json.loads(l)['id'] for l in open('/verif/properties.jsonl')]
checks=[]
for i in ids:
    checks.append({
      "property_id":i,
      "quick_cmd":"./check %s quick"%i,
      "thorough_cmd":"./check %s thorough"%i,
      "evidence_file":"evidence/%s.json"%i,
      "replay_cmd_template":"./check --replay {path}",
      "engine":"ordalint",
      "level_claimed":{"category":"other",
         "text":"Structural necessary conditions of the property, decided statically from the type-checked source of /repo on every path of the anchored functions (no orda code is executed): "+decided[i]+". A green check means these conditions hold on every path / call site / switch arm of the current tree; it does NOT prove the behavioural property. Undecided remainder: "+undecided[i]+".",
         "design_ref":"DESIGN.md section 3, "+i},
      "level_note":"Trusted: go/packages + go/types + go/ssa + CHA/VTA call graph of golang.org/x/tools v0.29.0, and the rule definitions in /verif/ordalint. Each rule is a necessary condition chosen so that breaking it breaks the behaviour; anchors are found by package path, receiver type and function name (a renamed anchor is reported as anchor-lost). Known findings (genuine defects recorded, not repaired) are listed in known_findings.json and printed as KNOWN-FINDING lines.",
      "technique":"custom static analysis over go/ssa (path-sensitive reaching conditions, dominance, provenance, linear normal forms), go/types/AST (dispatch tables, struct tags, format injectivity) and the call graph (reachability, who-may-call, field effects)"})
m={"version":1,"setup_cmd":"./setup.sh",
"hooks":{"guard":"verif","enable":"none: static analysis needs no instrumentation of orda; no hook commits exist and nothing in /repo is guarded by the tag","baseline_off_cmd":"for m in . ./client ./server; do (cd /repo/$m && GOFLAGS=-mod=mod go test -json -vet=off -count=1 -timeout 25m ./...); done","source_commits":[],"add_only":True},
"engines":[{"name":"ordalint","path":"ordalint","serves_properties":ids,"kind_free_text":"repository-specific static analyser: go/packages loading of /repo's current tree, go/types, go/ssa with path-sensitive guard analysis, call-graph reachability and field effects, AST dispatch tables (x/tools v0.29.0, built with the default go)"}],
"checks":checks,
"not_applicable":[],
"notes":"Technique family: static analysis only. All 20 properties are claimed at level 'other' through structural necessary conditions; none is claimed as proved. 12 genuine defects were repaired by fix: commits in /repo, 40 constructs of 7 further defects are recorded in known_findings.json. Seeded breaking changes written by independent sub-agents are under seeded/ with the rules that catch them (DESIGN.md section 9)."}
json.dump(m,open('/verif/MANIFEST.json','w'),indent=1)
