#!/bin/bash
# development helper: run every seeded mutant of a directory against its own property's quick check.
# usage: tools_seeded.sh [dir=seeded] [binary=bin/ordalint] [extra property ids...]
cd /verif
REPO=${VERIF_REPO:-/repo}
dir=${1:-seeded}; bin=${2:-bin/ordalint}; shift; shift
for d in $dir/*/; do
  id=$(basename $d); prop=${id%-*}
  git -C $REPO apply /verif/$d/patch.diff 2>/dev/null || { echo "$id APPLY-FAILED"; continue; }
  res=""
  for c in $prop "$@"; do
    out=$($bin -repo $REPO -property $c -tier quick -evidence /tmp/ev_$c.json -known ${VERIF_KNOWN:-/verif/known_findings.json} 2>&1); code=$?
    rules=$(echo "$out" | grep -o 'violated: rule=[A-Z0-9.]*' | sed 's/violated: rule=//' | sort -u | tr '\n' ',')
    res="$res $c:exit=$code[$rules]"
  done
  git -C $REPO checkout -- .
  echo "$id$res"
done
