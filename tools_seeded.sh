#!/bin/bash
# development helper: run every seeded mutant against its own property's quick check (and optionally more);
# prints one line per mutant. usage: tools_seeded.sh [extra property ids...]
cd /verif
for d in seeded/*/; do
  id=$(basename $d); prop=${id%-*}
  git -C /repo apply /verif/$d/patch.diff 2>/dev/null || { echo "$id APPLY-FAILED"; continue; }
  res=""
  for c in $prop "$@"; do
    out=$(./check $c quick 2>&1); code=$?
    rules=$(echo "$out" | grep -o 'violated: rule=[A-Z0-9.]*' | sed 's/violated: rule=//' | sort -u | tr '\n' ',')
    res="$res $c:exit=$code[$rules]"
  done
  git -C /repo checkout -- .
  echo "$id$res"
done
