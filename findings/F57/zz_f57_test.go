package orda

import (
	"testing"

	"github.com/orda-io/orda/client/pkg/model"
	"github.com/orda-io/orda/client/pkg/testonly"
	"github.com/stretchr/testify/require"
	"github.com/wI2L/jsondiff"
)

// F57: a patch operation whose parent path leads to a scalar is an invalid argument (wrong container kind): it is
// refused with an error, changes nothing and queues nothing. Before the repair Patch returned nil and did nothing,
// also in the middle of a multi-operation patch, whose other operations were then applied as if all had succeeded.
func TestF57PatchBelowAScalarIsRefused(t *testing.T) {
	d, err := newDocument(testonly.NewBase("f57", model.TypeOfDatatype_DOCUMENT), testonly.NewTestWire(false), nil)
	require.NoError(t, err)
	doc := d.(*document)
	_, err = doc.PutToObject("a", 1)
	require.NoError(t, err)
	before := string(doc.ToJSONBytes())
	pending := len(doc.CreatePushPullPack().Operations)
	for _, op := range []jsondiff.Operation{
		{Type: jsondiff.OperationAdd, Path: "/a/b", Value: 2},
		{Type: jsondiff.OperationReplace, Path: "/a/b", Value: 2},
		{Type: jsondiff.OperationRemove, Path: "/a/b"},
	} {
		require.Error(t, doc.Patch(op), op.String())
		require.Equal(t, before, string(doc.ToJSONBytes()))
		require.Equal(t, pending, len(doc.CreatePushPullPack().Operations))
	}
	// in a unit of several operations the refusal aborts the unit
	err = doc.Patch(jsondiff.Operation{Type: jsondiff.OperationAdd, Path: "/c", Value: 3}, jsondiff.Operation{Type: jsondiff.OperationAdd, Path: "/a/b", Value: 2})
	require.Error(t, err)
	require.Equal(t, before, string(doc.ToJSONBytes()))
}
