package orda

import (
	"testing"

	"github.com/orda-io/orda/client/pkg/model"
	"github.com/orda-io/orda/client/pkg/testonly"
	"github.com/stretchr/testify/require"
)

// F49: a put on a key of a Document object that had been deleted returned the deleted element as the replaced value;
// the plain structure (and the Map datatype) return nothing, because the key held no value.
func TestFXPutAfterDeleteReplacesNothing(t *testing.T) {
	d, _ := newDocument(testonly.NewBase("d", model.TypeOfDatatype_DOCUMENT), testonly.NewTestWire(false), nil)
	old, err := d.PutToObject("k", "v1")
	require.NoError(t, err)
	require.Nil(t, old)
	old, err = d.DeleteInObject("k")
	require.NoError(t, err)
	require.Equal(t, "v1", old.ToJSON())
	old, err = d.PutToObject("k", "v2")
	require.NoError(t, err)
	require.Nil(t, old, "the key was deleted: the put replaces nothing")
	old, err = d.PutToObject("k", "v3")
	require.NoError(t, err)
	require.Equal(t, "v2", old.ToJSON())

	m, _ := newMap(testonly.NewBase("m", model.TypeOfDatatype_MAP), testonly.NewTestWire(false), nil)
	_, _ = m.Put("k", "v1")
	_, _ = m.Remove("k")
	prev, _ := m.Put("k", "v2")
	require.Nil(t, prev)
}
