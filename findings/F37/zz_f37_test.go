// Reproducing test of defect "getbypath-array-index". It belongs in the package directory client/pkg/orda
// (run: cd client && go test -vet=off -count=1 -run TestFX ./pkg/orda/).
package orda

import (
	"testing"

	"github.com/orda-io/orda/client/pkg/model"
	"github.com/orda-io/orda/client/pkg/testonly"
	"github.com/stretchr/testify/require"
)

// fxCatch runs f and returns the recovered panic value (nil when f did not panic).
func fxCatch(f func()) (r interface{}) {
	defer func() { r = recover() }()
	f()
	return nil
}

func fxDoc(t *testing.T) Document {
	d, err := newDocument(testonly.NewBase(t.Name(), model.TypeOfDatatype_DOCUMENT), nil, nil)
	require.NoError(t, err)
	return d
}

// 1. GetByPath with an array index outside the array
func TestFXGetByPathIndexOutOfRange(t *testing.T) {
	doc := fxDoc(t)
	_, err := doc.PutToObject("a", []interface{}{"x", "y"})
	require.NoError(t, err)
	for _, p := range []string{"/a/5", "/a/2", "/a/-1"} {
		var got Document
		var gErr error
		pn := fxCatch(func() {
			g, e := doc.GetByPath(p)
			got = g
			if e != nil {
				gErr = e
			}
		})
		require.Nil(t, pn, "GetByPath(%q) panicked", p)
		require.Error(t, gErr, "GetByPath(%q) must return an error", p)
		require.Nil(t, got)
	}
	g, err := doc.GetByPath("/a/1")
	require.NoError(t, err)
	require.Equal(t, "y", g.GetValue())
}
