// Reproducing test of defect "getbypath-through-scalar". It belongs in the package directory client/pkg/orda
// (run: cd client && go test -vet=off -count=1 -run TestFX ./pkg/orda/).
package orda

import (
	"testing"

	"github.com/orda-io/orda/client/pkg/model"
	"github.com/orda-io/orda/client/pkg/testonly"
	"github.com/stretchr/testify/require"
)

func fxDoc(t *testing.T) Document {
	d, err := newDocument(testonly.NewBase(t.Name(), model.TypeOfDatatype_DOCUMENT), nil, nil)
	require.NoError(t, err)
	return d
}

// 8. GetByPath through a scalar
func TestFXGetByPathThroughScalar(t *testing.T) {
	doc := fxDoc(t)
	_, err := doc.PutToObject("a", 1)
	require.NoError(t, err)
	for _, p := range []string{"/a/b", "/a/b/c", "/a/0"} {
		g, e := doc.GetByPath(p)
		require.Error(t, e, "GetByPath(%q) returned %v", p, g)
		require.Nil(t, g)
	}
	g, e := doc.GetByPath("/a")
	require.NoError(t, e)
	require.Equal(t, float64(1), g.GetValue())
}
