package orda

// Belongs in: client/pkg/orda (package-internal test, package orda).

import (
	"testing"

	"github.com/orda-io/orda/client/pkg/model"
	"github.com/orda-io/orda/client/pkg/testonly"
	"github.com/stretchr/testify/require"
)

func fxResponse(w *counter, sseq, cseq uint64, ops ...*model.Operation) *model.PushPullPack {
	return &model.PushPullPack{
		Key:        w.GetKey(),
		DUID:       w.GetDUID(),
		Option:     uint32(model.PushPullBitNormal),
		CheckPoint: &model.CheckPoint{Sseq: sseq, Cseq: cseq},
		Era:        w.GetEra(),
		Type:       w.TypeOf,
		Operations: ops,
	}
}

// A subscribed replica with nothing to push receives a response that carries only the first two
// operations of a three-operation unit (server positions 1 and 2), and later a response with the third
// operation (position 3). The unit must be applied completely (counter 3) or not at all (counter 0) - the
// tail must never be applied alone (counter 2, which is what the unmodified tree ends with).
func TestFXIncompleteUnitIsNotConsumed(t *testing.T) {
	tw := testonly.NewTestWire(false)
	// the sender commits [TRANSACTION n=3, INCREASE 1, INCREASE 2]
	c1, err := newCounter(testonly.NewBase("key1", model.TypeOfDatatype_COUNTER), tw, nil)
	require.NoError(t, err)
	require.NoError(t, c1.Transaction("two", func(tx CounterInTx) error {
		_, _ = tx.IncreaseBy(1)
		_, _ = tx.IncreaseBy(2)
		return nil
	}))
	unit := c1.(*counter).CreatePushPullPack().Operations
	require.Len(t, unit, 3)

	c2, err := newCounter(testonly.NewBase("key1", model.TypeOfDatatype_COUNTER), tw, nil)
	require.NoError(t, err)
	w2 := c2.(*counter)
	w2.SetState(model.StateOfDatatype_SUBSCRIBED)
	require.False(t, w2.NeedPush())

	// first response: check point (s:2, c:0), the head of the unit only
	w2.ApplyPushPullPack(fxResponse(w2, 2, 0, unit[0], unit[1]))
	require.Equal(t, int32(0), c2.Get(), "an incomplete unit is not applied")
	stillNeeded := w2.NeedPull(2)
	t.Logf("after the incomplete response: counter=%d NeedPull(2)=%v checkpoint=%s", c2.Get(), stillNeeded, w2.CreatePushPullPack().CheckPoint.ToString())

	// what the server answers next depends on the check point the replica reports
	cp := w2.CreatePushPullPack().CheckPoint
	var next *model.PushPullPack
	switch cp.Sseq {
	case 0: // nothing consumed: the whole unit is sent again
		next = fxResponse(w2, 3, 0, unit...)
	case 2: // the two positions were consumed: only the tail is sent
		next = fxResponse(w2, 3, 0, unit[2])
	default:
		t.Fatalf("unexpected check point %s", cp.ToString())
	}
	w2.ApplyPushPullPack(next)
	t.Logf("after the next response: counter=%d checkpoint=%s", c2.Get(), w2.CreatePushPullPack().CheckPoint.ToString())

	require.Contains(t, []int32{0, 3}, c2.Get(), "the unit is applied completely or not at all")
	require.True(t, stillNeeded, "positions of a refused unit are still to be pulled")
	require.Equal(t, int32(3), c2.Get())
	require.Equal(t, uint64(3), w2.CreatePushPullPack().CheckPoint.Sseq)
}

// Guard for what the repair deliberately leaves as it was: when the same response also acknowledges an
// operation of this replica (check point (s:3, c:1): the server stored the replica's own operation at
// position 3, right behind the head of the unit), the positions cannot be left unconsumed - a second
// request would be answered with the replica's own operation among the pulled ones - so the response is
// consumed as before: the acknowledgement is taken (no endless re-push), the incomplete unit is refused.
func TestFXIncompleteUnitWithOwnPushAcknowledged(t *testing.T) {
	tw := testonly.NewTestWire(false)
	c1, err := newCounter(testonly.NewBase("key1", model.TypeOfDatatype_COUNTER), tw, nil)
	require.NoError(t, err)
	require.NoError(t, c1.Transaction("two", func(tx CounterInTx) error {
		_, _ = tx.IncreaseBy(1)
		_, _ = tx.IncreaseBy(2)
		return nil
	}))
	unit := c1.(*counter).CreatePushPullPack().Operations

	c2, err := newCounter(testonly.NewBase("key1", model.TypeOfDatatype_COUNTER), tw, nil)
	require.NoError(t, err)
	w2 := c2.(*counter)
	w2.SetState(model.StateOfDatatype_SUBSCRIBED)
	_, oErr := c2.IncreaseBy(10)
	require.NoError(t, oErr)
	require.True(t, w2.NeedPush())

	w2.ApplyPushPullPack(fxResponse(w2, 3, 1, unit[0], unit[1]))
	require.Equal(t, int32(10), c2.Get(), "an incomplete unit is not applied")
	require.False(t, w2.NeedPush(), "the acknowledgement of the own operation is taken")
	require.False(t, w2.NeedPull(3))
}
