// Reproducing test of defect "typed-nil-pointer". It belongs in the package directory client/pkg/orda
// (run: cd client && go test -vet=off -count=1 -run TestFX ./pkg/orda/).
package orda

import (
	"testing"

	"github.com/orda-io/orda/client/pkg/model"
	"github.com/orda-io/orda/client/pkg/testonly"
	"github.com/stretchr/testify/require"
)

// fxCatch runs f and returns the recovered panic value (nil when f did not panic).
func fxCatch(f func()) (r interface{}) {
	defer func() { r = recover() }()
	f()
	return nil
}

func fxList(t *testing.T) List {
	l, err := newList(testonly.NewBase(t.Name(), model.TypeOfDatatype_LIST), nil, nil)
	require.NoError(t, err)
	return l
}

func fxMap(t *testing.T) Map {
	m, err := newMap(testonly.NewBase(t.Name(), model.TypeOfDatatype_MAP), nil, nil)
	require.NoError(t, err)
	return m
}

func fxPending(d interface{}) int {
	switch c := d.(type) {
	case *document:
		return len(c.CreatePushPullPack().Operations)
	case *list:
		return len(c.CreatePushPullPack().Operations)
	case *ordaMap:
		return len(c.CreatePushPullPack().Operations)
	}
	panic("unknown")
}

// 5. typed nil pointer
func TestFXTypedNilPointer(t *testing.T) {
	m := fxMap(t)
	var mErr error
	pn := fxCatch(func() {
		if _, e := m.Put("a", (*int)(nil)); e != nil {
			mErr = e
		}
	})
	require.Nil(t, pn, "Map.Put(a, (*int)(nil)) panicked")
	require.Error(t, mErr)
	require.Equal(t, 0, m.Size())
	require.Equal(t, 0, fxPending(m))

	pn = fxCatch(func() {
		_, e := m.Put("a", (*string)(nil))
		require.Error(t, e)
	})
	require.Nil(t, pn)

	l := fxList(t)
	pn = fxCatch(func() {
		_, e := l.InsertMany(0, 1, (*float64)(nil))
		require.Error(t, e)
	})
	require.Nil(t, pn, "List.InsertMany(0, 1, (*float64)(nil)) panicked")
	require.Equal(t, 0, l.Size())
	_, lErr := l.Insert(0, "a")
	require.NoError(t, lErr)
	pn = fxCatch(func() {
		_, e := l.Update(0, (*int)(nil))
		require.Error(t, e)
	})
	require.Nil(t, pn, "List.Update(0, (*int)(nil)) panicked")
	require.Equal(t, "a", l.ToJSON().(struct{ List []interface{} }).List[0])

	// a valid pointer is still dereferenced
	i := 7
	_, err := m.Put("p", &i)
	require.NoError(t, err)
	require.Equal(t, float64(7), m.Get("p"))
}
