package service

import (
	gocontext "context"
	"testing"

	"github.com/orda-io/orda/client/pkg/model"
	"github.com/stretchr/testify/require"
)

// F56: the encoding-echo RPC answers an operation it cannot decode, and a snapshot of an unknown datatype type, with
// an error; before the repair each of these requests panicked in the gRPC handler goroutine (no recover there).
func TestF56EncodingEchoRefusesWhatItCannotDecode(t *testing.T) {
	svc := &OrdaService{}
	for name, msg := range map[string]*model.EncodingMessage{
		"unknown operation type": {Type: model.TypeOfDatatype_COUNTER, Op: &model.Operation{ID: model.NewOperationID(), OpType: 9999, Body: []byte("{}")}},
		"undecodable body":       {Type: model.TypeOfDatatype_COUNTER, Op: &model.Operation{ID: model.NewOperationID(), OpType: model.TypeOfOperation_COUNTER_INCREASE, Body: []byte("not json")}},
		"unknown datatype type":  {Type: model.TypeOfDatatype(99), Op: &model.Operation{ID: model.NewOperationID(), OpType: model.TypeOfOperation_COUNTER_SNAPSHOT, Body: []byte(`{"Counter":1}`)}},
	} {
		require.NotPanics(t, func() {
			ret, err := svc.TestEncodingOperation(gocontext.Background(), msg)
			require.Error(t, err, name)
			require.Nil(t, ret, name)
		}, name)
	}
	// a well-formed request is still echoed
	ret, err := svc.TestEncodingOperation(gocontext.Background(), &model.EncodingMessage{Type: model.TypeOfDatatype_COUNTER,
		Op: &model.Operation{ID: model.NewOperationID(), OpType: model.TypeOfOperation_COUNTER_INCREASE, Body: []byte(`{"Delta":3}`)}})
	require.NoError(t, err)
	require.NotNil(t, ret)
}
