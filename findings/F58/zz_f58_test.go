package orda

import (
	"testing"
	"time"

	"github.com/orda-io/orda/client/pkg/errors"
	"github.com/orda-io/orda/client/pkg/model"
	"github.com/orda-io/orda/client/pkg/testonly"
	"github.com/stretchr/testify/require"
)

// F58: an error (or subscribe) response whose first operation cannot be decoded is reported through the error
// handler; before the repair checkOptionAndError decoded it with the panicking ModelToOperation and the sync path
// of the client panicked.
func TestF58UndecodableFirstOperationOfAResponseIsReported(t *testing.T) {
	for _, tc := range []struct {
		name   string
		state  model.StateOfDatatype
		option model.PushPullPackOption
		op     *model.Operation
	}{
		{"error response, body not JSON", model.StateOfDatatype_DUE_TO_CREATE, model.PushPullBitError,
			&model.Operation{ID: model.NewOperationID(), OpType: model.TypeOfOperation_ERROR, Body: []byte("{not json")}},
		{"error response, unknown operation type", model.StateOfDatatype_DUE_TO_CREATE, model.PushPullBitError,
			&model.Operation{ID: model.NewOperationID(), OpType: 9999, Body: []byte("{}")}},
		{"subscribe response, unknown operation type", model.StateOfDatatype_DUE_TO_SUBSCRIBE, model.PushPullBitSubscribe,
			&model.Operation{ID: model.NewOperationID(), OpType: 9999, Body: []byte("{}")}},
	} {
		reported := make(chan []errors.OrdaError, 1)
		base := testonly.NewBase("f58", model.TypeOfDatatype_COUNTER)
		base.SetState(tc.state)
		c, err := newCounter(base, testonly.NewTestWire(false), NewHandlers(nil, nil,
			func(dt Datatype, errs ...errors.OrdaError) { reported <- errs }))
		require.NoError(t, err, tc.name)
		require.NoError(t, c.(*counter).SubscribeOrCreate(tc.state), tc.name)
		ppp := &model.PushPullPack{Key: "f58", DUID: c.(*counter).GetDUID(), Option: uint32(tc.option), CheckPoint: &model.CheckPoint{Sseq: 1, Cseq: 0},
			Operations: []*model.Operation{tc.op}}
		require.NotPanics(t, func() { c.(*counter).ApplyPushPullPack(ppp) }, tc.name)
		select {
		case errs := <-reported:
			require.NotEmpty(t, errs, tc.name)
		case <-time.After(3 * time.Second):
			t.Fatal(tc.name + ": nothing was reported through the error handler")
		}
		require.Equal(t, tc.state, c.(*counter).GetState(), tc.name)
	}
}
