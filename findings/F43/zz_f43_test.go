package service

// Belongs in: server/service (package-internal test).
//
// A Subscribe / SubscribeOrCreate request that is delivered a second time because its first response was lost finds
// the client already registered in the DatatypeDoc (caseAllMatchedSubscribed). It has to be answered like the first
// delivery was: the handler works on the datatype's DUID, the operations the replica made before it is subscribed are
// not stored, and the response carries the subscribe bit and the datatype's DUID.
//
// MongoDB cannot run here: the DatatypeDoc and the push-pull case that evaluatePushPullCase() would have read from
// MongoDB are set by hand, and the handler is run up to (excluding) pullOperations()/commitToMongoDB().

import (
	gocontext "context"
	"testing"

	"github.com/orda-io/orda/client/pkg/context"
	"github.com/orda-io/orda/client/pkg/iface"
	"github.com/orda-io/orda/client/pkg/model"
	"github.com/orda-io/orda/client/pkg/orda"
	"github.com/orda-io/orda/server/managers"
	"github.com/orda-io/orda/server/redis"
	"github.com/orda-io/orda/server/schema"
	"github.com/stretchr/testify/assert"
	"github.com/stretchr/testify/require"
)

const (
	fxKey      = "fx-key"
	fxRealDUID = "REAL-DUID"
	fxColNum   = int32(7)
)

// fxExistingDatatype is a counter that somebody else created: 2 stored operations.
func fxExistingDatatype() *schema.DatatypeDoc {
	doc := schema.NewDatatypeDoc(fxRealDUID, fxKey, fxColNum, model.TypeOfDatatype_COUNTER.String())
	doc.AddNewClient("CUID-OF-THE-CREATOR", int8(model.ClientType_PERSISTENT), false).CP.Set(2, 2)
	doc.Sseq.End = 2
	return doc
}

// fxRun runs a handler for the request of the replica on the given DatatypeDoc, up to pushOperations().
func fxRun(t *testing.T, replica iface.Datatype, doc *schema.DatatypeDoc, code pushPullCase) *PushPullHandler {
	mgr := &managers.Managers{Redis: &redis.Client{}}
	collectionDoc := &schema.CollectionDoc{Name: "fx", Num: fxColNum}
	clientDoc := &schema.ClientDoc{CUID: replica.GetCUID(), Alias: "fx", CollectionNum: fxColNum, Type: int8(model.ClientType_PERSISTENT)}
	req := replica.CreatePushPullPack()
	h := newPushPullHandler(context.NewOrdaContext(gocontext.Background(), "fx"), req, clientDoc, collectionDoc, mgr)
	require.NoError(t, h.initialize(make(chan *model.PushPullPack, 1)))
	h.datatypeDoc = doc
	h.casePushPull = code
	require.NoError(t, h.processSubscribeOrCreate(code))
	require.NoError(t, h.pushOperations())
	return h
}

// fxRequireSubscribed reports every deviation (assert, not require) so that a failing run shows the whole picture.
func fxRequireSubscribed(t *testing.T, h *PushPullHandler, doc *schema.DatatypeDoc, cuid string) {
	t.Helper()
	assert.Equal(t, fxRealDUID, h.DUID, "the handler has to work on (pull from, store under) the DUID of the datatype")
	assert.Equal(t, fxRealDUID, h.resPushPullPack.DUID, "the response tells the replica the DUID of the datatype")
	assert.True(t, h.resPushPullPack.GetPushPullPackOption().HasSubscribeBit(), "the response is a subscribe response")
	assert.Empty(t, h.pushingOperations, "what a replica did before it is subscribed is not stored")
	assert.Equal(t, uint64(2), h.currentCP.Sseq, "Sseq.End of the datatype (set from currentCP at commit) does not move")
	assert.Equal(t, uint64(0), h.currentCP.Cseq, "nothing of the subscriber was accepted")
	assert.True(t, h.currentCP == doc.RWClients[cuid].CP, "the registered client entry is the one that is updated")
	assert.Len(t, doc.RWClients, 2)
}

func fxNewClient() orda.Client {
	return orda.NewClient(&orda.ClientConfig{CollectionName: "fx", SyncType: model.SyncType_MANUALLY}, "fx")
}

// (1) Subscribe: first delivery and the retry after a lost response are handled alike.
func TestFXRetriedSubscribeIsASubscription(t *testing.T) {
	replica := fxNewClient().SubscribeCounter(fxKey, nil).(iface.Datatype)
	require.Equal(t, model.StateOfDatatype_DUE_TO_SUBSCRIBE, replica.GetState())
	require.NotEqual(t, fxRealDUID, replica.GetDUID())
	doc := fxExistingDatatype()

	first := fxRun(t, replica, doc, caseAllMatchedNotSubscribed) // registers the client; its response gets lost
	fxRequireSubscribed(t, first, doc, replica.GetCUID())

	// what commitToMongoDB() leaves in the document for the client: CP(Sseq.End, 0)
	require.Equal(t, "(s:2 c:0)", fxCP(doc.RWClients[replica.GetCUID()].CP))

	retry := fxRun(t, replica, doc, caseAllMatchedSubscribed) // the same request again
	fxRequireSubscribed(t, retry, doc, replica.GetCUID())
}

// (2) SubscribeOrCreate of a client that lost the race for the key: the replica holds its own SnapshotOperation and
// an increase; neither may be stored in the log of the real datatype, under whatever DUID.
func TestFXRetriedSubscribeOrCreateIsASubscription(t *testing.T) {
	counter := fxNewClient().SubscribeOrCreateCounter(fxKey, nil)
	_, _ = counter.IncreaseBy(3)
	replica := counter.(iface.Datatype)
	require.Equal(t, model.StateOfDatatype_DUE_TO_SUBSCRIBE_CREATE, replica.GetState())
	require.Len(t, replica.CreatePushPullPack().Operations, 2)
	doc := fxExistingDatatype()

	first := fxRun(t, replica, doc, caseAllMatchedNotSubscribed)
	fxRequireSubscribed(t, first, doc, replica.GetCUID())

	retry := fxRun(t, replica, doc, caseAllMatchedSubscribed)
	fxRequireSubscribed(t, retry, doc, replica.GetCUID())
}

// (3) Control: the CREATOR of the datatype whose SubscribeOrCreate (or Create) response was lost repeats its request
// with the DUID of the datatype. That is an ordinary push-pull: the stored SnapshotOperation is recognised as a
// duplicate, a newer operation is stored. This behaviour of the unmodified tree has to stay.
func TestFXRetriedRequestOfTheCreatorStaysAPush(t *testing.T) {
	for _, state := range []model.StateOfDatatype{model.StateOfDatatype_DUE_TO_SUBSCRIBE_CREATE, model.StateOfDatatype_DUE_TO_CREATE} {
		client := fxNewClient()
		var counter orda.Counter
		if state == model.StateOfDatatype_DUE_TO_CREATE {
			counter = client.CreateCounter(fxKey, nil)
		} else {
			counter = client.SubscribeOrCreateCounter(fxKey, nil)
		}
		_, _ = counter.IncreaseBy(3)
		replica := counter.(iface.Datatype)
		require.Equal(t, state, replica.GetState())

		// the first delivery created the datatype with the replica's DUID and stored the SnapshotOperation
		doc := schema.NewDatatypeDoc(replica.GetDUID(), fxKey, fxColNum, model.TypeOfDatatype_COUNTER.String())
		doc.AddNewClient(replica.GetCUID(), int8(model.ClientType_PERSISTENT), false).CP.Set(1, 1)
		doc.Sseq.End = 1

		h := fxRun(t, replica, doc, caseAllMatchedSubscribed)
		require.Equal(t, replica.GetDUID(), h.DUID)
		require.Equal(t, replica.GetDUID(), h.resPushPullPack.DUID)
		require.False(t, h.resPushPullPack.GetPushPullPackOption().HasSubscribeBit())
		require.Len(t, h.pushingOperations, 1, "the increase is new, the snapshot operation a duplicate")
		require.Equal(t, "(s:2 c:2)", fxCP(h.currentCP))
	}
}

func fxCP(cp *model.CheckPoint) string {
	return cp.ToString()
}
