package service

// FX: "a subscription whose answer was lost can be retried" (C13 / C07 / C08).
// This file belongs in the package directory server/service (package-internal test).
//
// It needs no MongoDB, MQTT or Redis: the MongoDB driver is given an in-memory deployment (fakeMongo below, taken
// from the reviewers' stand-in) that interprets the handful of commands the Orda server sends (find, insert, update,
// delete, findAndModify, drop, listCollections) on plain bson.M documents, including the uniqueness of _id.
// The real OrdaService, RepositoryMongo and PushPullHandler code runs on top of it, and the answers are applied to
// real client replicas (client/pkg/orda).

import (
	"bytes"
	gocontext "context"
	"fmt"
	"reflect"
	"sort"
	"strings"
	"sync"
	"testing"
	"time"
	"unsafe"

	"github.com/orda-io/orda/client/pkg/errors"
	"github.com/orda-io/orda/client/pkg/model"
	"github.com/orda-io/orda/client/pkg/orda"
	"github.com/orda-io/orda/server/managers"
	"github.com/orda-io/orda/server/mongodb"
	"github.com/orda-io/orda/server/redis"
	"github.com/orda-io/orda/server/schema"
	"github.com/orda-io/orda/server/wrapper"
	"github.com/stretchr/testify/assert"
	"github.com/stretchr/testify/require"
	"go.mongodb.org/mongo-driver/bson"
	"go.mongodb.org/mongo-driver/bson/primitive"
	"go.mongodb.org/mongo-driver/mongo"
	"go.mongodb.org/mongo-driver/mongo/address"
	"go.mongodb.org/mongo-driver/mongo/description"
	"go.mongodb.org/mongo-driver/mongo/options"
	"go.mongodb.org/mongo-driver/x/bsonx/bsoncore"
	"go.mongodb.org/mongo-driver/x/mongo/driver"
	"go.mongodb.org/mongo-driver/x/mongo/driver/topology"
	"go.mongodb.org/mongo-driver/x/mongo/driver/wiremessage"
	"google.golang.org/grpc/encoding"
	_ "google.golang.org/grpc/encoding/proto" // the codec of the gRPC wire
)

// ---------------------------------------------------------------------------------------------------------------------
// an in-memory MongoDB, as far as Orda uses it
// ---------------------------------------------------------------------------------------------------------------------

type fakeMongo struct {
	mu      sync.Mutex
	colls   map[string][]bson.M
	updates chan description.Topology
}

func newFakeMongo() *fakeMongo {
	return &fakeMongo{colls: make(map[string][]bson.M)}
}

var fakeDescription = description.Server{
	CanonicalAddr:         address.Address("localhost:27017"),
	MaxDocumentSize:       16777216,
	MaxMessageSize:        48000000,
	MaxBatchCount:         100000,
	SessionTimeoutMinutes: 30,
	Kind:                  description.RSPrimary,
	WireVersion:           &description.VersionRange{Max: topology.SupportedWireVersions.Max},
}

func (f *fakeMongo) SelectServer(gocontext.Context, description.ServerSelector) (driver.Server, error) {
	return f, nil
}
func (f *fakeMongo) Kind() description.TopologyKind { return description.Single }
func (f *fakeMongo) Connection(gocontext.Context) (driver.Connection, error) {
	return &fakeConn{db: f}, nil
}
func (f *fakeMongo) MinRTT() time.Duration              { return 0 }
func (f *fakeMongo) RTT90() time.Duration               { return 0 }
func (f *fakeMongo) Connect() error                     { return nil }
func (f *fakeMongo) Disconnect(gocontext.Context) error { return nil }
func (f *fakeMongo) Subscribe() (*driver.Subscription, error) {
	if f.updates == nil {
		f.updates = make(chan description.Topology, 1)
		f.updates <- description.Topology{SessionTimeoutMinutes: 30}
	}
	return &driver.Subscription{Updates: f.updates}, nil
}
func (f *fakeMongo) Unsubscribe(*driver.Subscription) error { return nil }

type fakeConn struct {
	db  *fakeMongo
	res bson.D
}

func (c *fakeConn) Description() description.Server { return fakeDescription }
func (c *fakeConn) Close() error                    { return nil }
func (c *fakeConn) ID() string                      { return "<fake>" }
func (c *fakeConn) ServerConnectionID() *int32      { id := int32(1); return &id }
func (c *fakeConn) Address() address.Address        { return address.Address("localhost:27017") }
func (c *fakeConn) Stale() bool                     { return false }

func (c *fakeConn) WriteWireMessage(_ gocontext.Context, wm []byte) error {
	_, _, _, _, rem, ok := wiremessage.ReadHeader(wm)
	if !ok {
		return fmt.Errorf("fakeMongo: bad header")
	}
	_, rem, _ = wiremessage.ReadMsgFlags(rem)
	var cmd bson.D
	seqs := make(map[string][]bson.M)
	for len(rem) > 0 {
		var st wiremessage.SectionType
		st, rem, ok = wiremessage.ReadMsgSectionType(rem)
		if !ok {
			break
		}
		switch st {
		case wiremessage.SingleDocument:
			var doc bsoncore.Document
			doc, rem, _ = wiremessage.ReadMsgSectionSingleDocument(rem)
			if err := bson.Unmarshal(doc, &cmd); err != nil {
				return err
			}
		case wiremessage.DocumentSequence:
			var id string
			var docs []bsoncore.Document
			id, docs, rem, _ = wiremessage.ReadMsgSectionDocumentSequence(rem)
			for _, d := range docs {
				m := bson.M{}
				if err := bson.Unmarshal(d, &m); err != nil {
					return err
				}
				seqs[id] = append(seqs[id], m)
			}
		}
	}
	c.res = c.db.run(cmd, seqs)
	return nil
}

func (c *fakeConn) ReadWireMessage(_ gocontext.Context, dst []byte) ([]byte, error) {
	var idx int32
	idx, dst = wiremessage.AppendHeaderStart(dst, wiremessage.NextRequestID(), 0, wiremessage.OpMsg)
	dst = wiremessage.AppendMsgFlags(dst, 0)
	dst = wiremessage.AppendMsgSectionType(dst, wiremessage.SingleDocument)
	b, err := bson.Marshal(c.res)
	if err != nil {
		return dst, err
	}
	dst = append(dst, b...)
	return bsoncore.UpdateLength(dst, idx, int32(len(dst[idx:]))), nil
}

func asM(v interface{}) bson.M {
	switch t := v.(type) {
	case bson.M:
		return t
	case bson.D:
		return t.Map()
	case map[string]interface{}:
		return t
	case nil:
		return bson.M{}
	}
	b, err := bson.Marshal(v)
	if err != nil {
		return bson.M{}
	}
	m := bson.M{}
	_ = bson.Unmarshal(b, &m)
	return m
}

func asSlice(v interface{}) []bson.M {
	var out []bson.M
	if a, ok := v.(bson.A); ok {
		for _, e := range a {
			out = append(out, asM(e))
		}
	}
	return out
}

func num(v interface{}) (float64, bool) {
	switch t := v.(type) {
	case int32:
		return float64(t), true
	case int64:
		return float64(t), true
	case int:
		return float64(t), true
	case float64:
		return t, true
	case uint64:
		return float64(t), true
	case uint32:
		return float64(t), true
	}
	return 0, false
}

func cmp(a, b interface{}) (int, bool) {
	if x, ok := num(a); ok {
		if y, ok2 := num(b); ok2 {
			switch {
			case x < y:
				return -1, true
			case x > y:
				return 1, true
			}
			return 0, true
		}
		return 0, false
	}
	if x, ok := a.(string); ok {
		if y, ok2 := b.(string); ok2 {
			return strings.Compare(x, y), true
		}
		return 0, false
	}
	if reflect.DeepEqual(a, b) {
		return 0, true
	}
	return 0, false
}

func isOperatorDoc(m bson.M) bool {
	for k := range m {
		if strings.HasPrefix(k, "$") {
			return true
		}
	}
	return false
}

func matches(doc bson.M, filter bson.M) bool {
	for k, want := range filter {
		have, present := doc[k]
		if cond, ok := want.(bson.M); ok && isOperatorDoc(cond) {
			for op, arg := range cond {
				c, comparable := cmp(have, arg)
				switch op {
				case "$gte":
					if !present || !comparable || c < 0 {
						return false
					}
				case "$lte":
					if !present || !comparable || c > 0 {
						return false
					}
				case "$exists":
					if present != (arg == true) {
						return false
					}
				default:
					panic("fakeMongo: unsupported operator " + op)
				}
			}
			continue
		}
		if cond, ok := want.(bson.D); ok {
			if !matches(doc, bson.M{k: cond.Map()}) {
				return false
			}
			continue
		}
		if c, ok := cmp(have, want); !present || !ok || c != 0 {
			return false
		}
	}
	return true
}

func (f *fakeMongo) insertLocked(coll string, doc bson.M) bool {
	if _, ok := doc["_id"]; !ok {
		doc["_id"] = primitive.NewObjectID()
	}
	for _, d := range f.colls[coll] {
		if c, ok := cmp(d["_id"], doc["_id"]); ok && c == 0 {
			return false
		}
	}
	f.colls[coll] = append(f.colls[coll], doc)
	return true
}

func applyUpdate(doc bson.M, u bson.M) {
	if !isOperatorDoc(u) { // a replacement
		id := doc["_id"]
		for k := range doc {
			delete(doc, k)
		}
		for k, v := range u {
			doc[k] = v
		}
		if _, ok := doc["_id"]; !ok {
			doc["_id"] = id
		}
		return
	}
	for op, arg := range u {
		for k, v := range asM(arg) {
			switch op {
			case "$set":
				doc[k] = v
			case "$currentDate":
				doc[k] = primitive.NewDateTimeFromTime(time.Now())
			case "$inc":
				old, _ := num(doc[k])
				d, _ := num(v)
				doc[k] = int32(old + d)
			default:
				panic("fakeMongo: unsupported update operator " + op)
			}
		}
	}
}

func duplicateKey(index int, id interface{}) bson.M {
	return bson.M{"index": int32(index), "code": int32(11000), "errmsg": fmt.Sprintf("E11000 duplicate key error dup key: { _id: %v }", id)}
}

func (f *fakeMongo) run(cmd bson.D, seqs map[string][]bson.M) bson.D {
	f.mu.Lock()
	defer f.mu.Unlock()
	if len(cmd) == 0 {
		return bson.D{{Key: "ok", Value: 0}, {Key: "errmsg", Value: "empty command"}}
	}
	name := cmd[0].Key
	coll, _ := cmd[0].Value.(string)
	args := cmd.Map()
	seq := func(id string) []bson.M {
		if s, ok := seqs[id]; ok {
			return s
		}
		return asSlice(args[id])
	}
	switch name {
	case "find":
		var found []bson.M
		for _, d := range f.colls[coll] {
			if matches(d, asM(args["filter"])) {
				found = append(found, d)
			}
		}
		if s, ok := args["sort"].(bson.D); ok && len(s) == 1 {
			dir, _ := num(s[0].Value)
			sort.SliceStable(found, func(i, j int) bool {
				c, _ := cmp(found[i][s[0].Key], found[j][s[0].Key])
				return (dir >= 0 && c < 0) || (dir < 0 && c > 0)
			})
		}
		if l, ok := num(args["limit"]); ok && l > 0 && len(found) > int(l) {
			found = found[:int(l)]
		}
		batch := bson.A{}
		for _, d := range found {
			batch = append(batch, d)
		}
		return bson.D{{Key: "ok", Value: 1}, {Key: "cursor", Value: bson.D{
			{Key: "id", Value: int64(0)}, {Key: "ns", Value: "orda." + coll}, {Key: "firstBatch", Value: batch}}}}
	case "insert":
		n := 0
		var writeErrors bson.A
		for i, d := range seq("documents") {
			if !f.insertLocked(coll, d) {
				writeErrors = append(writeErrors, duplicateKey(i, d["_id"]))
				break // ordered
			}
			n++
		}
		res := bson.D{{Key: "ok", Value: 1}, {Key: "n", Value: int32(n)}}
		if len(writeErrors) > 0 {
			res = append(res, bson.E{Key: "writeErrors", Value: writeErrors})
		}
		return res
	case "update":
		n, modified := 0, 0
		var upserted, writeErrors bson.A
		for i, u := range seq("updates") {
			q := asM(u["q"])
			hit := false
			for _, d := range f.colls[coll] {
				if matches(d, q) {
					applyUpdate(d, asM(u["u"]))
					hit = true
					n++
					modified++
					if u["multi"] != true {
						break
					}
				}
			}
			if !hit && u["upsert"] == true {
				d := bson.M{}
				for k, v := range q {
					if m, ok := v.(bson.M); !ok || !isOperatorDoc(m) {
						d[k] = v
					}
				}
				applyUpdate(d, asM(u["u"]))
				if !f.insertLocked(coll, d) {
					writeErrors = append(writeErrors, duplicateKey(i, d["_id"]))
					break
				}
				n++
				upserted = append(upserted, bson.M{"index": int32(i), "_id": d["_id"]})
			}
		}
		res := bson.D{{Key: "ok", Value: 1}, {Key: "n", Value: int32(n)}, {Key: "nModified", Value: int32(modified)}}
		if len(upserted) > 0 {
			res = append(res, bson.E{Key: "upserted", Value: upserted})
		}
		if len(writeErrors) > 0 {
			res = append(res, bson.E{Key: "writeErrors", Value: writeErrors})
		}
		return res
	case "delete":
		n := 0
		for _, del := range seq("deletes") {
			limit, _ := num(del["limit"])
			var kept []bson.M
			deleted := 0
			for _, d := range f.colls[coll] {
				if (limit == 0 || deleted == 0) && matches(d, asM(del["q"])) {
					deleted++
					continue
				}
				kept = append(kept, d)
			}
			f.colls[coll] = kept
			n += deleted
		}
		return bson.D{{Key: "ok", Value: 1}, {Key: "n", Value: int32(n)}}
	case "findAndModify":
		var target bson.M
		for _, d := range f.colls[coll] {
			if matches(d, asM(args["query"])) {
				target = d
				break
			}
		}
		if target == nil && args["upsert"] == true {
			target = bson.M{}
			for k, v := range asM(args["query"]) {
				target[k] = v
			}
			f.insertLocked(coll, target)
		}
		if target == nil {
			return bson.D{{Key: "ok", Value: 1}, {Key: "value", Value: nil}}
		}
		applyUpdate(target, asM(args["update"]))
		return bson.D{{Key: "ok", Value: 1}, {Key: "value", Value: target}}
	case "drop":
		delete(f.colls, coll)
		return bson.D{{Key: "ok", Value: 1}}
	case "listCollections":
		batch := bson.A{}
		for name := range f.colls {
			if matches(bson.M{"name": name}, asM(args["filter"])) {
				batch = append(batch, bson.M{"name": name, "type": "collection"})
			}
		}
		return bson.D{{Key: "ok", Value: 1}, {Key: "cursor", Value: bson.D{
			{Key: "id", Value: int64(0)}, {Key: "ns", Value: "orda.$cmd.listCollections"}, {Key: "firstBatch", Value: batch}}}}
	case "endSessions", "commitTransaction", "abortTransaction", "ping":
		return bson.D{{Key: "ok", Value: 1}}
	}
	return bson.D{{Key: "ok", Value: 0}, {Key: "errmsg", Value: "fakeMongo: unsupported command " + name}, {Key: "code", Value: int32(59)}}
}

// docs returns copies of the documents of a collection that match the filter.
func (f *fakeMongo) docs(coll string, filter bson.M) []bson.M {
	f.mu.Lock()
	defer f.mu.Unlock()
	var out []bson.M
	for _, d := range f.colls[coll] {
		if matches(d, filter) {
			c := bson.M{}
			for k, v := range d {
				c[k] = v
			}
			out = append(out, c)
		}
	}
	return out
}

func setUnexported(t *testing.T, obj interface{}, field string, value interface{}) {
	v := reflect.ValueOf(obj).Elem().FieldByName(field)
	require.True(t, v.IsValid(), "no field %s", field)
	reflect.NewAt(v.Type(), unsafe.Pointer(v.UnsafeAddr())).Elem().Set(reflect.ValueOf(value))
}

// newFakeManagers builds the Managers of an Orda server whose MongoDB is the in-memory fake,
// with local locks (no Redis) and without a notifier.
func newFakeManagers(t *testing.T) (*managers.Managers, *fakeMongo) {
	fake := newFakeMongo()
	opts := options.Client()
	opts.Deployment = fake
	client, err := mongo.NewClient(opts)
	require.NoError(t, err)
	require.NoError(t, client.Connect(gocontext.TODO()))
	db := client.Database("orda")

	cols := &mongodb.MongoCollections{}
	setUnexported(t, cols, "mongoClient", client)
	setUnexported(t, cols, "clients", db.Collection(schema.CollectionNameClients))
	setUnexported(t, cols, "counters", db.Collection(schema.CollectionNameColNumGenerator))
	setUnexported(t, cols, "snapshots", db.Collection(schema.CollectionNameSnapshot))
	setUnexported(t, cols, "datatypes", db.Collection(schema.CollectionNameDatatypes))
	setUnexported(t, cols, "operations", db.Collection(schema.CollectionNameOperations))
	setUnexported(t, cols, "collections", db.Collection(schema.CollectionNameCollections))
	repo := &mongodb.RepositoryMongo{MongoCollections: cols}
	setUnexported(t, repo, "client", client)
	setUnexported(t, repo, "db", db)
	return &managers.Managers{Mongo: repo, Redis: &redis.Client{}}, fake
}

// ---------------------------------------------------------------------------------------------------------------------
// FX: a subscription whose answer was lost is retried
// ---------------------------------------------------------------------------------------------------------------------

const fxCollection = "fxcol"

type fxReplica struct {
	counter orda.Counter
	w       *wrapper.DatatypeWrapper
}

func fxNewService(t *testing.T) (*OrdaService, *fakeMongo) {
	mgrs, fake := newFakeManagers(t)
	svc := NewOrdaService(mgrs)
	_, err := svc.CreateCollection(gocontext.TODO(), &model.CollectionMessage{Collection: fxCollection})
	require.NoError(t, err)
	return svc, fake
}

func fxNewReplica(t *testing.T, svc *OrdaService, alias, key string, state model.StateOfDatatype) *fxReplica {
	client := orda.NewClient(&orda.ClientConfig{CollectionName: fxCollection, SyncType: model.SyncType_MANUALLY}, alias)
	var c orda.Counter
	switch state {
	case model.StateOfDatatype_DUE_TO_CREATE:
		c = client.CreateCounter(key, nil)
	case model.StateOfDatatype_DUE_TO_SUBSCRIBE:
		c = client.SubscribeCounter(key, nil)
	case model.StateOfDatatype_DUE_TO_SUBSCRIBE_CREATE:
		c = client.SubscribeOrCreateCounter(key, nil)
	}
	require.NotNil(t, c)
	r := &fxReplica{counter: c, w: wrapper.NewDatatypeWrapper(c)}
	_, err := svc.ProcessClient(gocontext.TODO(), model.NewClientMessage(r.w.GetClientModel()))
	require.NoError(t, err)
	return r
}

// fxWire copies a message as the wire (gRPC) does, so that the server never shares memory with the replica.
func fxWire(t *testing.T, m *model.PushPullMessage) *model.PushPullMessage {
	codec := encoding.GetCodec("proto")
	b, err := codec.Marshal(m)
	require.NoError(t, err)
	out := &model.PushPullMessage{}
	require.NoError(t, codec.Unmarshal(b, out))
	return out
}

// fxSame tells whether two packs are the same on the wire.
func fxSame(t *testing.T, a, b *model.PushPullPack) bool {
	codec := encoding.GetCodec("proto")
	ba, err := codec.Marshal(a)
	require.NoError(t, err)
	bb, err := codec.Marshal(b)
	require.NoError(t, err)
	return bytes.Equal(ba, bb)
}

// fxRequest sends the push-pull request the replica would send now, and returns the answer WITHOUT applying it.
func (r *fxReplica) fxRequest(t *testing.T, svc *OrdaService) (req, res *model.PushPullPack) {
	msg := fxWire(t, r.w.CreatePushPullMessage())
	req = fxWire(t, msg).PushPullPacks[0] // what was sent; the server modifies its own copy
	out, err := svc.ProcessPushPull(gocontext.TODO(), msg)
	require.NoError(t, err)
	require.Len(t, out.PushPullPacks, 1)
	return req, fxWire(t, out).PushPullPacks[0]
}

// fxSync is a complete synchronization: request, answer, apply.
func (r *fxReplica) fxSync(t *testing.T, svc *OrdaService) *model.PushPullPack {
	_, res := r.fxRequest(t, svc)
	r.w.ApplyPushPullPack(fxWire(t, &model.PushPullMessage{PushPullPacks: []*model.PushPullPack{res}}).PushPullPacks[0])
	return res
}

func fxIsSnapshotOp(op *model.Operation) bool {
	return op.GetOpType() == model.TypeOfOperation_COUNTER_SNAPSHOT
}

// fxCheckLog checks that the stored log of the datatype is whole: Sseq.End operations, numbered 1..End, all filed
// under the DUID of the datatype, and that no operation is filed under any other DUID.
func fxCheckLog(t *testing.T, fake *fakeMongo, duid string, wantEnd int) {
	dts := fake.docs(schema.CollectionNameDatatypes, bson.M{})
	require.Len(t, dts, 1, "exactly one datatype has the key")
	assert.Equal(t, duid, dts[0]["_id"])
	end, _ := num(asM(dts[0]["sseq"])["end"])
	assert.Equal(t, wantEnd, int(end), "Sseq.End of the datatype")
	ops := fake.docs(schema.CollectionNameOperations, bson.M{})
	var ids []string
	for _, op := range ops {
		ids = append(ids, fmt.Sprintf("%v", op["_id"]))
		assert.Equal(t, duid, op["duid"], "operation %v is filed under a DUID that no datatype has", op["_id"])
	}
	assert.Len(t, ops, int(end), "the log has holes or strangers: Sseq.End=%d, stored operations %v", int(end), ids)
}

// fxSetup: replica A creates the counter `key` and pushes +2 (log: 1 = creation snapshot, 2 = increase).
func fxSetup(t *testing.T, key string) (*OrdaService, *fakeMongo, *fxReplica, string) {
	svc, fake := fxNewService(t)
	a := fxNewReplica(t, svc, "A", key, model.StateOfDatatype_DUE_TO_CREATE)
	_, oErr := a.counter.IncreaseBy(2)
	require.NoError(t, oErr)
	res := a.fxSync(t, svc)
	require.False(t, res.GetPushPullPackOption().HasErrorBit(), res.ToString(true))
	require.Equal(t, model.StateOfDatatype_SUBSCRIBED, a.w.GetState())
	fxCheckLog(t, fake, a.w.GetDUID(), 2)
	return svc, fake, a, a.w.GetDUID()
}

// fxCheckSubscriptionAnswer checks that `res` grants a subscription to the datatype duid from the start of the log.
func fxCheckSubscriptionAnswer(t *testing.T, res *model.PushPullPack, duid string, sseq, cseq uint64, what string) {
	opt := res.GetPushPullPackOption()
	assert.False(t, opt.HasErrorBit(), "%s: %s", what, res.ToString(true))
	assert.True(t, opt.HasSubscribeBit(), "%s: the answer does not grant the subscription: option %s", what, opt.String())
	assert.False(t, opt.HasCreateBit(), "%s: option %s", what, opt.String())
	assert.Equal(t, duid, res.GetDUID(), "%s: the answer does not name the DUID of the datatype", what)
	require.NotNil(t, res.GetCheckPoint(), what)
	assert.Equal(t, sseq, res.GetCheckPoint().GetSseq(), "%s: checkpoint %s", what, res.GetCheckPoint().ToString())
	assert.Equal(t, cseq, res.GetCheckPoint().GetCseq(), "%s: checkpoint %s", what, res.GetCheckPoint().ToString())
	if assert.Len(t, res.GetOperations(), int(sseq), "%s: the log is not sent from its start", what) {
		assert.True(t, fxIsSnapshotOp(res.GetOperations()[0]), "%s: first operation is %v", what, res.GetOperations()[0].GetOpType())
	}
}

// TestFXSubscribeRetriedAfterLostResponse: B = SubscribeCounter(k); the first request is handled by the server but
// its answer never arrives; B sends the identical request again.
func TestFXSubscribeRetriedAfterLostResponse(t *testing.T) {
	svc, fake, a, duid := fxSetup(t, "k")

	b := fxNewReplica(t, svc, "B", "k", model.StateOfDatatype_DUE_TO_SUBSCRIBE)
	req1, res1 := b.fxRequest(t, svc) // handled; the answer is lost
	fxCheckSubscriptionAnswer(t, res1, duid, 2, 0, "first answer (lost)")
	require.Equal(t, model.StateOfDatatype_DUE_TO_SUBSCRIBE, b.w.GetState())

	req2, res2 := b.fxRequest(t, svc) // the retry
	require.True(t, fxSame(t, req1, req2), "the retry is the same pack:\n%s\n%s", req1.ToString(true), req2.ToString(true))
	require.NotEqual(t, duid, req2.GetDUID(), "the request carries B's provisional DUID")
	fxCheckSubscriptionAnswer(t, res2, duid, 2, 0, "answer to the retry")
	assert.True(t, fxSame(t, res1, res2), "the retry is not answered as the first request was:\n%s\n%s", res1.ToString(true), res2.ToString(true))

	b.w.ApplyPushPullPack(res2)
	assert.Equal(t, model.StateOfDatatype_SUBSCRIBED, b.w.GetState())
	assert.Equal(t, duid, b.w.GetDUID(), "B must adopt the DUID of the datatype")
	assert.Equal(t, int32(2), b.counter.Get(), "B must read the state of the datatype")
	fxCheckLog(t, fake, duid, 2)

	// B can synchronize afterwards: it pushes +3, A pulls it.
	_, oErr := b.counter.IncreaseBy(3)
	require.NoError(t, oErr)
	res3 := b.fxSync(t, svc)
	assert.False(t, res3.GetPushPullPackOption().HasErrorBit(), "B is cut off: %s", res3.ToString(true))
	assert.Equal(t, uint64(3), res3.GetCheckPoint().GetSseq(), res3.GetCheckPoint().ToString())
	assert.Equal(t, uint64(1), res3.GetCheckPoint().GetCseq(), res3.GetCheckPoint().ToString())
	a.fxSync(t, svc)
	assert.Equal(t, int32(5), a.counter.Get())
	assert.Equal(t, int32(5), b.counter.Get())
	fxCheckLog(t, fake, duid, 3)
}

// TestFXSubscribeRetriedAfterTheLogMoved: as above, but A pushes between the lost answer and the retry: the retry is
// answered from the start of the log up to its present end, although the first request moved the stored checkpoint of B.
func TestFXSubscribeRetriedAfterTheLogMoved(t *testing.T) {
	svc, fake, a, duid := fxSetup(t, "k")
	b := fxNewReplica(t, svc, "B", "k", model.StateOfDatatype_DUE_TO_SUBSCRIBE)
	_, res1 := b.fxRequest(t, svc)
	fxCheckSubscriptionAnswer(t, res1, duid, 2, 0, "first answer (lost)")

	_, oErr := a.counter.IncreaseBy(10)
	require.NoError(t, oErr)
	a.fxSync(t, svc)

	_, res2 := b.fxRequest(t, svc)
	fxCheckSubscriptionAnswer(t, res2, duid, 3, 0, "answer to the retry")
	b.w.ApplyPushPullPack(res2)
	assert.Equal(t, duid, b.w.GetDUID())
	assert.Equal(t, int32(12), b.counter.Get())
	next := b.w.CreatePushPullPack()
	assert.Equal(t, uint64(3), next.GetCheckPoint().GetSseq(), "B's checkpoint after the subscription")
	assert.Equal(t, uint32(model.PushPullBitNormal), next.GetOption())
	res3 := b.fxSync(t, svc)
	assert.False(t, res3.GetPushPullPackOption().HasErrorBit(), res3.ToString(true))
	assert.Len(t, res3.GetOperations(), 0)
	fxCheckLog(t, fake, duid, 3)
}

// TestFXSubscribeOrCreateRetriedAfterLostResponse: B = SubscribeOrCreateCounter(k) with local operations (its own
// creation snapshot and +7); the key exists, so the first request subscribes B (its operations are dropped, as the
// client drops them); the answer is lost and B retries with the same pack, operations included.
func TestFXSubscribeOrCreateRetriedAfterLostResponse(t *testing.T) {
	svc, fake, a, duid := fxSetup(t, "k")

	b := fxNewReplica(t, svc, "B", "k", model.StateOfDatatype_DUE_TO_SUBSCRIBE_CREATE)
	_, oErr := b.counter.IncreaseBy(7)
	require.NoError(t, oErr)
	req1, res1 := b.fxRequest(t, svc)
	require.Len(t, req1.GetOperations(), 2, "B sends its creation snapshot and +7")
	fxCheckSubscriptionAnswer(t, res1, duid, 2, 0, "first answer (lost)")
	fxCheckLog(t, fake, duid, 2)

	req2, res2 := b.fxRequest(t, svc)
	require.True(t, fxSame(t, req1, req2), "the retry is the same pack")
	fxCheckSubscriptionAnswer(t, res2, duid, 2, 0, "answer to the retry")
	assert.True(t, fxSame(t, res1, res2), "the retry is not answered as the first request was:\n%s\n%s", res1.ToString(true), res2.ToString(true))
	// the operations of a replica that turns out to be a subscriber are stored under no DUID.
	fxCheckLog(t, fake, duid, 2)

	b.w.ApplyPushPullPack(res2)
	assert.Equal(t, model.StateOfDatatype_SUBSCRIBED, b.w.GetState())
	assert.Equal(t, duid, b.w.GetDUID())
	assert.Equal(t, int32(2), b.counter.Get())

	_, oErr = b.counter.IncreaseBy(3)
	require.NoError(t, oErr)
	res3 := b.fxSync(t, svc)
	assert.False(t, res3.GetPushPullPackOption().HasErrorBit(), "B is cut off: %s", res3.ToString(true))
	a.fxSync(t, svc)
	assert.Equal(t, int32(5), a.counter.Get())
	assert.Equal(t, int32(5), b.counter.Get())
	fxCheckLog(t, fake, duid, 3)
}

// TestFXReadOnlySubscribeRetriedAfterLostResponse: the same with a read-only subscriber (the Go client never sets the
// read-only bit; the pack is B's subscribe pack with that bit added). A read-only client is kept in ROClients and
// never moves the end of the log.
func TestFXReadOnlySubscribeRetriedAfterLostResponse(t *testing.T) {
	svc, fake, _, duid := fxSetup(t, "k")
	b := fxNewReplica(t, svc, "B", "k", model.StateOfDatatype_DUE_TO_SUBSCRIBE)
	ask := func() *model.PushPullPack {
		msg := fxWire(t, b.w.CreatePushPullMessage())
		msg.PushPullPacks[0].Option |= uint32(model.PushPullBitReadOnly)
		out, err := svc.ProcessPushPull(gocontext.TODO(), msg)
		require.NoError(t, err)
		require.Len(t, out.PushPullPacks, 1)
		return fxWire(t, out).PushPullPacks[0]
	}
	res1 := ask()
	fxCheckSubscriptionAnswer(t, res1, duid, 2, 0, "first answer (lost)")
	res2 := ask()
	fxCheckSubscriptionAnswer(t, res2, duid, 2, 0, "answer to the retry")
	assert.True(t, fxSame(t, res1, res2), "the retry is not answered as the first request was:\n%s\n%s", res1.ToString(true), res2.ToString(true))
	b.w.ApplyPushPullPack(res2)
	assert.Equal(t, duid, b.w.GetDUID())
	assert.Equal(t, int32(2), b.counter.Get())
	fxCheckLog(t, fake, duid, 2)
	dts := fake.docs(schema.CollectionNameDatatypes, bson.M{})
	assert.Len(t, asM(dts[0]["roClients"]), 1)
	assert.Len(t, asM(dts[0]["rwClients"]), 1, "only A is a read-write client")
}

// TestFXCreateOfAKeyTheClientIsSubscribedTo: B is subscribed to the counter k of A. A create request of B for the key k
// with another DUID (the Go client never sends it, it keeps one replica per key; any other client can) reaches the same
// arm: the key is taken, so it must be refused with "duplicate key" and nothing may be stored.
func TestFXCreateOfAKeyTheClientIsSubscribedTo(t *testing.T) {
	svc, fake, _, duid := fxSetup(t, "k")
	b := fxNewReplica(t, svc, "B", "k", model.StateOfDatatype_DUE_TO_SUBSCRIBE)
	res := b.fxSync(t, svc)
	fxCheckSubscriptionAnswer(t, res, duid, 2, 0, "subscription")

	// a second replica of the same client identity, made by another client object of the SDK to get a genuine create pack.
	other := orda.NewClient(&orda.ClientConfig{CollectionName: fxCollection, SyncType: model.SyncType_MANUALLY}, "B")
	c := other.CreateCounter("k", nil)
	_, oErr := c.IncreaseBy(100)
	require.NoError(t, oErr)
	pack := wrapper.NewDatatypeWrapper(c).CreatePushPullPack()
	require.Equal(t, uint32(model.PushPullBitCreate), pack.GetOption())
	require.Len(t, pack.GetOperations(), 2)
	require.NotEqual(t, duid, pack.GetDUID())
	out, err := svc.ProcessPushPull(gocontext.TODO(), fxWire(t, model.NewPushPullMessage(7, b.w.GetClientModel(), pack)))
	require.NoError(t, err)
	require.Len(t, out.PushPullPacks, 1)
	got := out.PushPullPacks[0]
	if assert.True(t, got.GetPushPullPackOption().HasErrorBit(), "creating a key that exists was not refused: %s", got.ToString(true)) {
		require.NotEmpty(t, got.GetOperations())
		assert.Contains(t, string(got.GetOperations()[0].GetBody()), fmt.Sprintf(`"Code":%d`, errors.PushPullDuplicateKey))
	}
	fxCheckLog(t, fake, duid, 2)
}

// TestFXRetriedCreationIsStillAnOrdinaryPushPull: the arms keep their present meaning when the request names the DUID of
// the datatype: a creation whose answer was lost is retried (Create, and Subscribe|Create that created the datatype).
// Passes before and after the repair.
func TestFXRetriedCreationIsStillAnOrdinaryPushPull(t *testing.T) {
	for _, state := range []model.StateOfDatatype{model.StateOfDatatype_DUE_TO_CREATE, model.StateOfDatatype_DUE_TO_SUBSCRIBE_CREATE} {
		t.Run(state.String(), func(t *testing.T) {
			svc, fake := fxNewService(t)
			a := fxNewReplica(t, svc, "A", "k", state)
			_, oErr := a.counter.IncreaseBy(2)
			require.NoError(t, oErr)
			req1, res1 := a.fxRequest(t, svc) // creates; the answer is lost
			require.True(t, res1.GetPushPullPackOption().HasCreateBit(), res1.ToString(true))
			fxCheckLog(t, fake, a.w.GetDUID(), 2)
			req2, res2 := a.fxRequest(t, svc)
			require.True(t, fxSame(t, req1, req2))
			assert.Equal(t, uint32(model.PushPullBitNormal), res2.GetOption(), res2.ToString(true))
			assert.Equal(t, a.w.GetDUID(), res2.GetDUID())
			assert.Equal(t, uint64(2), res2.GetCheckPoint().GetSseq())
			assert.Equal(t, uint64(2), res2.GetCheckPoint().GetCseq())
			a.w.ApplyPushPullPack(res2)
			assert.Equal(t, model.StateOfDatatype_SUBSCRIBED, a.w.GetState())
			assert.Equal(t, int32(2), a.counter.Get())
			fxCheckLog(t, fake, a.w.GetDUID(), 2)
		})
	}
}

// TestFXDelayedDuplicateOfASubscribeRequest: a duplicate of B's subscribe request that arrives after B has subscribed and
// pushed is answered as a subscription again; the stored client sequence of B is untouched (B's later pushes are
// neither refused nor taken for duplicates) and B, already subscribed, ignores the answer.
func TestFXDelayedDuplicateOfASubscribeRequest(t *testing.T) {
	svc, fake, a, duid := fxSetup(t, "k")
	b := fxNewReplica(t, svc, "B", "k", model.StateOfDatatype_DUE_TO_SUBSCRIBE)
	dup := fxWire(t, b.w.CreatePushPullMessage())
	b.fxSync(t, svc)
	_, oErr := b.counter.IncreaseBy(3)
	require.NoError(t, oErr)
	b.fxSync(t, svc)
	fxCheckLog(t, fake, duid, 3)

	out, err := svc.ProcessPushPull(gocontext.TODO(), dup)
	require.NoError(t, err)
	late := fxWire(t, out).PushPullPacks[0]
	fxCheckSubscriptionAnswer(t, late, duid, 3, 1, "answer to the delayed duplicate")
	b.w.ApplyPushPullPack(late)
	assert.Equal(t, int32(5), b.counter.Get(), "a subscribed replica is not reset by a late subscribe answer")

	_, oErr = b.counter.IncreaseBy(4)
	require.NoError(t, oErr)
	res := b.fxSync(t, svc)
	assert.False(t, res.GetPushPullPackOption().HasErrorBit(), res.ToString(true))
	assert.Equal(t, uint64(4), res.GetCheckPoint().GetSseq())
	assert.Equal(t, uint64(2), res.GetCheckPoint().GetCseq())
	a.fxSync(t, svc)
	assert.Equal(t, int32(9), a.counter.Get())
	assert.Equal(t, int32(9), b.counter.Get())
	fxCheckLog(t, fake, duid, 4)
}
