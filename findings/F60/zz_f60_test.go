package orda

// F60 (C01/C14): belongs in client/pkg/orda. A Document value whose Go shape differs from its JSON shape was walked
// differently by the issuing replica (reflection over the Go value) and by every other replica (the JSON-decoded
// value): different trees, different node identifiers, permanent divergence.

import (
	"encoding/json"
	"math"
	"testing"
	"time"

	"github.com/orda-io/orda/client/pkg/model"
	"github.com/orda-io/orda/client/pkg/testonly"
)

type f60Inner struct {
	A int `json:"a"`
}

type f60Outer struct {
	f60Inner
	N int64     `json:"n,string"`
	T time.Time `json:"t"`
}

func f60Pair(t *testing.T) (Document, Document, func()) {
	tw := testonly.NewTestWire(false)
	d1, _ := newDocument(testonly.NewBase("f60", model.TypeOfDatatype_DOCUMENT), tw, nil)
	d2, _ := newDocument(testonly.NewBase("f60", model.TypeOfDatatype_DOCUMENT), tw, nil)
	tw.SetDatatypes(d1.(*document).WiredDatatype, d2.(*document).WiredDatatype)
	return d1, d2, tw.Sync
}

func f60JSON(t *testing.T, d Document) string {
	b, err := json.Marshal(d.ToJSON())
	if err != nil {
		t.Fatal(err)
	}
	return string(b)
}

func TestF60WriterAndReaderBuildTheSameDocument(t *testing.T) {
	when := time.Date(2020, 1, 2, 3, 4, 5, 0, time.UTC)
	cases := map[string]interface{}{
		"float32":  float32(0.1),
		"bytes":    []byte("ab"),
		"nested":   []interface{}{[]byte("ab"), []interface{}{"x"}},
		"struct":   f60Outer{f60Inner{1}, 7, when},
		"time":     when,
		"intkeys":  map[int]interface{}{2: []interface{}{"two"}, 10: []interface{}{"ten"}},
		"duration": time.Second,
	}
	for name, v := range cases {
		d1, d2, sync := f60Pair(t)
		if _, err := d1.PutToObject("k", v); err != nil {
			t.Fatalf("%s: %v", name, err)
		}
		sync()
		if a, b := f60JSON(t, d1), f60JSON(t, d2); a != b {
			t.Errorf("%s: the writer reads %s, the reader reads %s", name, a, b)
		}
	}
}

func TestF60OperationOnANodeBehindSuchAValueReachesTheReader(t *testing.T) {
	d1, d2, sync := f60Pair(t)
	if _, err := d1.PutToObject("k", []interface{}{[]byte("ab"), []interface{}{"x"}}); err != nil {
		t.Fatal(err)
	}
	sync()
	arr, err := d1.GetFromObject("k")
	if err != nil {
		t.Fatal(err)
	}
	inner, err := arr.GetFromArray(1)
	if err != nil {
		t.Fatal(err)
	}
	if _, err := inner.InsertToArray(1, "y"); err != nil {
		t.Fatal(err)
	}
	sync()
	if a, b := f60JSON(t, d1), f60JSON(t, d2); a != b {
		t.Errorf("the writer reads %s, the reader reads %s", a, b)
	}
}

func TestF60AValueJSONCannotExpressIsRefused(t *testing.T) {
	d1, _, _ := f60Pair(t)
	if _, err := d1.PutToObject("k", math.NaN()); err == nil {
		t.Errorf("NaN was accepted: %s", f60JSON(t, d1))
	}
	if _, err := d1.PutToObject("ok", 1); err != nil {
		t.Errorf("the document is not usable after the refusal: %v", err)
	}
}
