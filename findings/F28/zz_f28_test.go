package orda

// Belongs in: client/pkg/orda (package-internal test, package orda).
//
// Defect: SetMetaAndSnapshot does not refresh the rollback point of the TransactionDatatype
// (rollbackMeta / rollbackSnapshot / rollbackOps). A failed transaction on a replica that was restored
// from meta+snapshot rolls it back to what it was BEFORE the import (its own key/DUID/CUID and an empty state),
// or - if operations succeeded between the import and the failed transaction - replays those operations on
// the pre-import state.

import (
	"fmt"
	"testing"

	"github.com/orda-io/orda/client/pkg/iface"
	"github.com/orda-io/orda/client/pkg/model"
	"github.com/orda-io/orda/client/pkg/testonly"
	"github.com/stretchr/testify/require"
)

func fxFailListTx(l List) error {
	return l.Transaction("fail", func(tx ListInTx) error {
		if _, err := tx.Insert(0, "x"); err != nil {
			return err
		}
		return fmt.Errorf("fail")
	})
}

// The reviewers' input: a failed transaction right after the import.
func TestFXRestoredListFailedTransaction(t *testing.T) {
	l1, err := newList(testonly.NewBase("k", model.TypeOfDatatype_LIST), nil, nil)
	require.NoError(t, err)
	_, err = l1.InsertMany(0, "a", "b")
	require.NoError(t, err)
	meta, snap, err := l1.(iface.Datatype).GetMetaAndSnapshot()
	require.NoError(t, err)

	l2, err := newList(testonly.NewBase("k2", model.TypeOfDatatype_LIST), nil, nil)
	require.NoError(t, err)
	require.NoError(t, l2.(iface.Datatype).SetMetaAndSnapshot(meta, snap))
	require.Equal(t, l1.ToJSON(), l2.ToJSON())
	require.Equal(t, "k", l2.GetKey())

	require.Error(t, fxFailListTx(l1))
	require.Error(t, fxFailListTx(l2))

	// the original is unchanged by the failed transaction ...
	require.Equal(t, []interface{}{"a", "b"}, l1.(*list).snapshot().ToJSON())
	require.Equal(t, "k", l1.GetKey())
	// ... and so must be the restored replica
	require.Equal(t, "k", l2.GetKey(), "the failed transaction gave the restored replica its pre-import key back")
	require.Equal(t, l1.ToJSON(), l2.ToJSON(), "the failed transaction wiped the restored replica")
	meta1, snap1, err := l1.(iface.Datatype).GetMetaAndSnapshot()
	require.NoError(t, err)
	meta2, snap2, err := l2.(iface.Datatype).GetMetaAndSnapshot()
	require.NoError(t, err)
	require.Equal(t, string(meta1), string(meta2))
	require.Equal(t, string(snap1), string(snap2))
}

// Successful operations between the import and the failed transaction are part of the rollback point
// (rollbackOps); they must be replayed on the imported state, not on the pre-import state.
func TestFXRestoredListOperationsThenFailedTransaction(t *testing.T) {
	l1, err := newList(testonly.NewBase("k", model.TypeOfDatatype_LIST), nil, nil)
	require.NoError(t, err)
	_, err = l1.InsertMany(0, "a", "b")
	require.NoError(t, err)
	meta, snap, err := l1.(iface.Datatype).GetMetaAndSnapshot()
	require.NoError(t, err)

	l2, err := newList(testonly.NewBase("k2", model.TypeOfDatatype_LIST), nil, nil)
	require.NoError(t, err)
	_, err = l2.InsertMany(0, "old1", "old2", "old3") // state of l2 before the import
	require.NoError(t, err)
	require.NoError(t, l2.(iface.Datatype).SetMetaAndSnapshot(meta, snap))

	for _, l := range []List{l1, l2} {
		_, err = l.Insert(2, "c")
		require.NoError(t, err)
		require.Error(t, fxFailListTx(l))
	}
	require.Equal(t, []interface{}{"a", "b", "c"}, l1.(*list).snapshot().ToJSON())
	require.Equal(t, l1.ToJSON(), l2.ToJSON(), "rollback replayed the operations on the pre-import state")
	require.Equal(t, l1.GetKey(), l2.GetKey())
}

// The same through the public client API with a map (the rollback point is common to all datatypes).
func TestFXRestoredMapFailedTransaction(t *testing.T) {
	c1 := NewClient(NewLocalClientConfig("fx"), "fx1")
	c2 := NewClient(NewLocalClientConfig("fx"), "fx2")
	m1 := c1.CreateMap("k", nil)
	_, _ = m1.Put("k1", "v1")
	_, _ = m1.Put("k2", "v2")
	meta, snap, err := m1.(iface.Datatype).GetMetaAndSnapshot()
	require.NoError(t, err)
	m2 := c2.CreateMap("k-other", nil)
	require.NoError(t, m2.(iface.Datatype).SetMetaAndSnapshot(meta, snap))
	require.Equal(t, m1.ToJSON(), m2.ToJSON())

	for _, m := range []Map{m1, m2} {
		require.Error(t, m.Transaction("fail", func(tx MapInTx) error {
			_, _ = tx.Put("k1", "changed")
			return fmt.Errorf("fail")
		}))
	}
	require.Equal(t, "v1", m1.Get("k1"))
	require.Equal(t, "v1", m2.Get("k1"), "the failed transaction wiped the restored map")
	require.Equal(t, m1.ToJSON(), m2.ToJSON())
	require.Equal(t, m1.GetKey(), m2.GetKey())
}

// The way the server loads a document (server/snapshot/manager.go GetLatestDatatype) and patches it
// (server/service/service_patch_document.go PatchDocument): a patch of several operations runs in a
// transaction; a JSON null makes it fail ("invalid JSONPatch").
func TestFXServerLoadedDocumentFailedPatch(t *testing.T) {
	c1 := NewClient(NewLocalClientConfig("fx"), "fx1")
	d1 := c1.CreateDocument("doc", nil)
	_, err := d1.PutToObject("title", "review")
	require.NoError(t, err)
	_, err = d1.PutToObject("pages", 10)
	require.NoError(t, err)
	meta, snap, err := d1.(iface.Datatype).GetMetaAndSnapshot()
	require.NoError(t, err)

	server := NewClient(NewLocalClientConfig("fx"), "orda-server")
	loaded := server.CreateDatatype("doc", model.TypeOfDatatype_DOCUMENT, nil).(iface.Datatype)
	loaded.SetDUID(d1.(iface.Datatype).GetDUID())
	require.NoError(t, loaded.SetMetaAndSnapshot(meta, snap))
	loaded.ResetWired()
	d2 := loaded.(Document)
	before := string(d2.ToJSONBytes())
	require.Equal(t, string(d1.ToJSONBytes()), before)

	const patch = `{"title":"final","pages":11,"note":null}`
	_, err1 := d1.PatchByJSON(patch)
	require.Error(t, err1)
	_, err2 := d2.PatchByJSON(patch)
	require.Error(t, err2)

	require.Equal(t, before, string(d1.ToJSONBytes()))
	require.Equal(t, before, string(d2.ToJSONBytes()), "the failed patch emptied the loaded document")
	require.Equal(t, d1.(iface.Datatype).GetDUID(), d2.(iface.Datatype).GetDUID(),
		"the failed patch gave the loaded document its pre-import DUID back")
}
