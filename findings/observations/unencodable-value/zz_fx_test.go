// Reproducing test of defect "unencodable-value". It belongs in the package directory client/pkg/orda
// (run: cd client && go test -vet=off -count=1 -run TestFX ./pkg/orda/).
package orda

import (
	"fmt"
	"math"
	"testing"

	"github.com/orda-io/orda/client/pkg/model"
	"github.com/orda-io/orda/client/pkg/testonly"
	"github.com/stretchr/testify/require"
)

// fxCatch runs f and returns the recovered panic value (nil when f did not panic).
func fxCatch(f func()) (r interface{}) {
	defer func() { r = recover() }()
	f()
	return nil
}

func fxDoc(t *testing.T) Document {
	d, err := newDocument(testonly.NewBase(t.Name(), model.TypeOfDatatype_DOCUMENT), nil, nil)
	require.NoError(t, err)
	return d
}

func fxList(t *testing.T) List {
	l, err := newList(testonly.NewBase(t.Name(), model.TypeOfDatatype_LIST), nil, nil)
	require.NoError(t, err)
	return l
}

func fxMap(t *testing.T) Map {
	m, err := newMap(testonly.NewBase(t.Name(), model.TypeOfDatatype_MAP), nil, nil)
	require.NoError(t, err)
	return m
}

func fxPending(d interface{}) int {
	switch c := d.(type) {
	case *document:
		return len(c.CreatePushPullPack().Operations)
	case *list:
		return len(c.CreatePushPullPack().Operations)
	case *ordaMap:
		return len(c.CreatePushPullPack().Operations)
	}
	panic("unknown")
}

// 9. values that cannot be encoded
func TestFXUnencodableValue(t *testing.T) {
	m := fxMap(t)
	for _, v := range []interface{}{math.NaN(), math.Inf(1), float32(math.Inf(-1))} {
		var mErr error
		pn := fxCatch(func() {
			if _, e := m.Put("n", v); e != nil {
				mErr = e
			}
		})
		require.Nil(t, m.Get("n"), "Put(n, %v) left the value applied", v)
		require.Equal(t, 0, m.Size())
		require.Equal(t, 0, fxPending(m))
		require.Nil(t, pn, fmt.Sprintf("Put(n, %v) panicked", v))
		require.Error(t, mErr)
	}
	_, err := m.Put("n", 1.5)
	require.NoError(t, err)
	require.Equal(t, 1, fxPending(m))

	// the same class of values through the other datatypes (nested, or of an unsupported type)
	bad := []interface{}{math.NaN(), []float64{1, math.Inf(1)}, struct{ C chan int }{}, map[string]interface{}{"f": func() {}}}
	for i, v := range bad {
		pn := fxCatch(func() {
			_, e := m.Put("x", v)
			require.Error(t, e)
		})
		require.Nil(t, pn, "%d: Map.Put(x, %v) panicked", i, v)
		require.Nil(t, m.Get("x"))

		l := fxList(t)
		_, err = l.Insert(0, "a")
		require.NoError(t, err)
		pn = fxCatch(func() {
			_, e := l.InsertMany(0, "b", v)
			require.Error(t, e)
			_, e = l.Update(0, v)
			require.Error(t, e)
		})
		require.Nil(t, pn, "%d: List.InsertMany/Update(%v) panicked", i, v)
		require.Equal(t, []interface{}{"a"}, l.ToJSON().(struct{ List []interface{} }).List)
		require.Equal(t, 1, fxPending(l))

		doc := fxDoc(t)
		_, err = doc.PutToObject("arr", []interface{}{"e"})
		require.NoError(t, err)
		arr, _ := doc.GetFromObject("arr")
		pn = fxCatch(func() {
			_, e := doc.PutToObject("k", v)
			require.Error(t, e)
			_, e = arr.InsertToArray(0, v)
			require.Error(t, e)
			_, e = arr.UpdateManyInArray(0, v)
			require.Error(t, e)
		})
		require.Nil(t, pn, "%d: Document.PutToObject/InsertToArray/UpdateManyInArray(%v) panicked", i, v)
		require.Equal(t, `{"arr":["e"]}`, string(doc.ToJSONBytes()))
		require.Equal(t, 1, fxPending(doc))
	}
}
