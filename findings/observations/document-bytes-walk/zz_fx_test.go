package orda

// Belongs in client/pkg/orda (package-internal test).
// Reproduces: a []byte nested in a value that is put into a Document is walked as an array of numbers on the
// writing replica (one identifier per byte) but arrives as one base64 string on the other replicas, so the
// identifiers of the siblings created by the same operation differ and a later put lands in another object.

import (
	"testing"
	"time"

	"github.com/orda-io/orda/client/pkg/model"
	"github.com/orda-io/orda/client/pkg/testonly"
	"github.com/stretchr/testify/assert"
	"github.com/stretchr/testify/require"
)

func fxTwoDocuments(t *testing.T, key string) (Document, Document) {
	tw := testonly.NewTestWire(true)
	doc1, err := newDocument(testonly.NewBase(key, model.TypeOfDatatype_DOCUMENT), tw, nil)
	require.NoError(t, err)
	doc2, err := newDocument(testonly.NewBase(key, model.TypeOfDatatype_DOCUMENT), tw, nil)
	require.NoError(t, err)
	tw.SetDatatypes(doc1.(*document).WiredDatatype, doc2.(*document).WiredDatatype)
	return doc1, doc2
}

func TestFXDocumentNestedBytesKeepSiblingIdentifiers(t *testing.T) {
	for _, bytes := range []string{"xy", "xyz"} {
		doc1, doc2 := fxTwoDocuments(t, "fxd"+bytes)
		_, err := doc1.PutToObject("p", map[string]interface{}{
			"a": []byte(bytes),
			"b": map[string]interface{}{"x": "1"},
			"c": map[string]interface{}{"y": "2"},
		})
		require.NoError(t, err)
		assert.Equal(t, testonly.Marshal(t, doc2.ToJSON()), testonly.Marshal(t, doc1.ToJSON()),
			"the replicas show the nested []byte differently")

		p1, err := doc1.GetFromObject("p")
		require.NoError(t, err)
		b1, err := p1.GetFromObject("b")
		require.NoError(t, err)
		p2, _ := doc2.GetFromObject("p")
		b2, _ := p2.GetFromObject("b")
		assert.Equal(t,
			b1.(*document).snapshot().getCreateTime().ToString(),
			b2.(*document).snapshot().getCreateTime().ToString(),
			"the same object has different identifiers on the two replicas")

		_, err = b1.PutToObject("new", "v")
		require.NoError(t, err)
		want := `{"p":{"a":"` + map[string]string{"xy": "eHk=", "xyz": "eHl6"}[bytes] +
			`","b":{"new":"v","x":"1"},"c":{"y":"2"}}}`
		assert.Equal(t, want, testonly.Marshal(t, doc2.ToJSON()), "the put addressed to p.b was not applied to p.b remotely")
		assert.Equal(t, want, testonly.Marshal(t, doc1.ToJSON()))
	}
}

func TestFXDocumentBytesInArrayKeepSiblingIdentifiers(t *testing.T) {
	doc1, doc2 := fxTwoDocuments(t, "fxda")
	_, err := doc1.PutToObject("arr", []interface{}{"head"})
	require.NoError(t, err)
	arr1, err := doc1.GetFromObject("arr")
	require.NoError(t, err)

	_, err = arr1.InsertToArray(1, []byte("xy"), map[string]interface{}{"k": "v"})
	require.NoError(t, err)
	assert.Equal(t, testonly.Marshal(t, doc2.ToJSON()), testonly.Marshal(t, doc1.ToJSON()))
	_, err = arr1.UpdateManyInArray(0, []interface{}{[]byte("xy"), map[string]interface{}{"u": "w"}})
	require.NoError(t, err)
	assert.Equal(t, testonly.Marshal(t, doc2.ToJSON()), testonly.Marshal(t, doc1.ToJSON()))

	// address the objects that were created behind the []byte
	for _, pos := range []int{0, 2} {
		elem, err := arr1.GetFromArray(pos)
		require.NoError(t, err)
		obj := elem
		if pos == 0 {
			obj, err = elem.GetFromArray(1)
			require.NoError(t, err)
		}
		_, err = obj.PutToObject("new", "n")
		require.NoError(t, err)
	}
	want := `{"arr":[["eHk=",{"new":"n","u":"w"}],"eHk=",{"k":"v","new":"n"}]}`
	assert.Equal(t, want, testonly.Marshal(t, doc2.ToJSON()))
	assert.Equal(t, want, testonly.Marshal(t, doc1.ToJSON()))
}

type fxInner struct{ A int }

type fxEmbedding struct {
	fxInner
	B int `json:"b,string"`
}

// Other Go values whose encoding/json form has another shape than their reflection walk (same root cause).
func TestFXDocumentValuesAreWalkedInTheirEncodedForm(t *testing.T) {
	doc1, doc2 := fxTwoDocuments(t, "fxdv")
	_, err := doc1.PutToObject("top", []byte("xy"))
	require.NoError(t, err)
	_, err = doc1.PutToObject("p", map[string]interface{}{
		"a": time.Unix(0, 0).UTC(),
		"b": fxEmbedding{fxInner{1}, 2},
		"c": map[string]interface{}{"y": "2"},
	})
	require.NoError(t, err)
	want := `{"p":{"a":"1970-01-01T00:00:00Z","b":{"A":1,"b":"2"},"c":{"y":"2"}},"top":"eHk="}`
	assert.Equal(t, want, testonly.Marshal(t, doc2.ToJSON()))
	assert.Equal(t, want, testonly.Marshal(t, doc1.ToJSON()))

	c1, err := doc1.GetByPath("/p/c")
	require.NoError(t, err)
	_, err = c1.PutToObject("new", "v")
	require.NoError(t, err)
	want = `{"p":{"a":"1970-01-01T00:00:00Z","b":{"A":1,"b":"2"},"c":{"new":"v","y":"2"}},"top":"eHk="}`
	assert.Equal(t, want, testonly.Marshal(t, doc2.ToJSON()))
	assert.Equal(t, want, testonly.Marshal(t, doc1.ToJSON()))
}
