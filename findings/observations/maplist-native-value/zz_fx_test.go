package orda

// Belongs in client/pkg/orda (package-internal test).
// Reproduces: Map and List keep the caller's native Go value on the writing replica while the other replicas
// hold the JSON-decoded form of the same operation.

import (
	"testing"

	"github.com/orda-io/orda/client/pkg/iface"
	"github.com/orda-io/orda/client/pkg/model"
	"github.com/orda-io/orda/client/pkg/testonly"
	"github.com/stretchr/testify/require"
)

type fxProbe struct {
	B int    `json:"b"`
	A string `json:"a"`
}

func TestFXMapCompositeValueIsTheSameOnWriterAndRemote(t *testing.T) {
	tw := testonly.NewTestWire(true)
	m1, _ := newMap(testonly.NewBase("fxm", model.TypeOfDatatype_MAP), tw, nil)
	m2, _ := newMap(testonly.NewBase("fxm", model.TypeOfDatatype_MAP), tw, nil)
	tw.SetDatatypes(m1.(*ordaMap).WiredDatatype, m2.(*ordaMap).WiredDatatype)

	ints := []int{1, 2}
	_, err := m1.Put("s", fxProbe{B: 1, A: "x"})
	require.NoError(t, err)
	_, err = m1.Put("i", ints)
	require.NoError(t, err)
	_, err = m1.Put("p", &fxProbe{B: 2, A: "y"})
	require.NoError(t, err)
	_, err = m1.Put("n", 7) // scalars keep working as before
	require.NoError(t, err)

	// the expected values are what every replica that receives the operations holds
	require.Equal(t, map[string]interface{}{"a": "x", "b": float64(1)}, m2.Get("s"))
	require.Equal(t, []interface{}{float64(1), float64(2)}, m2.Get("i"))

	require.Equal(t, m2.Get("s"), m1.Get("s"), "writer and remote replica return different values for the struct")
	require.Equal(t, m2.Get("i"), m1.Get("i"), "writer and remote replica return different values for the slice")
	require.Equal(t, m2.Get("p"), m1.Get("p"), "writer and remote replica return different values for the pointer")
	require.Equal(t, float64(7), m1.Get("n"))
	require.Equal(t, m2.ToJSON(), m1.ToJSON())
	require.Equal(t, testonly.Marshal(t, m2.ToJSON()), testonly.Marshal(t, m1.ToJSON()))

	// the writer must not alias the caller's slice
	ints[0] = 100
	require.Equal(t, m2.Get("i"), m1.Get("i"), "the writer's state changed with the caller's slice")

	// the value returned for the replaced entry is the same on both paths too
	old1, err := m1.Put("s", "z")
	require.NoError(t, err)
	require.Equal(t, map[string]interface{}{"a": "x", "b": float64(1)}, old1)

	// a value that is encoded as JSON null would be a live entry on the writer and a removed one elsewhere
	_, err = m1.Put("nil", []int(nil))
	require.Error(t, err)
	require.Equal(t, m2.Size(), m1.Size())
	require.Nil(t, m1.Get("nil"))

	// the writer's view does not change when it is rebuilt from its own snapshot
	meta, snap, err := m1.(iface.Datatype).GetMetaAndSnapshot()
	require.NoError(t, err)
	m3, _ := newMap(testonly.NewBase("fxm3", model.TypeOfDatatype_MAP), nil, nil)
	require.NoError(t, m3.(iface.Datatype).SetMetaAndSnapshot(meta, snap))
	require.Equal(t, m3.ToJSON(), m1.ToJSON())
}

func TestFXListCompositeValueIsTheSameOnWriterAndRemote(t *testing.T) {
	tw := testonly.NewTestWire(true)
	l1, _ := newList(testonly.NewBase("fxl", model.TypeOfDatatype_LIST), tw, nil)
	l2, _ := newList(testonly.NewBase("fxl", model.TypeOfDatatype_LIST), tw, nil)
	tw.SetDatatypes(l1.(*list).WiredDatatype, l2.(*list).WiredDatatype)

	ret, err := l1.InsertMany(0, fxProbe{B: 1, A: "x"}, []int{1, 2}, "str", 3)
	require.NoError(t, err)
	want := []interface{}{
		map[string]interface{}{"a": "x", "b": float64(1)},
		[]interface{}{float64(1), float64(2)},
		"str",
		float64(3),
	}
	got2, err := l2.GetMany(0, 4)
	require.NoError(t, err)
	require.Equal(t, want, got2)

	got1, err := l1.GetMany(0, 4)
	require.NoError(t, err)
	require.Equal(t, got2, got1, "writer and remote replica return different list elements")
	require.Equal(t, want, ret, "InsertMany returns something else than what was stored")
	require.Equal(t, testonly.Marshal(t, l2.ToJSON()), testonly.Marshal(t, l1.ToJSON()))

	old, err := l1.Update(2, map[string]string{"k": "v"}, fxProbe{B: 9, A: "u"})
	require.NoError(t, err)
	require.Equal(t, []interface{}{"str", float64(3)}, old)
	got1, _ = l1.GetMany(0, 4)
	got2, _ = l2.GetMany(0, 4)
	require.Equal(t, map[string]interface{}{"k": "v"}, got2[2])
	require.Equal(t, got2, got1, "writer and remote replica differ after Update")
}
