// Reproducing test of defect "putobject-empty-key". It belongs in the package directory client/pkg/orda
// (run: cd client && go test -vet=off -count=1 -run TestFX ./pkg/orda/).
package orda

import (
	"testing"

	"github.com/orda-io/orda/client/pkg/model"
	"github.com/orda-io/orda/client/pkg/testonly"
	"github.com/stretchr/testify/require"
)

func fxDoc(t *testing.T) Document {
	d, err := newDocument(testonly.NewBase(t.Name(), model.TypeOfDatatype_DOCUMENT), nil, nil)
	require.NoError(t, err)
	return d
}

func fxMap(t *testing.T) Map {
	m, err := newMap(testonly.NewBase(t.Name(), model.TypeOfDatatype_MAP), nil, nil)
	require.NoError(t, err)
	return m
}

func fxPending(d interface{}) int {
	switch c := d.(type) {
	case *document:
		return len(c.CreatePushPullPack().Operations)
	case *list:
		return len(c.CreatePushPullPack().Operations)
	case *ordaMap:
		return len(c.CreatePushPullPack().Operations)
	}
	panic("unknown")
}

// 7. empty key
func TestFXPutToObjectEmptyKey(t *testing.T) {
	m := fxMap(t)
	_, mErr := m.Put("", 1)
	require.Error(t, mErr)

	doc := fxDoc(t)
	_, err := doc.PutToObject("", 1)
	require.Error(t, err, "PutToObject with an empty key must be rejected as Map.Put does: %s", doc.ToJSONBytes())
	require.Equal(t, `{}`, string(doc.ToJSONBytes()))
	require.Equal(t, 0, fxPending(doc))
}
