package service

// This file belongs in server/service (package-internal test of package service).
// Run: cd server && go test -vet=off -count=1 -run TestFX ./service/
//
// It needs no MongoDB: fxMongo is an in-process stand-in that speaks enough of the MongoDB wire protocol for
// mongodb.New() and for everything OrdaService.ProcessPushPull / PatchDocument send (find with equality and
// $gt/$gte/$lt/$lte conditions, sort and limit; insert; update with $set and upsert). Unlike a recorder it
// APPLIES the writes, so that a test can read back what is stored after a request.

import (
	gocontext "context"
	"encoding/binary"
	"fmt"
	"io"
	"net"
	"reflect"
	"sort"
	"strings"
	"sync"
	"testing"
	"time"

	"github.com/orda-io/orda/client/pkg/context"
	"github.com/orda-io/orda/client/pkg/errors"
	"github.com/orda-io/orda/client/pkg/iface"
	"github.com/orda-io/orda/client/pkg/model"
	"github.com/orda-io/orda/client/pkg/operations"
	"github.com/orda-io/orda/client/pkg/orda"
	"github.com/orda-io/orda/server/managers"
	"github.com/orda-io/orda/server/mongodb"
	"github.com/orda-io/orda/server/redis"
	"github.com/orda-io/orda/server/schema"
	"go.mongodb.org/mongo-driver/bson"
	"go.mongodb.org/mongo-driver/bson/primitive"
	"go.mongodb.org/mongo-driver/x/bsonx/bsoncore"
	"go.mongodb.org/mongo-driver/x/mongo/driver/wiremessage"
)

// ---------------------------------------------------------------------------------------------------------------------
// in-memory MongoDB
// ---------------------------------------------------------------------------------------------------------------------

type fxMongo struct {
	listener net.Listener
	mu       sync.Mutex
	docs     map[string][]bson.D // collection name -> documents
	writes   []string            // "insert <collection> <_id>" / "update <collection> <_id>", in order
}

func fxNewMongo(t *testing.T) *fxMongo {
	l, err := net.Listen("tcp", "127.0.0.1:0")
	if err != nil {
		t.Skipf("cannot listen on the loopback interface: %v", err)
	}
	f := &fxMongo{listener: l, docs: make(map[string][]bson.D)}
	go func() {
		for {
			conn, err := l.Accept()
			if err != nil {
				return
			}
			go f.serve(conn)
		}
	}()
	return f
}

func (f *fxMongo) put(collection string, doc bson.D) {
	f.mu.Lock()
	defer f.mu.Unlock()
	f.docs[collection] = append(f.docs[collection], doc)
}

func fxHello() bson.D {
	return bson.D{
		{Key: "ismaster", Value: true}, {Key: "isWritablePrimary", Value: true}, {Key: "helloOk", Value: true},
		{Key: "maxBsonObjectSize", Value: int32(16777216)}, {Key: "maxMessageSizeBytes", Value: int32(48000000)},
		{Key: "maxWriteBatchSize", Value: int32(100000)},
		{Key: "localTime", Value: primitive.NewDateTimeFromTime(time.Now())},
		{Key: "logicalSessionTimeoutMinutes", Value: int32(30)}, {Key: "connectionId", Value: int32(1)},
		{Key: "minWireVersion", Value: int32(0)}, {Key: "maxWireVersion", Value: int32(13)},
		{Key: "readOnly", Value: false}, {Key: "ok", Value: float64(1)},
	}
}

func (f *fxMongo) serve(conn net.Conn) {
	defer func() { _ = conn.Close() }()
	for {
		var sizeBuf [4]byte
		if _, err := io.ReadFull(conn, sizeBuf[:]); err != nil {
			return
		}
		size := int32(binary.LittleEndian.Uint32(sizeBuf[:]))
		msg := make([]byte, size)
		copy(msg, sizeBuf[:])
		if _, err := io.ReadFull(conn, msg[4:]); err != nil {
			return
		}
		_, reqID, _, opcode, rem, ok := wiremessage.ReadHeader(msg)
		if !ok {
			return
		}
		var reply []byte
		switch opcode {
		case wiremessage.OpQuery:
			_, rem, _ = wiremessage.ReadQueryFlags(rem)
			_, rem, _ = wiremessage.ReadQueryFullCollectionName(rem)
			_, rem, _ = wiremessage.ReadQueryNumberToSkip(rem)
			_, rem, _ = wiremessage.ReadQueryNumberToReturn(rem)
			query, _, _ := wiremessage.ReadQueryQuery(rem)
			resDoc, _ := bson.Marshal(f.handle(query, nil))
			var idx int32
			idx, reply = wiremessage.AppendHeaderStart(nil, wiremessage.NextRequestID(), reqID, wiremessage.OpReply)
			reply = wiremessage.AppendReplyFlags(reply, wiremessage.AwaitCapable)
			reply = wiremessage.AppendReplyCursorID(reply, 0)
			reply = wiremessage.AppendReplyStartingFrom(reply, 0)
			reply = wiremessage.AppendReplyNumberReturned(reply, 1)
			reply = append(reply, resDoc...)
			reply = bsoncore.UpdateLength(reply, idx, int32(len(reply)))
		case wiremessage.OpMsg:
			_, rem, _ = wiremessage.ReadMsgFlags(rem)
			var body bsoncore.Document
			sequences := make(map[string][]bsoncore.Document)
			for len(rem) > 0 {
				var stype wiremessage.SectionType
				stype, rem, ok = wiremessage.ReadMsgSectionType(rem)
				if !ok {
					break
				}
				if stype == wiremessage.SingleDocument {
					body, rem, _ = wiremessage.ReadMsgSectionSingleDocument(rem)
				} else {
					var id string
					var docs []bsoncore.Document
					id, docs, rem, _ = wiremessage.ReadMsgSectionDocumentSequence(rem)
					sequences[id] = docs
				}
			}
			resDoc, _ := bson.Marshal(f.handle(body, sequences))
			var idx int32
			idx, reply = wiremessage.AppendHeaderStart(nil, wiremessage.NextRequestID(), reqID, wiremessage.OpMsg)
			reply = wiremessage.AppendMsgFlags(reply, 0)
			reply = wiremessage.AppendMsgSectionType(reply, wiremessage.SingleDocument)
			reply = append(reply, resDoc...)
			reply = bsoncore.UpdateLength(reply, idx, int32(len(reply)))
		default:
			return
		}
		if _, err := conn.Write(reply); err != nil {
			return
		}
	}
}

func fxNumber(v interface{}) (int64, bool) {
	switch n := v.(type) {
	case int32:
		return int64(n), true
	case int64:
		return n, true
	case float64:
		return int64(n), true
	}
	return 0, false
}

func fxField(doc bson.D, key string) (interface{}, bool) {
	for _, e := range doc {
		if e.Key == key {
			return e.Value, true
		}
	}
	return nil, false
}

// fxMatches implements the filters Orda uses: {field: value} and {field: {$gte|$gt|$lte|$lt: number}}.
func fxMatches(doc bson.D, filter bson.D) bool {
	for _, cond := range filter {
		got, found := fxField(doc, cond.Key)
		if ops, isOperator := cond.Value.(bson.D); isOperator {
			g, ok := fxNumber(got)
			if !found || !ok {
				return false
			}
			for _, op := range ops {
				w, _ := fxNumber(op.Value)
				switch op.Key {
				case "$gte":
					ok = g >= w
				case "$gt":
					ok = g > w
				case "$lte":
					ok = g <= w
				case "$lt":
					ok = g < w
				}
				if !ok {
					return false
				}
			}
			continue
		}
		if !found {
			return false
		}
		gn, ok1 := fxNumber(got)
		wn, ok2 := fxNumber(cond.Value)
		if ok1 && ok2 {
			if gn != wn {
				return false
			}
		} else if !reflect.DeepEqual(got, cond.Value) {
			return false
		}
	}
	return true
}

// fxSection returns the documents of a command given either as a document sequence or as an array in the body.
func fxSection(cmd bsoncore.Document, sequences map[string][]bsoncore.Document, name string) []bson.D {
	var out []bson.D
	for _, d := range sequences[name] {
		var doc bson.D
		_ = bson.Unmarshal(d, &doc)
		out = append(out, doc)
	}
	if v, err := cmd.LookupErr(name); err == nil {
		if arr, ok := v.ArrayOK(); ok {
			vals, _ := arr.Values()
			for _, e := range vals {
				var doc bson.D
				_ = bson.Unmarshal(e.Document(), &doc)
				out = append(out, doc)
			}
		}
	}
	return out
}

func (f *fxMongo) handle(cmd bsoncore.Document, sequences map[string][]bsoncore.Document) bson.D {
	elems, _ := cmd.Elements()
	if len(elems) == 0 {
		return bson.D{{Key: "ok", Value: float64(0)}, {Key: "errmsg", Value: "empty command"}}
	}
	name := elems[0].Key()
	var db string
	if v, err := cmd.LookupErr("$db"); err == nil {
		db, _ = v.StringValueOK()
	}
	switch strings.ToLower(name) {
	case "ismaster", "hello":
		return fxHello()
	case "saslstart":
		return bson.D{
			{Key: "conversationId", Value: int32(1)}, {Key: "done", Value: true},
			{Key: "payload", Value: primitive.Binary{}}, {Key: "ok", Value: float64(1)},
		}
	case "ping", "endsessions":
		return bson.D{{Key: "ok", Value: float64(1)}}
	case "listcollections":
		var batch bson.A
		for _, n := range []string{"-_-Clients", "-_-Collections", "-_-Datatypes", "-_-Operations", "-_-Snapshots"} {
			batch = append(batch, bson.D{{Key: "name", Value: n}, {Key: "type", Value: "collection"}})
		}
		return bson.D{
			{Key: "cursor", Value: bson.D{
				{Key: "id", Value: int64(0)}, {Key: "ns", Value: db + ".$cmd.listCollections"}, {Key: "firstBatch", Value: batch},
			}},
			{Key: "ok", Value: float64(1)},
		}
	case "find":
		collection := elems[0].Value().StringValue()
		var filter, sortSpec bson.D
		if v, err := cmd.LookupErr("filter"); err == nil {
			_ = bson.Unmarshal(v.Document(), &filter)
		}
		if v, err := cmd.LookupErr("sort"); err == nil {
			_ = bson.Unmarshal(v.Document(), &sortSpec)
		}
		var found []bson.D
		f.mu.Lock()
		for _, doc := range f.docs[collection] {
			if fxMatches(doc, filter) {
				found = append(found, doc)
			}
		}
		f.mu.Unlock()
		if len(sortSpec) == 1 {
			dir, _ := fxNumber(sortSpec[0].Value)
			sort.SliceStable(found, func(i, j int) bool {
				a, _ := fxField(found[i], sortSpec[0].Key)
				b, _ := fxField(found[j], sortSpec[0].Key)
				an, _ := fxNumber(a)
				bn, _ := fxNumber(b)
				if dir < 0 {
					return an > bn
				}
				return an < bn
			})
		}
		if v, err := cmd.LookupErr("limit"); err == nil {
			if n, ok := v.AsInt64OK(); ok && n > 0 && int64(len(found)) > n {
				found = found[:n]
			}
		}
		batch := bson.A{}
		for _, d := range found {
			batch = append(batch, d)
		}
		return bson.D{
			{Key: "cursor", Value: bson.D{
				{Key: "id", Value: int64(0)}, {Key: "ns", Value: db + "." + collection}, {Key: "firstBatch", Value: batch},
			}},
			{Key: "ok", Value: float64(1)},
		}
	case "insert":
		collection := elems[0].Value().StringValue()
		docs := fxSection(cmd, sequences, "documents")
		f.mu.Lock()
		for _, doc := range docs {
			id, _ := fxField(doc, "_id")
			f.writes = append(f.writes, fmt.Sprintf("insert %s %v", collection, id))
			f.docs[collection] = append(f.docs[collection], doc)
		}
		f.mu.Unlock()
		return bson.D{{Key: "n", Value: int32(len(docs))}, {Key: "ok", Value: float64(1)}}
	case "update":
		collection := elems[0].Value().StringValue()
		var n, modified int32
		upserted := bson.A{}
		f.mu.Lock()
		for i, upd := range fxSection(cmd, sequences, "updates") {
			qv, _ := fxField(upd, "q")
			uv, _ := fxField(upd, "u")
			q, _ := qv.(bson.D)
			u, _ := uv.(bson.D)
			setv, _ := fxField(u, "$set")
			set, _ := setv.(bson.D)
			id, _ := fxField(q, "_id")
			f.writes = append(f.writes, fmt.Sprintf("update %s %v", collection, id))
			hit := -1
			for j, doc := range f.docs[collection] {
				if fxMatches(doc, q) {
					hit = j
					break
				}
			}
			if hit < 0 {
				f.docs[collection] = append(f.docs[collection], append(bson.D{{Key: "_id", Value: id}}, set...))
				upserted = append(upserted, bson.D{{Key: "index", Value: int32(i)}, {Key: "_id", Value: id}})
				n++
				continue
			}
			doc := f.docs[collection][hit]
			for _, s := range set {
				replaced := false
				for k := range doc {
					if doc[k].Key == s.Key {
						doc[k].Value = s.Value
						replaced = true
					}
				}
				if !replaced {
					doc = append(doc, s)
				}
			}
			f.docs[collection][hit] = doc
			n++
			modified++
		}
		f.mu.Unlock()
		res := bson.D{{Key: "n", Value: n}, {Key: "nModified", Value: modified}}
		if len(upserted) > 0 {
			res = append(res, bson.E{Key: "upserted", Value: upserted})
		}
		return append(res, bson.E{Key: "ok", Value: float64(1)})
	}
	return bson.D{
		{Key: "ok", Value: float64(0)}, {Key: "errmsg", Value: "fxMongo does not implement '" + name + "'"},
		{Key: "code", Value: int32(59)}, {Key: "codeName", Value: "CommandNotFound"},
	}
}

// ---------------------------------------------------------------------------------------------------------------------
// fixture
// ---------------------------------------------------------------------------------------------------------------------

const (
	fxCollection    = "fx_collection"
	fxColNum        = int32(1)
	fxOtherColNum   = int32(2)
	fxCUID          = "zzzzzzzzzzzzzzzz" // the requesting client, registered in fxCollection
	fxOwnerCUID     = "oooooooooooooooo" // the client that owns the datatypes stored beforehand
	fxForeignDUID   = "MMMMMMMMMMMMMMMM"
	fxForeignSseq   = uint64(5)
	fxRequestedKey  = "k"
	fxStoredOpCount = 5
)

type fxFixture struct {
	t      *testing.T
	mongo  *fxMongo
	svc    *OrdaService
	client *model.Client
}

func fxNewFixture(t *testing.T) *fxFixture {
	m := fxNewMongo(t)
	t.Cleanup(func() {
		time.Sleep(50 * time.Millisecond) // let the post-push-pull goroutine (notification without MQTT) finish
		_ = m.listener.Close()
	})
	m.put("-_-Collections", bson.D{{Key: "_id", Value: fxCollection}, {Key: "num", Value: fxColNum}})
	m.put("-_-Clients", bson.D{
		{Key: "_id", Value: fxCUID}, {Key: "alias", Value: "zz"}, {Key: "colNum", Value: fxColNum},
		{Key: "type", Value: int32(model.ClientType_PERSISTENT)}, {Key: "syncType", Value: int32(model.SyncType_MANUALLY)},
	})
	ctx := context.NewOrdaContext(gocontext.TODO(), "fx")
	repo, err := mongodb.New(ctx, &mongodb.Config{
		Host: m.listener.Addr().String(), OrdaDB: "fx", User: "fx", Password: "fx",
		Options: "authMechanism=PLAIN&serverSelectionTimeoutMS=3000&connectTimeoutMS=3000",
	})
	if err != nil {
		t.Fatalf("cannot connect to the in-memory MongoDB: %v", err)
	}
	locks, err := redis.New(ctx, nil)
	if err != nil {
		t.Fatalf("cannot build the lock provider: %v", err)
	}
	return &fxFixture{
		t: t, mongo: m,
		svc:    NewOrdaService(&managers.Managers{Mongo: repo, Redis: locks}),
		client: &model.Client{CUID: fxCUID, Alias: "zz", Collection: fxCollection, SyncType: model.SyncType_MANUALLY},
	}
}

func fxToD(t *testing.T, v interface{}) bson.D {
	b, err := bson.Marshal(v)
	if err != nil {
		t.Fatal(err)
	}
	var out bson.D
	if err := bson.Unmarshal(b, &out); err != nil {
		t.Fatal(err)
	}
	return out
}

// storeDatatype stores a datatype of fxOwnerCUID with `ops` operations (sseq 1..ops) of the owner.
func (x *fxFixture) storeDatatype(duid, key string, colNum int32, typ model.TypeOfDatatype, ops uint64, visible bool) {
	doc := schema.NewDatatypeDoc(duid, key, colNum, typ.String())
	doc.Sseq.End = ops
	doc.Visible = visible
	doc.AddNewClient(fxOwnerCUID, int8(model.ClientType_PERSISTENT), false).CP.Set(ops, ops)
	x.mongo.put("-_-Datatypes", fxToD(x.t, doc))
	for s := uint64(1); s <= ops; s++ {
		op := &model.Operation{
			ID:     &model.OperationID{Era: 0, Lamport: s, CUID: fxOwnerCUID, Seq: s},
			OpType: model.TypeOfOperation_COUNTER_INCREASE, Body: []byte(`1`),
		}
		x.mongo.put("-_-Operations", fxToD(x.t, schema.NewOperationDoc(op, duid, s, colNum)))
	}
}

func (x *fxFixture) datatype(duid string) *schema.DatatypeDoc {
	x.mongo.mu.Lock()
	defer x.mongo.mu.Unlock()
	for _, d := range x.mongo.docs["-_-Datatypes"] {
		if id, _ := fxField(d, "_id"); id == duid {
			b, _ := bson.Marshal(d)
			var doc schema.DatatypeDoc
			if err := bson.Unmarshal(b, &doc); err != nil {
				x.t.Fatal(err)
			}
			return &doc
		}
	}
	return nil
}

func (x *fxFixture) datatypeByKey(key string) *schema.DatatypeDoc {
	x.mongo.mu.Lock()
	var duid string
	for _, d := range x.mongo.docs["-_-Datatypes"] {
		if k, _ := fxField(d, "key"); k == key {
			duid, _ = d[0].Value.(string)
		}
	}
	x.mongo.mu.Unlock()
	if duid == "" {
		return nil
	}
	return x.datatype(duid)
}

func (x *fxFixture) operationIDs() []string {
	x.mongo.mu.Lock()
	defer x.mongo.mu.Unlock()
	var ids []string
	for _, d := range x.mongo.docs["-_-Operations"] {
		id, _ := fxField(d, "_id")
		ids = append(ids, fmt.Sprint(id))
	}
	return ids
}

func (x *fxFixture) writes() []string {
	x.mongo.mu.Lock()
	defer x.mongo.mu.Unlock()
	return append([]string{}, x.mongo.writes...)
}

// pushPull sends one pack through the real OrdaService.ProcessPushPull and returns the answering pack.
func (x *fxFixture) pushPull(ppp *model.PushPullPack) *model.PushPullPack {
	type answer struct {
		res *model.PushPullMessage
		err error
	}
	x.t.Logf("REQ %s", ppp.ToString(true))
	ch := make(chan answer, 1)
	go func() {
		res, err := x.svc.ProcessPushPull(gocontext.TODO(), model.NewPushPullMessage(0, x.client, ppp))
		ch <- answer{res, err}
	}()
	select {
	case a := <-ch:
		if a.err != nil {
			x.t.Fatalf("rpc error: %v", a.err)
		}
		if len(a.res.PushPullPacks) != 1 {
			x.t.Fatalf("expected one pack in the response, got %v", a.res)
		}
		x.t.Logf("RES %s", a.res.PushPullPacks[0].ToString(true))
		return a.res.PushPullPacks[0]
	case <-time.After(10 * time.Second):
		x.t.Fatalf("ProcessPushPull did not answer within 10s")
	}
	return nil
}

const (
	fxCreate = iota
	fxSubscribe
	fxSubscribeOrCreate
)

// fxRequest lets the real Go client build the first pack of a CreateCounter / SubscribeCounter /
// SubscribeOrCreateCounter(key) followed by one Increase(); the operations carry the CUID of the registered client.
func fxRequest(kind int, key string) (orda.Counter, *model.PushPullPack) {
	cl := orda.NewClient(&orda.ClientConfig{CollectionName: fxCollection, SyncType: model.SyncType_LOCAL_ONLY}, "zz")
	var counter orda.Counter
	switch kind {
	case fxCreate:
		counter = cl.CreateCounter(key, nil)
	case fxSubscribe:
		counter = cl.SubscribeCounter(key, nil)
	default:
		counter = cl.SubscribeOrCreateCounter(key, nil)
	}
	_, _ = counter.Increase()
	ppp := counter.(iface.Datatype).CreatePushPullPack()
	for _, op := range ppp.Operations {
		op.ID.CUID = fxCUID
	}
	return counter, ppp
}

// fxErrorCode returns the code of the ErrorOperation of an error pack, or 0 when the pack is not an error pack.
func fxErrorCode(t *testing.T, ppp *model.PushPullPack) (errors.ErrorCode, string) {
	if !ppp.GetPushPullPackOption().HasErrorBit() {
		return 0, ""
	}
	if len(ppp.Operations) != 1 {
		t.Fatalf("an error pack must carry exactly the ErrorOperation: %v", ppp.ToString(true))
	}
	decoded, err := operations.DecodeModelOperation(ppp.Operations[0])
	if err != nil {
		t.Fatal(err)
	}
	errOp, ok := decoded.(*operations.ErrorOperation)
	if !ok {
		t.Fatalf("not an ErrorOperation: %v", ppp.ToString(true))
	}
	return errors.ErrorCode(errOp.GetPushPullError().Code), errOp.GetPushPullError().Msg
}

// expectRefused checks that the request was answered with the wanted error and that NOTHING stored has changed:
// no write reached the database, the datatype stored beforehand still has its one client and its Sseq.End, and the
// operation log still holds exactly the operations stored beforehand.
func (x *fxFixture) expectRefused(res *model.PushPullPack, want errors.ErrorCode) {
	x.t.Helper()
	code, msg := fxErrorCode(x.t, res)
	if code == 0 {
		x.t.Errorf("the request is NOT refused: answered %s", res.ToString(true))
	} else if code != want {
		x.t.Errorf("refused with code %d (%s), want %d", code, msg, want)
	}
	if strings.Contains(msg, "panic") {
		x.t.Errorf("the refusal is the product of a recovered panic: %s", msg)
	}
	if w := x.writes(); len(w) != 0 {
		x.t.Errorf("a refused request must write nothing, but the server wrote: %v", w)
	}
	if stored := x.datatype(fxForeignDUID); stored != nil {
		if len(stored.RWClients) != 1 || stored.RWClients[fxOwnerCUID] == nil || len(stored.ROClients) != 0 {
			x.t.Errorf("the client list of the stored datatype changed: rw=%v ro=%v", stored.RWClients, stored.ROClients)
		}
		if stored.Sseq.End != fxForeignSseq {
			x.t.Errorf("Sseq.End of the stored datatype moved from %d to %d", fxForeignSseq, stored.Sseq.End)
		}
	}
	if ops := x.operationIDs(); len(ops) != fxStoredOpCount && x.datatype(fxForeignDUID) != nil {
		x.t.Errorf("stored operations changed: %v", ops)
	}
	for _, op := range res.Operations {
		if op.OpType != model.TypeOfOperation_ERROR {
			x.t.Errorf("the answer carries an operation of the stored datatype: %v", op.ToString())
		}
	}
}

// ---------------------------------------------------------------------------------------------------------------------
// the reported cells: requests that must be refused and must change nothing
// ---------------------------------------------------------------------------------------------------------------------

// The key is held by a datatype of ANOTHER TYPE (caseMatchKeyNotType): MAP "k" = MMMM.. with 5 operations.

func TestFXCreateOnKeyOfOtherTypeIsRefused(t *testing.T) {
	x := fxNewFixture(t)
	x.storeDatatype(fxForeignDUID, fxRequestedKey, fxColNum, model.TypeOfDatatype_MAP, fxForeignSseq, true)
	_, ppp := fxRequest(fxCreate, fxRequestedKey)
	x.expectRefused(x.pushPull(ppp), errors.PushPullDuplicateKey)
}

func TestFXSubscribeOnKeyOfOtherTypeIsRefused(t *testing.T) {
	x := fxNewFixture(t)
	x.storeDatatype(fxForeignDUID, fxRequestedKey, fxColNum, model.TypeOfDatatype_MAP, fxForeignSseq, true)
	_, ppp := fxRequest(fxSubscribe, fxRequestedKey)
	x.expectRefused(x.pushPull(ppp), errors.PushPullNoDatatypeToSubscribe)
}

func TestFXSubscribeOrCreateOnKeyOfOtherTypeIsRefused(t *testing.T) {
	x := fxNewFixture(t)
	x.storeDatatype(fxForeignDUID, fxRequestedKey, fxColNum, model.TypeOfDatatype_MAP, fxForeignSseq, true)
	_, ppp := fxRequest(fxSubscribeOrCreate, fxRequestedKey)
	x.expectRefused(x.pushPull(ppp), errors.PushPullDuplicateKey)
}

// The key is free, but the DUID of the request belongs to a datatype with another key - here even of ANOTHER
// COLLECTION (caseUsedDUID): COUNTER "elsewhere" = MMMM.. in collection #2 with 5 operations.

func TestFXCreateWithDUIDOfAnotherDatatypeIsRefused(t *testing.T) {
	x := fxNewFixture(t)
	x.storeDatatype(fxForeignDUID, "elsewhere", fxColNum, model.TypeOfDatatype_COUNTER, fxForeignSseq, true)
	_, ppp := fxRequest(fxCreate, fxRequestedKey)
	ppp.DUID = fxForeignDUID
	x.expectRefused(x.pushPull(ppp), errors.PushPullAbortionOfClient)
	if x.datatypeByKey(fxRequestedKey) != nil {
		t.Errorf("a datatype was created under %q", fxRequestedKey)
	}
}

func TestFXSubscribeWithDUIDOfAnotherDatatypeIsRefused(t *testing.T) {
	x := fxNewFixture(t)
	x.storeDatatype(fxForeignDUID, "elsewhere", fxColNum, model.TypeOfDatatype_COUNTER, fxForeignSseq, true)
	_, ppp := fxRequest(fxSubscribe, fxRequestedKey)
	ppp.DUID = fxForeignDUID
	x.expectRefused(x.pushPull(ppp), errors.PushPullNoDatatypeToSubscribe)
}

func TestFXSubscribeOrCreateWithDUIDOfAnotherDatatypeIsRefused(t *testing.T) {
	x := fxNewFixture(t)
	x.storeDatatype(fxForeignDUID, "elsewhere", fxColNum, model.TypeOfDatatype_COUNTER, fxForeignSseq, true)
	_, ppp := fxRequest(fxSubscribeOrCreate, fxRequestedKey)
	ppp.DUID = fxForeignDUID
	x.expectRefused(x.pushPull(ppp), errors.PushPullAbortionOfClient)
	if x.datatypeByKey(fxRequestedKey) != nil {
		t.Errorf("a datatype was created under %q", fxRequestedKey)
	}
}

// The key is held by a datatype of the same type that is hidden (caseAllMatchedNotVisible). No code of the server
// ever stores visible=false, so these three cells are reachable only with a document edited in the database.

func TestFXCreateOnHiddenDatatypeIsRefused(t *testing.T) {
	x := fxNewFixture(t)
	x.storeDatatype(fxForeignDUID, fxRequestedKey, fxColNum, model.TypeOfDatatype_COUNTER, fxForeignSseq, false)
	_, ppp := fxRequest(fxCreate, fxRequestedKey)
	x.expectRefused(x.pushPull(ppp), errors.PushPullDuplicateKey)
}

func TestFXSubscribeOnHiddenDatatypeIsRefused(t *testing.T) {
	x := fxNewFixture(t)
	x.storeDatatype(fxForeignDUID, fxRequestedKey, fxColNum, model.TypeOfDatatype_COUNTER, fxForeignSseq, false)
	_, ppp := fxRequest(fxSubscribe, fxRequestedKey)
	x.expectRefused(x.pushPull(ppp), errors.PushPullNoDatatypeToSubscribe)
}

func TestFXSubscribeOrCreateOnHiddenDatatypeIsRefused(t *testing.T) {
	x := fxNewFixture(t)
	x.storeDatatype(fxForeignDUID, fxRequestedKey, fxColNum, model.TypeOfDatatype_COUNTER, fxForeignSseq, false)
	_, ppp := fxRequest(fxSubscribeOrCreate, fxRequestedKey)
	x.expectRefused(x.pushPull(ppp), errors.PushPullDuplicateKey)
}

// An ordinary push-pull (no create/subscribe bit) naming a DUID the server does not know (caseMatchNothing): it must
// be refused by a decision of the handler, not by the nil-pointer panic that finalize() recovers.
func TestFXPlainPushPullForUnknownDatatypeIsRefusedWithoutPanic(t *testing.T) {
	x := fxNewFixture(t)
	_, ppp := fxRequest(fxCreate, fxRequestedKey)
	ppp.Option = uint32(model.PushPullBitNormal)
	x.expectRefused(x.pushPull(ppp), errors.PushPullNoDatatypeToSubscribe)
}

// The refusal reaches the error handler of the Go client as "fail to create datatype", and the replica stays
// DUE_TO_CREATE (on the unmodified tree the answer is a success and the replica would become SUBSCRIBED).
func TestFXRefusedCreateReachesTheErrorHandlerOfTheClient(t *testing.T) {
	x := fxNewFixture(t)
	x.storeDatatype(fxForeignDUID, fxRequestedKey, fxColNum, model.TypeOfDatatype_MAP, fxForeignSseq, true)
	got := make(chan errors.OrdaError, 1)
	cl := orda.NewClient(&orda.ClientConfig{CollectionName: fxCollection, SyncType: model.SyncType_LOCAL_ONLY}, "zz")
	counter := cl.CreateCounter(fxRequestedKey, orda.NewHandlers(nil, nil, func(dt orda.Datatype, errs ...errors.OrdaError) {
		got <- errs[0]
	}))
	_, _ = counter.Increase()
	ppp := counter.(iface.Datatype).CreatePushPullPack()
	for _, op := range ppp.Operations {
		op.ID.CUID = fxCUID
	}
	res := x.pushPull(ppp)
	if !res.GetPushPullPackOption().HasErrorBit() {
		t.Fatalf("the create request on the key of a MAP is answered as a success: %s", res.ToString(true))
	}
	counter.(iface.Datatype).ApplyPushPullPack(res)
	select {
	case err := <-got:
		if err.GetCode() != errors.DatatypeCreate {
			t.Errorf("error handler got %v, want DatatypeCreate", err)
		}
	case <-time.After(5 * time.Second):
		t.Fatalf("the error handler was not called")
	}
	if counter.GetState() != model.StateOfDatatype_DUE_TO_CREATE {
		t.Errorf("state of the refused replica: %v", counter.GetState())
	}
}

// ---------------------------------------------------------------------------------------------------------------------
// legitimate flows that must keep working (they pass before and after the repair)
// ---------------------------------------------------------------------------------------------------------------------

func (x *fxFixture) expectAccepted(res *model.PushPullPack) {
	x.t.Helper()
	if code, msg := fxErrorCode(x.t, res); code != 0 {
		x.t.Fatalf("a legitimate request is refused with %d: %s", code, msg)
	}
}

// create, then the SAME create again (the answer was lost; caseAllMatchedSubscribed), then a plain push.
func TestFXLegitCreateRetryAndPlainPush(t *testing.T) {
	x := fxNewFixture(t)
	counter, ppp := fxRequest(fxCreate, fxRequestedKey)
	res := x.pushPull(ppp)
	x.expectAccepted(res)
	if !res.GetPushPullPackOption().HasCreateBit() || res.CheckPoint.Sseq != 2 || res.CheckPoint.Cseq != 2 {
		t.Fatalf("create: %s", res.ToString(true))
	}
	stored := x.datatypeByKey(fxRequestedKey)
	if stored == nil || stored.DUID != ppp.DUID || stored.Sseq.End != 2 || stored.RWClients[fxCUID] == nil {
		t.Fatalf("create stored %v", stored)
	}
	// the retry of the create request: answered without error, nothing is stored twice
	_ = counter
	res = x.pushPull(ppp)
	x.expectAccepted(res)
	if stored = x.datatype(ppp.DUID); stored.Sseq.End != 2 || len(x.operationIDs()) != 2 {
		t.Fatalf("the retried create changed the log: end=%d ops=%v", stored.Sseq.End, x.operationIDs())
	}
	// a plain push of one more operation (for a plain pack an existing DUID is classified caseUsedDUID)
	plain := &model.PushPullPack{
		Key: fxRequestedKey, DUID: ppp.DUID, Type: model.TypeOfDatatype_COUNTER, Option: uint32(model.PushPullBitNormal),
		CheckPoint: model.NewSetCheckPoint(2, 3),
		Operations: []*model.Operation{{
			ID:     &model.OperationID{Lamport: 3, CUID: fxCUID, Seq: 3},
			OpType: model.TypeOfOperation_COUNTER_INCREASE, Body: []byte(`1`),
		}},
	}
	res = x.pushPull(plain)
	x.expectAccepted(res)
	if stored = x.datatype(ppp.DUID); stored.Sseq.End != 3 || len(x.operationIDs()) != 3 {
		t.Fatalf("plain push: end=%d ops=%v", stored.Sseq.End, x.operationIDs())
	}
}

// subscribe to an existing datatype (caseAllMatchedNotSubscribed), then the same request again
// (caseAllMatchedSubscribed): both are answered without error.
func TestFXLegitSubscribeAndRetry(t *testing.T) {
	for _, kind := range []int{fxSubscribe, fxSubscribeOrCreate} {
		x := fxNewFixture(t)
		x.storeDatatype(fxForeignDUID, fxRequestedKey, fxColNum, model.TypeOfDatatype_COUNTER, fxForeignSseq, true)
		_, ppp := fxRequest(kind, fxRequestedKey)
		ops := ppp.Operations // subscribeDatatype() drops the operations of the pack it was given
		res := x.pushPull(ppp)
		x.expectAccepted(res)
		if !res.GetPushPullPackOption().HasSubscribeBit() || res.DUID != fxForeignDUID || len(res.Operations) != fxStoredOpCount {
			t.Fatalf("subscribe: %s", res.ToString(true))
		}
		if stored := x.datatype(fxForeignDUID); stored.RWClients[fxCUID] == nil || stored.Sseq.End != fxForeignSseq {
			t.Fatalf("subscribe stored %v", stored)
		}
		ppp.Operations = ops
		x.expectAccepted(x.pushPull(ppp))
	}
}

// SubscribeOrCreate of an absent key creates it.
func TestFXLegitSubscribeOrCreateOfAbsentKeyCreates(t *testing.T) {
	x := fxNewFixture(t)
	_, ppp := fxRequest(fxSubscribeOrCreate, fxRequestedKey)
	res := x.pushPull(ppp)
	x.expectAccepted(res)
	if stored := x.datatypeByKey(fxRequestedKey); stored == nil || stored.DUID != ppp.DUID || !res.GetPushPullPackOption().HasCreateBit() {
		t.Fatalf("stored %v, answer %s", stored, res.ToString(true))
	}
}

// The REST patch client: create for an absent document, a plain push for the existing one.
func TestFXLegitPatchDocument(t *testing.T) {
	x := fxNewFixture(t)
	patch := func(json string) {
		res, err := x.svc.PatchDocument(gocontext.TODO(), &model.PatchMessage{Collection: fxCollection, Key: "doc", Json: json})
		if err != nil {
			t.Fatalf("PatchDocument(%s): %v", json, err)
		}
		t.Logf("PATCH -> %s", res.Json)
		time.Sleep(50 * time.Millisecond)
	}
	patch(`{"a":1}`)
	stored := x.datatypeByKey("doc")
	if stored == nil || stored.Type != "DOCUMENT" || stored.Sseq.End == 0 {
		t.Fatalf("the first patch did not create the document: %v (writes %v)", stored, x.writes())
	}
	end := stored.Sseq.End
	patch(`{"a":1,"b":2}`)
	stored = x.datatype(stored.DUID)
	if stored.Sseq.End <= end || uint64(len(x.operationIDs())) != stored.Sseq.End {
		t.Fatalf("the second patch was not stored: end %d -> %d, ops %v", end, stored.Sseq.End, x.operationIDs())
	}
}
