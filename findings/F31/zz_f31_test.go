package orda

// Belongs in: client/pkg/orda (package-internal test).
//
// Client.CreateDatatype on a key that the same client already uses for a datatype of ANOTHER type has to be
// refused like CreateCounter/CreateMap/... refuse it: the error handler is told and nil is returned.

import (
	"testing"

	"github.com/orda-io/orda/client/pkg/errors"
	"github.com/orda-io/orda/client/pkg/model"
	"github.com/stretchr/testify/require"
)

func TestFXCreateDatatypeOnKeyOfAnotherType(t *testing.T) {
	newHandlers := func(got *[]errors.OrdaError) *Handlers {
		return NewHandlers(nil, nil, func(dt Datatype, errs ...errors.OrdaError) {
			*got = append(*got, errs...)
		})
	}
	// for every pair (existing type, requested type) of different types
	types := []model.TypeOfDatatype{
		model.TypeOfDatatype_COUNTER, model.TypeOfDatatype_MAP, model.TypeOfDatatype_LIST, model.TypeOfDatatype_DOCUMENT,
	}
	for _, existing := range types {
		for _, requested := range types {
			if existing == requested {
				continue
			}
			t.Run(existing.String()+"_then_"+requested.String(), func(t *testing.T) {
				client := NewClient(NewLocalClientConfig("fxCollection"), "fx")
				var errs1, errs2 []errors.OrdaError

				first := client.CreateDatatype("k", existing, newHandlers(&errs1))
				require.NotNil(t, first)
				require.Equal(t, existing, first.GetType())
				require.Empty(t, errs1)

				var second Datatype
				require.NotPanics(t, func() {
					second = client.CreateDatatype("k", requested, newHandlers(&errs2))
				}, "CreateDatatype(%q, %v) on a key used by a %v must report an error, not panic", "k", requested, existing)
				require.True(t, second == nil, "a refused CreateDatatype returns a nil Datatype (comparable with nil)")
				require.Len(t, errs2, 1)
				require.Equal(t, errors.DatatypeSubscribe, errs2[0].GetCode())

				// the typed constructors behave the same way (reference behaviour, unchanged)
				var errs3 []errors.OrdaError
				switch requested {
				case model.TypeOfDatatype_COUNTER:
					require.Nil(t, client.CreateCounter("k", newHandlers(&errs3)))
				case model.TypeOfDatatype_MAP:
					require.Nil(t, client.CreateMap("k", newHandlers(&errs3)))
				case model.TypeOfDatatype_LIST:
					require.Nil(t, client.CreateList("k", newHandlers(&errs3)))
				case model.TypeOfDatatype_DOCUMENT:
					require.Nil(t, client.CreateDocument("k", newHandlers(&errs3)))
				}
				require.Len(t, errs3, 1)

				// the existing datatype is untouched and is what a same-type request gets back
				again := client.CreateDatatype("k", existing, newHandlers(&errs1))
				require.True(t, again == first)
				require.Empty(t, errs1)
			})
		}
	}
}

// An unknown type keeps returning nil without panic (behaviour of the unmodified tree, kept by the repair).
func TestFXCreateDatatypeUnknownType(t *testing.T) {
	client := NewClient(NewLocalClientConfig("fxCollection"), "fx")
	require.NotPanics(t, func() {
		require.True(t, client.CreateDatatype("k", model.TypeOfDatatype(99), nil) == nil)
	})
}
