package orda

// Belongs in: client/pkg/orda (package-internal test).
// Defect: PatchByJSON on a child Document diffs the child but resolves the patch paths from the root.

import (
	"encoding/json"
	"testing"

	"github.com/orda-io/orda/client/pkg/model"
	"github.com/orda-io/orda/client/pkg/testonly"
	"github.com/stretchr/testify/require"
	"github.com/wI2L/jsondiff"
)

func fxChildJSON(t *testing.T, d Document) string {
	b, err := json.Marshal(d.ToJSON())
	require.NoError(t, err)
	return string(b)
}

func fxChildNewDoc(t *testing.T) Document {
	tw := testonly.NewTestWire(true)
	doc, err := newDocument(testonly.NewBase(t.Name(), model.TypeOfDatatype_DOCUMENT), tw, nil)
	require.NoError(t, err)
	return doc
}

// root {"a":{"x":1}}; child "a".PatchByJSON({"x":2}) must give root {"a":{"x":2}}.
func TestFXPatchByJSONOnChildObject(t *testing.T) {
	root := fxChildNewDoc(t)
	_, oErr := root.PutToObject("a", map[string]interface{}{"x": 1})
	require.NoError(t, oErr)
	child, oErr := root.GetFromObject("a")
	require.NoError(t, oErr)

	_, oErr = child.PatchByJSON(`{"x":2}`)
	require.NoError(t, oErr)
	require.JSONEq(t, `{"x":2}`, fxChildJSON(t, child), "the child does not hold the target")
	require.JSONEq(t, `{"a":{"x":2}}`, fxChildJSON(t, root), "the patch of the child leaked into the root")
}

// several differences (nested transaction path), deeper nesting, a sibling with the same keys as the child.
func TestFXPatchByJSONOnNestedChildren(t *testing.T) {
	root := fxChildNewDoc(t)
	_, oErr := root.PatchByJSON(`{"x":0,"a":{"x":1,"l":[1,2,3],"o":{"k":"v"}},"l":["r"]}`)
	require.NoError(t, oErr)

	a, oErr := root.GetFromObject("a")
	require.NoError(t, oErr)
	target := `{"x":2,"l":[1,3],"o":{"k":"w","n":true},"new":"y"}`
	_, oErr = a.PatchByJSON(target)
	require.NoError(t, oErr)
	require.JSONEq(t, target, fxChildJSON(t, a))
	require.JSONEq(t, `{"x":0,"a":`+target+`,"l":["r"]}`, fxChildJSON(t, root))

	// an array child
	l, oErr := a.GetFromObject("l")
	require.NoError(t, oErr)
	_, oErr = l.PatchByJSON(`[1,{"deep":1},4]`)
	require.NoError(t, oErr)
	require.JSONEq(t, `[1,{"deep":1},4]`, fxChildJSON(t, l))
	require.JSONEq(t, `["r"]`, fxChildJSON(t, mustGet(t, root, "l")))

	// an object inside an array
	deep, oErr := l.GetFromArray(1)
	require.NoError(t, oErr)
	_, oErr = deep.PatchByJSON(`{"deep":2,"more":[1]}`)
	require.NoError(t, oErr)
	require.JSONEq(t, `{"x":0,"a":{"x":2,"l":[1,{"deep":2,"more":[1]},4],"o":{"k":"w","n":true},"new":"y"},"l":["r"]}`,
		fxChildJSON(t, root))

	// the root itself still works as before
	_, oErr = root.GetRootDocument().PatchByJSON(`{"x":5}`)
	require.NoError(t, oErr)
	require.JSONEq(t, `{"x":5}`, fxChildJSON(t, root))
}

// the same inside a user transaction (handle obtained from the transaction's clone)
func TestFXPatchByJSONOnChildInTransaction(t *testing.T) {
	root := fxChildNewDoc(t)
	_, oErr := root.PutToObject("a", map[string]interface{}{"x": 1})
	require.NoError(t, oErr)
	require.NoError(t, root.Transaction("tx", func(d DocumentInTx) error {
		child, err := d.GetFromObject("a")
		if err != nil {
			return err
		}
		_, err = child.PatchByJSON(`{"x":2}`)
		if err != nil {
			return err
		}
		return nil
	}))
	require.JSONEq(t, `{"a":{"x":2}}`, fxChildJSON(t, root))
}

func mustGet(t *testing.T, d Document, key string) Document {
	c, err := d.GetFromObject(key)
	require.NoError(t, err)
	return c
}

// The patches PatchByJSON returns for a child are relative to that child, Patch on a child handle takes such
// child-relative paths, and the operations sent to another replica give the same value there.
func TestFXPatchOnChildIsRelativeAndSyncs(t *testing.T) {
	tw := testonly.NewTestWire(true)
	doc1, err1 := newDocument(testonly.NewBase("k1", model.TypeOfDatatype_DOCUMENT), tw, nil)
	require.NoError(t, err1)
	doc2, err2 := newDocument(testonly.NewBase("k2", model.TypeOfDatatype_DOCUMENT), tw, nil)
	require.NoError(t, err2)
	tw.SetDatatypes(doc1.(*document).WiredDatatype, doc2.(*document).WiredDatatype)

	_, oErr := doc1.PatchByJSON(`{"x":0,"a":{"x":1,"l":[1,2,3]}}`)
	require.NoError(t, oErr)
	a1 := mustGet(t, doc1, "a")
	patches, oErr := a1.PatchByJSON(`{"x":2,"l":[1,3],"n":{"k":1}}`)
	require.NoError(t, oErr)
	require.JSONEq(t, `{"x":0,"a":{"x":2,"l":[1,3],"n":{"k":1}}}`, fxChildJSON(t, doc1))
	require.JSONEq(t, fxChildJSON(t, doc1), fxChildJSON(t, doc2))
	for _, p := range patches {
		require.NotContains(t, p.Path.String(), "/a/", "PatchByJSON of a child reports child-relative paths")
	}

	// Patch on a child with explicit operations
	require.NoError(t, a1.Patch(jsondiff.Operation{Type: "replace", Path: "/x", Value: 3}))
	require.NoError(t, a1.Patch(
		jsondiff.Operation{Type: "add", Path: "/l/-", Value: 9},
		jsondiff.Operation{Type: "remove", Path: "/n/k"}))
	require.JSONEq(t, `{"x":0,"a":{"x":3,"l":[1,3,9],"n":{}}}`, fxChildJSON(t, doc1))
	require.JSONEq(t, fxChildJSON(t, doc1), fxChildJSON(t, doc2))

	// a failing multi-operation patch of a child changes nothing
	before := fxChildJSON(t, doc1)
	require.Error(t, a1.Patch(
		jsondiff.Operation{Type: "replace", Path: "/x", Value: 4},
		jsondiff.Operation{Type: "remove", Path: "/a/x"})) // "/a/x" does not exist below the child
	require.JSONEq(t, before, fxChildJSON(t, doc1))
	require.JSONEq(t, before, fxChildJSON(t, doc2))
}

// A handle of a deleted child must not patch anything (formerly it patched the root).
func TestFXPatchByJSONOnDeletedChild(t *testing.T) {
	root := fxChildNewDoc(t)
	_, oErr := root.PutToObject("a", map[string]interface{}{"x": 1})
	require.NoError(t, oErr)
	child := mustGet(t, root, "a")
	_, oErr = root.DeleteInObject("a")
	require.NoError(t, oErr)
	_, oErr = child.PatchByJSON(`{"x":2}`)
	require.Error(t, oErr)
	require.JSONEq(t, `{}`, fxChildJSON(t, root))
}
