package model

import (
	"testing"

	"github.com/stretchr/testify/require"
)

// F50: a ClientMessage / PushPullMessage without the optional sub-message `header` (well-formed protobuf) made the
// server's request logging dereference nil in Header.ToString, inside the gRPC handler goroutine (no recover there).
func TestFXMessageWithoutHeaderCanBeLogged(t *testing.T) {
	require.NotPanics(t, func() { _ = (&ClientMessage{Collection: "c", Cuid: "0123456789abcdef"}).ToString() })
	require.NotPanics(t, func() { _ = (&PushPullMessage{Collection: "c", Cuid: "0123456789abcdef"}).ToString(true) })
	var h *Header
	require.NotPanics(t, func() { _ = h.ToString() })
}
