package mongodb

// FX9 / defect "reserved-collection-names" (C17).
// This file belongs in the directory server/mongodb (package-internal test, package mongodb).
// Run: cd server && go test -vet=off -count=1 -run 'TestFXReserved' ./mongodb/
//
// It drives the real RepositoryMongo.PurgeCollection and MakeCollection (the two calls OrdaService.ResetCollection
// consists of; MakeCollection is also what OrdaService.CreateCollection and the REST handler call) against the
// mock deployment of the MongoDB driver (mtest, ClientType Mock: no MongoDB, no network) and looks at the
// commands the driver was asked to send.

import (
	gocontext "context"
	"testing"

	"github.com/orda-io/orda/client/pkg/context"
	"github.com/orda-io/orda/server/schema"
	"go.mongodb.org/mongo-driver/bson"
	"go.mongodb.org/mongo-driver/mongo/integration/mtest"
)

var fxReservedNames = []string{
	schema.CollectionNameDatatypes,
	schema.CollectionNameOperations,
	schema.CollectionNameSnapshot,
	schema.CollectionNameClients,
	schema.CollectionNameCollections,
	schema.CollectionNameColNumGenerator,
}

func fxReservedRepo(mt *mtest.T) *RepositoryMongo {
	repo := &RepositoryMongo{
		db:               mt.DB,
		client:           mt.Client,
		MongoCollections: &MongoCollections{mongoClient: mt.Client},
	}
	repo.clients = mt.DB.Collection(schema.CollectionNameClients)
	repo.counters = mt.DB.Collection(schema.CollectionNameColNumGenerator)
	repo.snapshots = mt.DB.Collection(schema.CollectionNameSnapshot)
	repo.datatypes = mt.DB.Collection(schema.CollectionNameDatatypes)
	repo.operations = mt.DB.Collection(schema.CollectionNameOperations)
	repo.collections = mt.DB.Collection(schema.CollectionNameCollections)
	return repo
}

// fxPurgeResponses: what MongoDB answers to PurgeCollection(name) when no collection document 'name' exists:
// find on -_-Collections -> nothing; drop -> ok.
func fxPurgeResponses(mt *mtest.T) {
	mt.AddMockResponses(
		mtest.CreateCursorResponse(0, mt.DB.Name()+"."+schema.CollectionNameCollections, mtest.FirstBatch),
		mtest.CreateSuccessResponse(),
	)
}

// fxMakeResponses: what MongoDB answers to MakeCollection(name) for a new name:
// find on -_-Collections -> nothing; findAndModify of the number generator -> 7; insert -> ok.
func fxMakeResponses(mt *mtest.T) {
	mt.AddMockResponses(
		mtest.CreateCursorResponse(0, mt.DB.Name()+"."+schema.CollectionNameCollections, mtest.FirstBatch),
		bson.D{{Key: "ok", Value: 1}, {Key: "value", Value: bson.D{{Key: "_id", Value: idForCollection}, {Key: "num", Value: int32(7)}}}},
		mtest.CreateSuccessResponse(bson.E{Key: "n", Value: 1}),
	)
}

// fxSent returns the values of all commands 'cmd' that were started, e.g. fxSent(mt, "drop") -> dropped collections.
func fxSent(mt *mtest.T, cmd string) []string {
	var ret []string
	for _, ev := range mt.GetAllStartedEvents() {
		if ev.CommandName == cmd {
			s, _ := ev.Command.Lookup(cmd).StringValueOK()
			ret = append(ret, s)
		}
	}
	return ret
}

func TestFXReservedNamesAreNotDroppedByReset(t *testing.T) {
	mt := mtest.New(t, mtest.NewOptions().ClientType(mtest.Mock).CreateCollection(false))
	defer mt.Close()
	for _, name := range fxReservedNames {
		name := name
		mt.Run("reset "+name, func(mt *mtest.T) {
			ctx := context.NewOrdaContext(gocontext.Background(), "FX")
			fxPurgeResponses(mt)
			err := fxReservedRepo(mt).PurgeCollection(ctx, name)
			if dropped := fxSent(mt, "drop"); len(dropped) > 0 {
				mt.Errorf("PurgeCollection(%q) (first half of ResetCollection) sent drop of the internal collection(s) %q", name, dropped)
			}
			if err == nil {
				mt.Errorf("PurgeCollection(%q) reported success; a reserved name should be refused", name)
			}
		})
	}
}

func TestFXReservedNamesAreNotCreated(t *testing.T) {
	mt := mtest.New(t, mtest.NewOptions().ClientType(mtest.Mock).CreateCollection(false))
	defer mt.Close()
	for _, name := range fxReservedNames {
		name := name
		mt.Run("create "+name, func(mt *mtest.T) {
			ctx := context.NewOrdaContext(gocontext.Background(), "FX")
			fxMakeResponses(mt)
			num, err := MakeCollection(ctx, fxReservedRepo(mt), name)
			if err == nil {
				mt.Errorf("MakeCollection(%q) succeeded and registered the internal name as user collection #%d", name, num)
			}
			if ins := fxSent(mt, "insert"); len(ins) > 0 {
				mt.Errorf("MakeCollection(%q) inserted into %q", name, ins)
			}
		})
	}
}

// Control: ordinary names (also ones that merely look similar) are still reset and created exactly as before.
func TestFXReservedOrdinaryNamesStillWork(t *testing.T) {
	mt := mtest.New(t, mtest.NewOptions().ClientType(mtest.Mock).CreateCollection(false))
	defer mt.Close()
	for _, name := range []string{"hello", "Datatypes", "-_-", "-_-datatypes", "-_-Datatypes2", "x-_-Datatypes"} {
		name := name
		mt.Run("ordinary "+name, func(mt *mtest.T) {
			ctx := context.NewOrdaContext(gocontext.Background(), "FX")
			repo := fxReservedRepo(mt)
			fxPurgeResponses(mt)
			if err := repo.PurgeCollection(ctx, name); err != nil {
				mt.Fatalf("PurgeCollection(%q): %v", name, err)
			}
			if dropped := fxSent(mt, "drop"); len(dropped) != 1 || dropped[0] != name {
				mt.Errorf("PurgeCollection(%q) dropped %q, want exactly its own real collection", name, dropped)
			}
			fxMakeResponses(mt)
			num, err := MakeCollection(ctx, repo, name)
			if err != nil || num != 7 {
				mt.Fatalf("MakeCollection(%q) = %d, %v; want 7, nil", name, num, err)
			}
			if ins := fxSent(mt, "insert"); len(ins) != 1 || ins[0] != schema.CollectionNameCollections {
				mt.Errorf("MakeCollection(%q) inserted into %q, want one insert into %q", name, ins, schema.CollectionNameCollections)
			}
		})
	}
}
