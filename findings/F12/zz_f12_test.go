package service

// This file belongs in server/service (package-internal test of package service).
//
// It runs the real OrdaService on a small in-memory MongoDB (a driver.Deployment handed to the Mongo driver; copied
// from the harness of /tmp/wt12/C17/out/C17-1/zz_demo_test.go, identifiers prefixed with fx) and a recording MQTT
// client. No MongoDB / MQTT / Redis and no new dependency is needed.
//
//   cd server && go test -vet=off -count=1 -run 'TestFX' ./service/

import (
	gocontext "context"
	"fmt"
	"reflect"
	"sort"
	"strings"
	"sync"
	"testing"
	"time"
	"unsafe"

	mqtt "github.com/eclipse/paho.mqtt.golang"
	"github.com/orda-io/orda/client/pkg/context"
	"github.com/orda-io/orda/client/pkg/iface"
	"github.com/orda-io/orda/client/pkg/model"
	"github.com/orda-io/orda/client/pkg/orda"
	"github.com/orda-io/orda/server/managers"
	"github.com/orda-io/orda/server/mongodb"
	"github.com/orda-io/orda/server/notification"
	"github.com/orda-io/orda/server/redis"
	"github.com/orda-io/orda/server/schema"
	"github.com/orda-io/orda/server/wrapper"
	"github.com/stretchr/testify/assert"
	"github.com/stretchr/testify/require"
	"go.mongodb.org/mongo-driver/bson"
	"go.mongodb.org/mongo-driver/bson/primitive"
	"go.mongodb.org/mongo-driver/mongo"
	"go.mongodb.org/mongo-driver/mongo/address"
	"go.mongodb.org/mongo-driver/mongo/description"
	"go.mongodb.org/mongo-driver/mongo/options"
	"go.mongodb.org/mongo-driver/x/bsonx/bsoncore"
	"go.mongodb.org/mongo-driver/x/mongo/driver"
	"go.mongodb.org/mongo-driver/x/mongo/driver/topology"
	"go.mongodb.org/mongo-driver/x/mongo/driver/wiremessage"
)

// fxWorld is a server with the collections colA and colB, and alice of colA who has created and pushed the Document
// colA/profile = {"secret":"of colA"}.
type fxWorld struct {
	t      *testing.T
	svc    *OrdaService
	fake   *fxMongo
	repo   *mongodb.RepositoryMongo
	ctx    iface.OrdaContext
	broker *fxMQTT

	alice    orda.Client
	profileA orda.Document
	wiredA   *wrapper.DatatypeWrapper
	duidA    string
	opsOfA   int
}

func newFXWorld(t *testing.T) *fxWorld {
	w := &fxWorld{t: t, fake: newFxMongo(), broker: &fxMQTT{}}
	mongoClient := w.fake.connect(t)
	w.repo = &mongodb.RepositoryMongo{MongoCollections: &mongodb.MongoCollections{}}
	fxInject(w.repo, "db", mongoClient.Database("orda_fx"))
	fxInject(w.repo, "client", mongoClient)
	fxInject(w.repo.MongoCollections, "mongoClient", mongoClient)
	w.ctx = context.NewOrdaContext(gocontext.TODO(), "fx")
	require.NoError(t, w.repo.InitializeCollections(w.ctx))
	notifier := &notification.Notifier{}
	fxInject(notifier, "mqttClient", w.broker)
	w.svc = NewOrdaService(&managers.Managers{Mongo: w.repo, Notifier: notifier, Redis: &redis.Client{}})
	for _, name := range []string{"colA", "colB"} {
		_, err := w.svc.CreateCollection(gocontext.TODO(), &model.CollectionMessage{Collection: name})
		require.NoError(t, err)
	}

	w.alice = orda.NewClient(orda.NewLocalClientConfig("colA"), "alice")
	w.profileA = w.alice.CreateDocument("profile", nil)
	_, oErr := w.profileA.PutToObject("secret", "of colA")
	require.NoError(t, oErr)
	w.wiredA = wrapper.NewDatatypeWrapper(w.profileA)
	w.register(w.wiredA)
	res := w.sync(w.wiredA)
	require.False(t, res.GetPushPullPackOption().HasErrorBit())
	w.duidA = w.wiredA.GetDUID()
	w.opsOfA = w.countOpsOfA()
	require.Equal(t, 2, w.opsOfA) // the creation snapshot and the put
	w.settle()
	return w
}

func (w *fxWorld) register(d *wrapper.DatatypeWrapper) {
	_, err := w.svc.ProcessClient(gocontext.TODO(), model.NewClientMessage(d.GetClientModel()))
	require.NoError(w.t, err)
}

// sync sends the push-pull pack of the replica to the server and applies the answer, as a client does.
func (w *fxWorld) sync(d *wrapper.DatatypeWrapper) *model.PushPullPack {
	res, err := w.svc.ProcessPushPull(gocontext.TODO(), d.CreatePushPullMessage())
	require.NoError(w.t, err)
	require.Len(w.t, res.PushPullPacks, 1)
	d.ApplyPushPullPack(res.PushPullPacks[0])
	return res.PushPullPacks[0]
}

func (w *fxWorld) countOpsOfA() int {
	return w.fake.count(schema.CollectionNameOperations, bson.M{"duid": w.duidA})
}

// settle waits for the background work (notification, snapshot update) that follows a successful push.
func (w *fxWorld) settle() { w.fake.quiesce() }

// mallory registers a client in colB and builds a Document replica with the given key that carries the DUID of
// colA/profile. state decides the option bits of her pack: SUBSCRIBED = none (an ordinary push-pull),
// DUE_TO_CREATE = create, DUE_TO_SUBSCRIBE = subscribe, DUE_TO_SUBSCRIBE_CREATE = both.
func (w *fxWorld) mallory(key string, state model.StateOfDatatype) (orda.Document, *wrapper.DatatypeWrapper) {
	client := orda.NewClient(orda.NewLocalClientConfig("colB"), "mallory")
	doc := client.CreateDocument(key, nil)
	wired := wrapper.NewDatatypeWrapper(doc)
	wired.SetDUID(w.duidA)
	wired.ResetWired() // drop the snapshot operation of her own creation: her pack carries no operation
	wired.SetState(state)
	wired.SetCheckPoint(0, 0)
	w.register(wired)
	return doc, wired
}

// requireIsolated is what C17 promises for colA/profile after whatever a client of colB has sent.
func (w *fxWorld) requireIsolated(malloryCUID string, answers ...*model.PushPullPack) {
	t := w.t
	w.settle()
	for i, ans := range answers {
		t.Logf("answer %d to mallory: %s", i+1, ans.ToString(true))
		for _, op := range ans.Operations {
			assert.Equal(t, model.TypeOfOperation_ERROR, op.OpType,
				"answer %d hands an operation of colA/profile to a client of colB: %s", i+1, op.ToString())
		}
		assert.True(t, ans.GetPushPullPackOption().HasErrorBit(),
			"answer %d: a pack of a client of colB for the DUID of colA/profile was not refused", i+1)
	}
	datatypeA, err := w.repo.GetDatatype(w.ctx, w.duidA)
	require.NoError(t, err)
	require.NotNil(t, datatypeA)
	colA, err := w.repo.GetCollection(w.ctx, "colA")
	require.NoError(t, err)
	require.Equal(t, colA.Num, datatypeA.CollectionNum)
	require.Equal(t, "profile", datatypeA.Key)
	assert.Nil(t, datatypeA.GetClientInDatatypeDoc(malloryCUID, false), "mallory of colB is a read-write client of colA/profile")
	assert.Nil(t, datatypeA.GetClientInDatatypeDoc(malloryCUID, true), "mallory of colB is a read-only client of colA/profile")
	assert.Equal(t, w.opsOfA, w.countOpsOfA(), "a client of colB appended operations to the log of colA/profile")
	assert.Equal(t, 0, w.fake.count("colB", bson.M{}), "the content of colA/profile was written into the snapshot collection of colB")

	// alice synchronizes: her document is what she wrote.
	res := w.sync(w.wiredA)
	require.False(t, res.GetPushPullPackOption().HasErrorBit())
	assert.JSONEq(t, `{"secret":"of colA"}`, string(w.profileA.ToJSONBytes()), "a client of colB changed colA/profile")
}

// TestFXForeignDUIDPlainPushPull is the reported sequence: mallory of colB sends an ordinary push-pull pack (no
// create / subscribe bit) with the DUID of colA/profile, then pushes an operation that overwrites alice's key.
func TestFXForeignDUIDPlainPushPull(t *testing.T) {
	w := newFXWorld(t)
	doc, wired := w.mallory("anything", model.StateOfDatatype_SUBSCRIBED)

	first := w.sync(wired) // CP(0,0), no operations, option 0
	t.Logf("mallory's replica after the first sync: %s", doc.ToJSONBytes())
	assert.NotContains(t, string(doc.ToJSONBytes()), "of colA", "mallory of colB has read colA/profile")
	_, oErr := doc.PutToObject("secret", "overwritten from colB")
	require.NoError(t, oErr)
	second := w.sync(wired) // one DOC_OBJ_PUT

	w.requireIsolated(wired.GetCUID(), first, second)
}

// TestFXForeignDUIDWithCreateOrSubscribe: step (2) of evaluatePushPullCase is also reached by a pack with the create
// and/or subscribe bit whose key does not exist in the client's collection; the DUID is then looked up the same way.
func TestFXForeignDUIDWithCreateOrSubscribe(t *testing.T) {
	for _, state := range []model.StateOfDatatype{
		model.StateOfDatatype_DUE_TO_CREATE,
		model.StateOfDatatype_DUE_TO_SUBSCRIBE,
		model.StateOfDatatype_DUE_TO_SUBSCRIBE_CREATE,
	} {
		state := state
		t.Run(state.String(), func(t *testing.T) {
			w := newFXWorld(t)
			doc, wired := w.mallory("unused-key-of-colB", state)
			first := w.sync(wired)
			w.requireIsolated(wired.GetCUID(), first)
			assert.NotContains(t, string(doc.ToJSONBytes()), "of colA", "mallory of colB has read colA/profile")
			colB, err := w.repo.GetCollection(w.ctx, "colB")
			require.NoError(t, err)
			created, err := w.repo.GetDatatypeByKey(w.ctx, colB.Num, "unused-key-of-colB")
			require.NoError(t, err)
			require.Nil(t, created)
		})
	}
}

// TestFXControlLegitimateUsesOfStep2 are the legitimate requests that reach the lookup by DUID; they have to work
// before and after the repair:
//   - the ordinary push-pull of the creator (alice) and of a subscriber of the same collection (bob);
//   - the REST patch (PatchDocument) of an existing document: its volatile patch client sends an ordinary pack;
//   - the REST patch of a key that does not exist yet (create bit, fresh DUID), for a key that another collection
//     uses as well;
//   - the snapshot update that follows every one of these pushes (it has no pack: it gets datatypeDoc and
//     collectionDoc from the handler).
func TestFXControlLegitimateUsesOfStep2(t *testing.T) {
	w := newFXWorld(t)

	// bob of colA subscribes (step (1) finds the key), then both exchange operations with ordinary packs (step (2)).
	bob := orda.NewClient(orda.NewLocalClientConfig("colA"), "bob")
	profileB := bob.SubscribeDocument("profile", nil)
	wiredB := wrapper.NewDatatypeWrapper(profileB)
	w.register(wiredB)
	res := w.sync(wiredB)
	require.False(t, res.GetPushPullPackOption().HasErrorBit())
	require.Equal(t, w.duidA, wiredB.GetDUID())
	require.JSONEq(t, `{"secret":"of colA"}`, string(profileB.ToJSONBytes()))
	_, oErr := profileB.PutToObject("bob", "was here")
	require.NoError(t, oErr)
	res = w.sync(wiredB)
	require.False(t, res.GetPushPullPackOption().HasErrorBit())
	require.Equal(t, uint32(model.PushPullBitNormal), wiredB.CreatePushPullPack().Option)
	_, oErr = w.profileA.PutToObject("alice", "too")
	require.NoError(t, oErr)
	res = w.sync(w.wiredA)
	require.False(t, res.GetPushPullPackOption().HasErrorBit())
	res = w.sync(wiredB)
	require.False(t, res.GetPushPullPackOption().HasErrorBit())
	want := `{"secret":"of colA","bob":"was here","alice":"too"}`
	require.JSONEq(t, want, string(w.profileA.ToJSONBytes()))
	require.JSONEq(t, want, string(profileB.ToJSONBytes()))
	w.settle()

	// the REST patch of the existing colA/profile.
	patched, err := w.svc.PatchDocument(gocontext.TODO(), &model.PatchMessage{Collection: "colA", Key: "profile",
		Json: `{"secret":"of colA","bob":"was here","alice":"too","rest":"patched"}`})
	require.NoError(t, err)
	w.settle()
	want = `{"secret":"of colA","bob":"was here","alice":"too","rest":"patched"}`
	require.JSONEq(t, want, patched.Json)
	res = w.sync(w.wiredA)
	require.False(t, res.GetPushPullPackOption().HasErrorBit())
	require.JSONEq(t, want, string(w.profileA.ToJSONBytes()))

	// the REST patch of colB/profile, which does not exist yet, and then of the existing colB/profile.
	for _, json := range []string{`{"title":"profile of colB"}`, `{"title":"profile of colB","n":1}`} {
		patched, err = w.svc.PatchDocument(gocontext.TODO(), &model.PatchMessage{Collection: "colB", Key: "profile", Json: json})
		require.NoError(t, err)
		w.settle()
		require.JSONEq(t, json, patched.Json)
	}
	colB, oErr2 := w.repo.GetCollection(w.ctx, "colB")
	require.NoError(t, oErr2)
	datatypeB, oErr3 := w.repo.GetDatatypeByKey(w.ctx, colB.Num, "profile")
	require.NoError(t, oErr3)
	require.NotNil(t, datatypeB)
	require.NotEqual(t, w.duidA, datatypeB.DUID)
	// carol of colB subscribes to what the patches have built.
	carol := orda.NewClient(orda.NewLocalClientConfig("colB"), "carol")
	profileC := carol.SubscribeDocument("profile", nil)
	wiredC := wrapper.NewDatatypeWrapper(profileC)
	w.register(wiredC)
	res = w.sync(wiredC)
	require.False(t, res.GetPushPullPackOption().HasErrorBit())
	require.JSONEq(t, `{"title":"profile of colB","n":1}`, string(profileC.ToJSONBytes()))
	// the snapshots of both documents were updated in their own collections.
	require.Eventually(t, func() bool {
		return w.fake.count("colA", bson.M{"_id": "profile"}) == 1 && w.fake.count("colB", bson.M{"_id": "profile"}) == 1
	}, 5*time.Second, 10*time.Millisecond)
	res = w.sync(w.wiredA)
	require.False(t, res.GetPushPullPackOption().HasErrorBit())
	require.JSONEq(t, want, string(w.profileA.ToJSONBytes()))
}

// fxInject sets an unexported field of a struct of another package: the repository and the notifier have no
// constructor that accepts a fake.
func fxInject(obj interface{}, field string, value interface{}) {
	f := reflect.ValueOf(obj).Elem().FieldByName(field)
	reflect.NewAt(f.Type(), unsafe.Pointer(f.UnsafeAddr())).Elem().Set(reflect.ValueOf(value))
}

// fxMQTT is an MQTT client that only records the topics published to.
type fxMQTT struct {
	mqtt.Client
	mu     sync.Mutex
	topics []string
}

type fxDoneToken struct{}

func (fxDoneToken) Wait() bool                     { return true }
func (fxDoneToken) WaitTimeout(time.Duration) bool { return true }
func (fxDoneToken) Error() error                   { return nil }
func (fxDoneToken) Done() <-chan struct{} {
	ch := make(chan struct{})
	close(ch)
	return ch
}

func (its *fxMQTT) Publish(topic string, _ byte, _ bool, _ interface{}) mqtt.Token {
	its.mu.Lock()
	defer its.mu.Unlock()
	its.topics = append(its.topics, topic)
	return fxDoneToken{}
}

func (its *fxMQTT) published() []string {
	its.mu.Lock()
	defer its.mu.Unlock()
	return append([]string{}, its.topics...)
}

// ---------------------------------------------------------------------------------------------------------------
// A tiny in-memory MongoDB: a driver.Deployment that answers the handful of commands Orda's repository sends.
// It keeps the documents of each collection, understands equality / $gte / $lte filters, one-key sorts, limits,
// $set / $inc / $currentDate updates with upsert, and lets a test fxInject a fault into one chosen command.
// ---------------------------------------------------------------------------------------------------------------

type fxMongo struct {
	mu      sync.Mutex
	colls   map[string][]bson.M
	fault   func(cmd, coll string) bool
	cmdLog  []string
	pending bson.D
	updates chan description.Topology
}

var fxDescription = description.Server{
	CanonicalAddr:         address.Address("localhost:27017"),
	MaxDocumentSize:       16777216,
	MaxMessageSize:        48000000,
	MaxBatchCount:         100000,
	SessionTimeoutMinutes: 30,
	Kind:                  description.RSPrimary,
	WireVersion:           &description.VersionRange{Max: topology.SupportedWireVersions.Max},
}

func newFxMongo() *fxMongo { return &fxMongo{colls: make(map[string][]bson.M)} }

func (f *fxMongo) SelectServer(gocontext.Context, description.ServerSelector) (driver.Server, error) {
	return f, nil
}
func (f *fxMongo) Kind() description.TopologyKind                          { return description.Single }
func (f *fxMongo) Connection(gocontext.Context) (driver.Connection, error) { return f, nil }
func (f *fxMongo) MinRTT() time.Duration                                   { return 0 }
func (f *fxMongo) RTT90() time.Duration                                    { return 0 }
func (f *fxMongo) Connect() error                                          { return nil }
func (f *fxMongo) Disconnect(gocontext.Context) error                      { return nil }
func (f *fxMongo) Subscribe() (*driver.Subscription, error) {
	if f.updates == nil {
		f.updates = make(chan description.Topology, 1)
		f.updates <- description.Topology{SessionTimeoutMinutes: 30}
	}
	return &driver.Subscription{Updates: f.updates}, nil
}
func (f *fxMongo) Unsubscribe(*driver.Subscription) error { return nil }
func (f *fxMongo) Description() description.Server        { return fxDescription }
func (f *fxMongo) Close() error                           { return nil }
func (f *fxMongo) ID() string                             { return "<fake>" }
func (f *fxMongo) ServerConnectionID() *int32             { id := int32(1); return &id }
func (f *fxMongo) Address() address.Address               { return fxDescription.CanonicalAddr }
func (f *fxMongo) Stale() bool                            { return false }

// WriteWireMessage decodes the OP_MSG command, executes it and keeps the reply for ReadWireMessage.
// The connection is used by one operation at a time: the lock taken here is released when the reply is read.
func (f *fxMongo) WriteWireMessage(_ gocontext.Context, wm []byte) error {
	f.mu.Lock()
	_, _, _, _, rem, ok := wiremessage.ReadHeader(wm)
	if !ok {
		f.mu.Unlock()
		return fmt.Errorf("fxMongo: malformed header")
	}
	_, rem, _ = wiremessage.ReadMsgFlags(rem)
	cmd := bson.D{}
	for len(rem) > 0 {
		var stype wiremessage.SectionType
		stype, rem, _ = wiremessage.ReadMsgSectionType(rem)
		if stype == wiremessage.SingleDocument {
			var doc bsoncore.Document
			doc, rem, _ = wiremessage.ReadMsgSectionSingleDocument(rem)
			var body bson.D
			if err := bson.Unmarshal(doc, &body); err != nil {
				f.mu.Unlock()
				return err
			}
			cmd = append(body, cmd...)
		} else {
			var id string
			var docs []bsoncore.Document
			id, docs, rem, _ = wiremessage.ReadMsgSectionDocumentSequence(rem)
			arr := bson.A{}
			for _, d := range docs {
				m := bson.M{}
				if err := bson.Unmarshal(d, &m); err != nil {
					f.mu.Unlock()
					return err
				}
				arr = append(arr, m)
			}
			cmd = append(cmd, bson.E{Key: id, Value: arr})
		}
	}
	f.pending = f.execute(cmd)
	return nil
}

func (f *fxMongo) ReadWireMessage(_ gocontext.Context, dst []byte) ([]byte, error) {
	defer f.mu.Unlock()
	var idx int32
	idx, dst = wiremessage.AppendHeaderStart(dst, wiremessage.NextRequestID(), 0, wiremessage.OpMsg)
	dst = wiremessage.AppendMsgFlags(dst, 0)
	dst = wiremessage.AppendMsgSectionType(dst, wiremessage.SingleDocument)
	b, err := bson.Marshal(f.pending)
	if err != nil {
		return dst, err
	}
	dst = append(dst, b...)
	return bsoncore.UpdateLength(dst, idx, int32(len(dst[idx:]))), nil
}

func fxToM(v interface{}) bson.M {
	switch c := v.(type) {
	case bson.M:
		return c
	case bson.D:
		return c.Map()
	case nil:
		return bson.M{}
	}
	panic(fmt.Sprintf("fxMongo: not a document: %T", v))
}

func fxToA(v interface{}) bson.A {
	if a, ok := v.(bson.A); ok {
		return a
	}
	return nil
}

func fxNum(v interface{}) (float64, bool) {
	switch c := v.(type) {
	case int:
		return float64(c), true
	case int32:
		return float64(c), true
	case int64:
		return float64(c), true
	case float64:
		return c, true
	}
	return 0, false
}

func fxCompare(a, b interface{}) int {
	if x, ok := fxNum(a); ok {
		if y, ok := fxNum(b); ok {
			switch {
			case x < y:
				return -1
			case x > y:
				return 1
			}
			return 0
		}
	}
	return strings.Compare(fmt.Sprintf("%v", a), fmt.Sprintf("%v", b))
}

func fxAsCondition(v interface{}) (bson.M, bool) {
	switch c := v.(type) {
	case bson.M:
		return c, true
	case bson.D:
		return c.Map(), true
	}
	return nil, false
}

func fxMatches(doc bson.M, filter bson.M) bool {
	for k, cond := range filter {
		val, has := doc[k]
		if c, ok := fxAsCondition(cond); ok {
			for op, arg := range c {
				switch op {
				case "$gte":
					if !has || fxCompare(val, arg) < 0 {
						return false
					}
				case "$lte":
					if !has || fxCompare(val, arg) > 0 {
						return false
					}
				case "$exists":
					if has != arg.(bool) {
						return false
					}
				default:
					panic("fxMongo: unsupported operator " + op)
				}
			}
			continue
		}
		if !has || fxCompare(val, cond) != 0 {
			return false
		}
	}
	return true
}

func fxApplyUpdate(doc bson.M, u bson.M) {
	for op, arg := range u {
		switch op {
		case "$set":
			for k, v := range fxToM(arg) {
				doc[k] = v
			}
		case "$inc":
			for k, v := range fxToM(arg) {
				old, _ := fxNum(doc[k])
				delta, _ := fxNum(v)
				doc[k] = int32(old + delta)
			}
		case "$currentDate":
			for k := range fxToM(arg) {
				doc[k] = primitive.NewDateTimeFromTime(time.Now())
			}
		default:
			panic("fxMongo: unsupported update operator " + op)
		}
	}
}

func fxIsReplacement(u bson.M) bool {
	for k := range u {
		if strings.HasPrefix(k, "$") {
			return false
		}
	}
	return true
}

func (f *fxMongo) upsertDoc(q, u bson.M) bson.M {
	doc := bson.M{}
	for k, v := range q {
		if _, isCond := fxAsCondition(v); !isCond {
			doc[k] = v
		}
	}
	if fxIsReplacement(u) {
		for k, v := range u {
			doc[k] = v
		}
	} else {
		fxApplyUpdate(doc, u)
	}
	if _, ok := doc["_id"]; !ok {
		doc["_id"] = primitive.NewObjectID()
	}
	return doc
}

func fxCursor(ns string, docs []bson.M) bson.D {
	batch := bson.A{}
	for _, d := range docs {
		batch = append(batch, d)
	}
	return bson.D{
		{Key: "cursor", Value: bson.D{{Key: "id", Value: int64(0)}, {Key: "ns", Value: ns}, {Key: "firstBatch", Value: batch}}},
		{Key: "ok", Value: 1},
	}
}

func (f *fxMongo) execute(cmd bson.D) bson.D {
	name := cmd[0].Key
	coll, _ := cmd[0].Value.(string)
	c := cmd.Map()
	db, _ := c["$db"].(string)
	f.cmdLog = append(f.cmdLog, name+" "+coll)
	if f.fault != nil && f.fault(name, coll) {
		return bson.D{{Key: "ok", Value: 0}, {Key: "errmsg", Value: "injected fault"}, {Key: "code", Value: 2}, {Key: "codeName", Value: "BadValue"}}
	}
	okN := func(n int) bson.D { return bson.D{{Key: "n", Value: int32(n)}, {Key: "ok", Value: 1}} }
	switch name {
	case "find":
		var out []bson.M
		for _, d := range f.colls[coll] {
			if fxMatches(d, fxToM(c["filter"])) {
				out = append(out, d)
			}
		}
		if s, ok := c["sort"]; ok {
			for k, dir := range fxToM(s) {
				d, _ := fxNum(dir)
				key := k
				sort.SliceStable(out, func(i, j int) bool { return float64(fxCompare(out[i][key], out[j][key]))*d < 0 })
			}
		}
		if l, ok := fxNum(c["limit"]); ok && l > 0 && int(l) < len(out) {
			out = out[:int(l)]
		}
		return fxCursor(db+"."+coll, out)
	case "insert":
		docs := fxToA(c["documents"])
		for _, d := range docs {
			f.colls[coll] = append(f.colls[coll], fxToM(d))
		}
		return okN(len(docs))
	case "delete":
		n := 0
		for _, del := range fxToA(c["deletes"]) {
			spec := fxToM(del)
			limit, _ := fxNum(spec["limit"])
			var kept []bson.M
			removed := 0
			for _, d := range f.colls[coll] {
				if fxMatches(d, fxToM(spec["q"])) && (limit == 0 || removed < int(limit)) {
					removed++
					continue
				}
				kept = append(kept, d)
			}
			f.colls[coll] = kept
			n += removed
		}
		return okN(n)
	case "update":
		n, modified := 0, 0
		upserted := bson.A{}
		for i, upd := range fxToA(c["updates"]) {
			spec := fxToM(upd)
			q, u := fxToM(spec["q"]), fxToM(spec["u"])
			multi, _ := spec["multi"].(bool)
			found := false
			for idx, d := range f.colls[coll] {
				if !fxMatches(d, q) {
					continue
				}
				found = true
				n++
				modified++
				if fxIsReplacement(u) {
					id := d["_id"]
					nd := bson.M{"_id": id}
					for k, v := range u {
						nd[k] = v
					}
					f.colls[coll][idx] = nd
				} else {
					fxApplyUpdate(d, u)
				}
				if !multi {
					break
				}
			}
			if up, _ := spec["upsert"].(bool); !found && up {
				doc := f.upsertDoc(q, u)
				f.colls[coll] = append(f.colls[coll], doc)
				n++
				upserted = append(upserted, bson.D{{Key: "index", Value: int32(i)}, {Key: "_id", Value: doc["_id"]}})
			}
		}
		res := bson.D{{Key: "n", Value: int32(n)}, {Key: "nModified", Value: int32(modified)}}
		if len(upserted) > 0 {
			res = append(res, bson.E{Key: "upserted", Value: upserted})
		}
		return append(res, bson.E{Key: "ok", Value: 1})
	case "findAndModify":
		q, u := fxToM(c["query"]), fxToM(c["update"])
		var doc bson.M
		for _, d := range f.colls[coll] {
			if fxMatches(d, q) {
				doc = d
				break
			}
		}
		if doc == nil {
			if up, _ := c["upsert"].(bool); !up {
				return bson.D{{Key: "value", Value: nil}, {Key: "ok", Value: 1}}
			}
			doc = f.upsertDoc(q, u)
			f.colls[coll] = append(f.colls[coll], doc)
		} else {
			fxApplyUpdate(doc, u)
		}
		return bson.D{{Key: "value", Value: doc}, {Key: "ok", Value: 1}}
	case "listCollections":
		var out []bson.M
		want, filtered := fxToM(c["filter"])["name"]
		var names []string
		for n := range f.colls {
			names = append(names, n)
		}
		sort.Strings(names)
		for _, n := range names {
			if !filtered || want == n {
				out = append(out, bson.M{"name": n, "type": "collection"})
			}
		}
		return fxCursor(db+".$cmd.listCollections", out)
	case "drop":
		delete(f.colls, coll)
		return bson.D{{Key: "ok", Value: 1}}
	case "createIndexes", "endSessions", "ping", "commitTransaction", "abortTransaction":
		return bson.D{{Key: "ok", Value: 1}}
	}
	return bson.D{{Key: "ok", Value: 0}, {Key: "errmsg", Value: "no such command: " + name}, {Key: "code", Value: 59}}
}

// put stores a document (given as a struct or a map) into a collection of the fake.
func (f *fxMongo) put(t *testing.T, coll string, doc interface{}) {
	b, err := bson.Marshal(doc)
	if err != nil {
		t.Fatal(err)
	}
	m := bson.M{}
	if err := bson.Unmarshal(b, &m); err != nil {
		t.Fatal(err)
	}
	f.mu.Lock()
	defer f.mu.Unlock()
	f.colls[coll] = append(f.colls[coll], m)
}

// quiesce waits until the background work of the server (notification, snapshot update) sends no more commands.
func (f *fxMongo) quiesce() {
	seen := -1
	for i := 0; i < 100; i++ {
		f.mu.Lock()
		n := len(f.cmdLog)
		f.mu.Unlock()
		if n == seen {
			return
		}
		seen = n
		time.Sleep(100 * time.Millisecond)
	}
}

func (f *fxMongo) count(coll string, filter bson.M) int {
	f.mu.Lock()
	defer f.mu.Unlock()
	n := 0
	for _, d := range f.colls[coll] {
		if fxMatches(d, filter) {
			n++
		}
	}
	return n
}

func (f *fxMongo) connect(t *testing.T) *mongo.Client {
	opts := options.Client()
	opts.Deployment = f
	client, err := mongo.NewClient(opts)
	if err != nil {
		t.Fatal(err)
	}
	if err := client.Connect(gocontext.TODO()); err != nil {
		t.Fatal(err)
	}
	return client
}
