// Reproducing test of defect "patch-root-path". It belongs in the package directory client/pkg/orda
// (run: cd client && go test -vet=off -count=1 -run TestFX ./pkg/orda/).
package orda

import (
	"testing"

	"github.com/orda-io/orda/client/pkg/model"
	"github.com/orda-io/orda/client/pkg/testonly"
	"github.com/stretchr/testify/require"
)

// fxCatch runs f and returns the recovered panic value (nil when f did not panic).
func fxCatch(f func()) (r interface{}) {
	defer func() { r = recover() }()
	f()
	return nil
}

func fxDoc(t *testing.T) Document {
	d, err := newDocument(testonly.NewBase(t.Name(), model.TypeOfDatatype_DOCUMENT), nil, nil)
	require.NoError(t, err)
	return d
}

func fxPending(d interface{}) int {
	switch c := d.(type) {
	case *document:
		return len(c.CreatePushPullPack().Operations)
	case *list:
		return len(c.CreatePushPullPack().Operations)
	case *ordaMap:
		return len(c.CreatePushPullPack().Operations)
	}
	panic("unknown")
}

// 4. PatchByJSON with a JSON text that is not an object
func TestFXPatchByJSONNonObject(t *testing.T) {
	doc := fxDoc(t)
	_, err := doc.PutToObject("a", 1)
	require.NoError(t, err)
	before := fxPending(doc)
	for _, js := range []string{"[1]", "1", `"s"`, "null", "true"} {
		var pErr error
		pn := fxCatch(func() {
			if _, e := doc.PatchByJSON(js); e != nil {
				pErr = e
			}
		})
		require.Nil(t, pn, "PatchByJSON(%s) panicked", js)
		require.Error(t, pErr, "PatchByJSON(%s)", js)
		require.Equal(t, `{"a":1}`, string(doc.ToJSONBytes()))
		require.Equal(t, before, fxPending(doc))
	}
	// on an empty document
	empty := fxDoc(t)
	pn := fxCatch(func() {
		_, e := empty.PatchByJSON("[1]")
		require.Error(t, e)
	})
	require.Nil(t, pn)
	require.Equal(t, `{}`, string(empty.ToJSONBytes()))
	// a legitimate patch still works
	_, err = doc.PatchByJSON(`{"a":2,"b":[1]}`)
	require.NoError(t, err)
	require.Equal(t, `{"a":2,"b":[1]}`, string(doc.ToJSONBytes()))
}
