package orda

// Reproducing tests of FX12 defect (b) "response-pack-without-checkpoint-or-operation-id".
// They belong in the package directory client/pkg/orda (package-internal: they use newCounter).
// (Delivered as out/<defect>/zz_fx_test.go; all identifiers start with fxb/TestFXB, so the file can live next to
// the test of defect (a) under another file name, e.g. zz_fxb_test.go.)
// Run: cd client && go test -vet=off -count=1 -run 'TestFXB' ./pkg/orda/

import (
	"strings"
	"testing"
	"time"

	"github.com/orda-io/orda/client/pkg/errors"
	"github.com/orda-io/orda/client/pkg/model"
	"github.com/orda-io/orda/client/pkg/operations"
	"github.com/orda-io/orda/client/pkg/testonly"
	"github.com/stretchr/testify/require"
)

const fxbOtherCUID = "fedcba9876543210"

func fxbCounter(t *testing.T, key string, state model.StateOfDatatype) (*counter, chan []errors.OrdaError) {
	reported := make(chan []errors.OrdaError, 8)
	base := testonly.NewBase(key, model.TypeOfDatatype_COUNTER)
	base.SetState(state)
	c, err := newCounter(base, testonly.NewTestWire(false), NewHandlers(nil, nil,
		func(dt Datatype, errs ...errors.OrdaError) {
			reported <- errs
		}))
	require.NoError(t, err)
	require.NoError(t, c.(*counter).SubscribeOrCreate(state))
	return c.(*counter), reported
}

func fxbExpectOneError(t *testing.T, reported chan []errors.OrdaError, code errors.ErrorCode, msg string) {
	select {
	case errs := <-reported:
		require.Len(t, errs, 1)
		require.Equal(t, code, errs[0].GetCode())
		require.True(t, strings.Contains(errs[0].Error(), msg), "got %q, want something with %q", errs[0].Error(), msg)
	case <-time.After(5 * time.Second):
		t.Fatal("nothing was reported through the error handler")
	}
}

func fxbExpectNoError(t *testing.T, reported chan []errors.OrdaError) {
	select {
	case errs := <-reported:
		t.Fatalf("unexpected errors: %v", errs)
	case <-time.After(100 * time.Millisecond):
	}
}

// fxbSubscribed makes a counter with value 1 that the server has acknowledged: SUBSCRIBED, checkpoint (s:2 c:2).
func fxbSubscribed(t *testing.T, key string) (*counter, chan []errors.OrdaError) {
	c, reported := fxbCounter(t, key, model.StateOfDatatype_DUE_TO_CREATE)
	_, err := c.Increase()
	require.NoError(t, err)
	req := c.CreatePushPullPack()
	ack := req.GetResponsePushPullPack()
	ack.CheckPoint.Sseq += uint64(len(req.Operations))
	c.ApplyPushPullPack(ack)
	fxbExpectNoError(t, reported)
	require.Equal(t, model.StateOfDatatype_SUBSCRIBED, c.GetState())
	return c, reported
}

func fxbIncrease(delta int32, id *model.OperationID) *model.Operation {
	op := operations.NewIncreaseOperation(delta)
	op.SetID(id)
	return op.ToModelOperation()
}

// B1: a regular response pack (no error bit, no subscribe bit) whose CheckPoint is missing.
// In protobuf the sub-message is optional: a pack arrives with CheckPoint == nil when the sender left it out.
func TestFXBResponseWithoutCheckPoint(t *testing.T) {
	c, reported := fxbSubscribed(t, "fxb-nocp")
	_, err := c.Increase()
	require.NoError(t, err)

	res := &model.PushPullPack{
		Key:    c.GetKey(),
		DUID:   c.GetDUID(),
		Type:   model.TypeOfDatatype_COUNTER,
		Option: uint32(model.PushPullBitNormal),
		Operations: []*model.Operation{
			fxbIncrease(5, &model.OperationID{Lamport: 9, CUID: fxbOtherCUID, Seq: 1}),
		},
	}
	require.Nil(t, res.CheckPoint)
	require.NotPanics(t, func() { c.ApplyPushPullPack(res) },
		"a response without CheckPoint must be reported, not crash the sync path")
	fxbExpectOneError(t, reported, errors.ClientSync, "response without CheckPoint")

	// nothing of it is applied (without the checkpoint it is not known which operations are new), the datatype goes on
	require.Equal(t, int32(2), c.Get())
	again := c.CreatePushPullPack()
	require.Equal(t, "(s:2 c:3)", again.CheckPoint.ToString())
	require.Len(t, again.Operations, 1)
	res.CheckPoint = model.NewSetCheckPoint(4, 3)
	require.NotPanics(t, func() { c.ApplyPushPullPack(res) })
	fxbExpectNoError(t, reported)
	require.Equal(t, int32(7), c.Get())
	require.Equal(t, "(s:4 c:3)", c.CreatePushPullPack().CheckPoint.ToString())
}

// B2: a subscribe answer with its SnapshotOperation but without CheckPoint, for a datatype that waits for it.
func TestFXBSubscribeResponseWithoutCheckPoint(t *testing.T) {
	c, reported := fxbCounter(t, "fxb-sub-nocp", model.StateOfDatatype_DUE_TO_SUBSCRIBE_CREATE)
	_, err := c.Increase()
	require.NoError(t, err)
	require.Len(t, c.CreatePushPullPack().Operations, 2)

	snap := operations.NewSnapshotOperation(model.TypeOfDatatype_COUNTER, []byte(`{"Counter":7}`))
	snap.SetID(&model.OperationID{Lamport: 1, CUID: fxbOtherCUID, Seq: 1})
	res := &model.PushPullPack{
		Key:        c.GetKey(),
		DUID:       "0123456789abcdef",
		Type:       model.TypeOfDatatype_COUNTER,
		Option:     uint32(model.PushPullBitSubscribe),
		Operations: []*model.Operation{snap.ToModelOperation()},
	}
	require.NotPanics(t, func() { c.ApplyPushPullPack(res) },
		"a subscribe response without CheckPoint must be reported, not crash the sync path")
	fxbExpectOneError(t, reported, errors.ClientSync, "response without CheckPoint")

	// the replica was not wiped by the refused answer: it still has its value and the operations to push
	require.Equal(t, model.StateOfDatatype_DUE_TO_SUBSCRIBE_CREATE, c.GetState())
	require.Equal(t, int32(1), c.Get())
	require.Len(t, c.CreatePushPullPack().Operations, 2)

	res.CheckPoint = model.NewSetCheckPoint(1, 0)
	require.NotPanics(t, func() { c.ApplyPushPullPack(res) })
	fxbExpectNoError(t, reported)
	require.Equal(t, model.StateOfDatatype_SUBSCRIBED, c.GetState())
	require.Equal(t, int32(7), c.Get())
}

// B3: a pulled operation without ID (the sub-message is optional as well).
func TestFXBPulledOperationWithoutID(t *testing.T) {
	c, reported := fxbSubscribed(t, "fxb-noid")
	res := &model.PushPullPack{
		Key:        c.GetKey(),
		DUID:       c.GetDUID(),
		Type:       model.TypeOfDatatype_COUNTER,
		Option:     uint32(model.PushPullBitNormal),
		CheckPoint: model.NewSetCheckPoint(4, 2),
		Operations: []*model.Operation{
			fxbIncrease(5, &model.OperationID{Lamport: 9, CUID: fxbOtherCUID, Seq: 1}),
			fxbIncrease(100, nil),
		},
	}
	require.NotPanics(t, func() { c.ApplyPushPullPack(res) },
		"a pulled operation without ID must be reported, not crash the sync path")
	fxbExpectOneError(t, reported, errors.DatatypeTransaction, "no ID")
	// the operation before it was applied, the one without ID was not, the lock of the datatype is free
	require.Equal(t, int32(6), c.Get())
	v, err := c.Increase()
	require.NoError(t, err)
	require.Equal(t, int32(7), v)
}

// B3, inside a transaction: nothing of the transaction that contains the operation without ID is executed.
func TestFXBOperationWithoutIDInsideTransaction(t *testing.T) {
	c, reported := fxbSubscribed(t, "fxb-noid-tx")
	txOp := operations.NewTransactionOperation("fxb")
	txOp.SetID(&model.OperationID{Lamport: 9, CUID: fxbOtherCUID, Seq: 1})
	txOp.SetNumOfOps(3)
	res := &model.PushPullPack{
		Key:        c.GetKey(),
		DUID:       c.GetDUID(),
		Type:       model.TypeOfDatatype_COUNTER,
		Option:     uint32(model.PushPullBitNormal),
		CheckPoint: model.NewSetCheckPoint(5, 2),
		Operations: []*model.Operation{
			txOp.ToModelOperation(),
			fxbIncrease(5, &model.OperationID{Lamport: 10, CUID: fxbOtherCUID, Seq: 2}),
			fxbIncrease(100, nil),
		},
	}
	require.NotPanics(t, func() { c.ApplyPushPullPack(res) })
	fxbExpectOneError(t, reported, errors.DatatypeTransaction, "no ID")
	require.Equal(t, int32(1), c.Get())
	v, err := c.Increase()
	require.NoError(t, err)
	require.Equal(t, int32(2), v)
}

// Findings of the same family that are NOT repaired (see README.md): this test only records what happens, it never fails.
func TestFXBOpenFindings(t *testing.T) {
	observe := func(name string, f func()) {
		defer func() {
			if r := recover(); r != nil {
				t.Logf("OPEN %s: panic: %v", name, r)
				return
			}
			t.Logf("OPEN %s: no panic", name)
		}()
		f()
	}
	// 1. an error pack whose ErrorOperation has no body
	c1, _ := fxbSubscribed(t, "fxb-open-1")
	observe("ErrorOperation without body", func() {
		c1.ApplyPushPullPack(&model.PushPullPack{
			Key: c1.GetKey(), DUID: c1.GetDUID(), Option: uint32(model.PushPullBitError),
			CheckPoint: model.NewSetCheckPoint(2, 2),
			Operations: []*model.Operation{{OpType: model.TypeOfOperation_ERROR, ID: model.NewOperationID()}},
		})
	})
	// 2. an operation of a type that this client does not know (a newer server)
	c2, _ := fxbSubscribed(t, "fxb-open-2")
	observe("operation of an unknown type", func() {
		c2.ApplyPushPullPack(&model.PushPullPack{
			Key: c2.GetKey(), DUID: c2.GetDUID(), Option: uint32(model.PushPullBitNormal),
			CheckPoint: model.NewSetCheckPoint(3, 2),
			Operations: []*model.Operation{{
				OpType: model.TypeOfOperation(999),
				ID:     &model.OperationID{Lamport: 9, CUID: fxbOtherCUID, Seq: 1},
				Body:   []byte(`{}`),
			}},
		})
	})
	// 3. a subscribe answer whose CheckPoint is behind the operations it carries (Sseq 0, one operation)
	c3, _ := fxbCounter(t, "fxb-open-3", model.StateOfDatatype_DUE_TO_SUBSCRIBE)
	snap := operations.NewSnapshotOperation(model.TypeOfDatatype_COUNTER, []byte(`{"Counter":7}`))
	snap.SetID(&model.OperationID{Lamport: 1, CUID: fxbOtherCUID, Seq: 1})
	observe("subscribe answer with CheckPoint (s:0 c:0) and one operation", func() {
		c3.ApplyPushPullPack(&model.PushPullPack{
			Key: c3.GetKey(), DUID: "0123456789abcdef", Option: uint32(model.PushPullBitSubscribe),
			CheckPoint: model.NewSetCheckPoint(0, 0),
			Operations: []*model.Operation{snap.ToModelOperation()},
		})
	})
	t.Logf("OPEN 3: value %d, checkpoint of the next request %s, NeedPull(1000)=%v",
		c3.Get(), c3.CreatePushPullPack().CheckPoint.ToString(), c3.NeedPull(1000))
	// 4. an accepted creation whose answer has no DUID
	c4, _ := fxbCounter(t, "fxb-open-4", model.StateOfDatatype_DUE_TO_CREATE)
	req := c4.CreatePushPullPack()
	ack := req.GetResponsePushPullPack()
	ack.DUID = ""
	ack.CheckPoint.Sseq += uint64(len(req.Operations))
	observe("answer without DUID", func() { c4.ApplyPushPullPack(ack) })
	t.Logf("OPEN 4: state %v, DUID of the replica %q", c4.GetState(), c4.GetDUID())
	time.Sleep(50 * time.Millisecond) // let the handler goroutines end
}
