package orda

import (
	gocontext "context"
	"testing"

	"github.com/orda-io/orda/client/pkg/context"
	"github.com/orda-io/orda/client/pkg/internal/datatypes"
	"github.com/orda-io/orda/client/pkg/model"
	"github.com/orda-io/orda/client/pkg/testonly"
	"github.com/orda-io/orda/client/pkg/types"
	"github.com/stretchr/testify/require"
)

func f26Base(key string, st model.StateOfDatatype) *datatypes.BaseDatatype {
	cm := &model.Client{CUID: types.NewUID()}
	ctx := context.NewClientContext(gocontext.TODO(), cm)
	return datatypes.NewBaseDatatype(key, model.TypeOfDatatype_COUNTER, ctx, st)
}

// a subscribe response is delivered a second time (retry, duplicated message) after the replica has
// subscribed and has executed operations it has not pushed yet.
func TestProbeDuplicatedSubscribeResponse(t *testing.T) {
	owner, _ := newCounter(testonly.NewBase("k", model.TypeOfDatatype_COUNTER), testonly.NewTestWire(false), nil)
	_, _ = owner.IncreaseBy(7)
	snapOp, err := owner.(*counter).CreateSnapshotOperation()
	require.NoError(t, err)
	snapOp.SetID(model.NewOperationIDWithCUID(types.NewUID()))
	serverDUID := owner.(*counter).GetDUID()

	c, oErr := newCounter(f26Base("k", model.StateOfDatatype_DUE_TO_SUBSCRIBE), testonly.NewTestWire(false), nil)
	require.NoError(t, oErr)
	x := c.(*counter)
	mk := func() *model.PushPullPack {
		opt := model.PushPullBitNormal
		return &model.PushPullPack{Key: "k", DUID: serverDUID, Option: uint32(*opt.SetSubscribeBit()), Type: model.TypeOfDatatype_COUNTER,
			CheckPoint: &model.CheckPoint{Sseq: 1, Cseq: 0}, Operations: []*model.Operation{snapOp.ToModelOperation()}}
	}
	x.ApplyPushPullPack(mk())
	require.Equal(t, int32(7), x.Get())
	require.Equal(t, model.StateOfDatatype_SUBSCRIBED, x.GetState())

	// the subscribed replica works locally; nothing is pushed yet
	_, _ = x.IncreaseBy(5)
	require.Equal(t, int32(12), x.Get())
	require.Equal(t, 1, len(x.CreatePushPullPack().Operations))

	// the same subscribe response arrives again
	x.ApplyPushPullPack(mk())
	if got := x.Get(); got != 12 {
		t.Errorf("the duplicated subscribe response changed the value: %d, want 12", got)
	}
	if n := len(x.CreatePushPullPack().Operations); n != 1 {
		t.Errorf("the duplicated subscribe response dropped the operation waiting to be pushed: %d waiting, want 1", n)
	}
}
