package orda

import (
	"testing"

	"github.com/orda-io/orda/client/pkg/errors"
	"github.com/orda-io/orda/client/pkg/model"
	"github.com/orda-io/orda/client/pkg/testonly"
	"github.com/stretchr/testify/require"
)

// F46: a nil slice or nil map is JSON null. The writer accepted it as a live value; every other replica (and the
// writer itself after a snapshot restore) sees null: a tombstone in Map and List, a panic in reflect in a Document.
func TestFXNilSliceAndNilMapAreNull(t *testing.T) {
	catch := func(f func()) (p interface{}) {
		defer func() { p = recover() }()
		f()
		return nil
	}
	m, _ := newMap(testonly.NewBase("m", model.TypeOfDatatype_MAP), testonly.NewTestWire(false), nil)
	var err errors.OrdaError
	require.Nil(t, catch(func() { _, err = m.Put("k", []string(nil)) }))
	require.Error(t, err, "Map.Put of a nil slice must be refused like nil")
	require.Nil(t, catch(func() { _, err = m.Put("k", map[string]interface{}(nil)) }))
	require.Error(t, err, "Map.Put of a nil map must be refused like nil")
	require.Equal(t, 0, m.Size())

	l, _ := newList(testonly.NewBase("l", model.TypeOfDatatype_LIST), testonly.NewTestWire(false), nil)
	require.Nil(t, catch(func() { _, err = l.InsertMany(0, []int(nil)) }))
	require.Error(t, err, "List.Insert of a nil slice must be refused like nil")
	require.Equal(t, 0, l.Size())

	// two documents on one wire: what the writer accepts must not make the reader panic
	w := testonly.NewTestWire(true)
	d1, _ := newDocument(testonly.NewBase("d", model.TypeOfDatatype_DOCUMENT), w, nil)
	d2, _ := newDocument(testonly.NewBase("d", model.TypeOfDatatype_DOCUMENT), w, nil)
	w.SetDatatypes(d1.(*document).WiredDatatype, d2.(*document).WiredDatatype)
	p := catch(func() { _, err = d1.PutToObject("v", []string(nil)) })
	require.Nil(t, p, "PutToObject of a nil slice panicked (locally or while the other replica applied it): %v", p)
	require.Error(t, err, "PutToObject of a nil slice must be refused like nil")
	p = catch(func() { _, err = d1.PutToObject("o", map[string]interface{}{"in": map[string]interface{}(nil)}) })
	require.Nil(t, p, "PutToObject of a nested nil map panicked: %v", p)
	require.Error(t, err, "a nil map nested in a value must be refused like a nested nil")
	require.Equal(t, d1.ToJSON(), d2.ToJSON())
}
