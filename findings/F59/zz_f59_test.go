package orda

import (
	"testing"

	"github.com/orda-io/orda/client/pkg/model"
	"github.com/orda-io/orda/client/pkg/testonly"
	"github.com/stretchr/testify/require"
)

// F59: a received unit whose member decodes but cannot be executed (a LIST_INSERT whose body has no target T) is
// refused as a whole: before the repair the member panicked in the middle of the unit, the deferred EndTransaction
// committed the members applied so far (the replica showed [a]) and the panic escaped ApplyPushPullPack.
func TestF59UnitWithAnInvalidMemberAppliesNothing(t *testing.T) {
	l1, err := newList(testonly.NewBase("f59", model.TypeOfDatatype_LIST), testonly.NewTestWire(false), nil)
	require.NoError(t, err)
	src := l1.(*list)
	require.NoError(t, src.Transaction("two inserts", func(tx ListInTx) error {
		if _, err := tx.InsertMany(0, "a"); err != nil {
			return err
		}
		_, err := tx.InsertMany(1, "b")
		return err
	}))
	ops := src.CreatePushPullPack().Operations
	require.Len(t, ops, 3)
	good := make([]*model.Operation, len(ops))
	for i, op := range ops {
		cp := *op
		good[i] = &cp
	}
	ops[2].Body = []byte(`{"V":["b"]}`) // decodes, but names no target

	l2, err := newList(testonly.NewBase("f59", model.TypeOfDatatype_LIST), testonly.NewTestWire(false), nil)
	require.NoError(t, err)
	dst := l2.(*list)
	var rErr error
	require.NotPanics(t, func() { _, rErr = dst.ReceiveRemoteModelOperations(ops, false) })
	require.Error(t, rErr)
	require.Equal(t, 0, dst.Size(), "nothing of the refused unit stays applied")

	// the replica is usable afterwards: the well-formed unit is applied as a whole
	_, rErr = dst.ReceiveRemoteModelOperations(good, false)
	require.NoError(t, rErr)
	require.Equal(t, 2, dst.Size())
}
