// Reproduction of "a read-only push-pull moves Sseq.End backwards".
// This file belongs in the package directory server/service (package-internal test). Run with
//
//	cd server && go test -vet=off -count=1 -run TestFX -v ./service/
//
// No MongoDB is needed: the handler's steps are called one by one on a DatatypeDoc kept in memory, with inputs for
// which pullOperations does not query the repository. commitToMongoDB sets Sseq.End in its first statement and only
// afterwards touches the (absent) repository; that nil dereference is recovered here, as finalize() would do.
package service

import (
	gocontext "context"
	"fmt"
	"testing"

	"github.com/orda-io/orda/client/pkg/context"
	"github.com/orda-io/orda/client/pkg/model"
	"github.com/orda-io/orda/server/managers"
	"github.com/orda-io/orda/server/redis"
	"github.com/orda-io/orda/server/schema"
	"github.com/stretchr/testify/assert"
	"github.com/stretchr/testify/require"
)

const fxDUID = "XXXXXXXXXXXXXXXX"

// fxRunHandler runs the steps of (*PushPullHandler).process that follow evaluatePushPullCase. The pull step is left out
// for the writer (pull=false): its pull would query the repository and does not matter for the number it is handed.
func fxRunHandler(t *testing.T, doc *schema.DatatypeDoc, req *model.PushPullPack, cli *schema.ClientDoc, pull bool) *PushPullHandler {
	mgrs := &managers.Managers{Redis: &redis.Client{}}
	col := &schema.CollectionDoc{Name: "fx", Num: 99}
	h := newPushPullHandler(context.NewOrdaContext(gocontext.TODO(), "fx"), req, cli, col, mgrs)
	require.Nil(t, h.initialize(make(chan *model.PushPullPack, 1)))
	require.Nil(t, h.validatePushPullPack())
	h.datatypeDoc = doc // what evaluatePushPullCase finds by DUID
	require.Nil(t, h.processSubscribeOrCreate(caseUsedDUID))
	require.Nil(t, h.pushOperations())
	if pull {
		require.Nil(t, h.pullOperations())
	}
	func() {
		defer func() { _ = recover() }() // the repository is absent: the write itself panics, the document is final before
		_ = h.commitToMongoDB()
	}()
	return h
}

func TestFXReadOnlyRequestKeepsSseqEnd(t *testing.T) {
	ro := model.PushPullBitNormal
	ro.SetReadOnlyBit()
	roSn := model.PushPullBitNormal
	roSn.SetReadOnlyBit().SetSnapshotBit()

	for _, tc := range []struct {
		name    string
		cliType model.ClientType
		option  model.PushPullPackOption
		begin   uint64
		reqCP   *model.CheckPoint
	}{
		{"volatile client, RO, up-to-date checkpoint", model.ClientType_VOLATILE, ro, 0, model.NewSetCheckPoint(5, 0)},
		{"persistent client, RO|SN", model.ClientType_PERSISTENT, roSn, 0, model.NewSetCheckPoint(5, 0)},
		{"persistent client, RO, checkpoint older than the kept log", model.ClientType_PERSISTENT, ro, 3, model.NewSetCheckPoint(0, 0)},
	} {
		t.Run(tc.name, func(t *testing.T) {
			// a datatype whose log holds the operations with sseq 1..5
			doc := schema.NewDatatypeDoc(fxDUID, "k", 99, model.TypeOfDatatype_COUNTER.String())
			doc.Sseq.Begin = tc.begin
			doc.Sseq.End = 5

			// (1) one read-only request for which nothing is pulled
			roReq := &model.PushPullPack{Key: "k", DUID: fxDUID, Option: uint32(tc.option), CheckPoint: tc.reqCP, Type: model.TypeOfDatatype_COUNTER}
			roCli := &schema.ClientDoc{CUID: "reader", Type: int8(tc.cliType), CollectionNum: 99}
			h := fxRunHandler(t, doc, roReq, roCli, true)
			require.Empty(t, h.pushingOperations)
			assert.Equal(t, uint64(5), doc.Sseq.End, "a read-only request moved the end of the log")

			// (2) the next writer pushes its first operation: it must be stored behind the existing log
			op := &model.Operation{ID: &model.OperationID{Lamport: 1, CUID: "writer", Seq: 1}, OpType: model.TypeOfOperation_COUNTER_INCREASE, Body: []byte(`{"Delta":1}`)}
			wReq := &model.PushPullPack{Key: "k", DUID: fxDUID, Option: uint32(model.PushPullBitNormal), CheckPoint: model.NewSetCheckPoint(5, 1), Type: model.TypeOfDatatype_COUNTER, Operations: []*model.Operation{op}}
			wCli := &schema.ClientDoc{CUID: "writer", Type: int8(model.ClientType_PERSISTENT), CollectionNum: 99}
			w := fxRunHandler(t, doc, wReq, wCli, false)
			require.Len(t, w.pushingOperations, 1)
			opDoc := w.pushingOperations[0].(*schema.OperationDoc)
			assert.Equal(t, fmt.Sprintf("%s:%d", fxDUID, 6), opDoc.ID, "the writer was handed a sequence number that exists in the log")
			assert.Equal(t, uint64(6), doc.Sseq.End)
		})
	}
}
