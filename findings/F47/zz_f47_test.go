package orda

import (
	"testing"

	"github.com/orda-io/orda/client/pkg/model"
	"github.com/stretchr/testify/require"
)

// F47: the client-local refusal of a key that is already used by a datatype of another type depended on handlers:
// without handlers a second, unregistered datatype was handed out with no error; with handlers whose error handler is
// nil the refusal panicked.
func TestFXKeyOfAnotherTypeIsRefusedWithoutHandlers(t *testing.T) {
	c := NewClient(NewLocalClientConfig("fx47"), "fx47")
	require.NotNil(t, c.CreateCounter("k", nil))
	var m Map
	require.NotPanics(t, func() { m = c.CreateMap("k", nil) })
	require.Nil(t, m, "a Map was handed out for a key that is a Counter on this client")
	require.NotPanics(t, func() { m = c.CreateMap("k", NewHandlers(nil, nil, nil)) })
	require.Nil(t, m)
	require.Nil(t, c.CreateDatatype("k", model.TypeOfDatatype_LIST, nil))
}
