package orda

// Reproducing test of FX12 defect (a) "error-or-subscribe-pack-without-operations".
// It belongs in the package directory client/pkg/orda (package-internal: it uses newCounter).
// (The test of defect (b) is delivered under the same file name and belongs in the same directory: give one of
// them another name, e.g. zz_fxb_test.go; their identifiers do not collide.)
// Run: cd client && go test -vet=off -count=1 -run 'TestFXA' ./pkg/orda/

import (
	gocontext "context"
	"net"
	"strings"
	"sync"
	"testing"
	"time"

	"github.com/orda-io/orda/client/pkg/errors"
	"github.com/orda-io/orda/client/pkg/model"
	"github.com/orda-io/orda/client/pkg/operations"
	"github.com/orda-io/orda/client/pkg/testonly"
	"github.com/stretchr/testify/require"
	"google.golang.org/grpc"
)

// fxaCounter makes a counter that is not connected to anything; the errors that its error handler gets
// (ApplyPushPullPack calls the handlers in a goroutine of its own) are put into the returned channel.
func fxaCounter(t *testing.T, key string, state model.StateOfDatatype) (*counter, chan []errors.OrdaError) {
	reported := make(chan []errors.OrdaError, 8)
	base := testonly.NewBase(key, model.TypeOfDatatype_COUNTER)
	base.SetState(state)
	c, err := newCounter(base, testonly.NewTestWire(false), NewHandlers(nil, nil,
		func(dt Datatype, errs ...errors.OrdaError) {
			reported <- errs
		}))
	require.NoError(t, err)
	return c.(*counter), reported
}

func fxaExpectOneError(t *testing.T, reported chan []errors.OrdaError, code errors.ErrorCode, msg string) {
	select {
	case errs := <-reported:
		require.Len(t, errs, 1)
		require.Equal(t, code, errs[0].GetCode())
		require.True(t, strings.Contains(errs[0].Error(), msg), "got %q, want something with %q", errs[0].Error(), msg)
	case <-time.After(5 * time.Second):
		t.Fatal("nothing was reported through the error handler")
	}
}

func fxaExpectNoError(t *testing.T, reported chan []errors.OrdaError) {
	select {
	case errs := <-reported:
		t.Fatalf("unexpected errors: %v", errs)
	case <-time.After(100 * time.Millisecond):
	}
}

// A response pack with the error bit but without any operation (a server that deviates from
// PushPullHandler.finalize, which always appends the ErrorOperation).
func TestFXAErrorBitWithoutOperations(t *testing.T) {
	c, reported := fxaCounter(t, "fxa-error", model.StateOfDatatype_DUE_TO_CREATE)
	require.NoError(t, c.SubscribeOrCreate(model.StateOfDatatype_DUE_TO_CREATE))
	_, err := c.Increase()
	require.NoError(t, err)

	req := c.CreatePushPullPack()
	require.Len(t, req.Operations, 2) // the snapshot of the creation and the increase
	res := req.GetResponsePushPullPack()
	res.Option = uint32(model.PushPullBitError)
	require.Len(t, res.Operations, 0)

	require.NotPanics(t, func() { c.ApplyPushPullPack(res) },
		"an error response without operations must be reported, not crash the sync path")
	fxaExpectOneError(t, reported, errors.ClientSync, "error response without ErrorOperation")

	// nothing of the refused response was applied, and the datatype remains usable
	require.Equal(t, model.StateOfDatatype_DUE_TO_CREATE, c.GetState())
	v, err := c.Increase()
	require.NoError(t, err)
	require.Equal(t, int32(2), v)
	again := c.CreatePushPullPack()
	require.Len(t, again.Operations, 3) // the refused operations are sent again, plus the new one
	require.True(t, again.GetPushPullPackOption().HasCreateBit())

	// and a regular answer is accepted afterwards
	ack := again.GetResponsePushPullPack()
	ack.CheckPoint.Sseq += uint64(len(again.Operations))
	require.NotPanics(t, func() { c.ApplyPushPullPack(ack) })
	fxaExpectNoError(t, reported)
	require.Equal(t, model.StateOfDatatype_SUBSCRIBED, c.GetState())
	require.Len(t, c.CreatePushPullPack().Operations, 0)
}

// A response pack with the subscribe bit but without any operation, for a datatype that waits for its subscription.
func TestFXASubscribeBitWithoutOperations(t *testing.T) {
	for _, state := range []model.StateOfDatatype{
		model.StateOfDatatype_DUE_TO_SUBSCRIBE,
		model.StateOfDatatype_DUE_TO_SUBSCRIBE_CREATE,
	} {
		t.Run(state.String(), func(t *testing.T) {
			c, reported := fxaCounter(t, "fxa-subscribe", state)
			require.NoError(t, c.SubscribeOrCreate(state))

			req := c.CreatePushPullPack()
			require.True(t, req.GetPushPullPackOption().HasSubscribeBit())
			res := req.GetResponsePushPullPack()
			res.Option = uint32(model.PushPullBitSubscribe)
			require.Len(t, res.Operations, 0)

			require.NotPanics(t, func() { c.ApplyPushPullPack(res) },
				"a subscribe response without operations must be reported, not crash the sync path")
			fxaExpectOneError(t, reported, errors.DatatypeSubscribe, "subscribe without SnapshotOp")
			require.Equal(t, state, c.GetState())

			// the datatype remains usable: a proper subscribe answer (the snapshot of a counter with value 7) is accepted
			snap := operations.NewSnapshotOperation(model.TypeOfDatatype_COUNTER, []byte(`{"Counter":7}`))
			snap.SetID(&model.OperationID{Era: 0, Lamport: 1, CUID: "fedcba9876543210", Seq: 1})
			ok := c.CreatePushPullPack().GetResponsePushPullPack()
			ok.Option = uint32(model.PushPullBitSubscribe)
			ok.DUID = "0123456789abcdef"
			ok.CheckPoint = model.NewSetCheckPoint(1, 0)
			ok.Operations = append(ok.Operations, snap.ToModelOperation())
			require.NotPanics(t, func() { c.ApplyPushPullPack(ok) })
			fxaExpectNoError(t, reported)
			require.Equal(t, model.StateOfDatatype_SUBSCRIBED, c.GetState())
			require.Equal(t, int32(7), c.Get())
		})
	}
}

// fxaServer is an in-process stand-in of the Orda server: while 'bare' is set it answers every pack with the
// error bit and nothing else; otherwise it accepts everything that is pushed.
type fxaServer struct {
	model.UnimplementedOrdaServiceServer
	mutex    sync.Mutex
	bare     bool
	requests []*model.PushPullMessage
}

func (its *fxaServer) ProcessClient(_ gocontext.Context, in *model.ClientMessage) (*model.ClientMessage, error) {
	return in, nil
}

func (its *fxaServer) ProcessPushPull(_ gocontext.Context, in *model.PushPullMessage) (*model.PushPullMessage, error) {
	its.mutex.Lock()
	defer its.mutex.Unlock()
	its.requests = append(its.requests, in)
	res := &model.PushPullMessage{Header: in.Header, Collection: in.Collection, Cuid: in.Cuid}
	for _, ppp := range in.PushPullPacks {
		pack := ppp.GetResponsePushPullPack()
		if its.bare {
			pack.Option = uint32(model.PushPullBitError)
		} else {
			pack.Option = ppp.Option & uint32(model.PushPullBitCreate)
			pack.CheckPoint.Sseq += uint64(len(ppp.Operations))
		}
		res.PushPullPacks = append(res.PushPullPacks, pack)
	}
	return res, nil
}

// The same through a real client and gRPC: Sync() must return, the handler gets the error, the client goes on.
func TestFXAClientSyncWithBareErrorResponse(t *testing.T) {
	lis, lErr := net.Listen("tcp", "127.0.0.1:0")
	require.NoError(t, lErr)
	fake := &fxaServer{bare: true}
	rpcServer := grpc.NewServer()
	model.RegisterOrdaServiceServer(rpcServer, fake)
	go func() { _ = rpcServer.Serve(lis) }()
	defer rpcServer.Stop()

	client := NewClient(&ClientConfig{
		ServerAddr:     lis.Addr().String(),
		CollectionName: "fxa",
		SyncType:       model.SyncType_MANUALLY,
	}, "fxa-client")
	require.NoError(t, client.Connect())
	defer func() { _ = client.Close() }()

	reported := make(chan []errors.OrdaError, 8)
	c := client.CreateCounter("fxa-e2e", NewHandlers(nil, nil, func(dt Datatype, errs ...errors.OrdaError) {
		reported <- errs
	}))
	require.NotNil(t, c)
	_, oErr := c.Increase()
	require.NoError(t, oErr)

	require.NotPanics(t, func() { _ = client.Sync() }, "an error response must not crash the client inside Sync()")
	fxaExpectOneError(t, reported, errors.ClientSync, "error response without ErrorOperation")
	require.Equal(t, model.StateOfDatatype_DUE_TO_CREATE, c.GetState())

	v, oErr := c.Increase()
	require.NoError(t, oErr)
	require.Equal(t, int32(2), v)

	fake.mutex.Lock()
	fake.bare = false
	fake.mutex.Unlock()
	require.NoError(t, client.Sync())
	fxaExpectNoError(t, reported)
	require.Equal(t, model.StateOfDatatype_SUBSCRIBED, c.GetState())
	fake.mutex.Lock()
	defer fake.mutex.Unlock()
	require.Len(t, fake.requests, 2)
	require.Len(t, fake.requests[1].PushPullPacks[0].Operations, 3) // the two refused operations again, and the new one
}
