// FX patch-reply: this file belongs in server/service/ (package-internal test of package service).
//
// OrdaService.PatchDocument starts a push-pull handler for the operations of a patch and used to throw its answer
// away: a refused push (storage failure, datatype lock not obtained, ...) was answered with the patched JSON as a
// success although nothing was appended to the log. The tests drive the real OrdaService on top of an in-memory
// stand-in of MongoDB (a custom driver.Deployment behind the real mongo-driver; no network, go.mod unchanged).
package service

import (
	gocontext "context"
	"fmt"
	"reflect"
	"sort"
	"strings"
	"sync"
	"testing"
	"time"
	"unsafe"

	"github.com/orda-io/orda/client/pkg/context"
	"github.com/orda-io/orda/client/pkg/model"
	"github.com/orda-io/orda/server/managers"
	"github.com/orda-io/orda/server/mongodb"
	"github.com/orda-io/orda/server/redis"
	"github.com/orda-io/orda/server/schema"
	"github.com/orda-io/orda/server/utils"
	"go.mongodb.org/mongo-driver/bson"
	"go.mongodb.org/mongo-driver/mongo"
	"go.mongodb.org/mongo-driver/mongo/address"
	"go.mongodb.org/mongo-driver/mongo/description"
	"go.mongodb.org/mongo-driver/mongo/options"
	"go.mongodb.org/mongo-driver/x/bsonx/bsoncore"
	"go.mongodb.org/mongo-driver/x/mongo/driver"
	"go.mongodb.org/mongo-driver/x/mongo/driver/topology"
	"go.mongodb.org/mongo-driver/x/mongo/driver/wiremessage"
	"google.golang.org/grpc/codes"
	"google.golang.org/grpc/status"
)

// ---------------------------------------------------------------------------------------------------------------
// zzMongo: an in-memory stand-in of MongoDB behind the real mongo-driver (a custom driver.Deployment). It understands
// the find / insert / update commands the push-pull path of the server sends, keeps the documents in memory, and lets
// the test hook into every command (to stall it or to make it fail).
// ---------------------------------------------------------------------------------------------------------------

type zzMongo struct {
	mu      sync.Mutex
	colls   map[string][]bson.M
	hook    func(cmd, coll string, body bson.Raw) *bson.D // called before a command is executed; non-nil = the answer
	updates chan description.Topology
}

var zzAddr = address.Address("localhost:27017")

var zzDesc = description.Server{
	CanonicalAddr:         zzAddr,
	MaxDocumentSize:       16777216,
	MaxMessageSize:        48000000,
	MaxBatchCount:         100000,
	SessionTimeoutMinutes: 30,
	Kind:                  description.RSPrimary,
	WireVersion:           &description.VersionRange{Max: topology.SupportedWireVersions.Max},
}

func (m *zzMongo) SelectServer(gocontext.Context, description.ServerSelector) (driver.Server, error) {
	return m, nil
}
func (m *zzMongo) Kind() description.TopologyKind { return description.Single }
func (m *zzMongo) Connection(gocontext.Context) (driver.Connection, error) {
	return &zzConn{m: m}, nil
}
func (m *zzMongo) MinRTT() time.Duration                  { return 0 }
func (m *zzMongo) RTT90() time.Duration                   { return 0 }
func (m *zzMongo) Connect() error                         { return nil }
func (m *zzMongo) Disconnect(gocontext.Context) error     { return nil }
func (m *zzMongo) Unsubscribe(*driver.Subscription) error { return nil }
func (m *zzMongo) Subscribe() (*driver.Subscription, error) {
	if m.updates == nil {
		m.updates = make(chan description.Topology, 1)
		m.updates <- description.Topology{SessionTimeoutMinutes: 30}
	}
	return &driver.Subscription{Updates: m.updates}, nil
}

type zzConn struct {
	m   *zzMongo
	res bson.D
}

func (c *zzConn) WriteWireMessage(_ gocontext.Context, wm []byte) error {
	_, _, _, _, rem, ok := wiremessage.ReadHeader(wm)
	if !ok {
		return fmt.Errorf("zzMongo: bad header")
	}
	_, rem, _ = wiremessage.ReadMsgFlags(rem)
	var body bsoncore.Document
	seq := map[string][]bsoncore.Document{}
	for len(rem) > 0 {
		var st wiremessage.SectionType
		st, rem, ok = wiremessage.ReadMsgSectionType(rem)
		if !ok {
			break
		}
		if st == wiremessage.SingleDocument {
			body, rem, _ = wiremessage.ReadMsgSectionSingleDocument(rem)
		} else {
			var id string
			var docs []bsoncore.Document
			id, docs, rem, _ = wiremessage.ReadMsgSectionDocumentSequence(rem)
			seq[id] = docs
		}
	}
	c.res = c.m.execute(bson.Raw(body), seq)
	return nil
}

func (c *zzConn) ReadWireMessage(_ gocontext.Context, dst []byte) ([]byte, error) {
	var idx int32
	idx, dst = wiremessage.AppendHeaderStart(dst, wiremessage.NextRequestID(), 0, wiremessage.OpMsg)
	dst = wiremessage.AppendMsgFlags(dst, 0)
	dst = wiremessage.AppendMsgSectionType(dst, wiremessage.SingleDocument)
	b, _ := bson.Marshal(c.res)
	dst = append(dst, b...)
	dst = bsoncore.UpdateLength(dst, idx, int32(len(dst[idx:])))
	return dst, nil
}
func (c *zzConn) Description() description.Server { return zzDesc }
func (c *zzConn) Close() error                    { return nil }
func (c *zzConn) ID() string                      { return "<zz>" }
func (c *zzConn) ServerConnectionID() *int32      { id := int32(1); return &id }
func (c *zzConn) Address() address.Address        { return zzAddr }
func (c *zzConn) Stale() bool                     { return false }

func zzNum(v interface{}) (int64, bool) {
	switch n := v.(type) {
	case int32:
		return int64(n), true
	case int64:
		return n, true
	case int:
		return int64(n), true
	case float64:
		return int64(n), true
	}
	return 0, false
}

func zzEq(a, b interface{}) bool {
	if x, ok := zzNum(a); ok {
		if y, ok := zzNum(b); ok {
			return x == y
		}
		return false
	}
	return reflect.DeepEqual(a, b)
}

func zzMatch(doc bson.M, filter bson.M) bool {
	for k, want := range filter {
		got, exists := doc[k]
		if cond, ok := want.(bson.M); ok {
			for op, bound := range cond {
				g, ok1 := zzNum(got)
				b, ok2 := zzNum(bound)
				if !exists || !ok1 || !ok2 {
					return false
				}
				if op == "$gte" && g < b || op == "$lte" && g > b {
					return false
				}
			}
			continue
		}
		if !exists || !zzEq(got, want) {
			return false
		}
	}
	return true
}

func zzOK(extra ...bson.E) bson.D {
	return append(bson.D{{Key: "ok", Value: 1}}, extra...)
}

func (m *zzMongo) execute(body bson.Raw, seq map[string][]bsoncore.Document) bson.D {
	elems, _ := body.Elements()
	cmd := elems[0].Key()
	coll, _ := elems[0].Value().StringValueOK()
	if m.hook != nil {
		if res := m.hook(cmd, coll, body); res != nil {
			return *res
		}
	}
	m.mu.Lock()
	defer m.mu.Unlock()
	var all bson.M
	_ = bson.Unmarshal(body, &all)
	docsOf := func(name string) []bson.M {
		var ret []bson.M
		for _, d := range seq[name] {
			var one bson.M
			_ = bson.Unmarshal(d, &one)
			ret = append(ret, one)
		}
		if arr, ok := all[name].(bson.A); ok {
			for _, d := range arr {
				ret = append(ret, d.(bson.M))
			}
		}
		return ret
	}
	switch cmd {
	case "find":
		filter, _ := all["filter"].(bson.M)
		var found []bson.M
		for _, d := range m.colls[coll] {
			if zzMatch(d, filter) {
				found = append(found, d)
			}
		}
		if s, ok := all["sort"].(bson.M); ok {
			for key, dir := range s {
				key, asc := key, zzEq(dir, int32(1))
				sort.SliceStable(found, func(i, j int) bool {
					a, _ := zzNum(found[i][key])
					b, _ := zzNum(found[j][key])
					if asc {
						return a < b
					}
					return a > b
				})
			}
		}
		if l, ok := zzNum(all["limit"]); ok && l > 0 && int64(len(found)) > l {
			found = found[:l]
		}
		batch := bson.A{}
		for _, d := range found {
			batch = append(batch, d)
		}
		return zzOK(bson.E{Key: "cursor", Value: bson.D{
			{Key: "firstBatch", Value: batch}, {Key: "id", Value: int64(0)}, {Key: "ns", Value: "zz." + coll}}})
	case "insert":
		n := 0
		for i, d := range docsOf("documents") {
			for _, old := range m.colls[coll] {
				if zzEq(old["_id"], d["_id"]) {
					return zzOK(bson.E{Key: "n", Value: n}, bson.E{Key: "writeErrors", Value: bson.A{bson.D{
						{Key: "index", Value: i}, {Key: "code", Value: 11000},
						{Key: "errmsg", Value: fmt.Sprintf("E11000 duplicate key error: %v", d["_id"])}}}})
				}
			}
			m.colls[coll] = append(m.colls[coll], d)
			n++
		}
		return zzOK(bson.E{Key: "n", Value: n})
	case "update":
		u := docsOf("updates")[0]
		q, _ := u["q"].(bson.M)
		set, _ := u["u"].(bson.M)["$set"].(bson.M)
		for _, d := range m.colls[coll] {
			if zzMatch(d, q) {
				for k, v := range set {
					d[k] = v
				}
				return zzOK(bson.E{Key: "n", Value: 1}, bson.E{Key: "nModified", Value: 1})
			}
		}
		if up, _ := u["upsert"].(bool); up {
			d := bson.M{}
			for k, v := range q {
				d[k] = v
			}
			for k, v := range set {
				d[k] = v
			}
			m.colls[coll] = append(m.colls[coll], d)
			return zzOK(bson.E{Key: "n", Value: 1}, bson.E{Key: "nModified", Value: 0},
				bson.E{Key: "upserted", Value: bson.A{bson.D{{Key: "index", Value: 0}, {Key: "_id", Value: d["_id"]}}}})
		}
		return zzOK(bson.E{Key: "n", Value: 0}, bson.E{Key: "nModified", Value: 0})
	}
	return bson.D{{Key: "ok", Value: 0}, {Key: "code", Value: 59}, {Key: "errmsg", Value: "zzMongo: no such command: " + cmd}}
}

func (m *zzMongo) put(coll string, doc interface{}) {
	b, err := bson.Marshal(doc)
	if err != nil {
		panic(err)
	}
	var d bson.M
	_ = bson.Unmarshal(b, &d)
	m.mu.Lock()
	defer m.mu.Unlock()
	m.colls[coll] = append(m.colls[coll], d)
}

func zzSetField(target interface{}, name string, value interface{}) {
	f := reflect.ValueOf(target).Elem().FieldByName(name)
	reflect.NewAt(f.Type(), unsafe.Pointer(f.UnsafeAddr())).Elem().Set(reflect.ValueOf(value))
}

// zzNewService builds an OrdaService on top of zzMongo (local locks, no notifier).
func zzNewService(t *testing.T) (*OrdaService, *zzMongo) {
	fake := &zzMongo{colls: map[string][]bson.M{}}
	opts := options.Client()
	opts.Deployment = fake
	client, err := mongo.NewClient(opts)
	if err != nil {
		t.Fatal(err)
	}
	if err := client.Connect(gocontext.Background()); err != nil {
		t.Fatal(err)
	}
	db := client.Database("zz")
	mc := &mongodb.MongoCollections{}
	zzSetField(mc, "mongoClient", client)
	zzSetField(mc, "clients", db.Collection(schema.CollectionNameClients))
	zzSetField(mc, "counters", db.Collection(schema.CollectionNameColNumGenerator))
	zzSetField(mc, "snapshots", db.Collection(schema.CollectionNameSnapshot))
	zzSetField(mc, "datatypes", db.Collection(schema.CollectionNameDatatypes))
	zzSetField(mc, "operations", db.Collection(schema.CollectionNameOperations))
	zzSetField(mc, "collections", db.Collection(schema.CollectionNameCollections))
	repo := &mongodb.RepositoryMongo{MongoCollections: mc}
	zzSetField(repo, "client", client)
	zzSetField(repo, "db", db)
	redisClient, oErr := redis.New(context.NewOrdaContext(gocontext.Background(), "zz"), nil)
	if oErr != nil {
		t.Fatal(oErr)
	}
	return NewOrdaService(&managers.Managers{Mongo: repo, Redis: redisClient}), fake
}

const zzCollection = "zzcol"

func zzNewPatchSetup(t *testing.T) (*OrdaService, *zzMongo) {
	svc, fake := zzNewService(t)
	fake.put(schema.CollectionNameCollections, &schema.CollectionDoc{Name: zzCollection, Num: 1, CreatedAt: time.Now()})
	return svc, fake
}

func (m *zzMongo) count(coll string) int {
	m.mu.Lock()
	defer m.mu.Unlock()
	return len(m.colls[coll])
}

// sseqEnd returns Sseq.End of the stored DatatypeDoc of key, or -1 if there is none.
func (m *zzMongo) sseqEnd(key string) int64 {
	m.mu.Lock()
	defer m.mu.Unlock()
	for _, d := range m.colls[schema.CollectionNameDatatypes] {
		if d["key"] == key {
			end, _ := zzNum(d["sseq"].(bson.M)["end"])
			return end
		}
	}
	return -1
}

func zzPatch(svc *OrdaService, goCtx gocontext.Context, key, json string) (*model.PatchMessage, error) {
	return svc.PatchDocument(goCtx, &model.PatchMessage{Collection: zzCollection, Key: key, Json: json})
}

// zzExpectRefused checks the answer of a patch whose push was refused.
func zzExpectRefused(t *testing.T, res *model.PatchMessage, err error, cause, reason string) {
	t.Helper()
	if err == nil {
		t.Fatalf("the push of the patch was refused (%s) and nothing is stored, but PatchDocument reports success: %v", cause, res)
	}
	if res != nil {
		t.Errorf("an error is returned together with an answer: %v", res)
	}
	st, ok := status.FromError(err)
	if !ok || st.Code() != codes.Unavailable {
		t.Errorf("expected a gRPC status Unavailable (a retry is safe and can succeed), got %v", err)
	}
	if !strings.Contains(err.Error(), reason) {
		t.Errorf("the error does not name the reason of the refusal (%q): %v", reason, err)
	}
	t.Logf("refused patch is answered with: %v", err)
}

// TestFXPatchDocumentPushRefusedByStorage: the storage refuses the insert of the operations of the patch.
func TestFXPatchDocumentPushRefusedByStorage(t *testing.T) {
	svc, fake := zzNewPatchSetup(t)
	const key = "fx-storage"
	fail := true
	fake.hook = func(cmd, coll string, _ bson.Raw) *bson.D {
		if fail && cmd == "insert" && coll == schema.CollectionNameOperations {
			return &bson.D{{Key: "ok", Value: 0}, {Key: "code", Value: 11600}, {Key: "errmsg", Value: "interrupted at shutdown"}}
		}
		return nil
	}
	res, err := zzPatch(svc, gocontext.Background(), key, `{"a":1}`)
	if n, end := fake.count(schema.CollectionNameOperations), fake.sseqEnd(key); n != 0 || end != -1 {
		t.Fatalf("test setup: expected nothing to be stored, got %d operations, Sseq.End %d", n, end)
	}
	zzExpectRefused(t, res, err, "insert of the operations failed", "interrupted at shutdown")

	// the storage is back: the locks 'PD:' and 'PP:' were released, the same patch is accepted without waiting.
	fail = false
	begin := time.Now()
	res, err = zzPatch(svc, gocontext.Background(), key, `{"a":1}`)
	if err != nil || res.GetJson() != `{"a":1}` {
		t.Fatalf("retry after the storage came back: res=%v err=%v", res, err)
	}
	if d := time.Since(begin); d > 2*time.Second {
		t.Errorf("the retry waited %v (a lock was left behind?)", d)
	}
	if n, end := fake.count(schema.CollectionNameOperations), fake.sseqEnd(key); n != 2 || end != 2 {
		t.Errorf("after the retry: expected 2 operations (snapshot, patch) and Sseq.End 2, got %d and %d", n, end)
	}
}

// TestFXPatchDocumentPushRefusedByLock: another push-pull of the same datatype holds the lock 'PP:<col>:<key>' for
// longer than the patch waits for it. (The request carries a deadline of 500ms only to keep the test short; without a
// deadline the handler gives up after utils.defaultLeaseTime = 5s with the same outcome.)
func TestFXPatchDocumentPushRefusedByLock(t *testing.T) {
	svc, fake := zzNewPatchSetup(t)
	const key = "fx-lock"
	octx := context.NewOrdaContext(gocontext.Background(), "zz")
	ppLock := svc.managers.GetLock(octx, utils.GetLockName("PP", 1, key))
	if !ppLock.TryLock() {
		t.Fatal("test setup: cannot take the lock of the datatype")
	}
	goCtx, cancel := gocontext.WithTimeout(gocontext.Background(), 500*time.Millisecond)
	res, err := zzPatch(svc, goCtx, key, `{"a":1}`)
	cancel()
	ppLock.Unlock()
	if n, end := fake.count(schema.CollectionNameOperations), fake.sseqEnd(key); n != 0 || end != -1 {
		t.Fatalf("test setup: expected nothing to be stored, got %d operations, Sseq.End %d", n, end)
	}
	zzExpectRefused(t, res, err, "lock of the datatype not obtained", "fail to lock PP:1:"+key)

	// the other push-pull is over: 'PD:' was released by the refused patch, the same patch is accepted without waiting.
	begin := time.Now()
	res, err = zzPatch(svc, gocontext.Background(), key, `{"a":1}`)
	if err != nil || res.GetJson() != `{"a":1}` {
		t.Fatalf("retry after the lock was released: res=%v err=%v", res, err)
	}
	if d := time.Since(begin); d > 2*time.Second {
		t.Errorf("the retry waited %v (the lock 'PD:' was left behind?)", d)
	}
}

// TestFXPatchDocumentAccepted is the control: the legitimate flows (patch of a new key, patch of an existing document,
// patch that changes nothing) are answered with the JSON, with and without the repair.
func TestFXPatchDocumentAccepted(t *testing.T) {
	svc, fake := zzNewPatchSetup(t)
	const key = "fx-ok"
	steps := []struct {
		json     string
		ops, end int
	}{
		{`{"a":1}`, 2, 2},         // new key: creation (snapshot operation) + 1 patch operation
		{`{"a":1,"b":"x"}`, 3, 3}, // existing document: 1 more operation
		{`{"a":1,"b":"x"}`, 3, 3}, // nothing to change: no push-pull at all
		{`{"b":"x"}`, 4, 4},       // removal
	}
	for i, s := range steps {
		res, err := zzPatch(svc, gocontext.Background(), key, s.json)
		if err != nil {
			t.Fatalf("step %d: an accepted patch is answered with an error: %v", i, err)
		}
		if res.GetJson() != s.json || res.GetKey() != key || res.GetCollection() != zzCollection {
			t.Fatalf("step %d: unexpected answer %v", i, res)
		}
		if n, end := fake.count(schema.CollectionNameOperations), fake.sseqEnd(key); n != s.ops || end != int64(s.end) {
			t.Fatalf("step %d: expected %d operations and Sseq.End %d, got %d and %d", i, s.ops, s.end, n, end)
		}
	}
}
