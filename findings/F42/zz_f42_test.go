// Reproducing test of defect "nested-null-in-document-value". It belongs in the package directory client/pkg/orda
// (run: cd client && go test -vet=off -count=1 -run TestFX ./pkg/orda/).
package orda

import (
	"testing"

	"github.com/orda-io/orda/client/pkg/model"
	"github.com/orda-io/orda/client/pkg/testonly"
	"github.com/stretchr/testify/require"
)

// fxCatch runs f and returns the recovered panic value (nil when f did not panic).
func fxCatch(f func()) (r interface{}) {
	defer func() { r = recover() }()
	f()
	return nil
}

func fxDoc(t *testing.T) Document {
	d, err := newDocument(testonly.NewBase(t.Name(), model.TypeOfDatatype_DOCUMENT), nil, nil)
	require.NoError(t, err)
	return d
}

func fxPending(d interface{}) int {
	switch c := d.(type) {
	case *document:
		return len(c.CreatePushPullPack().Operations)
	case *list:
		return len(c.CreatePushPullPack().Operations)
	case *ordaMap:
		return len(c.CreatePushPullPack().Operations)
	}
	panic("unknown")
}

// 6. null nested inside a document value
func TestFXNestedNullInDocumentValue(t *testing.T) {
	for i, v := range []interface{}{
		map[string]interface{}{"a": nil},
		[]interface{}{1, nil},
		map[string]interface{}{"x": []interface{}{map[string]interface{}{"y": nil}}},
	} {
		doc := fxDoc(t)
		_, err := doc.PutToObject("arr", []interface{}{"e"})
		require.NoError(t, err)
		arr, _ := doc.GetFromObject("arr")
		before := fxPending(doc)
		var pErr, iErr, uErr error
		pn := fxCatch(func() {
			if _, e := doc.PutToObject("k", v); e != nil {
				pErr = e
			}
		})
		require.Nil(t, pn, "%d: PutToObject(k, %v) panicked", i, v)
		require.Error(t, pErr)
		pn = fxCatch(func() {
			if _, e := arr.InsertToArray(0, v); e != nil {
				iErr = e
			}
		})
		require.Nil(t, pn, "%d: InsertToArray(0, %v) panicked", i, v)
		require.Error(t, iErr)
		pn = fxCatch(func() {
			if _, e := arr.UpdateManyInArray(0, v); e != nil {
				uErr = e
			}
		})
		require.Nil(t, pn, "%d: UpdateManyInArray(0, %v) panicked", i, v)
		require.Error(t, uErr)
		require.Equal(t, `{"arr":["e"]}`, string(doc.ToJSONBytes()))
		require.Equal(t, before, fxPending(doc))
	}
	// a typed nil pointer, at the top level and in a struct
	doc := fxDoc(t)
	for i, v := range []interface{}{(*int)(nil), struct{ P *int }{}, []*string{nil}} {
		pn := fxCatch(func() {
			_, e := doc.PutToObject("k", v)
			require.Error(t, e)
		})
		require.Nil(t, pn, "%d: PutToObject(k, %#v) panicked", i, v)
		require.Equal(t, `{}`, string(doc.ToJSONBytes()))
	}
	// values without a null are accepted as before
	one := 1
	_, err := doc.PutToObject("ok", struct {
		P *int
		Q *int `json:"q,omitempty"`
		L []interface{}
		M map[string]interface{}
	}{P: &one, L: []interface{}{1, "a"}})
	require.NoError(t, err)
	require.Equal(t, `{"ok":{"L":[1,"a"],"M":{},"P":1}}`, string(doc.ToJSONBytes()))
	_, err = doc.DeleteInObject("ok")
	require.NoError(t, err)
	// PatchByJSON with a null member
	pn := fxCatch(func() {
		_, e := doc.PatchByJSON(`{"k":{"a":null}}`)
		require.Error(t, e)
	})
	require.Nil(t, pn, "PatchByJSON with a nested null panicked")
	require.Equal(t, `{}`, string(doc.ToJSONBytes()))
}
