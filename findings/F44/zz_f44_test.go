package orda

// Belongs in: client/pkg/orda (package-internal test, package orda).

import (
	"testing"

	"github.com/orda-io/orda/client/pkg/model"
	"github.com/orda-io/orda/client/pkg/operations"
	"github.com/orda-io/orda/client/pkg/testonly"
	"github.com/stretchr/testify/require"
)

// fxCounterUnit lets a sender commit the transaction [TRANSACTION n=4, INCREASE 1, INCREASE 2, INCREASE 4]
// and returns the four operations as they would be pushed.
func fxCounterUnit(t *testing.T, tw *testonly.TestWire) []*model.Operation {
	c1, err := newCounter(testonly.NewBase("key1", model.TypeOfDatatype_COUNTER), tw, nil)
	require.NoError(t, err)
	require.NoError(t, c1.Transaction("three", func(tx CounterInTx) error {
		for _, d := range []int32{1, 2, 4} {
			if _, oErr := tx.IncreaseBy(d); oErr != nil {
				return oErr
			}
		}
		return nil
	}))
	require.Equal(t, int32(7), c1.Get())
	ops := c1.(*counter).CreatePushPullPack().Operations
	require.Len(t, ops, 4)
	require.Equal(t, model.TypeOfOperation_TRANSACTION, ops[0].OpType)
	return ops
}

// A received transaction unit whose third operation cannot be executed by the receiving datatype
// (a MAP_PUT inside a counter unit) must be applied completely or not at all: the counter is 7 or 0.
// On the unmodified tree it is 5 (1+4) and no error is reported.
func TestFXMalformedOperationInReceivedUnit(t *testing.T) {
	tw := testonly.NewTestWire(false)
	ops := fxCounterUnit(t, tw)

	// replace INCREASE 2 by a MAP_PUT that carries the same operation ID
	bad := operations.NewPutOperation("k", "v")
	bad.SetID(ops[2].ID)
	ops[2] = bad.ToModelOperation()

	c2, err := newCounter(testonly.NewBase("key1", model.TypeOfDatatype_COUNTER), tw, nil)
	require.NoError(t, err)
	w2 := c2.(*counter)

	// something received earlier stays
	single := operations.NewIncreaseOperation(100)
	single.SetID(&model.OperationID{Era: 0, Lamport: 1, CUID: "fxother", Seq: 1})
	_, oErr := w2.ReceiveRemoteModelOperations([]*model.Operation{single.ToModelOperation()}, false)
	require.NoError(t, oErr)
	require.Equal(t, int32(100), c2.Get())

	_, oErr = w2.ReceiveRemoteModelOperations(ops, true)
	got := c2.Get()
	t.Logf("error: %v, counter: %d", oErr, got)
	require.Contains(t, []int32{100, 107}, got, "the unit is applied completely or not at all")
	require.Error(t, oErr, "a unit that cannot be applied is reported")
	require.Equal(t, int32(100), got, "a refused unit leaves no trace")

	// the datatype keeps working after the refusal (the lock is released, the rollback point is sane)
	_, oErr = c2.IncreaseBy(1000)
	require.NoError(t, oErr)
	require.Equal(t, int32(1100), c2.Get())
	require.Error(t, c2.Transaction("fails", func(tx CounterInTx) error {
		_, _ = tx.IncreaseBy(5)
		return errFX
	}))
	require.Equal(t, int32(1100), c2.Get(), "a later local rollback does not bring anything of the refused unit back")
}

// Unchanged behaviour, kept as a guard: the same malformed operation arriving on its own (no unit around it)
// has no effect and does not stop the operations that follow it.
func TestFXMalformedSingleOperationReceived(t *testing.T) {
	tw := testonly.NewTestWire(false)
	c2, err := newCounter(testonly.NewBase("key1", model.TypeOfDatatype_COUNTER), tw, nil)
	require.NoError(t, err)
	bad := operations.NewPutOperation("k", "v")
	bad.SetID(&model.OperationID{Era: 0, Lamport: 1, CUID: "fxother", Seq: 1})
	good := operations.NewIncreaseOperation(3)
	good.SetID(&model.OperationID{Era: 0, Lamport: 2, CUID: "fxother", Seq: 2})
	_, oErr := c2.(*counter).ReceiveRemoteModelOperations(
		[]*model.Operation{bad.ToModelOperation(), good.ToModelOperation()}, false)
	require.NoError(t, oErr)
	require.Equal(t, int32(3), c2.Get())
	// a later local rollback replays what was received and ends with the same value
	require.Error(t, c2.Transaction("fails", func(tx CounterInTx) error {
		_, _ = tx.IncreaseBy(5)
		return errFX
	}))
	require.Equal(t, int32(3), c2.Get())
}

// The same property for an operation that fails half way: a LIST_DELETE with two targets of which the second
// does not exist deletes the first target and then reports the missing one. Inside a unit
// [TRANSACTION n=3, LIST_INSERT x, LIST_DELETE a,<missing>] the receiver, which also holds a local element,
// must end with all of the unit or none of it. On the unmodified tree it ends with "x" inserted and "a" deleted.
func TestFXHalfFailingOperationInReceivedUnit(t *testing.T) {
	tw := testonly.NewTestWire(false)
	l1, err := newList(testonly.NewBase("key1", model.TypeOfDatatype_LIST), tw, nil)
	require.NoError(t, err)
	l2, err := newList(testonly.NewBase("key1", model.TypeOfDatatype_LIST), tw, nil)
	require.NoError(t, err)
	w1, w2 := l1.(*list), l2.(*list)

	_, oErr := l1.InsertMany(0, "a", "b")
	require.NoError(t, oErr)
	head := w1.CreatePushPullPack().Operations
	require.Len(t, head, 1)
	_, oErr = w2.ReceiveRemoteModelOperations(head, false)
	require.NoError(t, oErr)
	_, oErr = l2.Insert(2, "L") // a local operation of the receiver: [a b L]
	require.NoError(t, oErr)

	require.NoError(t, l1.Transaction("unit", func(tx ListInTx) error {
		if _, e := tx.Insert(0, "x"); e != nil {
			return e
		}
		_, e := tx.DeleteMany(1, 2)
		return e
	}))
	unit := w1.CreatePushPullPack().Operations[1:]
	require.Len(t, unit, 3)
	del := operations.ModelToOperation(unit[2]).(*operations.DeleteOperation)
	require.Len(t, del.GetBody().T, 2)
	del.GetBody().T[1] = &model.Timestamp{Era: 0, Lamport: 999, CUID: "fxmissing", Delimiter: 0}
	unit[2] = del.ToModelOperation()

	before := testonly.Marshal(t, l2.ToJSON())
	_, oErr = w2.ReceiveRemoteModelOperations(unit, true)
	after := testonly.Marshal(t, l2.ToJSON())
	t.Logf("error: %v, before: %s, after: %s", oErr, before, after)
	require.Error(t, oErr)
	require.Equal(t, before, after, "a refused unit leaves no trace")

	// the receiver keeps working
	_, oErr = l2.Insert(0, "M")
	require.NoError(t, oErr)
	require.Equal(t, `{"List":["M","a","b","L"]}`, testonly.Marshal(t, l2.ToJSON()))
}

type fxErr struct{}

func (fxErr) Error() string { return "fx" }

var errFX = fxErr{}
