// Reproducing test of defect "list-range-overflow". It belongs in the package directory client/pkg/orda
// (run: cd client && go test -vet=off -count=1 -run TestFX ./pkg/orda/).
package orda

import (
	"math"
	"testing"

	"github.com/orda-io/orda/client/pkg/model"
	"github.com/orda-io/orda/client/pkg/testonly"
	"github.com/stretchr/testify/require"
)

// fxCatch runs f and returns the recovered panic value (nil when f did not panic).
func fxCatch(f func()) (r interface{}) {
	defer func() { r = recover() }()
	f()
	return nil
}

func fxDoc(t *testing.T) Document {
	d, err := newDocument(testonly.NewBase(t.Name(), model.TypeOfDatatype_DOCUMENT), nil, nil)
	require.NoError(t, err)
	return d
}

func fxList(t *testing.T) List {
	l, err := newList(testonly.NewBase(t.Name(), model.TypeOfDatatype_LIST), nil, nil)
	require.NoError(t, err)
	return l
}

func fxPending(d interface{}) int {
	switch c := d.(type) {
	case *document:
		return len(c.CreatePushPullPack().Operations)
	case *list:
		return len(c.CreatePushPullPack().Operations)
	case *ordaMap:
		return len(c.CreatePushPullPack().Operations)
	}
	panic("unknown")
}

// 3. overflowing range of GetMany / DeleteMany
func TestFXListRangeOverflow(t *testing.T) {
	l := fxList(t)
	_, err := l.InsertMany(0, "a", "b", "c")
	require.NoError(t, err)
	before := fxPending(l)

	var gErr, dErr error
	pn := fxCatch(func() {
		if _, e := l.GetMany(1, math.MaxInt); e != nil {
			gErr = e
		}
	})
	require.Nil(t, pn, "GetMany(1, MaxInt) panicked")
	require.Error(t, gErr)

	pn = fxCatch(func() {
		if _, e := l.DeleteMany(1, math.MaxInt); e != nil {
			dErr = e
		}
	})
	require.Equal(t, 3, l.Size(), "DeleteMany(1, MaxInt) changed the list: %v", l.ToJSON())
	require.Nil(t, pn, "DeleteMany(1, MaxInt) panicked")
	require.Error(t, dErr)
	require.Equal(t, before, fxPending(l))

	pn = fxCatch(func() {
		_, e := l.Update(2, "x", "y")
		require.Error(t, e)
	})
	require.Nil(t, pn)
}

func TestFXDocumentArrayRangeOverflow(t *testing.T) {
	doc := fxDoc(t)
	_, err := doc.PutToObject("a", []interface{}{"a", "b", "c"})
	require.NoError(t, err)
	a, _ := doc.GetFromObject("a")
	var gErr, dErr error
	pn := fxCatch(func() {
		if _, e := a.GetManyFromArray(1, math.MaxInt); e != nil {
			gErr = e
		}
	})
	require.Nil(t, pn, "GetManyFromArray(1, MaxInt) panicked")
	require.Error(t, gErr)
	pn = fxCatch(func() {
		if _, e := a.DeleteManyInArray(1, math.MaxInt); e != nil {
			dErr = e
		}
	})
	require.Equal(t, `{"a":["a","b","c"]}`, string(doc.ToJSONBytes()))
	require.Nil(t, pn, "DeleteManyInArray(1, MaxInt) panicked")
	require.Error(t, dErr)
}
