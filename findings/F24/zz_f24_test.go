package service

import (
	gocontext "context"
	"encoding/binary"
	"fmt"
	"io"
	"net"
	"os"
	"reflect"
	"sort"
	"strings"
	"sync"
	"testing"
	"time"

	"github.com/orda-io/orda/client/pkg/context"
	"github.com/orda-io/orda/client/pkg/model"
	"github.com/orda-io/orda/client/pkg/orda"
	_ "github.com/orda-io/orda/client/pkg/types"
	"github.com/orda-io/orda/server/managers"
	"github.com/orda-io/orda/server/mongodb"
	"github.com/orda-io/orda/server/notification"
	"github.com/orda-io/orda/server/redis"
	"github.com/orda-io/orda/server/wrapper"
	_ "github.com/stretchr/testify/assert"
	"github.com/stretchr/testify/require"
	"go.mongodb.org/mongo-driver/bson"
	"go.mongodb.org/mongo-driver/bson/primitive"
)

func TestF24FirstCollectionsGetDistinctNumbers(t *testing.T) {
	svc, _ := newOfflineService(t)
	bg := gocontext.TODO()
	ctx := context.NewOrdaContext(bg, "T")
	seen := map[int32]string{}
	for _, name := range []string{"first", "second", "third", "fourth"} {
		_, err := svc.CreateCollection(bg, &model.CollectionMessage{Collection: name})
		require.NoError(t, err)
		doc, oErr := svc.managers.Mongo.GetCollection(ctx, name)
		require.NoError(t, oErr)
		require.NotNil(t, doc)
		t.Logf("collection %q got number %d", name, doc.Num)
		if other, dup := seen[doc.Num]; dup {
			t.Errorf("collections %q and %q share the number %d", other, name, doc.Num)
		}
		seen[doc.Num] = name
	}
}

func newOfflineService(t *testing.T) (*OrdaService, *fakeMongo) {
	if os.Getenv("ORDA_DEMO_VERBOSE") == "" { // the orda loggers write to os.Stderr: keep the output readable
		if devNull, err := os.OpenFile(os.DevNull, os.O_WRONLY, 0); err == nil {
			saved := os.Stderr
			os.Stderr = devNull
			t.Cleanup(func() { os.Stderr = saved })
		}
	}
	fake := startFakeMongo(t)
	ctx := context.NewOrdaContext(gocontext.TODO(), "T")
	repo, err := mongodb.New(ctx, &mongodb.Config{
		Host: fake.addr(), OrdaDB: "orda_demo", User: "u", Password: "p", Options: "authMechanism=PLAIN"})
	require.NoError(t, err)
	rds, err := redis.New(ctx, nil) // no redis: local locks
	require.NoError(t, err)
	notifier, err := notification.NewNotifier(ctx, startFakeMQTT(t))
	require.NoError(t, err)
	return NewOrdaService(&managers.Managers{Mongo: repo, Redis: rds, Notifier: notifier}), fake
}

// createCollections creates the named collections and returns their numbers.
// Two throw-away collections are created first: on the unmodified tree the first two collections ever created both get
// number 1 (GetNextCollectionNum returns the counter before its increment), which is unrelated to this demonstration.
func createCollections(t *testing.T, svc *OrdaService, names ...string) map[string]int32 {
	ctx := context.NewOrdaContext(gocontext.TODO(), "T")
	nums := map[string]int32{}
	seen := map[int32]string{}
	for _, name := range append([]string{"warmup1", "warmup2"}, names...) {
		_, err := svc.CreateCollection(gocontext.TODO(), &model.CollectionMessage{Collection: name})
		require.NoError(t, err)
		doc, oErr := svc.managers.Mongo.GetCollection(ctx, name)
		require.NoError(t, oErr)
		require.NotNil(t, doc)
		if strings.HasPrefix(name, "warmup") {
			continue
		}
		require.Equal(t, "", seen[doc.Num], "collections must have distinct numbers")
		seen[doc.Num] = name
		nums[name] = doc.Num
	}
	return nums
}

type site struct {
	client  orda.Client
	counter orda.Counter
	wrap    *wrapper.DatatypeWrapper
}

// newSite builds an orda client of a collection holding one counter, and registers the client at the server.
func newSite(t *testing.T, svc *OrdaService, collection, alias, key string, state string) *site {
	conf := &orda.ClientConfig{CollectionName: collection, SyncType: model.SyncType_MANUALLY}
	s := &site{client: orda.NewClient(conf, alias)}
	switch state {
	case "create":
		s.counter = s.client.CreateCounter(key, nil)
	case "subscribe":
		s.counter = s.client.SubscribeCounter(key, nil)
	default:
		s.counter = s.client.SubscribeOrCreateCounter(key, nil)
	}
	s.wrap = wrapper.NewDatatypeWrapper(s.counter)
	_, err := svc.ProcessClient(gocontext.TODO(), model.NewClientMessage(s.wrap.GetClientModel()))
	require.NoError(t, err)
	return s
}

// sync does one push-pull of the site's counter against the service and applies the answer.
func (s *site) sync(t *testing.T, svc *OrdaService) *model.PushPullPack {
	res, err := svc.ProcessPushPull(gocontext.TODO(), s.wrap.CreatePushPullMessage())
	require.NoError(t, err)
	require.Len(t, res.PushPullPacks, 1)
	ppp := res.PushPullPacks[0]
	require.False(t, ppp.GetPushPullPackOption().HasErrorBit(), "push-pull answered an error: %s", ppp.ToString(true))
	s.wrap.ApplyPushPullPack(ppp)
	return ppp
}

func eventually(t *testing.T, what string, cond func() bool) {
	deadline := time.Now().Add(3 * time.Second)
	for time.Now().Before(deadline) {
		if cond() {
			return
		}
		time.Sleep(20 * time.Millisecond)
	}
	t.Fatalf("timeout: %s", what)
}

func field(d bson.D, key string) interface{} {
	v, _ := lookup(d, key)
	return v
}

func docsWhere(docs []bson.D, key string, value interface{}) []bson.D {
	var out []bson.D
	for _, d := range docs {
		if c, ok := compareValues(field(d, key), value); ok && c == 0 {
			out = append(out, d)
		}
	}
	return out
}

// ---------------------------------------------------------------------------------------------------------------
// fakeMongo: a tiny in-memory MongoDB speaking just enough of the wire protocol (OP_QUERY handshake + OP_MSG) for
// the orda server. It supports find/insert/update/delete/findAndModify/listCollections/drop/createIndexes and the
// filters the orda repository builds (equality, $gte, $lte, $exists). It lets the real repository code run offline.
// ---------------------------------------------------------------------------------------------------------------

type fakeMongo struct {
	mu    sync.Mutex
	ln    net.Listener
	colls map[string][]bson.D // collection name -> documents
}

func startFakeMongo(t *testing.T) *fakeMongo {
	ln, err := net.Listen("tcp", "127.0.0.1:0")
	if err != nil {
		t.Fatal(err)
	}
	f := &fakeMongo{ln: ln, colls: map[string][]bson.D{}}
	go func() {
		for {
			c, err := ln.Accept()
			if err != nil {
				return
			}
			go f.serve(c)
		}
	}()
	t.Cleanup(func() { _ = ln.Close() })
	return f
}

func (f *fakeMongo) addr() string { return f.ln.Addr().String() }

// docs returns a copy of the documents of a collection
func (f *fakeMongo) docs(coll string) []bson.D {
	f.mu.Lock()
	defer f.mu.Unlock()
	return append([]bson.D{}, f.colls[coll]...)
}

func (f *fakeMongo) serve(c net.Conn) {
	defer c.Close()
	for {
		hdr := make([]byte, 16)
		if _, err := io.ReadFull(c, hdr); err != nil {
			return
		}
		length := int(binary.LittleEndian.Uint32(hdr[0:4]))
		reqID := binary.LittleEndian.Uint32(hdr[4:8])
		opCode := binary.LittleEndian.Uint32(hdr[12:16])
		body := make([]byte, length-16)
		if _, err := io.ReadFull(c, body); err != nil {
			return
		}
		var cmd bson.D
		switch opCode {
		case 2004: // OP_QUERY (legacy handshake)
			p := 4
			for body[p] != 0 {
				p++
			}
			p += 1 + 8
			cmd = readDoc(body[p:])
			reply := mustMarshal(f.handle(cmd))
			out := make([]byte, 0, 36+len(reply))
			out = appendHeader(out, 36+len(reply), reqID, 1)
			out = append(out, 0, 0, 0, 0)             // responseFlags
			out = append(out, 0, 0, 0, 0, 0, 0, 0, 0) // cursorID
			out = append(out, 0, 0, 0, 0)             // startingFrom
			out = append(out, 1, 0, 0, 0)             // numberReturned
			out = append(out, reply...)
			if _, err := c.Write(out); err != nil {
				return
			}
		case 2013: // OP_MSG
			flags := binary.LittleEndian.Uint32(body[0:4])
			end := len(body)
			if flags&1 == 1 {
				end -= 4
			}
			p := 4
			for p < end {
				kind := body[p]
				p++
				if kind == 0 {
					l := int(binary.LittleEndian.Uint32(body[p : p+4]))
					cmd = append(readDoc(body[p:p+l]), cmd...)
					p += l
				} else {
					l := int(binary.LittleEndian.Uint32(body[p : p+4]))
					sec := body[p+4 : p+l]
					p += l
					q := 0
					for sec[q] != 0 {
						q++
					}
					id := string(sec[:q])
					q++
					var arr bson.A
					for q < len(sec) {
						dl := int(binary.LittleEndian.Uint32(sec[q : q+4]))
						arr = append(arr, readDoc(sec[q:q+dl]))
						q += dl
					}
					cmd = append(cmd, bson.E{Key: id, Value: arr})
				}
			}
			reply := mustMarshal(f.handle(cmd))
			out := make([]byte, 0, 21+len(reply))
			out = appendHeader(out, 21+len(reply), reqID, 2013)
			out = append(out, 0, 0, 0, 0, 0)
			out = append(out, reply...)
			if _, err := c.Write(out); err != nil {
				return
			}
		default:
			return
		}
	}
}

func appendHeader(out []byte, length int, responseTo uint32, opCode uint32) []byte {
	b := make([]byte, 16)
	binary.LittleEndian.PutUint32(b[0:4], uint32(length))
	binary.LittleEndian.PutUint32(b[4:8], 1)
	binary.LittleEndian.PutUint32(b[8:12], responseTo)
	binary.LittleEndian.PutUint32(b[12:16], opCode)
	return append(out, b...)
}

func readDoc(b []byte) bson.D {
	var d bson.D
	if err := bson.Unmarshal(b, &d); err != nil {
		panic(err)
	}
	return d
}

func mustMarshal(d bson.D) []byte {
	b, err := bson.Marshal(d)
	if err != nil {
		panic(err)
	}
	return b
}

func lookup(d bson.D, key string) (interface{}, bool) {
	for _, e := range d {
		if e.Key == key {
			return e.Value, true
		}
	}
	return nil, false
}

func setKey(d bson.D, key string, v interface{}) bson.D {
	for i := range d {
		if d[i].Key == key {
			d[i].Value = v
			return d
		}
	}
	return append(d, bson.E{Key: key, Value: v})
}

func asDoc(v interface{}) bson.D {
	if d, ok := v.(bson.D); ok {
		return d
	}
	return nil
}

func asNum(v interface{}) (float64, bool) {
	switch n := v.(type) {
	case int32:
		return float64(n), true
	case int64:
		return float64(n), true
	case float64:
		return n, true
	case int:
		return float64(n), true
	}
	return 0, false
}

func truthy(v interface{}) bool {
	if b, ok := v.(bool); ok {
		return b
	}
	n, ok := asNum(v)
	return ok && n != 0
}

func compareValues(a, b interface{}) (int, bool) {
	if x, ok := asNum(a); ok {
		if y, ok := asNum(b); ok {
			switch {
			case x < y:
				return -1, true
			case x > y:
				return 1, true
			}
			return 0, true
		}
		return 0, false
	}
	if x, ok := a.(string); ok {
		if y, ok := b.(string); ok {
			return strings.Compare(x, y), true
		}
		return 0, false
	}
	if reflect.DeepEqual(a, b) {
		return 0, true
	}
	return 0, false
}

func isOperatorDoc(d bson.D) bool {
	return len(d) > 0 && strings.HasPrefix(d[0].Key, "$")
}

func matches(doc bson.D, filter bson.D) bool {
	for _, cond := range filter {
		val, exists := lookup(doc, cond.Key)
		if ops := asDoc(cond.Value); ops != nil && isOperatorDoc(ops) {
			for _, op := range ops {
				c, comparable := compareValues(val, op.Value)
				switch op.Key {
				case "$gte":
					if !exists || !comparable || c < 0 {
						return false
					}
				case "$lte":
					if !exists || !comparable || c > 0 {
						return false
					}
				case "$exists":
					if exists != truthy(op.Value) {
						return false
					}
				default:
					panic("fakeMongo: unsupported operator " + op.Key)
				}
			}
			continue
		}
		if !exists {
			return false
		}
		if c, comparable := compareValues(val, cond.Value); !comparable || c != 0 {
			return false
		}
	}
	return true
}

func applyUpdate(doc bson.D, u bson.D, filter bson.D, inserting bool) bson.D {
	if !isOperatorDoc(u) { // replacement
		id, hasID := lookup(doc, "_id")
		if !hasID {
			id, hasID = lookup(filter, "_id")
		}
		out := bson.D{}
		if _, ok := lookup(u, "_id"); !ok && hasID {
			out = append(out, bson.E{Key: "_id", Value: id})
		}
		return append(out, u...)
	}
	if inserting {
		for _, cond := range filter {
			if ops := asDoc(cond.Value); ops != nil && isOperatorDoc(ops) {
				continue
			}
			doc = setKey(doc, cond.Key, cond.Value)
		}
	}
	for _, op := range u {
		switch op.Key {
		case "$set":
			for _, e := range asDoc(op.Value) {
				doc = setKey(doc, e.Key, e.Value)
			}
		case "$inc":
			for _, e := range asDoc(op.Value) {
				cur, _ := lookup(doc, e.Key)
				x, _ := asNum(cur)
				y, _ := asNum(e.Value)
				doc = setKey(doc, e.Key, int32(x+y))
			}
		case "$currentDate":
			for _, e := range asDoc(op.Value) {
				doc = setKey(doc, e.Key, primitive.NewDateTimeFromTime(time.Now()))
			}
		default:
			panic("fakeMongo: unsupported update operator " + op.Key)
		}
	}
	return doc
}

func cursorReply(ns string, batch bson.A) bson.D {
	if batch == nil {
		batch = bson.A{}
	}
	return bson.D{
		{Key: "cursor", Value: bson.D{{Key: "firstBatch", Value: batch}, {Key: "id", Value: int64(0)}, {Key: "ns", Value: ns}}},
		{Key: "ok", Value: 1},
	}
}

func (f *fakeMongo) handle(cmd bson.D) bson.D {
	f.mu.Lock()
	defer f.mu.Unlock()
	name := cmd[0].Key
	coll, _ := cmd[0].Value.(string)
	dbv, _ := lookup(cmd, "$db")
	db, _ := dbv.(string)
	ok := bson.D{{Key: "ok", Value: 1}}
	switch name {
	case "hello", "isMaster", "ismaster":
		return bson.D{
			{Key: "ismaster", Value: true}, {Key: "isWritablePrimary", Value: true}, {Key: "helloOk", Value: true},
			{Key: "msg", Value: "isdbgrid"},
			{Key: "maxBsonObjectSize", Value: int32(16777216)}, {Key: "maxMessageSizeBytes", Value: int32(48000000)},
			{Key: "maxWriteBatchSize", Value: int32(100000)}, {Key: "logicalSessionTimeoutMinutes", Value: int32(30)},
			{Key: "minWireVersion", Value: int32(0)}, {Key: "maxWireVersion", Value: int32(13)},
			{Key: "readOnly", Value: false}, {Key: "ok", Value: 1},
		}
	case "saslStart": // authMechanism=PLAIN: accept anybody
		return bson.D{{Key: "conversationId", Value: int32(1)}, {Key: "done", Value: true},
			{Key: "payload", Value: primitive.Binary{}}, {Key: "ok", Value: 1}}
	case "find":
		filter := asDoc(mustLookup(cmd, "filter"))
		var found []bson.D
		for _, d := range f.colls[coll] {
			if matches(d, filter) {
				found = append(found, d)
			}
		}
		if s, has := lookup(cmd, "sort"); has {
			for _, key := range asDoc(s) {
				dir, _ := asNum(key.Value)
				k := key.Key
				sort.SliceStable(found, func(i, j int) bool {
					a, _ := lookup(found[i], k)
					b, _ := lookup(found[j], k)
					c, _ := compareValues(a, b)
					if dir < 0 {
						return c > 0
					}
					return c < 0
				})
			}
		}
		if l, has := lookup(cmd, "limit"); has {
			if n, _ := asNum(l); n > 0 && int(n) < len(found) {
				found = found[:int(n)]
			}
		}
		var batch bson.A
		for _, d := range found {
			batch = append(batch, d)
		}
		return cursorReply(db+"."+coll, batch)
	case "insert":
		n := 0
		var writeErrors bson.A
		for i, v := range mustLookup(cmd, "documents").(bson.A) {
			d := asDoc(v)
			id, _ := lookup(d, "_id")
			dup := false
			for _, e := range f.colls[coll] {
				if eid, _ := lookup(e, "_id"); reflect.DeepEqual(eid, id) {
					dup = true
				}
			}
			if dup {
				writeErrors = append(writeErrors, bson.D{{Key: "index", Value: int32(i)}, {Key: "code", Value: int32(11000)},
					{Key: "errmsg", Value: fmt.Sprintf("E11000 duplicate key error collection: %s.%s _id: %v", db, coll, id)}})
				break
			}
			f.colls[coll] = append(f.colls[coll], d)
			n++
		}
		reply := bson.D{{Key: "n", Value: int32(n)}}
		if writeErrors != nil {
			reply = append(reply, bson.E{Key: "writeErrors", Value: writeErrors})
		}
		return append(reply, ok...)
	case "update":
		n, nModified := 0, 0
		var upserted bson.A
		for i, v := range mustLookup(cmd, "updates").(bson.A) {
			spec := asDoc(v)
			q := asDoc(mustLookup(spec, "q"))
			u := asDoc(mustLookup(spec, "u"))
			multi, _ := lookup(spec, "multi")
			upsert, _ := lookup(spec, "upsert")
			matched := false
			for j, d := range f.colls[coll] {
				if matches(d, q) {
					matched = true
					f.colls[coll][j] = applyUpdate(d, u, q, false)
					n++
					nModified++
					if !truthy(multi) {
						break
					}
				}
			}
			if !matched && truthy(upsert) {
				nd := applyUpdate(bson.D{}, u, q, true)
				if _, has := lookup(nd, "_id"); !has {
					nd = append(bson.D{{Key: "_id", Value: primitive.NewObjectID()}}, nd...)
				}
				f.colls[coll] = append(f.colls[coll], nd)
				id, _ := lookup(nd, "_id")
				n++
				upserted = append(upserted, bson.D{{Key: "index", Value: int32(i)}, {Key: "_id", Value: id}})
			}
		}
		reply := bson.D{{Key: "n", Value: int32(n)}, {Key: "nModified", Value: int32(nModified)}}
		if upserted != nil {
			reply = append(reply, bson.E{Key: "upserted", Value: upserted})
		}
		return append(reply, ok...)
	case "delete":
		n := 0
		for _, v := range mustLookup(cmd, "deletes").(bson.A) {
			spec := asDoc(v)
			q := asDoc(mustLookup(spec, "q"))
			limit, _ := asNum(mustLookup(spec, "limit"))
			var kept []bson.D
			deleted := 0
			for _, d := range f.colls[coll] {
				if matches(d, q) && (limit == 0 || deleted < int(limit)) {
					deleted++
					continue
				}
				kept = append(kept, d)
			}
			f.colls[coll] = kept
			n += deleted
		}
		return append(bson.D{{Key: "n", Value: int32(n)}}, ok...)
	case "findAndModify":
		q := asDoc(mustLookup(cmd, "query"))
		u := asDoc(mustLookup(cmd, "update"))
		upsert, _ := lookup(cmd, "upsert")
		returnNew, _ := lookup(cmd, "new")
		for j, d := range f.colls[coll] {
			if matches(d, q) {
				before := append(bson.D{}, d...)
				f.colls[coll][j] = applyUpdate(append(bson.D{}, d...), u, q, false)
				var value interface{} = before
				if truthy(returnNew) {
					value = f.colls[coll][j]
				}
				return bson.D{{Key: "value", Value: value},
					{Key: "lastErrorObject", Value: bson.D{{Key: "n", Value: int32(1)}, {Key: "updatedExisting", Value: true}}},
					{Key: "ok", Value: 1}}
			}
		}
		var value interface{}
		if truthy(upsert) {
			nd := applyUpdate(bson.D{}, u, q, true)
			f.colls[coll] = append(f.colls[coll], nd)
			if truthy(returnNew) {
				value = nd
			}
		}
		return bson.D{{Key: "value", Value: value},
			{Key: "lastErrorObject", Value: bson.D{{Key: "n", Value: int32(0)}, {Key: "updatedExisting", Value: false}}},
			{Key: "ok", Value: 1}}
	case "listCollections":
		filter := bson.D{}
		if fv, has := lookup(cmd, "filter"); has {
			filter = asDoc(fv)
		}
		var names []string
		for k := range f.colls {
			names = append(names, k)
		}
		sort.Strings(names)
		var batch bson.A
		for _, k := range names {
			d := bson.D{{Key: "name", Value: k}, {Key: "type", Value: "collection"}}
			if matches(d, filter) {
				batch = append(batch, d)
			}
		}
		return cursorReply(db+".$cmd.listCollections", batch)
	case "drop":
		delete(f.colls, coll)
		return ok
	case "createIndexes":
		if _, has := f.colls[coll]; !has {
			f.colls[coll] = nil
		}
		return ok
	default: // ping, endSessions, commitTransaction, abortTransaction, ...
		return ok
	}
}

func mustLookup(d bson.D, key string) interface{} {
	v, ok := lookup(d, key)
	if !ok {
		panic("fakeMongo: missing field " + key)
	}
	return v
}

// ---------------------------------------------------------------------------------------------------------------
// fakeMQTT: accepts MQTT connections, acknowledges CONNECT and PINGREQ and swallows everything else (QoS 0 PUBLISH).
// It is only needed so that notification.NewNotifier succeeds and the real post-push-pull path of the server runs.
// ---------------------------------------------------------------------------------------------------------------

func startFakeMQTT(t *testing.T) string {
	ln, err := net.Listen("tcp", "127.0.0.1:0")
	if err != nil {
		t.Fatal(err)
	}
	t.Cleanup(func() { _ = ln.Close() })
	go func() {
		for {
			c, err := ln.Accept()
			if err != nil {
				return
			}
			go func(c net.Conn) {
				defer c.Close()
				for {
					first := make([]byte, 1)
					if _, err := io.ReadFull(c, first); err != nil {
						return
					}
					remaining, shift := 0, uint(0)
					for {
						b := make([]byte, 1)
						if _, err := io.ReadFull(c, b); err != nil {
							return
						}
						remaining |= int(b[0]&0x7f) << shift
						shift += 7
						if b[0]&0x80 == 0 {
							break
						}
					}
					if _, err := io.ReadFull(c, make([]byte, remaining)); err != nil {
						return
					}
					switch first[0] >> 4 {
					case 1: // CONNECT -> CONNACK
						_, _ = c.Write([]byte{0x20, 0x02, 0x00, 0x00})
					case 12: // PINGREQ -> PINGRESP
						_, _ = c.Write([]byte{0xd0, 0x00})
					case 14: // DISCONNECT
						return
					}
				}
			}(c)
		}
	}()
	return "tcp://" + ln.Addr().String()
}
