package orda

import (
	"encoding/json"
	"testing"

	"github.com/orda-io/orda/client/pkg/model"
	"github.com/orda-io/orda/client/pkg/testonly"
	"github.com/stretchr/testify/require"
)

// F48: a map whose static type is not map[string]interface{} (map[string]string, map[string]int, ...) panicked in
// createJSONObject (type assertion to map[string]interface{}) after the operation identifier had been taken.
func TestFXTypedMapValueInDocument(t *testing.T) {
	w := testonly.NewTestWire(true)
	d1, _ := newDocument(testonly.NewBase("d", model.TypeOfDatatype_DOCUMENT), w, nil)
	d2, _ := newDocument(testonly.NewBase("d", model.TypeOfDatatype_DOCUMENT), w, nil)
	w.SetDatatypes(d1.(*document).WiredDatatype, d2.(*document).WiredDatatype)
	require.NotPanics(t, func() {
		_, err := d1.PutToObject("s", map[string]string{"y": "2", "x": "1"})
		require.NoError(t, err)
		_, err = d1.PutToObject("n", map[string]int{"b": 2, "a": 1})
		require.NoError(t, err)
		_, err = d1.PutToObject("nested", map[string]interface{}{"in": map[string]bool{"t": true}})
		require.NoError(t, err)
	})
	require.Equal(t, `{"n":{"a":1,"b":2},"nested":{"in":{"t":true}},"s":{"x":"1","y":"2"}}`, marshalForTest(t, d1.ToJSON()))
	require.Equal(t, marshalForTest(t, d1.ToJSON()), marshalForTest(t, d2.ToJSON()))
	// the operations keep working on both replicas: the identifiers allocated for the members agree
	s1, _ := d1.GetFromObject("s")
	_, err := s1.PutToObject("z", "3")
	require.NoError(t, err)
	require.Equal(t, marshalForTest(t, d1.ToJSON()), marshalForTest(t, d2.ToJSON()))
}

func marshalForTest(t *testing.T, v interface{}) string {
	b, err := json.Marshal(v)
	require.NoError(t, err)
	return string(b)
}
