package orda

import (
	"testing"

	"github.com/orda-io/orda/client/pkg/model"
	"github.com/orda-io/orda/client/pkg/testonly"
	"github.com/stretchr/testify/require"
)

// F15: B pushes +10 (log position 1), A pushes +1 (log position 2) and loses the response; A retries from its old
// checkpoint and the server answers [B's +10, A's own +1] with checkpoint (s:2 c:1). Before the repair
// excludeDuplicatedOperations skipped by count from the front: B's operation was dropped and A applied its own +1 a
// second time (A read 2, every other replica 11), and nothing was ever pulled again.
func TestF15RetryAfterALostResponse(t *testing.T) {
	mk := func(name string) *counter {
		base := testonly.NewBase("f15", model.TypeOfDatatype_COUNTER)
		base.SetState(model.StateOfDatatype_SUBSCRIBED)
		c, err := newCounter(base, testonly.NewTestWire(false), nil)
		require.NoError(t, err)
		return c.(*counter)
	}
	a, b := mk("a"), mk("b")
	_, err := b.IncreaseBy(10)
	require.NoError(t, err)
	_, err = a.IncreaseBy(1)
	require.NoError(t, err)
	bOps := b.CreatePushPullPack().Operations
	aOps := a.CreatePushPullPack().Operations
	require.Len(t, bOps, 1)
	require.Len(t, aOps, 1)

	// the answer to A's retry: the log from A's old checkpoint on, A's own operation behind B's
	res := &model.PushPullPack{Key: "f15", DUID: a.GetDUID(), Option: uint32(model.PushPullBitNormal),
		CheckPoint: &model.CheckPoint{Sseq: 2, Cseq: 1}, Operations: []*model.Operation{bOps[0], aOps[0]}}
	a.ApplyPushPullPack(res)
	require.Equal(t, int32(11), a.Get(), "A holds its own +1 once and B's +10")

	// the ordinary answer (nothing lost) is unchanged: only the other replica's operation comes back
	a2, b2 := mk("a2"), mk("b2")
	_, _ = b2.IncreaseBy(10)
	_, _ = a2.IncreaseBy(1)
	res2 := &model.PushPullPack{Key: "f15", DUID: a2.GetDUID(), Option: uint32(model.PushPullBitNormal),
		CheckPoint: &model.CheckPoint{Sseq: 2, Cseq: 1}, Operations: []*model.Operation{b2.CreatePushPullPack().Operations[0]}}
	a2.ApplyPushPullPack(res2)
	require.Equal(t, int32(11), a2.Get())
}
