package orda

// Belongs in: client/pkg/orda (package-internal test).
// Defect: Patch/PatchByJSON with two or more operations inside Transaction(...) deadlocks.

import (
	"encoding/json"
	"testing"
	"time"

	"github.com/orda-io/orda/client/pkg/model"
	"github.com/orda-io/orda/client/pkg/testonly"
	"github.com/stretchr/testify/require"
	"github.com/wI2L/jsondiff"
)

// fxRunWithTimeout runs f in a goroutine and reports whether it returned within d.
func fxRunWithTimeout(d time.Duration, f func() error) (error, bool) {
	done := make(chan error, 1)
	go func() { done <- f() }()
	select {
	case err := <-done:
		return err, true
	case <-time.After(d):
		return nil, false
	}
}

func fxJSON(t *testing.T, d Document) string {
	b, err := json.Marshal(d.ToJSON())
	require.NoError(t, err)
	return string(b)
}

func fxNewDoc(t *testing.T) (Document, *testonly.TestWire) {
	tw := testonly.NewTestWire(true)
	doc, err := newDocument(testonly.NewBase(t.Name(), model.TypeOfDatatype_DOCUMENT), tw, nil)
	require.NoError(t, err)
	return doc, tw
}

// PatchByJSON with two differences inside a user transaction must return and apply both of them.
func TestFXPatchByJSONInTransaction(t *testing.T) {
	doc, _ := fxNewDoc(t)
	_, oErr := doc.PutToObject("keep", "v")
	require.NoError(t, oErr)

	err, returned := fxRunWithTimeout(3*time.Second, func() error {
		return doc.Transaction("tx", func(d DocumentInTx) error {
			if _, err := d.PutToObject("before", 0); err != nil {
				return err
			}
			if _, err := d.PatchByJSON(`{"keep":"v","before":0,"a":1,"b":2}`); err != nil {
				return err
			}
			_, err := d.PutToObject("after", 3)
			return err
		})
	})
	require.True(t, returned, "Transaction(PatchByJSON with 2 differences) did not return: deadlock")
	require.NoError(t, err)
	require.JSONEq(t, `{"keep":"v","before":0,"a":1,"b":2,"after":3}`, fxJSON(t, doc))

	// the datatype must be usable afterwards (the lock was released exactly once)
	err, returned = fxRunWithTimeout(3*time.Second, func() error {
		_, err := doc.PutToObject("later", 4)
		if err != nil {
			return err
		}
		return nil
	})
	require.True(t, returned, "the document stayed locked after the transaction")
	require.NoError(t, err)
}

// Patch with two operations inside a user transaction: the whole user transaction stays atomic.
func TestFXPatchInTransactionIsAtomic(t *testing.T) {
	doc, _ := fxNewDoc(t)
	_, oErr := doc.PutToObject("o", map[string]interface{}{"x": 1})
	require.NoError(t, oErr)
	before := fxJSON(t, doc)

	p1 := jsondiff.Operation{Type: "add", Path: "/o/y", Value: 2}
	p2 := jsondiff.Operation{Type: "replace", Path: "/o/x", Value: 10}
	bad := jsondiff.Operation{Type: "remove", Path: "/nosuch/k"}

	// success
	err, returned := fxRunWithTimeout(3*time.Second, func() error {
		return doc.Transaction("ok", func(d DocumentInTx) error {
			if err := d.Patch(p1, p2); err != nil {
				return err
			}
			return nil
		})
	})
	require.True(t, returned, "Transaction(Patch(p1,p2)) did not return: deadlock")
	require.NoError(t, err)
	require.JSONEq(t, `{"o":{"x":10,"y":2}}`, fxJSON(t, doc))

	// failure in the middle of the nested patch rolls back the whole user transaction
	doc2, _ := fxNewDoc(t)
	_, oErr = doc2.PutToObject("o", map[string]interface{}{"x": 1})
	require.NoError(t, oErr)
	err, returned = fxRunWithTimeout(3*time.Second, func() error {
		return doc2.Transaction("fails", func(d DocumentInTx) error {
			if _, err := d.PutToObject("z", 1); err != nil {
				return err
			}
			if err := d.Patch(p1, bad, p2); err != nil {
				return err
			}
			return nil
		})
	})
	require.True(t, returned, "Transaction(Patch(p1,bad,p2)) did not return: deadlock")
	require.Error(t, err)
	require.JSONEq(t, before, fxJSON(t, doc2))
	_, oErr = doc2.PutToObject("later", 4) // still usable
	require.NoError(t, oErr)
}

// A failed nested patch whose error the user function swallows: nothing of the user transaction is kept,
// and Transaction reports it.
func TestFXPatchInTransactionErrorSwallowed(t *testing.T) {
	doc, _ := fxNewDoc(t)
	_, oErr := doc.PutToObject("o", map[string]interface{}{"x": 1})
	require.NoError(t, oErr)
	before := fxJSON(t, doc)
	p1 := jsondiff.Operation{Type: "add", Path: "/o/y", Value: 2}
	bad := jsondiff.Operation{Type: "remove", Path: "/nosuch/k"}
	err, returned := fxRunWithTimeout(3*time.Second, func() error {
		return doc.Transaction("swallow", func(d DocumentInTx) error {
			_, _ = d.PutToObject("z", 1)
			_ = d.Patch(p1, bad) // p1 was applied, bad failed
			return nil
		})
	})
	require.True(t, returned, "deadlock")
	require.Error(t, err, "the transaction was rolled back, Transaction must say so")
	require.JSONEq(t, before, fxJSON(t, doc), "a half-applied patch was kept")
}

// The operations of the nested patch travel inside the single transaction of the user: another replica converges.
func TestFXPatchInTransactionReachesOtherReplica(t *testing.T) {
	tw := testonly.NewTestWire(true)
	doc1, err1 := newDocument(testonly.NewBase("k1", model.TypeOfDatatype_DOCUMENT), tw, nil)
	require.NoError(t, err1)
	doc2, err2 := newDocument(testonly.NewBase("k2", model.TypeOfDatatype_DOCUMENT), tw, nil)
	require.NoError(t, err2)
	tw.SetDatatypes(doc1.(*document).WiredDatatype, doc2.(*document).WiredDatatype)

	_, oErr := doc1.PatchByJSON(`{"o":{"x":1},"l":[1,2,3]}`)
	require.NoError(t, oErr)
	require.JSONEq(t, fxJSON(t, doc1), fxJSON(t, doc2))

	err, returned := fxRunWithTimeout(3*time.Second, func() error {
		return doc1.Transaction("tx", func(d DocumentInTx) error {
			if _, err := d.PutToObject("before", 0); err != nil {
				return err
			}
			if _, err := d.PatchByJSON(`{"o":{"x":2,"y":[true]},"l":[1,3],"before":0}`); err != nil {
				return err
			}
			_, err := d.PutToObject("after", 3)
			return err
		})
	})
	require.True(t, returned, "deadlock")
	require.NoError(t, err)
	require.JSONEq(t, `{"o":{"x":2,"y":[true]},"l":[1,3],"before":0,"after":3}`, fxJSON(t, doc1))
	require.JSONEq(t, fxJSON(t, doc1), fxJSON(t, doc2))

	// a failing one leaves both untouched
	before := fxJSON(t, doc1)
	err, returned = fxRunWithTimeout(3*time.Second, func() error {
		return doc1.Transaction("tx2", func(d DocumentInTx) error {
			_, _ = d.PutToObject("zz", 0)
			return d.Patch(jsondiff.Operation{Type: "add", Path: "/o/w", Value: 1},
				jsondiff.Operation{Type: "remove", Path: "/nosuch/k"})
		})
	})
	require.True(t, returned, "deadlock")
	require.Error(t, err)
	require.JSONEq(t, before, fxJSON(t, doc1))
	require.JSONEq(t, before, fxJSON(t, doc2))
	_, oErr = doc1.PutToObject("later", 1)
	require.NoError(t, oErr)
	require.JSONEq(t, fxJSON(t, doc1), fxJSON(t, doc2))
}
