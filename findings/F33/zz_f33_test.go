package managers

// Belongs in: client/pkg/internal/managers/   (package-internal test, package managers)
//
// Reproduces: in a REALTIME client the semaphore of DatatypeManager.DeliverTransaction is per client, but the
// re-delivery check after a push-pull only looks at the datatype whose push-pull just ended. A local operation on a
// second datatype that is delivered while the first one's push-pull is in flight is dropped by TryAcquire and is
// never pushed afterwards (until another local operation on that datatype or an explicit Sync()).
//
// No network: the SyncManager gets a stand-in model.OrdaServiceClient that can hold one push-pull "in flight"; the
// datatypes are stand-ins that implement the few methods DatatypeManager uses for a push.
//
// Run: cd client && go test -vet=off -count=1 -run TestFXRealtime ./pkg/internal/managers/

import (
	gocontext "context"
	"runtime"
	"sync"
	"testing"
	"time"

	"github.com/orda-io/orda/client/pkg/context"
	"github.com/orda-io/orda/client/pkg/iface"
	"github.com/orda-io/orda/client/pkg/model"
	"google.golang.org/grpc"
)

// fxbDatatype is a replica with `seq` local operations of which the server acknowledged `cseq`.
type fxbDatatype struct {
	iface.Datatype // nil: only the methods below are reached from DeliverTransaction
	key            string
	mu             sync.Mutex
	seq            uint64
	cseq           uint64
}

func (d *fxbDatatype) GetKey() string  { return d.key }
func (d *fxbDatatype) GetDUID() string { return "duid-of-" + d.key }
func (d *fxbDatatype) NeedPush() bool {
	d.mu.Lock()
	defer d.mu.Unlock()
	return d.cseq < d.seq
}
func (d *fxbDatatype) CreatePushPullPack() *model.PushPullPack {
	d.mu.Lock()
	defer d.mu.Unlock()
	ppp := &model.PushPullPack{Key: d.key, DUID: d.GetDUID(), CheckPoint: &model.CheckPoint{Cseq: d.cseq}}
	for s := d.cseq + 1; s <= d.seq; s++ {
		ppp.Operations = append(ppp.Operations, &model.Operation{ID: &model.OperationID{CUID: "fxLocalCUID", Seq: s}})
	}
	return ppp
}
func (d *fxbDatatype) ApplyPushPullPack(ppp *model.PushPullPack) {
	d.mu.Lock()
	defer d.mu.Unlock()
	if d.cseq < ppp.CheckPoint.Cseq {
		d.cseq = ppp.CheckPoint.Cseq
	}
}

// localOperation is what WiredDatatype.DeliverTransaction does: buffer the operation, then hand the datatype to the wire.
func (d *fxbDatatype) localOperation(dm *DatatypeManager) {
	d.mu.Lock()
	d.seq++
	d.mu.Unlock()
	dm.DeliverTransaction(d)
}

// fxbServer acknowledges every pushed operation. The first push-pull that carries operations of `holdKey` is held
// in flight (entered is closed) until release is closed.
type fxbServer struct {
	model.OrdaServiceClient // nil: only ProcessPushPull is reached
	mu                      sync.Mutex
	pushed                  map[string]uint64 // key -> number of operations the server got
	requests                []string          // keys, one entry per pack
	holdKey                 string
	held                    bool
	entered                 chan struct{}
	release                 chan struct{}
}

func (s *fxbServer) ProcessPushPull(
	_ gocontext.Context,
	in *model.PushPullMessage,
	_ ...grpc.CallOption,
) (*model.PushPullMessage, error) {
	out := &model.PushPullMessage{Header: in.Header, Collection: in.Collection, Cuid: in.Cuid}
	for _, ppp := range in.PushPullPacks {
		s.mu.Lock()
		s.requests = append(s.requests, ppp.Key)
		for _, op := range ppp.Operations {
			if op.ID.Seq == s.pushed[ppp.Key]+1 {
				s.pushed[ppp.Key]++
			}
		}
		res := ppp.GetResponsePushPullPack()
		res.CheckPoint.Cseq = s.pushed[ppp.Key]
		hold := ppp.Key == s.holdKey && len(ppp.Operations) > 0 && !s.held
		if hold {
			s.held = true
		}
		s.mu.Unlock()
		if hold {
			close(s.entered)
			<-s.release
		}
		out.PushPullPacks = append(out.PushPullPacks, res)
	}
	return out, nil
}

func (s *fxbServer) pushedOf(key string) uint64 {
	s.mu.Lock()
	defer s.mu.Unlock()
	return s.pushed[key]
}

func fxbWaitFor(cond func() bool, d time.Duration) bool {
	deadline := time.Now().Add(d)
	for time.Now().Before(deadline) {
		if cond() {
			return true
		}
		time.Sleep(time.Millisecond)
	}
	return cond()
}

func fxbRun(t *testing.T, others ...string) {
	srv := &fxbServer{
		pushed:  map[string]uint64{},
		holdKey: "k1",
		entered: make(chan struct{}),
		release: make(chan struct{}),
	}
	cm := &model.Client{CUID: "fxLocalCUID", Alias: "fx", Collection: "fxcol", SyncType: model.SyncType_REALTIME}
	ctx := context.NewClientContext(gocontext.TODO(), cm)
	dm := NewDatatypeManager(ctx, &SyncManager{ctx: ctx, client: cm, serviceClient: srv})
	k1 := &fxbDatatype{key: "k1"}
	dm.dataMap["k1"] = k1
	var rest []*fxbDatatype
	for _, k := range others {
		d := &fxbDatatype{key: k}
		dm.dataMap[k] = d
		rest = append(rest, d)
	}
	idle := runtime.NumGoroutine()

	// 1. a local operation on k1: its push-pull reaches the server and stays in flight.
	k1.localOperation(dm)
	select {
	case <-srv.entered:
	case <-time.After(5 * time.Second):
		t.Fatal("setup: k1's push-pull never reached the server")
	}

	// 2. meanwhile one local operation on each of the other datatypes. Each DeliverTransaction goroutine finds the
	//    client's semaphore taken and returns; wait until all of them are gone, so that the outcome does not
	//    depend on scheduling.
	inFlight := runtime.NumGoroutine()
	for _, d := range rest {
		d.localOperation(dm)
	}
	if !fxbWaitFor(func() bool { return runtime.NumGoroutine() <= inFlight }, 5*time.Second) {
		t.Fatal("setup: the delivery goroutines of the other datatypes did not end")
	}
	for _, d := range rest {
		if n := srv.pushedOf(d.key); n != 0 {
			t.Fatalf("setup: %s was pushed while k1's push-pull held the semaphore", d.key)
		}
	}

	// 3. k1's push-pull completes. Nothing else happens on the client: no further operation, no Sync().
	close(srv.release)

	// 4. a realtime client has to push the pending operations by itself.
	for _, d := range rest {
		d := d
		if !fxbWaitFor(func() bool { return srv.pushedOf(d.key) == 1 }, time.Second) {
			t.Errorf("%s: the operation made while k1's push-pull was in flight was never pushed "+
				"(server has %d operations of %s, the client still says NeedPush=%v)",
				d.key, srv.pushedOf(d.key), d.key, d.NeedPush())
		}
	}
	if n := srv.pushedOf("k1"); n != 1 {
		t.Errorf("k1: server has %d operations, want 1", n)
	}

	// 5. and then it has to come to rest: no delivery goroutine left, nothing to push, one push-pull per operation.
	if !fxbWaitFor(func() bool { return runtime.NumGoroutine() <= idle }, 2*time.Second) {
		t.Errorf("delivery goroutines still running: %d, idle was %d", runtime.NumGoroutine(), idle)
	}
	srv.mu.Lock()
	defer srv.mu.Unlock()
	if !t.Failed() && len(srv.requests) != 1+len(rest) {
		t.Errorf("expected %d push-pulls (one per datatype), the server got %d: %q",
			1+len(rest), len(srv.requests), srv.requests)
	}
	t.Logf("push-pulls seen by the server: %q", srv.requests)
}

func TestFXRealtimeSecondDatatypePushedAfterFirstSync(t *testing.T) {
	fxbRun(t, "k2")
}

func TestFXRealtimeAllOtherDatatypesPushedAfterFirstSync(t *testing.T) {
	fxbRun(t, "k2", "k3", "k4")
}

// Control: the re-delivery for the SAME datatype (the only case the unmodified tree handles) keeps working.
func TestFXRealtimeSameDatatypeRedelivered(t *testing.T) {
	srv := &fxbServer{
		pushed:  map[string]uint64{},
		holdKey: "k1",
		entered: make(chan struct{}),
		release: make(chan struct{}),
	}
	cm := &model.Client{CUID: "fxLocalCUID", Alias: "fx", Collection: "fxcol", SyncType: model.SyncType_REALTIME}
	ctx := context.NewClientContext(gocontext.TODO(), cm)
	dm := NewDatatypeManager(ctx, &SyncManager{ctx: ctx, client: cm, serviceClient: srv})
	k1 := &fxbDatatype{key: "k1"}
	dm.dataMap["k1"] = k1
	dm.dataMap["k2"] = &fxbDatatype{key: "k2"} // idle bystander: must not be pushed
	k1.localOperation(dm)
	<-srv.entered
	inFlight := runtime.NumGoroutine()
	k1.localOperation(dm)
	if !fxbWaitFor(func() bool { return runtime.NumGoroutine() <= inFlight }, 5*time.Second) {
		t.Fatal("setup: the second delivery goroutine did not end")
	}
	close(srv.release)
	if !fxbWaitFor(func() bool { return srv.pushedOf("k1") == 2 }, time.Second) {
		t.Errorf("k1: server has %d operations, want 2", srv.pushedOf("k1"))
	}
	fxbWaitFor(func() bool { return runtime.NumGoroutine() < inFlight }, 2*time.Second)
	srv.mu.Lock()
	defer srv.mu.Unlock()
	if len(srv.requests) != 2 || srv.requests[0] != "k1" || srv.requests[1] != "k1" {
		t.Errorf("expected two push-pulls of k1, got %q", srv.requests)
	}
}
