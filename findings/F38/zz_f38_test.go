// Reproducing test of defect "parent-of-root". It belongs in the package directory client/pkg/orda
// (run: cd client && go test -vet=off -count=1 -run TestFX ./pkg/orda/).
package orda

import (
	"testing"

	"github.com/orda-io/orda/client/pkg/model"
	"github.com/orda-io/orda/client/pkg/testonly"
	"github.com/stretchr/testify/require"
)

// fxCatch runs f and returns the recovered panic value (nil when f did not panic).
func fxCatch(f func()) (r interface{}) {
	defer func() { r = recover() }()
	f()
	return nil
}

func fxDoc(t *testing.T) Document {
	d, err := newDocument(testonly.NewBase(t.Name(), model.TypeOfDatatype_DOCUMENT), nil, nil)
	require.NoError(t, err)
	return d
}

// 2. GetParentDocument on the root
func TestFXGetParentDocumentOfRoot(t *testing.T) {
	doc := fxDoc(t)
	_, err := doc.PutToObject("a", map[string]interface{}{"x": 1})
	require.NoError(t, err)
	a, err := doc.GetFromObject("a")
	require.NoError(t, err)
	require.True(t, a.GetParentDocument().Equal(doc))

	var parent Document
	pn := fxCatch(func() {
		parent = doc.GetParentDocument()
		if parent != nil {
			_ = parent.GetTypeOfJSON()
			_ = parent.GetValue()
			_ = parent.IsGarbage()
		}
	})
	require.Nil(t, pn, "using the parent of the root panicked")
	require.Nil(t, parent, "the root has no parent")
}
