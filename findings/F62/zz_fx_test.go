package server

// This file belongs in server/server (package server).
//
// FX18 / C16: "any well-formed request is answered promptly with a response or an error, never a hang or a
// server crash".
//
// The gRPC server of OrdaServer.Start had no recovery interceptor, so a panic in a handler goroutine of
// OrdaService ended the whole server process. PatchDocument replays the stored operations of the document inside
// the handler goroutine; the server stores operation bodies unchecked, so one stored DOC_OBJ_PUT with the body
// {"K":"a","V":1} (no parent P) makes every later PatchDocument of that document panic.
//
// The tests need no MongoDB, MQTT or Redis: the MongoDB driver is given an in-memory deployment (fakeMongo, taken
// from the C17-1 demonstration) on which the real OrdaService, RepositoryMongo and PushPullHandler code runs, and
// the requests travel over a real gRPC connection (bufconn) to a server built by OrdaServer.newRPCServer(), the
// constructor OrdaServer.Start uses.
//
// On the tree before the repair newRPCServer does not exist. To see the defect there, add next to this file
//
//	package server
//	import "google.golang.org/grpc"
//	func (its *OrdaServer) newRPCServer() *grpc.Server { return grpc.NewServer() } // what Start did
//
// (zz_fx_before_shim_test.go in the same out/ directory) and run
//
//	cd server && go test -vet=off -count=1 -run TestFX ./server/

import (
	gocontext "context"
	"fmt"
	"net"
	"os"
	"os/exec"
	"reflect"
	"sort"
	"strings"
	"sync"
	"testing"
	"time"
	"unsafe"

	"github.com/orda-io/orda/client/pkg/model"
	"github.com/orda-io/orda/client/pkg/orda"
	"github.com/orda-io/orda/server/managers"
	"github.com/orda-io/orda/server/mongodb"
	"github.com/orda-io/orda/server/redis"
	"github.com/orda-io/orda/server/schema"
	"github.com/orda-io/orda/server/service"
	"github.com/orda-io/orda/server/wrapper"
	"github.com/stretchr/testify/require"
	"go.mongodb.org/mongo-driver/bson"
	"go.mongodb.org/mongo-driver/bson/primitive"
	"go.mongodb.org/mongo-driver/mongo"
	"go.mongodb.org/mongo-driver/mongo/address"
	"go.mongodb.org/mongo-driver/mongo/description"
	"go.mongodb.org/mongo-driver/mongo/options"
	"go.mongodb.org/mongo-driver/x/bsonx/bsoncore"
	"go.mongodb.org/mongo-driver/x/mongo/driver"
	"go.mongodb.org/mongo-driver/x/mongo/driver/topology"
	"go.mongodb.org/mongo-driver/x/mongo/driver/wiremessage"
	"google.golang.org/grpc"
	"google.golang.org/grpc/codes"
	"google.golang.org/grpc/credentials/insecure"
	"google.golang.org/grpc/status"
	"google.golang.org/grpc/test/bufconn"
)

// ---------------------------------------------------------------------------------------------------------------------
// the tests
// ---------------------------------------------------------------------------------------------------------------------

const (
	fxCollection = "fxcol"
	fxChildEnv   = "FX18_CHILD"
)

// fxMalformedBodies are bodies of operations that decode but cannot be executed: the target of the operation
// (the parent P) is missing.
var fxMalformedBodies = []struct {
	name   string
	opType model.TypeOfOperation
	body   string
}{
	{"DOC_OBJ_PUT without parent", model.TypeOfOperation_DOC_OBJ_PUT, `{"K":"a","V":1}`},
	{"DOC_ARR_INS without parent and target", model.TypeOfOperation_DOC_ARR_INS, `{"V":[1]}`},
}

// fxPoisonDocument creates the Document 'key' in fxCollection with an ordinary client (create + one put, pushed),
// and then pushes one more operation whose body is malformed. The server stores it: bodies are not checked.
func fxPoisonDocument(t *testing.T, rpc model.OrdaServiceClient, key string, opType model.TypeOfOperation, body string) {
	ctx := gocontext.TODO()
	client := orda.NewClient(&orda.ClientConfig{CollectionName: fxCollection, SyncType: model.SyncType_MANUALLY}, "fx-"+key)
	doc := client.CreateDocument(key, nil)
	w := wrapper.NewDatatypeWrapper(doc)
	cm := w.GetClientModel()
	_, err := rpc.ProcessClient(ctx, model.NewClientMessage(cm))
	require.NoError(t, err)

	_, oErr := doc.PutToObject("hello", "world")
	require.NoError(t, oErr)
	res, err := rpc.ProcessPushPull(ctx, w.CreatePushPullMessage())
	require.NoError(t, err)
	require.Len(t, res.PushPullPacks, 1)
	require.False(t, res.PushPullPacks[0].GetPushPullPackOption().HasErrorBit(), "%v", res.PushPullPacks[0].ToString(true))
	cp := res.PushPullPacks[0].CheckPoint
	require.EqualValues(t, 2, cp.Cseq) // the snapshot of the creation and the put

	bad := &model.Operation{
		ID:     &model.OperationID{Era: 0, Lamport: cp.Cseq + 1, CUID: cm.CUID, Seq: cp.Cseq + 1},
		OpType: opType,
		Body:   []byte(body),
	}
	res, err = rpc.ProcessPushPull(ctx, model.NewPushPullMessage(2, cm, &model.PushPullPack{
		DUID:       w.GetDUID(),
		Key:        key,
		Option:     uint32(model.PushPullBitNormal),
		CheckPoint: cp,
		Type:       model.TypeOfDatatype_DOCUMENT,
		Operations: []*model.Operation{bad},
	}))
	require.NoError(t, err)
	require.Len(t, res.PushPullPacks, 1)
	require.False(t, res.PushPullPacks[0].GetPushPullPackOption().HasErrorBit(), "%v", res.PushPullPacks[0].ToString(true))
	require.EqualValues(t, 3, res.PushPullPacks[0].CheckPoint.Cseq, "the server did not store the malformed operation")
}

// fxServe runs the Orda service on a gRPC server built by OrdaServer.newRPCServer(), as OrdaServer.Start does,
// and returns a client connected to it.
func fxServe(t *testing.T) model.OrdaServiceClient {
	mgrs := newFakeManagers(t)
	ordaServer, oErr := NewOrdaServer(gocontext.TODO(), &managers.OrdaServerConfig{})
	require.NoError(t, oErr)
	rpcServer := ordaServer.newRPCServer()
	model.RegisterOrdaServiceServer(rpcServer, service.NewOrdaService(mgrs))
	lis := bufconn.Listen(1 << 20)
	go func() { _ = rpcServer.Serve(lis) }()
	t.Cleanup(rpcServer.Stop)

	conn, err := grpc.Dial("bufnet",
		grpc.WithContextDialer(func(ctx gocontext.Context, _ string) (net.Conn, error) { return lis.DialContext(ctx) }),
		grpc.WithTransportCredentials(insecure.NewCredentials()))
	require.NoError(t, err)
	t.Cleanup(func() { _ = conn.Close() })
	return model.NewOrdaServiceClient(conn)
}

// fxScenario is the reported sequence, over gRPC.
func fxScenario(t *testing.T) {
	rpc := fxServe(t)
	ctx, cancel := gocontext.WithTimeout(gocontext.TODO(), 20*time.Second)
	defer cancel()

	_, err := rpc.CreateCollection(ctx, &model.CollectionMessage{Collection: fxCollection})
	require.NoError(t, err)

	for i, m := range fxMalformedBodies {
		key := fmt.Sprintf("poisoned%d", i)
		fxPoisonDocument(t, rpc, key, m.opType, m.body)

		// the handler replays the stored operations and panics: the request must be answered with an error ...
		res, err := rpc.PatchDocument(ctx, &model.PatchMessage{Collection: fxCollection, Key: key, Json: `{"x":1}`})
		require.Error(t, err, "%s: %v", m.name, res)
		require.Equal(t, codes.Internal, status.Code(err), "%s: %v", m.name, err)
		t.Logf("%s: PatchDocument is answered with: %v", m.name, err)

		// ... again and again: the server is alive, and the lock of the document was released by the deferred Unlock
		// ("fail to lock" would be answered otherwise).
		_, err = rpc.PatchDocument(ctx, &model.PatchMessage{Collection: fxCollection, Key: key, Json: `{"x":1}`})
		require.Equal(t, codes.Internal, status.Code(err), "%s: %v", m.name, err)
		require.Contains(t, status.Convert(err).Message(), "panic", m.name)
	}

	// ... and the server goes on serving harmless requests.
	res, err := rpc.PatchDocument(ctx, &model.PatchMessage{Collection: fxCollection, Key: "healthy", Json: `{"x":1}`})
	require.NoError(t, err)
	require.JSONEq(t, `{"x":1}`, res.Json)
	_, err = rpc.CreateCollection(ctx, &model.CollectionMessage{Collection: "fxcol2"})
	require.NoError(t, err)
}

// TestFXChildServerSurvivesPanickingHandler is the body of the child process of the test below.
func TestFXChildServerSurvivesPanickingHandler(t *testing.T) {
	if os.Getenv(fxChildEnv) == "" {
		t.Skip("runs in the child process of TestFXPanickingHandlerIsAnsweredWithAnError")
	}
	fxScenario(t)
}

// TestFXPanickingHandlerIsAnsweredWithAnError runs the scenario in a child process, because without the repair
// the panic of the handler goroutine ends the process that hosts the gRPC server - here the test binary.
func TestFXPanickingHandlerIsAnsweredWithAnError(t *testing.T) {
	if os.Getenv(fxChildEnv) != "" {
		t.Skip("parent only")
	}
	cmd := exec.Command(os.Args[0], "-test.run=^TestFXChildServerSurvivesPanickingHandler$", "-test.v", "-test.timeout=50s")
	cmd.Env = append(os.Environ(), fxChildEnv+"=1")
	out, err := cmd.CombinedOutput()
	if err != nil {
		lines := strings.Split(string(out), "\n")
		var shown []string
		for i, l := range lines {
			if strings.HasPrefix(l, "panic:") || strings.HasPrefix(l, "--- FAIL") || strings.Contains(l, "Error:") {
				end := i + 12
				if end > len(lines) {
					end = len(lines)
				}
				shown = append(shown, lines[i:end]...)
				break
			}
		}
		t.Fatalf("the process of the server ended with '%v' (a crash of the server if 'panic:' follows):\n%s",
			err, strings.Join(shown, "\n"))
	}
	require.Contains(t, string(out), "--- PASS: TestFXChildServerSurvivesPanickingHandler")
}

// TestFXPatchDocumentPanicEscapesTheHandler documents the root cause without gRPC: the panic of the replay is not
// recovered anywhere inside OrdaService.PatchDocument, it reaches the caller of the handler (the gRPC goroutine).
// It is independent of the repair (which catches the panic one level up) and would report a change of that fact.
func TestFXPatchDocumentPanicEscapesTheHandler(t *testing.T) {
	mgrs := newFakeManagers(t)
	svc := service.NewOrdaService(mgrs)
	ctx := gocontext.TODO()
	_, err := svc.CreateCollection(ctx, &model.CollectionMessage{Collection: fxCollection})
	require.NoError(t, err)
	fxPoisonDocument(t, fxInProcess{svc}, "poisoned", fxMalformedBodies[0].opType, fxMalformedBodies[0].body)

	var recovered interface{}
	var res *model.PatchMessage
	func() {
		defer func() { recovered = recover() }()
		res, err = svc.PatchDocument(ctx, &model.PatchMessage{Collection: fxCollection, Key: "poisoned", Json: `{"x":1}`})
	}()
	require.Nil(t, res, "a document whose log cannot be replayed was patched")
	if recovered == nil {
		require.Error(t, err)
		t.Logf("the handler no longer panics, it answers: %v", err)
		return
	}
	t.Logf("the panic that escapes OrdaService.PatchDocument: %v", recovered)
}

// fxInProcess calls the handlers of the service directly.
type fxInProcess struct{ svc *service.OrdaService }

func (c fxInProcess) ProcessPushPull(ctx gocontext.Context, in *model.PushPullMessage, _ ...grpc.CallOption) (*model.PushPullMessage, error) {
	return c.svc.ProcessPushPull(ctx, in)
}
func (c fxInProcess) ProcessClient(ctx gocontext.Context, in *model.ClientMessage, _ ...grpc.CallOption) (*model.ClientMessage, error) {
	return c.svc.ProcessClient(ctx, in)
}
func (c fxInProcess) PatchDocument(ctx gocontext.Context, in *model.PatchMessage, _ ...grpc.CallOption) (*model.PatchMessage, error) {
	return c.svc.PatchDocument(ctx, in)
}
func (c fxInProcess) CreateCollection(ctx gocontext.Context, in *model.CollectionMessage, _ ...grpc.CallOption) (*model.CollectionMessage, error) {
	return c.svc.CreateCollection(ctx, in)
}
func (c fxInProcess) ResetCollection(ctx gocontext.Context, in *model.CollectionMessage, _ ...grpc.CallOption) (*model.CollectionMessage, error) {
	return c.svc.ResetCollection(ctx, in)
}
func (c fxInProcess) TestEncodingOperation(ctx gocontext.Context, in *model.EncodingMessage, _ ...grpc.CallOption) (*model.EncodingMessage, error) {
	return c.svc.TestEncodingOperation(ctx, in)
}

// ---------------------------------------------------------------------------------------------------------------------
// an in-memory MongoDB, as far as Orda uses it
// ---------------------------------------------------------------------------------------------------------------------

type fakeMongo struct {
	mu      sync.Mutex
	colls   map[string][]bson.M
	updates chan description.Topology
}

func newFakeMongo() *fakeMongo {
	return &fakeMongo{colls: make(map[string][]bson.M)}
}

var fakeDescription = description.Server{
	CanonicalAddr:         address.Address("localhost:27017"),
	MaxDocumentSize:       16777216,
	MaxMessageSize:        48000000,
	MaxBatchCount:         100000,
	SessionTimeoutMinutes: 30,
	Kind:                  description.RSPrimary,
	WireVersion:           &description.VersionRange{Max: topology.SupportedWireVersions.Max},
}

func (f *fakeMongo) SelectServer(gocontext.Context, description.ServerSelector) (driver.Server, error) {
	return f, nil
}
func (f *fakeMongo) Kind() description.TopologyKind { return description.Single }
func (f *fakeMongo) Connection(gocontext.Context) (driver.Connection, error) {
	return &fakeConn{db: f}, nil
}
func (f *fakeMongo) MinRTT() time.Duration              { return 0 }
func (f *fakeMongo) RTT90() time.Duration               { return 0 }
func (f *fakeMongo) Connect() error                     { return nil }
func (f *fakeMongo) Disconnect(gocontext.Context) error { return nil }
func (f *fakeMongo) Subscribe() (*driver.Subscription, error) {
	if f.updates == nil {
		f.updates = make(chan description.Topology, 1)
		f.updates <- description.Topology{SessionTimeoutMinutes: 30}
	}
	return &driver.Subscription{Updates: f.updates}, nil
}
func (f *fakeMongo) Unsubscribe(*driver.Subscription) error { return nil }

type fakeConn struct {
	db  *fakeMongo
	res bson.D
}

func (c *fakeConn) Description() description.Server { return fakeDescription }
func (c *fakeConn) Close() error                    { return nil }
func (c *fakeConn) ID() string                      { return "<fake>" }
func (c *fakeConn) ServerConnectionID() *int32      { id := int32(1); return &id }
func (c *fakeConn) Address() address.Address        { return address.Address("localhost:27017") }
func (c *fakeConn) Stale() bool                     { return false }

func (c *fakeConn) WriteWireMessage(_ gocontext.Context, wm []byte) error {
	_, _, _, _, rem, ok := wiremessage.ReadHeader(wm)
	if !ok {
		return fmt.Errorf("fakeMongo: bad header")
	}
	_, rem, _ = wiremessage.ReadMsgFlags(rem)
	var cmd bson.D
	seqs := make(map[string][]bson.M)
	for len(rem) > 0 {
		var st wiremessage.SectionType
		st, rem, ok = wiremessage.ReadMsgSectionType(rem)
		if !ok {
			break
		}
		switch st {
		case wiremessage.SingleDocument:
			var doc bsoncore.Document
			doc, rem, _ = wiremessage.ReadMsgSectionSingleDocument(rem)
			if err := bson.Unmarshal(doc, &cmd); err != nil {
				return err
			}
		case wiremessage.DocumentSequence:
			var id string
			var docs []bsoncore.Document
			id, docs, rem, _ = wiremessage.ReadMsgSectionDocumentSequence(rem)
			for _, d := range docs {
				m := bson.M{}
				if err := bson.Unmarshal(d, &m); err != nil {
					return err
				}
				seqs[id] = append(seqs[id], m)
			}
		}
	}
	c.res = c.db.run(cmd, seqs)
	return nil
}

func (c *fakeConn) ReadWireMessage(_ gocontext.Context, dst []byte) ([]byte, error) {
	var idx int32
	idx, dst = wiremessage.AppendHeaderStart(dst, wiremessage.NextRequestID(), 0, wiremessage.OpMsg)
	dst = wiremessage.AppendMsgFlags(dst, 0)
	dst = wiremessage.AppendMsgSectionType(dst, wiremessage.SingleDocument)
	b, err := bson.Marshal(c.res)
	if err != nil {
		return dst, err
	}
	dst = append(dst, b...)
	return bsoncore.UpdateLength(dst, idx, int32(len(dst[idx:]))), nil
}

func asM(v interface{}) bson.M {
	switch t := v.(type) {
	case bson.M:
		return t
	case bson.D:
		return t.Map()
	case map[string]interface{}:
		return t
	case nil:
		return bson.M{}
	}
	b, err := bson.Marshal(v)
	if err != nil {
		return bson.M{}
	}
	m := bson.M{}
	_ = bson.Unmarshal(b, &m)
	return m
}

func asSlice(v interface{}) []bson.M {
	var out []bson.M
	if a, ok := v.(bson.A); ok {
		for _, e := range a {
			out = append(out, asM(e))
		}
	}
	return out
}

func num(v interface{}) (float64, bool) {
	switch t := v.(type) {
	case int32:
		return float64(t), true
	case int64:
		return float64(t), true
	case int:
		return float64(t), true
	case float64:
		return t, true
	case uint64:
		return float64(t), true
	case uint32:
		return float64(t), true
	}
	return 0, false
}

func cmp(a, b interface{}) (int, bool) {
	if x, ok := num(a); ok {
		if y, ok2 := num(b); ok2 {
			switch {
			case x < y:
				return -1, true
			case x > y:
				return 1, true
			}
			return 0, true
		}
		return 0, false
	}
	if x, ok := a.(string); ok {
		if y, ok2 := b.(string); ok2 {
			return strings.Compare(x, y), true
		}
		return 0, false
	}
	if reflect.DeepEqual(a, b) {
		return 0, true
	}
	return 0, false
}

func isOperatorDoc(m bson.M) bool {
	for k := range m {
		if strings.HasPrefix(k, "$") {
			return true
		}
	}
	return false
}

func matches(doc bson.M, filter bson.M) bool {
	for k, want := range filter {
		have, present := doc[k]
		if cond, ok := want.(bson.M); ok && isOperatorDoc(cond) {
			for op, arg := range cond {
				c, comparable := cmp(have, arg)
				switch op {
				case "$gte":
					if !present || !comparable || c < 0 {
						return false
					}
				case "$lte":
					if !present || !comparable || c > 0 {
						return false
					}
				case "$exists":
					if present != (arg == true) {
						return false
					}
				default:
					panic("fakeMongo: unsupported operator " + op)
				}
			}
			continue
		}
		if cond, ok := want.(bson.D); ok {
			if !matches(doc, bson.M{k: cond.Map()}) {
				return false
			}
			continue
		}
		if c, ok := cmp(have, want); !present || !ok || c != 0 {
			return false
		}
	}
	return true
}

func (f *fakeMongo) insertLocked(coll string, doc bson.M) bool {
	if _, ok := doc["_id"]; !ok {
		doc["_id"] = primitive.NewObjectID()
	}
	for _, d := range f.colls[coll] {
		if c, ok := cmp(d["_id"], doc["_id"]); ok && c == 0 {
			return false
		}
	}
	f.colls[coll] = append(f.colls[coll], doc)
	return true
}

func applyUpdate(doc bson.M, u bson.M) {
	if !isOperatorDoc(u) { // a replacement
		id := doc["_id"]
		for k := range doc {
			delete(doc, k)
		}
		for k, v := range u {
			doc[k] = v
		}
		if _, ok := doc["_id"]; !ok {
			doc["_id"] = id
		}
		return
	}
	for op, arg := range u {
		for k, v := range asM(arg) {
			switch op {
			case "$set":
				doc[k] = v
			case "$currentDate":
				doc[k] = primitive.NewDateTimeFromTime(time.Now())
			case "$inc":
				old, _ := num(doc[k])
				d, _ := num(v)
				doc[k] = int32(old + d)
			default:
				panic("fakeMongo: unsupported update operator " + op)
			}
		}
	}
}

func duplicateKey(index int, id interface{}) bson.M {
	return bson.M{"index": int32(index), "code": int32(11000), "errmsg": fmt.Sprintf("E11000 duplicate key error dup key: { _id: %v }", id)}
}

func (f *fakeMongo) run(cmd bson.D, seqs map[string][]bson.M) bson.D {
	f.mu.Lock()
	defer f.mu.Unlock()
	if len(cmd) == 0 {
		return bson.D{{Key: "ok", Value: 0}, {Key: "errmsg", Value: "empty command"}}
	}
	name := cmd[0].Key
	coll, _ := cmd[0].Value.(string)
	args := cmd.Map()
	seq := func(id string) []bson.M {
		if s, ok := seqs[id]; ok {
			return s
		}
		return asSlice(args[id])
	}
	switch name {
	case "find":
		var found []bson.M
		for _, d := range f.colls[coll] {
			if matches(d, asM(args["filter"])) {
				found = append(found, d)
			}
		}
		if s, ok := args["sort"].(bson.D); ok && len(s) == 1 {
			dir, _ := num(s[0].Value)
			sort.SliceStable(found, func(i, j int) bool {
				c, _ := cmp(found[i][s[0].Key], found[j][s[0].Key])
				return (dir >= 0 && c < 0) || (dir < 0 && c > 0)
			})
		}
		if l, ok := num(args["limit"]); ok && l > 0 && len(found) > int(l) {
			found = found[:int(l)]
		}
		batch := bson.A{}
		for _, d := range found {
			batch = append(batch, d)
		}
		return bson.D{{Key: "ok", Value: 1}, {Key: "cursor", Value: bson.D{
			{Key: "id", Value: int64(0)}, {Key: "ns", Value: "orda." + coll}, {Key: "firstBatch", Value: batch}}}}
	case "insert":
		n := 0
		var writeErrors bson.A
		for i, d := range seq("documents") {
			if !f.insertLocked(coll, d) {
				writeErrors = append(writeErrors, duplicateKey(i, d["_id"]))
				break // ordered
			}
			n++
		}
		res := bson.D{{Key: "ok", Value: 1}, {Key: "n", Value: int32(n)}}
		if len(writeErrors) > 0 {
			res = append(res, bson.E{Key: "writeErrors", Value: writeErrors})
		}
		return res
	case "update":
		n, modified := 0, 0
		var upserted, writeErrors bson.A
		for i, u := range seq("updates") {
			q := asM(u["q"])
			hit := false
			for _, d := range f.colls[coll] {
				if matches(d, q) {
					applyUpdate(d, asM(u["u"]))
					hit = true
					n++
					modified++
					if u["multi"] != true {
						break
					}
				}
			}
			if !hit && u["upsert"] == true {
				d := bson.M{}
				for k, v := range q {
					if m, ok := v.(bson.M); !ok || !isOperatorDoc(m) {
						d[k] = v
					}
				}
				applyUpdate(d, asM(u["u"]))
				if !f.insertLocked(coll, d) {
					writeErrors = append(writeErrors, duplicateKey(i, d["_id"]))
					break
				}
				n++
				upserted = append(upserted, bson.M{"index": int32(i), "_id": d["_id"]})
			}
		}
		res := bson.D{{Key: "ok", Value: 1}, {Key: "n", Value: int32(n)}, {Key: "nModified", Value: int32(modified)}}
		if len(upserted) > 0 {
			res = append(res, bson.E{Key: "upserted", Value: upserted})
		}
		if len(writeErrors) > 0 {
			res = append(res, bson.E{Key: "writeErrors", Value: writeErrors})
		}
		return res
	case "delete":
		n := 0
		for _, del := range seq("deletes") {
			limit, _ := num(del["limit"])
			var kept []bson.M
			deleted := 0
			for _, d := range f.colls[coll] {
				if (limit == 0 || deleted == 0) && matches(d, asM(del["q"])) {
					deleted++
					continue
				}
				kept = append(kept, d)
			}
			f.colls[coll] = kept
			n += deleted
		}
		return bson.D{{Key: "ok", Value: 1}, {Key: "n", Value: int32(n)}}
	case "findAndModify":
		var target bson.M
		for _, d := range f.colls[coll] {
			if matches(d, asM(args["query"])) {
				target = d
				break
			}
		}
		if target == nil && args["upsert"] == true {
			target = bson.M{}
			for k, v := range asM(args["query"]) {
				target[k] = v
			}
			f.insertLocked(coll, target)
		}
		if target == nil {
			return bson.D{{Key: "ok", Value: 1}, {Key: "value", Value: nil}}
		}
		applyUpdate(target, asM(args["update"]))
		return bson.D{{Key: "ok", Value: 1}, {Key: "value", Value: target}}
	case "drop":
		delete(f.colls, coll)
		return bson.D{{Key: "ok", Value: 1}}
	case "listCollections":
		batch := bson.A{}
		for name := range f.colls {
			if matches(bson.M{"name": name}, asM(args["filter"])) {
				batch = append(batch, bson.M{"name": name, "type": "collection"})
			}
		}
		return bson.D{{Key: "ok", Value: 1}, {Key: "cursor", Value: bson.D{
			{Key: "id", Value: int64(0)}, {Key: "ns", Value: "orda.$cmd.listCollections"}, {Key: "firstBatch", Value: batch}}}}
	case "endSessions", "commitTransaction", "abortTransaction", "ping":
		return bson.D{{Key: "ok", Value: 1}}
	}
	return bson.D{{Key: "ok", Value: 0}, {Key: "errmsg", Value: "fakeMongo: unsupported command " + name}, {Key: "code", Value: int32(59)}}
}

func setUnexported(t *testing.T, obj interface{}, field string, value interface{}) {
	v := reflect.ValueOf(obj).Elem().FieldByName(field)
	require.True(t, v.IsValid(), "no field %s", field)
	reflect.NewAt(v.Type(), unsafe.Pointer(v.UnsafeAddr())).Elem().Set(reflect.ValueOf(value))
}

// newFakeManagers builds the Managers of an Orda server whose MongoDB is the in-memory fake,
// with local locks (no Redis) and without a notifier.
func newFakeManagers(t *testing.T) *managers.Managers {
	fake := newFakeMongo()
	opts := options.Client()
	opts.Deployment = fake
	client, err := mongo.NewClient(opts)
	require.NoError(t, err)
	require.NoError(t, client.Connect(gocontext.TODO()))
	db := client.Database("orda")

	cols := &mongodb.MongoCollections{}
	setUnexported(t, cols, "mongoClient", client)
	setUnexported(t, cols, "clients", db.Collection(schema.CollectionNameClients))
	setUnexported(t, cols, "counters", db.Collection(schema.CollectionNameColNumGenerator))
	setUnexported(t, cols, "snapshots", db.Collection(schema.CollectionNameSnapshot))
	setUnexported(t, cols, "datatypes", db.Collection(schema.CollectionNameDatatypes))
	setUnexported(t, cols, "operations", db.Collection(schema.CollectionNameOperations))
	setUnexported(t, cols, "collections", db.Collection(schema.CollectionNameCollections))
	repo := &mongodb.RepositoryMongo{MongoCollections: cols}
	setUnexported(t, repo, "client", client)
	setUnexported(t, repo, "db", db)
	return &managers.Managers{Mongo: repo, Redis: &redis.Client{}}
}
