package orda

// F63 (C03, C01): belongs in client/pkg/orda. Reported by a reviewer of round 11 (C14-2 remarks).
//  - a pointer to a nil slice or map passed the null test of Map.Put / List.Insert (only the pointer itself was
//    tested): the issuing replica held a live element, every other replica a tombstone;
//  - NaN / an infinity in Map.Put, List.Insert, List.Update panicked while the operation was encoded, after the value
//    had been applied locally.

import (
	"math"
	"testing"

	"github.com/orda-io/orda/client/pkg/model"
	"github.com/orda-io/orda/client/pkg/testonly"
)

func f63NoPanic(t *testing.T, what string, f func()) {
	defer func() {
		if r := recover(); r != nil {
			t.Errorf("%s panicked: %v", what, r)
		}
	}()
	f()
}

func TestF63PointerToNilContainerIsRefused(t *testing.T) {
	tw := testonly.NewTestWire(false)
	m1, _ := newMap(testonly.NewBase("f63m", model.TypeOfDatatype_MAP), tw, nil)
	m2, _ := newMap(testonly.NewBase("f63m", model.TypeOfDatatype_MAP), tw, nil)
	tw.SetDatatypes(m1.(*ordaMap).WiredDatatype, m2.(*ordaMap).WiredDatatype)
	var nilSlice []string
	var nilMap map[string]int
	if _, err := m1.Put("k", &nilSlice); err == nil {
		t.Errorf("Map.Put of a pointer to a nil slice was accepted")
	}
	if _, err := m1.Put("k2", &nilMap); err == nil {
		t.Errorf("Map.Put of a pointer to a nil map was accepted")
	}
	tw.Sync()
	if a, b := testonly.Marshal(t, m1.ToJSON()), testonly.Marshal(t, m2.ToJSON()); a != b {
		t.Errorf("the writer reads %s, the reader reads %s", a, b)
	}
	l1, _ := newList(testonly.NewBase("f63l", model.TypeOfDatatype_LIST), tw, nil)
	if _, err := l1.InsertMany(0, "a", &nilMap); err == nil {
		t.Errorf("List.InsertMany with a pointer to a nil map was accepted: %s", testonly.Marshal(t, l1.ToJSON()))
	}
	if l1.Size() != 0 {
		t.Errorf("a refused insert left %d elements", l1.Size())
	}
}

func TestF63ValuesJSONCannotExpressAreRefused(t *testing.T) {
	tw := testonly.NewTestWire(false)
	m, _ := newMap(testonly.NewBase("f63m", model.TypeOfDatatype_MAP), tw, nil)
	l, _ := newList(testonly.NewBase("f63l", model.TypeOfDatatype_LIST), tw, nil)
	f63NoPanic(t, "Map.Put(NaN)", func() {
		if _, err := m.Put("k", math.NaN()); err == nil {
			t.Errorf("Map.Put(NaN) was accepted")
		}
	})
	f63NoPanic(t, "List.Insert(+Inf)", func() {
		if _, err := l.Insert(0, math.Inf(1)); err == nil {
			t.Errorf("List.Insert(+Inf) was accepted")
		}
	})
	f63NoPanic(t, "Map.Put([]float64{NaN})", func() {
		if _, err := m.Put("k", []float64{math.NaN()}); err == nil {
			t.Errorf("Map.Put of a slice holding NaN was accepted")
		}
	})
	if m.Size() != 0 || l.Size() != 0 {
		t.Errorf("refused calls changed the state: map %d, list %d", m.Size(), l.Size())
	}
	if _, err := m.Put("ok", 1.5); err != nil {
		t.Errorf("the map is not usable afterwards: %v", err)
	}
	f63NoPanic(t, "List.Update(NaN)", func() {
		_, _ = l.Insert(0, "x")
		if _, err := l.Update(0, math.NaN()); err == nil {
			t.Errorf("List.Update(NaN) was accepted")
		}
	})
}
