package orda

// Belongs in client/pkg/orda (package-internal test).
//
// FX13 / C10: jsonArray.deleteLocal looks the deleted elements up in NodeMap (keyed by CREATE time) with their
// ORDER time, so an array element that was updated (new create time, same order time) and then deleted locally is
// not put into the Cemetery, unlike jsonArray.deleteRemote and unlike jsonObject.UnmarshalJSON.
//
// Run: cd client && go test -vet=off -count=1 -run TestFX ./pkg/orda/

import (
	"encoding/json"
	"sort"
	"testing"

	"github.com/orda-io/orda/client/pkg/iface"
	"github.com/orda-io/orda/client/pkg/model"
	"github.com/orda-io/orda/client/pkg/testonly"
	"github.com/stretchr/testify/assert"
	"github.com/stretchr/testify/require"
)

func fxCemetery(d Document) map[string]jsonType {
	return d.(*document).snapshot().getCommon().Cemetery
}

// fxCemeteryKeys returns "deleteTime=>createTime" of every buried jsonType, sorted.
func fxCemeteryKeys(d Document) []string {
	var ret []string
	for k, v := range fxCemetery(d) {
		ret = append(ret, k+"=>"+v.getCreateTime().Hash())
	}
	sort.Strings(ret)
	return ret
}

func fxNewDoc(t *testing.T, key string, wire iface.Wire) Document {
	d, err := newDocument(testonly.NewBase(key, model.TypeOfDatatype_DOCUMENT), wire, nil)
	require.NoError(t, err)
	return d
}

// fxRestore exports meta+snapshot of the document and imports them into a fresh one.
func fxRestore(t *testing.T, orig Document) (Document, string) {
	meta, snap, err := orig.(iface.Datatype).GetMetaAndSnapshot()
	require.NoError(t, err)
	restored := fxNewDoc(t, "fx-restored", nil)
	require.NoError(t, restored.(iface.Datatype).SetMetaAndSnapshot(meta, snap))
	return restored, string(snap)
}

// fxEqualToItsClone is the project's own snapshot equality (jsonObject.Equal) between the snapshot and what
// unmarshalling its marshalled form yields (same BaseDatatype, as jsonObjectMarshalTest does).
func fxEqualToItsClone(t *testing.T, d Document) bool {
	original := d.(*document).snapshot().(*jsonObject)
	m, err := json.Marshal(original)
	require.NoError(t, err)
	clone := newJSONObject(original.BaseDatatype, nil, model.OldestTimestamp())
	require.NoError(t, json.Unmarshal(m, clone))
	return original.Equal(clone) && clone.Equal(original)
}

// control: an element that was never updated is buried by the local delete; the round trip is "equal".
func TestFXArrayDeleteLocalWithoutUpdateControl(t *testing.T) {
	orig := fxNewDoc(t, "fx-orig", nil)
	_, err := orig.PutToObject("arr", []interface{}{"a", "b"})
	require.NoError(t, err)
	arr, err := orig.GetFromObject("arr")
	require.NoError(t, err)
	_, err = arr.DeleteInArray(0)
	require.NoError(t, err)

	restored, _ := fxRestore(t, orig)
	require.Equal(t, 1, len(fxCemetery(orig)))
	require.Equal(t, fxCemeteryKeys(orig), fxCemeteryKeys(restored))
	require.True(t, fxEqualToItsClone(t, orig))
}

// the reported input: ["a","b"]; update(0,"A"); delete(0).
func TestFXArrayUpdateThenDeleteLocalRoundTrip(t *testing.T) {
	orig := fxNewDoc(t, "fx-orig", nil)
	_, err := orig.PutToObject("arr", []interface{}{"a", "b"})
	require.NoError(t, err)
	arr, err := orig.GetFromObject("arr")
	require.NoError(t, err)
	_, err = arr.UpdateManyInArray(0, "A")
	require.NoError(t, err)
	deleted, err := arr.DeleteInArray(0)
	require.NoError(t, err)
	require.Equal(t, "A", deleted.GetValue())
	require.Equal(t, `{"arr":["b"]}`, testonly.Marshal(t, orig.ToJSON()))

	restored, snapO := fxRestore(t, orig)
	require.Equal(t, testonly.Marshal(t, orig.ToJSON()), testonly.Marshal(t, restored.ToJSON()))
	_, snapR, err := restored.(iface.Datatype).GetMetaAndSnapshot()
	require.NoError(t, err)
	require.Equal(t, len(snapO), len(snapR)) // NodeMap is marshalled in map order; the exported bytes agree in size

	// the deleted "A" is a tombstone of the array in both; only the restored one has it in the Cemetery.
	require.Equal(t, 1, len(fxCemetery(restored)))
	assert.Equal(t, fxCemeteryKeys(restored), fxCemeteryKeys(orig),
		"the deleting replica did not bury the updated-then-deleted element")
	assert.True(t, fxEqualToItsClone(t, orig), "jsonObject.Equal(original, unmarshal(marshal(original))) is false")
}

// the deleting replica and a replica that receives the same operations remotely keep the same Cemetery.
func TestFXArrayUpdateThenDeleteLocalVersusRemote(t *testing.T) {
	tw := testonly.NewTestWire(true)
	local := fxNewDoc(t, "fx-doc", tw)
	remote := fxNewDoc(t, "fx-doc", tw)
	tw.SetDatatypes(local.(*document).WiredDatatype, remote.(*document).WiredDatatype)

	_, err := local.PutToObject("arr", []interface{}{"a", "b", "c"})
	require.NoError(t, err)
	arr, err := local.GetFromObject("arr")
	require.NoError(t, err)
	_, err = arr.UpdateManyInArray(0, "A", "B")
	require.NoError(t, err)
	_, err = arr.DeleteManyInArray(0, 3) // two updated elements and one that was not updated
	require.NoError(t, err)

	require.Equal(t, `{"arr":[]}`, testonly.Marshal(t, remote.ToJSON()))
	require.Equal(t, testonly.Marshal(t, local.ToJSON()), testonly.Marshal(t, remote.ToJSON()))
	require.Equal(t, 3, len(fxCemetery(remote)))
	require.Equal(t, fxCemeteryKeys(remote), fxCemeteryKeys(local))
}

// The order-time lookup can find a WRONG jsonType: a replaced object/array stays in NodeMap under its create time,
// which is the order time of the node. It is already a tombstone in the Cemetery, so burying it again changes
// nothing, and the element that is really deleted (the replacement) is still left out.
func TestFXArrayUpdateContainerThenDeleteLocal(t *testing.T) {
	tw := testonly.NewTestWire(true)
	local := fxNewDoc(t, "fx-doc", tw)
	remote := fxNewDoc(t, "fx-doc", tw)
	tw.SetDatatypes(local.(*document).WiredDatatype, remote.(*document).WiredDatatype)

	_, err := local.PutToObject("arr", []interface{}{map[string]interface{}{"x": 1}, "b"})
	require.NoError(t, err)
	arr, err := local.GetFromObject("arr")
	require.NoError(t, err)
	replaced, err := arr.UpdateManyInArray(0, "A")
	require.NoError(t, err)
	require.Equal(t, TypeJSONObject, replaced[0].GetTypeOfJSON())
	require.Equal(t, 1, len(fxCemetery(local))) // the replaced object
	deleted, err := arr.DeleteInArray(0)
	require.NoError(t, err)
	require.Equal(t, "A", deleted.GetValue())

	require.Equal(t, testonly.Marshal(t, local.ToJSON()), testonly.Marshal(t, remote.ToJSON()))
	require.Equal(t, 2, len(fxCemetery(remote))) // the replaced object and the deleted "A"
	assert.Equal(t, fxCemeteryKeys(remote), fxCemeteryKeys(local))
	assert.True(t, fxEqualToItsClone(t, local))
}
