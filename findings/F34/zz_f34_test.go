package snapshot

// Belongs in: server/snapshot/ (package snapshot, package-internal test).
//
// Reproduces "REST patch of a stored document that has no stored snapshot yet pushes the server replica's own
// creation-time empty DOC_SNAPSHOT (seq 1) ahead of the patch operations".
//
// MongoDB cannot run here, so the two queries of Manager.GetLatestDatatype (GetLatestSnapshot, GetOperations) are
// answered by the mock deployment of the MongoDB driver (go.mongodb.org/mongo-driver/mongo/integration/mtest, part of
// the driver module that server/go.mod already requires; with GOFLAGS=-mod=mod the go tool adds the line
// `github.com/google/go-cmp v0.5.8 // indirect` to server/go.mod while the test is built - revert it afterwards).
// The real GetLatestDatatype runs; after it the test does exactly what OrdaService.PatchDocument does with the result
// (SetState, SetCheckPoint, PatchByJSON, CreatePushPullPack) and what PushPullHandler.pushOperations does for the
// VOLATILE patch client (checkpoint (0,0): every operation with seq == cseq+1 is appended to the log).

import (
	gocontext "context"
	"encoding/json"
	"reflect"
	"testing"
	"unsafe"

	"github.com/orda-io/orda/client/pkg/context"
	"github.com/orda-io/orda/client/pkg/iface"
	"github.com/orda-io/orda/client/pkg/model"
	"github.com/orda-io/orda/client/pkg/orda"
	"github.com/orda-io/orda/server/constants"
	"github.com/orda-io/orda/server/managers"
	"github.com/orda-io/orda/server/mongodb"
	"github.com/orda-io/orda/server/schema"
	"github.com/stretchr/testify/require"
	"go.mongodb.org/mongo-driver/bson"
	"go.mongodb.org/mongo-driver/mongo"
	"go.mongodb.org/mongo-driver/mongo/integration/mtest"
)

const (
	fxCollection    = "fxcol"
	fxCollectionNum = int32(7)
	fxKey           = "doc"
)

// fxSetField stores value into the unexported field of *target (test only: RepositoryMongo has no constructor that
// works without a reachable MongoDB).
func fxSetField(target interface{}, field string, value interface{}) {
	f := reflect.ValueOf(target).Elem().FieldByName(field)
	reflect.NewAt(f.Type(), unsafe.Pointer(f.UnsafeAddr())).Elem().Set(reflect.ValueOf(value))
}

func fxManagers(coll *mongo.Collection) *managers.Managers {
	cols := &mongodb.MongoCollections{}
	fxSetField(cols, "snapshots", coll)
	fxSetField(cols, "operations", coll)
	return &managers.Managers{Mongo: &mongodb.RepositoryMongo{MongoCollections: cols}}
}

func fxToBSON(t *testing.T, doc interface{}) bson.D {
	raw, err := bson.Marshal(doc)
	require.NoError(t, err)
	var d bson.D
	require.NoError(t, bson.Unmarshal(raw, &d))
	return d
}

// fxWriterLog creates the document {"a":"1","b":"2"} with a real local client and returns its DUID and its log
// (DOC_SNAPSHOT seq 1, DOC_OBJ_PUT seq 2, DOC_OBJ_PUT seq 3), i.e. what the creating push stored in MongoDB.
func fxWriterLog(t *testing.T) (string, []*model.Operation) {
	w := orda.NewClient(orda.NewLocalClientConfig(fxCollection), "writer").CreateDocument(fxKey, nil)
	_, err := w.PutToObject("a", "1")
	require.NoError(t, err)
	_, err = w.PutToObject("b", "2")
	require.NoError(t, err)
	log := w.(iface.Datatype).CreatePushPullPack().Operations
	require.Len(t, log, 3)
	require.Equal(t, model.TypeOfOperation_DOC_SNAPSHOT, log[0].OpType)
	return w.(iface.Datatype).GetDUID(), log
}

func fxOperationDocs(t *testing.T, duid string, ops []*model.Operation, fromSseq uint64) []bson.D {
	var docs []bson.D
	for i, op := range ops {
		docs = append(docs, fxToBSON(t, schema.NewOperationDoc(op, duid, fromSseq+uint64(i), fxCollectionNum)))
	}
	return docs
}

// fxPatch does what OrdaService.PatchDocument does after GetLatestDatatype and returns the pushed operations.
func fxPatch(t *testing.T, data iface.Datatype, lastSseq uint64, target string) []*model.Operation {
	if lastSseq > 0 {
		data.SetState(model.StateOfDatatype_SUBSCRIBED)
		data.SetCheckPoint(lastSseq, 0)
	}
	patches, err := data.(orda.Document).PatchByJSON(target)
	require.NoError(t, err)
	require.NotEmpty(t, patches)
	ppp := data.CreatePushPullPack()
	require.False(t, ppp.GetPushPullPackOption().HasCreateBit())
	for _, op := range ppp.Operations {
		t.Logf("pushed by the patch: %s", op.ToString())
	}
	return ppp.Operations
}

// fxPush is PushPullHandler.pushOperations for the VOLATILE patch client, whose checkpoint is always (0,0).
func fxPush(log []*model.Operation, pushed []*model.Operation) []*model.Operation {
	cseq := uint64(0)
	for _, op := range pushed {
		if op.ID.GetSeq() == cseq+1 {
			log = append(log, op)
			cseq++
		}
	}
	return log
}

func fxReplay(t *testing.T, log []*model.Operation) string {
	r := orda.NewClient(orda.NewLocalClientConfig(fxCollection), "reader").
		CreateDatatype(fxKey, model.TypeOfDatatype_DOCUMENT, nil).(iface.Datatype)
	_, err := r.ReceiveRemoteModelOperations(log, false)
	require.NoError(t, err)
	b, jErr := json.Marshal(r.ToJSON())
	require.NoError(t, jErr)
	return string(b)
}

func fxCheckPushed(t *testing.T, pushed []*model.Operation) {
	require.NotEmpty(t, pushed)
	for i, op := range pushed {
		require.NotEqual(t, model.TypeOfOperation_DOC_SNAPSHOT, op.OpType,
			"the patch pushes the server replica's own creation-time snapshot operation: %s", op.ToString())
		require.Equal(t, uint64(i+1), op.ID.GetSeq(), "the patch operations are numbered from 1")
	}
}

// The datatype exists (DUID known, three operations stored) but no snapshot has been stored yet: the window between the
// creating push and the end of its asynchronous UpdateSnapshot, or any time UpdateSnapshot has been failing.
func TestFXPatchWithoutStoredSnapshot(t *testing.T) {
	duid, log := fxWriterLog(t)
	mt := mtest.New(t, mtest.NewOptions().ClientType(mtest.Mock))
	defer mt.Close()
	mt.Run("patch", func(mt *mtest.T) {
		ns := mt.Coll.Database().Name() + "." + mt.Coll.Name()
		mt.AddMockResponses(
			mtest.CreateCursorResponse(0, ns, mtest.FirstBatch),                                           // GetLatestSnapshot: none
			mtest.CreateCursorResponse(0, ns, mtest.FirstBatch, fxOperationDocs(mt.T, duid, log, 1)...), // GetOperations(1..)
		)
		ctx := context.NewOrdaContext(gocontext.Background(), constants.TagTest)
		datatypeDoc := schema.NewDatatypeDoc(duid, fxKey, fxCollectionNum, model.TypeOfDatatype_DOCUMENT.String())
		collectionDoc := &schema.CollectionDoc{Name: fxCollection, Num: fxCollectionNum}

		data, lastSseq, err := NewManager(ctx, fxManagers(mt.Coll), datatypeDoc, collectionDoc).GetLatestDatatype()
		require.NoError(mt, err)
		require.Equal(mt, uint64(3), lastSseq)
		require.Equal(mt, `{"a":"1","b":"2"}`, string(data.(orda.Document).ToJSONBytes()))

		pushed := fxPatch(mt.T, data, lastSseq, `{"a":"1","b":"2","c":"3"}`)
		replayed := fxReplay(mt.T, fxPush(log, pushed))
		mt.Logf("replay of the log after the patch: %s", replayed)
		require.Equal(mt, `{"a":"1","b":"2","c":"3"}`, replayed, "the stored log no longer replays to the patched document")
		fxCheckPushed(mt.T, pushed)
	})
}

// Control: the same document once a snapshot (at sseq 2) has been stored; this path already called ResetWired.
func TestFXPatchWithStoredSnapshot(t *testing.T) {
	duid, log := fxWriterLog(t)
	// the stored snapshot at sseq 2, made the way UpdateSnapshot makes it
	s := orda.NewClient(orda.NewLocalClientConfig(fxCollection), "orda-server").
		CreateDatatype(fxKey, model.TypeOfDatatype_DOCUMENT, nil).(iface.Datatype)
	s.SetDUID(duid)
	_, oErr := s.ReceiveRemoteModelOperations(log[:2], false)
	require.NoError(t, oErr)
	meta, snap, oErr := s.GetMetaAndSnapshot()
	require.NoError(t, oErr)
	snapshotDoc := &schema.SnapshotDoc{ID: duid + ":2", CollectionNum: fxCollectionNum, DUID: duid, Sseq: 2, Meta: string(meta), Snapshot: snap}

	mt := mtest.New(t, mtest.NewOptions().ClientType(mtest.Mock))
	defer mt.Close()
	mt.Run("patch", func(mt *mtest.T) {
		ns := mt.Coll.Database().Name() + "." + mt.Coll.Name()
		mt.AddMockResponses(
			mtest.CreateCursorResponse(0, ns, mtest.FirstBatch, fxToBSON(mt.T, snapshotDoc)),
			mtest.CreateCursorResponse(0, ns, mtest.FirstBatch, fxOperationDocs(mt.T, duid, log[2:], 3)...),
		)
		ctx := context.NewOrdaContext(gocontext.Background(), constants.TagTest)
		datatypeDoc := schema.NewDatatypeDoc(duid, fxKey, fxCollectionNum, model.TypeOfDatatype_DOCUMENT.String())
		collectionDoc := &schema.CollectionDoc{Name: fxCollection, Num: fxCollectionNum}

		data, lastSseq, err := NewManager(ctx, fxManagers(mt.Coll), datatypeDoc, collectionDoc).GetLatestDatatype()
		require.NoError(mt, err)
		require.Equal(mt, uint64(3), lastSseq)

		pushed := fxPatch(mt.T, data, lastSseq, `{"a":"1","b":"2","c":"3"}`)
		require.Equal(mt, `{"a":"1","b":"2","c":"3"}`, fxReplay(mt.T, fxPush(log, pushed)))
		fxCheckPushed(mt.T, pushed)
	})
}

// Control: a key that does not exist yet (DUID ""): the patch creates the document, so the creation-time snapshot
// operation has to stay in the pack and the pack has to carry the create bit. No query is sent to MongoDB.
func TestFXPatchCreatesMissingDocument(t *testing.T) {
	ctx := context.NewOrdaContext(gocontext.Background(), constants.TagTest)
	datatypeDoc := schema.NewDatatypeDoc("", fxKey, fxCollectionNum, model.TypeOfDatatype_DOCUMENT.String())
	collectionDoc := &schema.CollectionDoc{Name: fxCollection, Num: fxCollectionNum}
	data, lastSseq, err := NewManager(ctx, &managers.Managers{}, datatypeDoc, collectionDoc).GetLatestDatatype()
	require.NoError(t, err)
	require.Equal(t, uint64(0), lastSseq)
	_, err = data.(orda.Document).PatchByJSON(`{"c":"3"}`)
	require.NoError(t, err)
	ppp := data.CreatePushPullPack()
	require.True(t, ppp.GetPushPullPackOption().HasCreateBit())
	require.Len(t, ppp.Operations, 2)
	require.Equal(t, model.TypeOfOperation_DOC_SNAPSHOT, ppp.Operations[0].OpType)
	require.Equal(t, `{"c":"3"}`, fxReplay(t, fxPush(nil, ppp.Operations)))
}
