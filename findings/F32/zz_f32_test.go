package managers

// Belongs in: client/pkg/internal/managers/   (package-internal test, package managers)
//
// Reproduces: DatatypeManager.ReceiveNotification takes strings.Split(topic, "/")[1] as the datatype key, so a
// datatype whose key (or whose collection name) contains '/' never reacts to the notifications of its own topic.
//
// No network: the SyncManager gets a stand-in model.OrdaServiceClient, the datatype is a stand-in that implements
// the few methods DatatypeManager uses for a notification-triggered pull. Everything runs synchronously.
//
// Run: cd client && go test -vet=off -count=1 -run TestFXNotificationTopic ./pkg/internal/managers/

import (
	gocontext "context"
	"sync"
	"testing"

	"github.com/orda-io/orda/client/pkg/context"
	"github.com/orda-io/orda/client/pkg/iface"
	"github.com/orda-io/orda/client/pkg/model"
	"google.golang.org/grpc"
)

// fxaDatatype is a replica that has seen the server log of its datatype up to sseq.
type fxaDatatype struct {
	iface.Datatype // nil: only the methods below are reached from ReceiveNotification
	key            string
	duid           string
	sseq           uint64
}

func (d *fxaDatatype) GetKey() string            { return d.key }
func (d *fxaDatatype) GetDUID() string           { return d.duid }
func (d *fxaDatatype) NeedPull(sseq uint64) bool { return d.sseq < sseq }
func (d *fxaDatatype) CreatePushPullPack() *model.PushPullPack {
	return &model.PushPullPack{Key: d.key, DUID: d.duid, CheckPoint: &model.CheckPoint{Sseq: d.sseq}}
}
func (d *fxaDatatype) ApplyPushPullPack(ppp *model.PushPullPack) { d.sseq = ppp.CheckPoint.Sseq }

// fxaServer answers every push-pull with "the log of that key ends at ends[key]" and records who asked.
type fxaServer struct {
	model.OrdaServiceClient // nil: only ProcessPushPull is reached
	mu                      sync.Mutex
	ends                    map[string]uint64
	asked                   []string
}

func (s *fxaServer) ProcessPushPull(
	_ gocontext.Context,
	in *model.PushPullMessage,
	_ ...grpc.CallOption,
) (*model.PushPullMessage, error) {
	s.mu.Lock()
	defer s.mu.Unlock()
	out := &model.PushPullMessage{Header: in.Header, Collection: in.Collection, Cuid: in.Cuid}
	for _, ppp := range in.PushPullPacks {
		s.asked = append(s.asked, ppp.Key)
		res := ppp.GetResponsePushPullPack()
		res.CheckPoint.Sseq = s.ends[ppp.Key]
		out.PushPullPacks = append(out.PushPullPacks, res)
	}
	return out, nil
}

func fxaManager(collection string, srv *fxaServer, dts ...*fxaDatatype) *DatatypeManager {
	cm := &model.Client{CUID: "fxLocalCUID", Alias: "fx", Collection: collection, SyncType: model.SyncType_REALTIME}
	ctx := context.NewClientContext(gocontext.TODO(), cm)
	sm := &SyncManager{ctx: ctx, client: cm, serviceClient: srv}
	dm := NewDatatypeManager(ctx, sm)
	for _, d := range dts {
		dm.dataMap[d.key] = d
	}
	return dm
}

func TestFXNotificationTopicWithSlash(t *testing.T) {
	cases := []struct {
		name       string
		collection string
		keys       []string // datatypes of the client
		notified   string   // the key whose topic carries the notification
	}{
		{"plain key (control)", "fxcol", []string{"plain"}, "plain"},
		{"key with a slash", "fxcol", []string{"a/b"}, "a/b"},
		{"key with two slashes", "fxcol", []string{"users/42/todo"}, "users/42/todo"},
		{"key with a slash next to its prefix key", "fxcol", []string{"a", "a/b"}, "a/b"},
		{"key with a trailing slash", "fxcol", []string{"a/"}, "a/"},
		{"collection with a slash", "fx/col", []string{"plain"}, "plain"},
	}
	for _, c := range cases {
		t.Run(c.name, func(t *testing.T) {
			srv := &fxaServer{ends: map[string]uint64{}}
			var dts []*fxaDatatype
			var target *fxaDatatype
			for _, k := range c.keys {
				d := &fxaDatatype{key: k, duid: "duid-of-" + k, sseq: 1}
				srv.ends[k] = 1
				dts = append(dts, d)
				if k == c.notified {
					target = d
				}
			}
			dm := fxaManager(c.collection, srv, dts...)

			// another client pushed one operation to the notified datatype: its log now ends at 2, and the server
			// announces that on the topic the client subscribed in OnChangeDatatypeState: "<collection>/<key>".
			srv.ends[c.notified] = 2
			topic := c.collection + "/" + c.notified
			dm.ReceiveNotification(topic, model.Notification{CUID: "fxOtherCUID", DUID: target.duid, Sseq: 2})

			if target.sseq != 2 {
				t.Errorf("collection %q key %q: notification {sseq:2} on topic %q did not make the replica pull: "+
					"it is still at sseq %d; push-pulls sent: %q",
					c.collection, c.notified, topic, target.sseq, srv.asked)
			}
			if len(srv.asked) != 1 || srv.asked[0] != c.notified {
				t.Errorf("expected exactly one push-pull, for %q; got %q", c.notified, srv.asked)
			}
		})
	}
}

// Secondary observation on the same line: a topic without any '/' makes the unmodified ReceiveNotification panic with
// "index out of range [1] with length 1" (in the notification loop goroutine, i.e. it would take the process down).
// A broker cannot deliver such a topic today, because the client only subscribes "<collection>/<key>"; the test only
// demands that a malformed topic is not a reason to panic.
func TestFXNotificationTopicMalformed(t *testing.T) {
	for _, topic := range []string{"plain", "fxcol", ""} {
		srv := &fxaServer{ends: map[string]uint64{"plain": 2}}
		d := &fxaDatatype{key: "plain", duid: "duid-of-plain", sseq: 1}
		dm := fxaManager("fxcol", srv, d)
		func() {
			defer func() {
				if r := recover(); r != nil {
					t.Errorf("topic %q: ReceiveNotification panicked: %v", topic, r)
				}
			}()
			dm.ReceiveNotification(topic, model.Notification{CUID: "fxOtherCUID", DUID: d.duid, Sseq: 2})
		}()
	}
}
