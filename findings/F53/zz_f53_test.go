package orda

// Belongs in client/pkg/orda (package-internal test).
//
// C09: a replica applies either all of the operations of a received unit or, if the unit is incomplete or
// malformed, none of them. A unit with an operation that cannot be decoded (body that is not JSON, unknown
// operation type, no identifier) has to be refused with an error: no panic, and nothing of it applied.

import (
	"fmt"
	"testing"

	"github.com/orda-io/orda/client/pkg/errors"
	"github.com/orda-io/orda/client/pkg/model"
	"github.com/orda-io/orda/client/pkg/testonly"
	"github.com/stretchr/testify/assert"
	"github.com/stretchr/testify/require"
)

// fxUnit returns the three operations (TRANSACTION header, increase 5, increase 7) that replica 1 would push.
func fxUnit(t *testing.T) []*model.Operation {
	tw := testonly.NewTestWire(false)
	c1, err := newCounter(testonly.NewBase("fxKey1", model.TypeOfDatatype_COUNTER), tw, nil)
	require.NoError(t, err)
	require.NoError(t, c1.Transaction("tx", func(tx CounterInTx) error {
		_, _ = tx.IncreaseBy(5)
		_, _ = tx.IncreaseBy(7)
		return nil
	}))
	ops := c1.(*counter).CreatePushPullPack().Operations
	require.Len(t, ops, 3)
	require.Equal(t, model.TypeOfOperation_TRANSACTION, ops[0].OpType)
	return ops
}

// fxReceiveInto gives ops to c; a panic is reported as a string.
func fxReceiveInto(c Counter, ops []*model.Operation) (oErr errors.OrdaError, panicked string) {
	defer func() {
		if r := recover(); r != nil {
			panicked = fmt.Sprintf("%v", r)
		}
	}()
	_, oErr = c.(*counter).ReceiveRemoteModelOperations(ops, false)
	return
}

// fxReceive gives ops to a fresh replica.
func fxReceive(t *testing.T, ops []*model.Operation) (c2 Counter, oErr errors.OrdaError, panicked string) {
	c2, err := newCounter(testonly.NewBase("fxKey2", model.TypeOfDatatype_COUNTER), testonly.NewTestWire(false), nil)
	require.NoError(t, err)
	oErr, panicked = fxReceiveInto(c2, ops)
	return
}

func fxRequireRefusedAsAWhole(t *testing.T, ops []*model.Operation) {
	c2, oErr, panicked := fxReceive(t, ops)
	ok := assert.Equal(t, "", panicked, "receiving a malformed unit panicked")
	ok = assert.Equal(t, int32(0), c2.Get(), "a part of the refused unit was applied") && ok
	ok = assert.Error(t, oErr, "a malformed unit has to be refused with an error") && ok
	if !ok {
		t.FailNow()
	}
	// the replica is not left locked, and still takes the well-formed unit.
	oErr, panicked = fxReceiveInto(c2, fxUnit(t))
	require.Equal(t, "", panicked)
	require.NoError(t, oErr)
	require.Equal(t, int32(12), c2.Get())
}

func TestFXWellFormedUnitIsApplied(t *testing.T) {
	c2, oErr, panicked := fxReceive(t, fxUnit(t))
	require.Equal(t, "", panicked)
	require.NoError(t, oErr)
	require.Equal(t, int32(12), c2.Get())
}

func TestFXUnitWithUndecodableBodyIsRefusedAsAWhole(t *testing.T) {
	ops := fxUnit(t)
	ops[2].Body = []byte("{not json")
	fxRequireRefusedAsAWhole(t, ops)
}

func TestFXUnitWithUnknownOperationTypeIsRefusedAsAWhole(t *testing.T) {
	ops := fxUnit(t)
	ops[2].OpType = model.TypeOfOperation(9999)
	fxRequireRefusedAsAWhole(t, ops)
}

func TestFXUnitWithUndecodableHeaderIsRefusedAsAWhole(t *testing.T) {
	ops := fxUnit(t)
	ops[0].Body = []byte("{not json")
	fxRequireRefusedAsAWhole(t, ops)
}

func TestFXUnitWithOperationWithoutIDIsRefusedAsAWhole(t *testing.T) {
	ops := fxUnit(t)
	ops[2].ID = nil
	fxRequireRefusedAsAWhole(t, ops)
}

// a single operation outside any unit: nothing to apply partially, but no panic either.
func TestFXSingleUndecodableOperationIsRefused(t *testing.T) {
	ops := fxUnit(t)
	single := []*model.Operation{ops[1]}
	single[0].Body = []byte("{not json")
	c2, oErr, panicked := fxReceive(t, single)
	require.Equal(t, "", panicked)
	require.Error(t, oErr)
	require.Equal(t, int32(0), c2.Get())
}

// the header is also decoded by ExecuteRemoteTransactionWithCtx, which can be called directly.
func TestFXExecuteRemoteTransactionWithUndecodableHeader(t *testing.T) {
	ops := fxUnit(t)
	ops[0].Body = []byte("{not json")
	c2, err := newCounter(testonly.NewBase("fxKey2", model.TypeOfDatatype_COUNTER), testonly.NewTestWire(false), nil)
	require.NoError(t, err)
	var panicked string
	var oErr errors.OrdaError
	func() {
		defer func() {
			if r := recover(); r != nil {
				panicked = fmt.Sprintf("%v", r)
			}
		}()
		_, oErr = c2.(*counter).ExecuteRemoteTransaction(ops, false)
	}()
	require.Equal(t, "", panicked)
	require.Error(t, oErr)
	require.Equal(t, int32(0), c2.Get())
}
