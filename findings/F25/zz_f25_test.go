package orda

import (
	gocontext "context"
	"fmt"
	"testing"

	"github.com/orda-io/orda/client/pkg/context"
	"github.com/orda-io/orda/client/pkg/internal/datatypes"
	"github.com/orda-io/orda/client/pkg/model"
	"github.com/orda-io/orda/client/pkg/testonly"
	"github.com/orda-io/orda/client/pkg/types"
	"github.com/stretchr/testify/require"
)

func baseWithState(key string, st model.StateOfDatatype) *datatypes.BaseDatatype {
	cm := &model.Client{CUID: types.NewUID()}
	ctx := context.NewClientContext(gocontext.TODO(), cm)
	return datatypes.NewBaseDatatype(key, model.TypeOfDatatype_COUNTER, ctx, st)
}

// a subscriber receives the subscribe response, then a user transaction fails
func TestProbeRollbackAfterSubscribe(t *testing.T) {
	for _, st := range []model.StateOfDatatype{model.StateOfDatatype_DUE_TO_SUBSCRIBE, model.StateOfDatatype_DUE_TO_SUBSCRIBE_CREATE} {
		// the creator builds the snapshot operation the server would send
		owner, _ := newCounter(testonly.NewBase("k", model.TypeOfDatatype_COUNTER), testonly.NewTestWire(false), nil)
		_, _ = owner.IncreaseBy(7)
		snapOp, err := owner.(*counter).CreateSnapshotOperation()
		require.NoError(t, err)
		snapOp.SetID(model.NewOperationIDWithCUID(types.NewUID()))
		serverDUID := owner.(*counter).GetDUID()

		wire := testonly.NewTestWire(false)
		c, oErr := newCounter(baseWithState("k", st), wire, nil)
		require.NoError(t, oErr)
		x := c.(*counter)
		ownDUID := x.GetDUID()
		require.NotEqual(t, serverDUID, ownDUID)
		opt := model.PushPullBitNormal
		ppp := &model.PushPullPack{Key: "k", DUID: serverDUID, Option: uint32(*opt.SetSubscribeBit()), Type: model.TypeOfDatatype_COUNTER,
			CheckPoint: &model.CheckPoint{Sseq: 1, Cseq: 0}, Operations: []*model.Operation{snapOp.ToModelOperation()}}
		x.ApplyPushPullPack(ppp)
		require.Equal(t, int32(7), x.Get())
		require.Equal(t, serverDUID, x.GetDUID(), "after subscribing the replica carries the datatype's id")
		before := fmt.Sprintf("duid=%s opID=%s state=%v value=%d", x.GetDUID(), x.GetOpID().ToString(), x.GetState(), x.Get())

		err2 := x.Transaction("fails", func(ci CounterInTx) error {
			_, _ = ci.IncreaseBy(1)
			return fmt.Errorf("abort")
		})
		require.Error(t, err2)
		after := fmt.Sprintf("duid=%s opID=%s state=%v value=%d", x.GetDUID(), x.GetOpID().ToString(), x.GetState(), x.Get())
		t.Logf("state %v\n before: %s\n after : %s", st, before, after)
		if before != after {
			t.Errorf("a failed transaction changed the replica (own duid was %s)", ownDUID)
		}
	}
}
