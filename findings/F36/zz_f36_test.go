package mongodb

// FX9 / defect "getoperations-cursor-err" (C08).
// This file belongs in the directory server/mongodb (package-internal test, package mongodb).
// Run: cd server && go test -vet=off -count=1 -run 'TestFXCursor' ./mongodb/
//
// It drives the real MongoCollections.GetOperations against the mock deployment of the MongoDB driver
// (mtest, ClientType Mock: no MongoDB, no network). The 'find' is answered with a first batch of two operations and
// an open cursor (id 99); the 'getMore' for the next batch is answered with a command error, which is what a
// fail-over / shutdown / cursor time-out in the middle of a pull of more than one batch (> 101 operations) looks like.

import (
	gocontext "context"
	"testing"

	"github.com/orda-io/orda/client/pkg/context"
	"github.com/orda-io/orda/client/pkg/model"
	"github.com/orda-io/orda/server/constants"
	"github.com/orda-io/orda/server/schema"
	"go.mongodb.org/mongo-driver/bson"
	"go.mongodb.org/mongo-driver/mongo/integration/mtest"
)

func fxCursorOpDoc(t *testing.T, duid string, sseq uint64) bson.D {
	op := &model.Operation{
		ID:     &model.OperationID{Era: 0, Lamport: sseq, CUID: "fxcuid", Seq: sseq},
		OpType: model.TypeOfOperation_COUNTER_INCREASE,
		Body:   []byte(`{"Delta":1}`),
	}
	raw, err := bson.Marshal(schema.NewOperationDoc(op, duid, sseq, 1))
	if err != nil {
		t.Fatal(err)
	}
	var d bson.D
	if err := bson.Unmarshal(raw, &d); err != nil {
		t.Fatal(err)
	}
	return d
}

func fxCursorCollections(mt *mtest.T) *MongoCollections {
	return &MongoCollections{
		mongoClient: mt.Client,
		operations:  mt.DB.Collection(schema.CollectionNameOperations),
	}
}

func TestFXCursorFailureIsNotATruncatedList(t *testing.T) {
	mt := mtest.New(t, mtest.NewOptions().ClientType(mtest.Mock).CreateCollection(false))
	defer mt.Close()
	mt.Run("getMore fails", func(mt *mtest.T) {
		ctx := context.NewOrdaContext(gocontext.Background(), "FX")
		ns := mt.DB.Name() + "." + schema.CollectionNameOperations
		mt.AddMockResponses(
			mtest.CreateCursorResponse(99, ns, mtest.FirstBatch, fxCursorOpDoc(mt.T, "fxduid", 1), fxCursorOpDoc(mt.T, "fxduid", 2)),
			mtest.CreateCommandErrorResponse(mtest.CommandError{Code: 11600, Name: "InterruptedAtShutdown", Message: "interrupted at shutdown"}),
			mtest.CreateSuccessResponse(), // for a killCursors, if the cursor is closed (unused otherwise)
		)
		opList, sseqList, err := fxCursorCollections(mt).GetOperations(ctx, "fxduid", 1, constants.InfinitySseq)

		var sent []string
		for _, ev := range mt.GetAllStartedEvents() {
			sent = append(sent, ev.CommandName)
		}
		if len(sent) < 2 || sent[0] != "find" || sent[1] != "getMore" {
			mt.Fatalf("harness: expected a find and a getMore, sent %v", sent)
		}
		if len(mt.GetAllFailedEvents()) != 1 {
			mt.Fatalf("harness: expected the getMore to fail, failed events: %d", len(mt.GetAllFailedEvents()))
		}
		if err == nil {
			mt.Errorf("the getMore of the cursor failed, but GetOperations reported success with a truncated list: "+
				"%d operations, sseqs %v", len(opList), sseqList)
		} else if opList != nil || sseqList != nil {
			mt.Errorf("GetOperations returned an error AND a partial list: %v %v %v", err, len(opList), sseqList)
		}
	})

	// Control: a cursor that is served completely (two batches) still yields the whole list and no error.
	mt.Run("getMore works", func(mt *mtest.T) {
		ctx := context.NewOrdaContext(gocontext.Background(), "FX")
		ns := mt.DB.Name() + "." + schema.CollectionNameOperations
		mt.AddMockResponses(
			mtest.CreateCursorResponse(99, ns, mtest.FirstBatch, fxCursorOpDoc(mt.T, "fxduid", 1), fxCursorOpDoc(mt.T, "fxduid", 2)),
			mtest.CreateCursorResponse(0, ns, mtest.NextBatch, fxCursorOpDoc(mt.T, "fxduid", 3)),
		)
		opList, sseqList, err := fxCursorCollections(mt).GetOperations(ctx, "fxduid", 1, constants.InfinitySseq)
		if err != nil {
			mt.Fatalf("GetOperations: %v", err)
		}
		if len(opList) != 3 || len(sseqList) != 3 || sseqList[0] != 1 || sseqList[1] != 2 || sseqList[2] != 3 {
			mt.Errorf("GetOperations = %d operations, sseqs %v; want 3 operations, sseqs [1 2 3]", len(opList), sseqList)
		}
	})

	// Control: an empty result is still (nil, nil, nil).
	mt.Run("empty", func(mt *mtest.T) {
		ctx := context.NewOrdaContext(gocontext.Background(), "FX")
		ns := mt.DB.Name() + "." + schema.CollectionNameOperations
		mt.AddMockResponses(mtest.CreateCursorResponse(0, ns, mtest.FirstBatch))
		opList, sseqList, err := fxCursorCollections(mt).GetOperations(ctx, "fxduid", 1, constants.InfinitySseq)
		if err != nil || len(opList) != 0 || len(sseqList) != 0 {
			mt.Errorf("GetOperations = %v %v %v; want nothing and no error", opList, sseqList, err)
		}
	})
}
