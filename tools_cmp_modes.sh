#!/bin/bash
# development helper (not a manifest command): compares the one-property-per-process mode with -all-props on the tree in <worktree>, obligation by obligation
# usage: cmp_modes.sh <worktree> : compare per-property mode and -all-props mode on the tree in <worktree>
wt=$1; rm -rf /tmp/cm_a /tmp/cm_b; mkdir -p /tmp/cm_a /tmp/cm_b
for i in 01 02 03 04 05 06 07 08 09 10 11 12 13 14 15 16 17 18 19 20; do
  (GOMAXPROCS=2 /verif/bin/ordalint -repo $wt -property C$i -tier quick -evidence /tmp/cm_a/ev_C$i.json -known /verif/known_findings.json > /tmp/cm_a/C$i.out 2>&1; echo $? > /tmp/cm_a/C$i.code) &
done; wait
/verif/bin/ordalint -repo $wt -all-props /tmp/cm_b -known /verif/known_findings.json > /tmp/cm_b/all.out 2>&1
python3-vt - <<'P'
import json
diff=0
for i in range(1,21):
    c='C%02d'%i
    a=json.load(open('/tmp/cm_a/ev_%s.json'%c)); b=json.load(open('/tmp/cm_b/ev_%s.json'%c))
    def obl(e):
        # every obligation as (rule, construct, status)
        s=set()
        def walk(x):
            if isinstance(x,dict):
                if 'rule' in x and 'construct' in x and 'status' in x: s.add((x['rule'],x['construct'],x['status']))
                for v in x.values(): walk(v)
            elif isinstance(x,list):
                for v in x: walk(v)
        walk(e); return s
    A,B=obl(a),obl(b)
    ra={r['id']:(r.get('bound'),r.get('floor')) for r in a.get('coverage',{}).get('rules',[])} if 'coverage' in a else {}
    if A!=B:
        diff+=1; print(c,'DIFF only-single',sorted(A-B)[:3],'only-all',sorted(B-A)[:3])
print('properties that differ:',diff)
P
