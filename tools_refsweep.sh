#!/bin/bash
# development helper: apply each behaviour-preserving refactoring of a directory, run all 20 quick checks in parallel, list alarms, revert.
# usage: VERIF_REPO=<scratch worktree> tools_refsweep.sh <ABSOLUTE dir-with-*/patch.diff> [binary]
cd /verif
REPO=${VERIF_REPO:-/repo}; bin=${2:-/verif/bin/ordalint}
T=$(mktemp -d /tmp/rs.XXXX)
for p in "$1"/*/patch.diff; do
  id=$(basename $(dirname $p))
  git -C $REPO apply $p 2>/dev/null || { echo "$id APPLY-FAILED"; continue; }
  for i in 01 02 03 04 05 06 07 08 09 10 11 12 13 14 15 16 17 18 19 20; do
    ($bin -repo $REPO -property C$i -tier quick -evidence $T/ev_C$i.json -known ${VERIF_KNOWN:-/verif/known_findings.json} > $T/out_C$i.txt 2>&1; echo $? > $T/code_C$i.txt) &
  done; wait
  git -C $REPO checkout -- . ; git -C $REPO clean -fdq -- client server >/dev/null 2>&1
  res=""
  for i in 01 02 03 04 05 06 07 08 09 10 11 12 13 14 15 16 17 18 19 20; do
    c=$(cat $T/code_C$i.txt)
    if [ "$c" != "0" ]; then
      rules=$(grep -o 'violated: rule=[A-Z0-9.]* construct="[^"]*"' $T/out_C$i.txt | sed 's/violated: rule=//' | sort -u | head -4 | tr '\n' ';')
      res="$res C$i($c):$rules"
    fi
  done
  echo "$id ${res:-CLEAN}"
done
rm -rf $T
