package main

import (
	"fmt"
	"go/ast"
	"go/token"
	"go/types"
	"os"
	"path/filepath"
	"sort"
	"strings"

	"golang.org/x/tools/go/callgraph"
	"golang.org/x/tools/go/callgraph/cha"
	"golang.org/x/tools/go/callgraph/vta"
	"golang.org/x/tools/go/packages"
	"golang.org/x/tools/go/ssa"
	"golang.org/x/tools/go/ssa/ssautil"
)

const ordaPrefix = "github.com/orda-io/orda"

// Package paths used by the rules.
const (
	pModel      = ordaPrefix + "/client/pkg/model"
	pOrda       = ordaPrefix + "/client/pkg/orda"
	pDatatypes  = ordaPrefix + "/client/pkg/internal/datatypes"
	pCManagers  = ordaPrefix + "/client/pkg/internal/managers"
	pOperations = ordaPrefix + "/client/pkg/operations"
	pErrors     = ordaPrefix + "/client/pkg/errors"
	pIface      = ordaPrefix + "/client/pkg/iface"
	pTypes      = ordaPrefix + "/client/pkg/types"
	pService    = ordaPrefix + "/server/service"
	pMongo      = ordaPrefix + "/server/mongodb"
	pSchema     = ordaPrefix + "/server/schema"
	pSnapshot   = ordaPrefix + "/server/snapshot"
	pSUtils     = ordaPrefix + "/server/utils"
	pSManagers  = ordaPrefix + "/server/managers"
	pNotif      = ordaPrefix + "/server/notification"
	pRedis      = ordaPrefix + "/server/redis"
	pAdmin      = ordaPrefix + "/server/admin"
)

// Universe is one go/packages load of one module of /repo together with its SSA form.
type Universe struct {
	Name  string
	Dir   string
	Roots []*packages.Package
	Pkgs  map[string]*packages.Package // every package whose path is inside orda (roots and dependencies)
	Fset  *token.FileSet
	Prog  *ssa.Program
	SSA   map[string]*ssa.Package
	repo  string
	tests bool

	fnAlias map[string]*types.Func
	// functions absent from the baseline symbol table (see flatten.go)
	newFuncObjs map[*types.Func]bool
	Renames     []string

	cg       *callgraph.Graph
	cgKind   string
	allFuncs map[*ssa.Function]bool
	declOf   map[*types.Func]*ast.FuncDecl
	pkgOfFn  map[*types.Func]*packages.Package
}

// World lazily loads the universes a property needs.
type World struct {
	Repo     string
	Thorough bool
	Overlay  map[string][]byte // in-memory variants of source files (sensitivity sweep)
	Soft     bool
	unis     map[string]*Universe
	Stats    map[string]int
	shared   map[string]*Universe // sweep mode (-all-props): universes loaded once per process, handed to each property's World on demand
}

var errVariantDoesNotCompile = fmt.Errorf("variant does not type-check")

func newWorld(repo string, thorough bool) *World {
	return &World{Repo: repo, Thorough: thorough, unis: map[string]*Universe{}, Stats: map[string]int{}}
}

// machineryFailure aborts with exit 2: the analyser itself could not run (load or type-check
// failure), which is not a verdict on the property.
func machineryFailure(format string, args ...interface{}) {
	fmt.Fprintf(os.Stderr, "ordalint: machinery failure: "+format+"\n", args...)
	os.Exit(2)
}

func (w *World) uni(name string) *Universe {
	if u, ok := w.unis[name]; ok {
		return u
	}
	dir := w.Repo
	switch name {
	case "client":
		dir = filepath.Join(w.Repo, "client")
	case "server":
		dir = filepath.Join(w.Repo, "server")
	case "root":
	default:
		machineryFailure("unknown universe %q", name)
	}
	var u *Universe
	if w.shared != nil {
		u = w.shared[name]
	}
	if u == nil {
		u = loadUniverseOverlay(name, w.Repo, dir, w.Thorough && w.Overlay == nil, w.Overlay, w.Soft)
	}
	if u == nil {
		panic(errVariantDoesNotCompile)
	}
	if w.shared != nil {
		w.shared[name] = u
	}
	w.unis[name] = u
	w.Stats["packages_"+name] = len(u.Pkgs)
	n := 0
	for f := range u.funcs() {
		if f.Pkg != nil && isOrda(f.Pkg.Pkg.Path()) {
			n++
		}
	}
	w.Stats["orda_functions_"+name] = n
	return u
}

// Client returns a universe that contains the client packages. When the server universe is
// already loaded it is reused (the server module imports the client packages from ../client, so
// they are loaded from source with full syntax there as well).
func (w *World) Client() *Universe {
	if u, ok := w.unis["server"]; ok {
		return u
	}
	return w.uni("client")
}

// Server returns the universe of the server module (it includes the client packages it imports).
func (w *World) Server() *Universe { return w.uni("server") }

func isOrda(path string) bool {
	return path == ordaPrefix || strings.HasPrefix(path, ordaPrefix+"/")
}

// softLoad makes load and type errors return nil instead of aborting (used for in-memory variants).
func loadUniverse(name, repo, dir string, tests bool) *Universe {
	return loadUniverseOverlay(name, repo, dir, tests, nil, false)
}

func loadUniverseOverlay(name, repo, dir string, tests bool, overlay map[string][]byte, soft bool) *Universe {
	os.Unsetenv("GOWORK")
	normalisedNotes = nil
	overlay = stageTableOverlay(dir, overlay)
	cfg := &packages.Config{
		Mode:    packages.LoadAllSyntax,
		Dir:     dir,
		Tests:   tests,
		Overlay: overlay,
		Env: append(os.Environ(),
			"GOFLAGS=-mod=mod", "GOPROXY=off", "GOSUMDB=off", "GOTOOLCHAIN=local", "GOWORK=off"),
	}
	pkgs, err := packages.Load(cfg, "./...")
	if err != nil {
		if soft {
			return nil
		}
		machineryFailure("loading %s: %v", dir, err)
	}
	if len(pkgs) == 0 {
		machineryFailure("loading %s: no packages", dir)
	}
	u := &Universe{Name: name, Dir: dir, Roots: pkgs, Pkgs: map[string]*packages.Package{}, repo: repo, tests: tests,
		SSA: map[string]*ssa.Package{}, declOf: map[*types.Func]*ast.FuncDecl{}, pkgOfFn: map[*types.Func]*packages.Package{}}
	nerr := 0
	packages.Visit(pkgs, nil, func(p *packages.Package) {
		if !isOrda(p.PkgPath) {
			return
		}
		for _, e := range p.Errors {
			// root-module test packages and the like must type-check as well: a tree that does not
			// compile is outside what any check can speak about.
			if !soft {
				fmt.Fprintf(os.Stderr, "ordalint: %s: %v\n", p.PkgPath, e)
			}
			nerr++
		}
		// With Tests:true a package appears as "p", "p [p.test]" and "p_test": keep the variant with
		// the most files under the plain path (the test variant is a superset of the plain one).
		key := p.PkgPath
		if old, ok := u.Pkgs[key]; !ok || len(p.Syntax) > len(old.Syntax) {
			if strings.HasSuffix(p.ID, ".test") { // generated test main
				return
			}
			u.Pkgs[key] = p
		}
	})
	if nerr > 0 {
		if soft {
			return nil
		}
		machineryFailure("%d load/type errors in %s", nerr, dir)
	}
	if len(u.Pkgs) == 0 {
		machineryFailure("no orda packages under %s", dir)
	}
	u.Fset = pkgs[0].Fset
	prog, _ := ssautil.AllPackages(pkgs, ssa.InstantiateGenerics)
	// only the orda packages get function bodies: the rules never look inside dependencies
	for _, p := range prog.AllPackages() {
		if isOrda(p.Pkg.Path()) {
			p.SetDebugMode(true)
			p.Build()
		}
	}
	u.Prog = prog
	for path, p := range u.Pkgs {
		if sp := prog.Package(p.Types); sp != nil {
			u.SSA[path] = sp
		}
		for _, f := range p.Syntax {
			for _, d := range f.Decls {
				if fd, ok := d.(*ast.FuncDecl); ok {
					if obj, ok := p.TypesInfo.Defs[fd.Name].(*types.Func); ok {
						u.declOf[obj] = fd
						u.pkgOfFn[obj] = p
					}
				}
			}
		}
	}
	u.computeRenames()
	u.computeNewHelpers()
	u.Renames = append(u.Renames, normalisedNotes...)
	return u
}

func (u *Universe) funcs() map[*ssa.Function]bool {
	if u.allFuncs == nil {
		u.allFuncs = ssautil.AllFunctions(u.Prog)
	}
	return u.allFuncs
}

// CallGraph returns the CHA graph (quick) or the VTA graph seeded by CHA (thorough).
func (u *Universe) CallGraph(thorough bool) *callgraph.Graph {
	want := "cha"
	if thorough {
		want = "vta"
	}
	if u.cg != nil && u.cgKind == want {
		return u.cg
	}
	g := cha.CallGraph(u.Prog)
	if thorough {
		g = vta.CallGraph(u.funcs(), g)
	}
	u.cg, u.cgKind = g, want
	return g
}

// ---------------------------------------------------------------------------------------------
// lookups

func (u *Universe) Pkg(path string) *packages.Package { return u.Pkgs[path] }

// Named finds a named type.
func (u *Universe) Named(pkg, name string) *types.Named {
	p := u.Pkgs[pkg]
	if p == nil {
		return nil
	}
	obj := p.Types.Scope().Lookup(name)
	if obj == nil {
		return nil
	}
	n, _ := obj.Type().(*types.Named)
	return n
}

// FuncObj finds a package-level function (recv == "") or a method declared on recv (name of the
// named type, without '*').
func (u *Universe) FuncObj(pkg, recv, name string) *types.Func {
	if f := u.funcObjExact(pkg, recv, name); f != nil {
		return f
	}
	if u.fnAlias != nil {
		return u.fnAlias[pkg+"|"+recv+"|"+name]
	}
	return nil
}

func (u *Universe) funcObjExact(pkg, recv, name string) *types.Func {
	p := u.Pkgs[pkg]
	if p == nil {
		return nil
	}
	if recv == "" {
		f, _ := p.Types.Scope().Lookup(name).(*types.Func)
		return f
	}
	n := u.Named(pkg, recv)
	if n == nil {
		return nil
	}
	for i := 0; i < n.NumMethods(); i++ {
		if m := n.Method(i); m.Name() == name {
			return m
		}
	}
	return nil
}

// Fn finds the SSA function of a declared function or method.
func (u *Universe) Fn(pkg, recv, name string) *ssa.Function {
	obj := u.FuncObj(pkg, recv, name)
	if obj == nil {
		return nil
	}
	return flatRoot(u.Prog.FuncValue(obj))
}

// Decl returns the syntax of a declared function and the package holding it.
func (u *Universe) Decl(obj *types.Func) (*ast.FuncDecl, *packages.Package) {
	if obj == nil {
		return nil, nil
	}
	return u.declOf[obj], u.pkgOfFn[obj]
}

func (u *Universe) DeclOf(pkg, recv, name string) (*ast.FuncDecl, *packages.Package) {
	return u.Decl(u.FuncObj(pkg, recv, name))
}

// Pos renders a position relative to the repository root.
func (u *Universe) Pos(p token.Pos) string {
	if !p.IsValid() {
		return "-"
	}
	pp := u.Fset.Position(p)
	rel, err := filepath.Rel(u.repo, pp.Filename)
	if err != nil || strings.HasPrefix(rel, "..") {
		rel = pp.Filename
	}
	return fmt.Sprintf("%s:%d", rel, pp.Line)
}

// fnName renders "pkg.(*T).m" in a short form: "T.m" or "pkgname.f".
func fnName(f *ssa.Function) string {
	if f == nil {
		return "<nil>"
	}
	// a new helper with a single owner goes by the owner's name (see flatten.go)
	if flattenable[f] {
		if owners := rootOwners(f); len(owners) == 1 {
			return fnName(owners[0])
		}
	}
	if f.Signature != nil && f.Signature.Recv() != nil {
		t := f.Signature.Recv().Type()
		if p, ok := t.(*types.Pointer); ok {
			t = p.Elem()
		}
		if n, ok := t.(*types.Named); ok {
			return n.Obj().Name() + "." + oldFuncName(f)
		}
	}
	if f.Parent() != nil {
		return fnName(f.Parent()) + "$" + f.Name()
	}
	if f.Pkg != nil {
		return f.Pkg.Pkg.Name() + "." + oldFuncName(f)
	}
	return f.Name()
}

// oldFuncName is the baseline name of a function that was recognised as renamed.
func oldFuncName(f *ssa.Function) string {
	if o, ok := f.Object().(*types.Func); ok {
		if old, renamed := funcOldName[o]; renamed {
			return old
		}
	}
	return f.Name()
}

func oldObjName(o *types.Func) string {
	if old, renamed := funcOldName[o]; renamed {
		return old
	}
	return o.Name()
}

func objName(o *types.Func) string {
	if o == nil {
		return "<nil>"
	}
	sig := o.Type().(*types.Signature)
	if sig.Recv() != nil {
		t := sig.Recv().Type()
		if p, ok := t.(*types.Pointer); ok {
			t = p.Elem()
		}
		if n, ok := t.(*types.Named); ok {
			return n.Obj().Name() + "." + oldObjName(o)
		}
	}
	if o.Pkg() != nil {
		return o.Pkg().Name() + "." + oldObjName(o)
	}
	return oldObjName(o)
}

// ordaFuncs lists the SSA functions (declared ones and their closures) of the orda packages whose
// path satisfies keep, in a deterministic order.
func (u *Universe) ordaFuncs(keep func(pkgPath string) bool) []*ssa.Function {
	var out []*ssa.Function
	for f := range u.funcs() {
		if f.Pkg == nil || f.Synthetic != "" {
			continue
		}
		path := f.Pkg.Pkg.Path()
		if !isOrda(path) || (keep != nil && !keep(path)) {
			continue
		}
		if chosen, ok := u.SSA[path]; ok && chosen != f.Pkg {
			continue // with test packages loaded a package exists twice: only the chosen variant counts
		}
		if isTestFile(u.Fset, f.Pos()) {
			continue
		}
		out = append(out, f)
	}
	sort.Slice(out, func(i, j int) bool {
		if out[i].Pos() != out[j].Pos() {
			return out[i].Pos() < out[j].Pos()
		}
		return out[i].String() < out[j].String()
	})
	return out
}

func isTestFile(fset *token.FileSet, p token.Pos) bool {
	if !p.IsValid() {
		return false
	}
	return strings.HasSuffix(fset.Position(p).Filename, "_test.go")
}

func isGenerated(fset *token.FileSet, p token.Pos) bool {
	if !p.IsValid() {
		return false
	}
	fn := fset.Position(p).Filename
	return strings.HasSuffix(fn, ".pb.go") || strings.HasSuffix(fn, ".pb.gw.go")
}
