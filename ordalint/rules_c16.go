package main

import (
	"fmt"
	"go/ast"
	"go/token"
	"go/types"
	"sort"
	"strings"

	"golang.org/x/tools/go/ssa"
)

func isMutatingRepoMethod(f *ssa.Function) bool {
	if f == nil || f.Pkg == nil || f.Pkg.Pkg.Path() != pMongo {
		return false
	}
	n := f.Name()
	for _, p := range []string{"Insert", "Update", "Delete", "Purge", "Replace", "MakeCollection", "GetOrCreate", "GetNextCollectionNum"} {
		if strings.HasPrefix(n, p) {
			return true
		}
	}
	return false
}

// R16.3 refused means unchanged
func ruleR16_3(w *World, r *Report) {
	u := w.Server()
	r.Rule("R16.3", "inside the handler goroutine, storage is mutated only by the final commit step(s) (operation insert and datatype update): no step that can refuse the request reaches a mutating repository method or can run after one", 6)
	proc := u.Fn(pService, "PushPullHandler", "process")
	if proc == nil {
		r.Lost("PushPullHandler.process")
		return
	}
	v := newCGView(u, w.Thorough)
	// the steps of the goroutine: calls of service functions other than the deferred exit function
	type step struct {
		c        ssa.CallInstruction
		f        *ssa.Function
		mutating *ssa.Function
		pred     map[*ssa.Function]*ssa.Function
	}
	var steps []step
	for _, c := range callsIn(proc) {
		f := staticCallee(c)
		if f != nil && isMutatingRepoMethod(f) {
			// a repository write made visible by a new helper: a commit step of its own
			steps = append(steps, step{c: c, f: f, mutating: f, pred: map[*ssa.Function]*ssa.Function{f: nil}})
			continue
		}
		if f == nil || f.Pkg == nil || f.Pkg.Pkg.Path() != pService {
			continue
		}
		if _, isDefer := c.(*ssa.Defer); isDefer || oldFuncName(f) == "finalize" || flattenable[f] {
			continue // the deferred exit function; a new helper is represented by the steps inside it
		}
		st := step{c: c, f: f, pred: v.reach([]*ssa.Function{f}, nil)}
		var names []string
		for g := range st.pred {
			if isMutatingRepoMethod(g) {
				names = append(names, fnName(g))
			}
		}
		sort.Strings(names)
		for g := range st.pred {
			if len(names) > 0 && fnName(g) == names[0] {
				st.mutating = g
			}
		}
		steps = append(steps, st)
	}
	// a step that changes stored data is a commit step; every other step must not be able to run
	// after one (its refusal would come after data was stored), so all commit steps come last
	var commits []step
	for _, st := range steps {
		if st.mutating != nil {
			commits = append(commits, st)
		}
	}
	if len(commits) == 0 {
		r.Lost("process: no step persists the push")
		return
	}
	for _, st := range steps {
		if st.mutating != nil {
			continue
		}
		var before *step
		for i := range commits {
			if reachableFrom(commits[i].c.(ssa.Instruction), st.c.(ssa.Instruction)) {
				before = &commits[i]
			}
		}
		cons := "PushPullHandler.process/" + st.f.Name() + " does not follow a write"
		if before != nil && errResultOfFn(st.f) {
			r.Bad(cons, u.Pos(st.c.Pos()), "the step "+st.f.Name()+" can run after "+before.f.Name()+", which reaches "+fnName(before.mutating)+": a request refused by it has already changed stored data", pathTo(before.pred, before.mutating)...)
		} else {
			r.OK(cons, u.Pos(st.c.Pos()), fmt.Sprintf("%d reachable functions, none mutating; not after a commit step", len(st.pred)))
		}
	}
	// the commit: exactly the operation insert and the datatype update
	d := deepOf(proc)
	var writes []string
	d.each(func(x dins) {
		if c, ok := x.in.(*ssa.Call); ok && isMutatingRepoMethod(staticCallee(c)) {
			for a := x.n; a != nil; a = a.parent {
				if a.site != nil {
					if _, isDefer := a.site.(*ssa.Defer); isDefer {
						return
					}
				}
			}
			writes = append(writes, calleeName(c))
		}
	})
	sort.Strings(writes)
	r.Check(strings.Join(writes, ",") == "InsertOperations,UpdateDatatype", "push commit/writes", u.Pos(commits[0].c.Pos()), "InsertOperations and UpdateDatatype", fmt.Sprintf("the handler goroutine performs the repository writes %v, expected the operation insert and the datatype update", writes))
}

func errResultOfFn(f *ssa.Function) bool {
	res := f.Signature.Results()
	if res.Len() == 0 {
		return false
	}
	_, isIface := res.At(res.Len() - 1).Type().Underlying().(*types.Interface)
	return isIface
}

// R16.6 every RPC method answers
func ruleR16_6(w *World, r *Report) {
	u := w.Server()
	r.Rule("R16.6", "every RPC method of the service returns, on every path, a response or a non-nil error: no return of (nil, nil), and every error is built by NewRPCError or propagated", 6)
	n := u.Named(pService, "OrdaService")
	if n == nil {
		r.Lost("service.OrdaService")
		return
	}
	// the generated server interface
	iface := u.Named(pModel, "OrdaServiceServer")
	if iface == nil {
		r.Lost("model.OrdaServiceServer")
		return
	}
	it := iface.Underlying().(*types.Interface)
	for i := 0; i < it.NumMethods(); i++ {
		name := it.Method(i).Name()
		if !it.Method(i).Exported() {
			continue
		}
		fn := u.Fn(pService, "OrdaService", name)
		if fn == nil {
			r.Bad("OrdaService."+name, "", "the service does not implement this RPC")
			continue
		}
		bad := ""
		forEachInstr(fn, func(in ssa.Instruction) {
			ret, ok := in.(*ssa.Return)
			if !ok || len(ret.Results) != 2 {
				return
			}
			r0, r1 := resolveSpill(ret.Results[0]), resolveSpill(ret.Results[1])
			for _, a := range r0 {
				for _, b := range r1 {
					ca, okA := a.(*ssa.Const)
					cb, okB := b.(*ssa.Const)
					if okA && okB && ca.Value == nil && cb.Value == nil {
						bad = u.Pos(ret.Pos())
					}
				}
			}
		})
		r.Check(bad == "", "OrdaService."+name+"/no silent nil", u.Pos(fn.Pos()), "no (nil, nil) return", "a path returns (nil, nil) at "+bad+": the client sees success with an empty response")
	}
}

// resolveSpill: possible values of a returned result (through single-function spill cells and phis).
func resolveSpill(v ssa.Value) []ssa.Value {
	seen := map[ssa.Value]bool{}
	var out []ssa.Value
	var walk func(v ssa.Value, d int)
	walk = func(v ssa.Value, d int) {
		if seen[v] || d > 8 {
			return
		}
		seen[v] = true
		switch x := v.(type) {
		case *ssa.Phi:
			for _, e := range x.Edges {
				walk(e, d+1)
			}
		case *ssa.UnOp:
			if al, ok := x.X.(*ssa.Alloc); ok {
				// the value loaded is the last store in the same block, if any
				b := x.Block()
				for i := instrIndex(x) - 1; i >= 0; i-- {
					if st, ok := b.Instrs[i].(*ssa.Store); ok && st.Addr == ssa.Value(al) {
						walk(st.Val, d+1)
						return
					}
				}
				out = append(out, v)
				return
			}
			out = append(out, v)
		default:
			out = append(out, v)
		}
	}
	walk(v, 0)
	return out
}

// ---------------------------------------------------------------------------------------------
// C17

var colAbs = rewriter(`^.*\.CollectionNum$`, "CLIENTCOL", `^.*#0\.Num$`, "COL", `^.*collectionDoc\.Num$`, "COL")

// R17.1 an id-only lookup must be collection-checked
func ruleR17_1(w *World, r *Report) {
	u := w.Server()
	r.Rule("R17.1", "a datatype document found by DUID alone (GetDatatype) is compared with the request's collection number before it is classified or used", 1)
	fn := u.Fn(pService, "PushPullHandler", "evaluatePushPullCase")
	if fn == nil {
		r.Lost("PushPullHandler.evaluatePushPullCase")
		return
	}
	var lookups []ssa.CallInstruction
	lookups = callsNamed(fn, "GetDatatype")
	if len(lookups) == 0 {
		r.OK("evaluatePushPullCase/GetDatatype-by-DUID", u.Pos(fn.Pos()), "no id-only lookup")
		return
	}
	checked := false
	forEachInstr(fn, func(in ssa.Instruction) {
		if bo, ok := in.(*ssa.BinOp); ok {
			s := canonName(bo.X) + "|" + canonName(bo.Y)
			if strings.Contains(s, "CollectionNum") && strings.Contains(s, "collectionDoc.Num") {
				checked = true
			}
		}
	})
	// and a datatype of another collection is refused, not classified as "nothing has this DUID" (which lets a create
	// request go on under the foreign DUID: the log is keyed by DUID alone)
	if checked {
		bad := ""
		forEachOwnInstr(fn, func(in ssa.Instruction) {
			ret, ok := in.(*ssa.Return)
			if !ok || len(ret.Results) != 2 {
				return
			}
			if k, isK := ret.Results[1].(*ssa.Const); !isK || k.Value != nil {
				return // an error is returned
			}
			paths, okp := reachingLitsOwn(fn, nil, ret)
			if !okp {
				return
			}
			for _, p := range paths {
				for _, l := range p {
					if l.Kind != "cmp" || l.Op != token.NEQ {
						continue
					}
					s := canonName(l.X) + "|" + canonName(l.Y)
					if strings.Contains(s, "CollectionNum") && strings.Contains(s, "collectionDoc.Num") {
						bad = u.Pos(ret.Pos())
					}
				}
			}
		})
		r.Check(bad == "", "evaluatePushPullCase/foreign DUID refused", u.Pos(lookups[0].Pos()), "the mismatch edge returns an error", "when the datatype found by DUID belongs to another collection the request is classified without an error (return at "+bad+"): a create request naming that DUID is then allowed to create, pulls the foreign datatype's log (operations are keyed by DUID alone) and overwrites the foreign datatype document")
	}
	r.Check(checked, "evaluatePushPullCase/GetDatatype-by-DUID", u.Pos(lookups[0].Pos()), "collection compared", "the datatype found by DUID is never compared with the request's collection: a client of one collection that names the DUID of a datatype of another collection is classified caseUsedDUID and proceeds to push to and pull from the foreign datatype")
}

// R17.2 key lookups are pairs; R17.4 purge filters
func ruleR17_2(w *World, r *Report) {
	u := w.Server()
	r.Rule("R17.2", "every repository query that constrains a datatype key also constrains the collection number, with the function's collection parameter", 1)
	p := u.Pkgs[pMongo]
	if p == nil {
		r.Lost("package server/mongodb")
		return
	}
	n := 0
	for _, f := range p.Syntax {
		if isTestFile(u.Fset, f.Pos()) {
			continue
		}
		for _, d := range f.Decls {
			fd, ok := d.(*ast.FuncDecl)
			if !ok || fd.Body == nil {
				continue
			}
			cl := filterClauses(p.TypesInfo, fd.Body)
			for k := range cl {
				if strings.HasSuffix(k, "DocFields.Key") {
					n++
					table := strings.TrimSuffix(strings.SplitN(k, ":", 2)[1], ".Key")
					col, has := cl["AddFilterEQ:"+table+".CollectionNum"]
					r.Check(has && col == "collectionNum", fd.Name.Name+"/key filter scoped", u.Pos(fd.Pos()), "key and collection number", "a query filters the datatype key without the collection number parameter: the same key in another collection matches")
				}
			}
		}
	}
	if n == 0 {
		r.Lost("a repository query by datatype key")
	}
}

func ruleR17_3(w *World, r *Report) {
	u := w.Server()
	r.Rule("R17.3", "ProcessPushPull creates handlers, and ProcessClient updates a registered client, only after the stored client's collection number was compared with the request's collection; the mismatch edge returns an error", 2)
	if fn := u.Fn(pService, "OrdaService", "ProcessPushPull"); fn == nil {
		r.Lost("OrdaService.ProcessPushPull")
	} else {
		for _, c := range callsNamed(fn, "newPushPullHandler") {
			d := deepOfDepth(fn, 1)
			dc := d.find(c.(ssa.Instruction))
			paths, ok := d.paths(dc, colAbs)
			good := ok && (allLitPathsHaveLin(paths, "+CLIENTCOL-COL == 0") || allLitPathsHaveLin(paths, "-CLIENTCOL+COL == 0"))
			// and the client exists
			good = good && allLitPathsContain(paths, "#0 != nil")
			for _, p := range paths {
				found := false
				for _, l := range p.strs {
					if strings.Contains(l, "GetClient(") && strings.HasSuffix(l, "#0 != nil") {
						found = true
					}
				}
				good = good && found
			}
			a := c.Common().Args
			good = good && strings.Contains(d.name(dc.n, a[2]), "GetClient(") && strings.Contains(d.name(dc.n, a[3]), "getCollectionDocWithRPCError(")
			r.Check(good, "ProcessPushPull/client bound to collection", u.Pos(c.Pos()), "handlers only for a registered client of this collection", fmt.Sprintf("a handler is created under %v; expected client found and client.CollectionNum == collection.Num, with that client and collection handed to the handler", paths))
		}
	}
	if fn := u.Fn(pService, "OrdaService", "ProcessClient"); fn == nil {
		r.Lost("OrdaService.ProcessClient")
	} else {
		for _, c := range callsNamed(fn, "UpdateClient") {
			d := deepOfDepth(fn, 1)
			paths, _ := d.paths(d.find(c.(ssa.Instruction)), rewriter(`^.*GetClient\(.*#0\.CollectionNum$`, "DBCOL", `^.*\.CollectionNum$`, "REQCOL"))
			good := len(paths) > 0
			for _, p := range paths {
				okp := has(p.lins, "+DBCOL-REQCOL == 0") || has(p.lins, "-DBCOL+REQCOL == 0")
				for _, l := range p.strs {
					if strings.Contains(l, "GetClient(") && strings.HasSuffix(l, "#0 == nil") {
						okp = true // not registered yet
					}
				}
				good = good && okp
			}
			r.Check(good, "ProcessClient/client bound to collection", u.Pos(c.Pos()), "update only for a new client or one of the same collection", "a registered client can be re-registered under another collection")
		}
	}
}

func ruleR17_4(w *World, r *Report) {
	u := w.Server()
	r.Rule("R17.4", "every purge of a shared collection (operations, snapshots, datatypes, clients) filters by the collection-number field of the document type stored there, with the purged collection's number", 2)
	p := u.Pkgs[pMongo]
	if p == nil {
		r.Lost("package server/mongodb")
		return
	}
	tableOf := map[string]string{"operations": "OperationDocFields", "snapshots": "SnapshotDocFields", "datatypes": "DatatypeDocFields", "clients": "ClientDocFields"}
	n := 0
	for _, root := range u.ordaFuncs(func(pp string) bool { return pp == pMongo }) {
		if flattenable[root] || root.Parent() != nil || !strings.HasPrefix(strings.ToLower(root.Name()), "purge") {
			continue
		}
		// the deletes of the purge function and of the new helpers it calls, each helper read once per call site with
		// the arguments passed there
		var scan func(g *ssa.Function, env map[ssa.Value]ssa.Value, depth int)
		subst := func(v ssa.Value, env map[ssa.Value]ssa.Value) ssa.Value {
			for k := 0; k < 6; k++ {
				if w2, ok := env[v]; ok {
					v = w2
					continue
				}
				break
			}
			return v
		}
		scan = func(g *ssa.Function, env map[ssa.Value]ssa.Value, depth int) {
			forEachOwnInstr(g, func(in ssa.Instruction) {
				call, ok := in.(*ssa.Call)
				if !ok {
					return
				}
				// a new helper, or a local closure of this function, is read with the arguments of this call
				if h := call.Call.StaticCallee(); h != nil && (flattenable[h] || h.Parent() == g) && depth < 4 {
					env2 := map[ssa.Value]ssa.Value{}
					for k, v := range env {
						env2[k] = v
					}
					for i, prm := range h.Params {
						if i < len(call.Call.Args) {
							env2[prm] = subst(call.Call.Args[i], env)
						}
					}
					if mc, isMC := call.Call.Value.(*ssa.MakeClosure); isMC {
						for i, fv := range h.FreeVars {
							if i < len(mc.Bindings) {
								env2[fv] = subst(mc.Bindings[i], env)
							}
						}
					}
					scan(h, env2, depth+1)
					return
				}
				name := calleeName(call)
				if (name != "DeleteMany" && name != "DeleteOne") || len(call.Call.Args) < 3 {
					return
				}
				recv := subst(call.Call.Args[0], env)
				collName := ""
				if ld, isLd := recv.(*ssa.UnOp); isLd {
					if fa, isFA := ld.X.(*ssa.FieldAddr); isFA {
						collName = fieldName(fa.X.Type(), fa.Field)
						if k := strings.LastIndex(collName, "."); k >= 0 {
							collName = collName[k+1:]
						}
					}
				}
				table, shared := tableOf[collName]
				if !shared {
					return
				}
				// the clauses of the filter: the AddFilterEQ chain behind the filter argument
				cl := map[string]ssa.Value{}
				var chain func(v ssa.Value, d int)
				chain = func(v ssa.Value, d int) {
					v = stripIface(subst(v, env))
					c2, isCall := v.(*ssa.Call)
					if !isCall || d > 8 {
						return
					}
					a := c2.Call.Args
					if calleeName(c2) == "AddFilterEQ" && len(a) >= 3 {
						cl[canonName(subst(a[len(a)-2], env))] = stripIface(subst(stripIface(a[len(a)-1]), env))
					}
					if len(a) > 0 {
						chain(a[0], d+1)
					}
				}
				chain(call.Call.Args[2], 0)
				cons := root.Name() + "/" + name + " on " + collName
				byID := false
				for k := range cl {
					if strings.HasSuffix(k, table+".DUID") {
						byID = true
					}
				}
				if byID && name == "DeleteOne" {
					return // the per-datatype delete by id inside PurgeDatatype
				}
				n++
				var val ssa.Value
				var shown []string
				for k, v := range cl {
					shown = append(shown, k+"="+exprName(v))
					if strings.HasSuffix(k, table+".CollectionNum") {
						val = v
					}
				}
				sort.Strings(shown)
				good := false
				// a parameter captured by a closure lives in a cell: the value is what was stored there (once)
				if ld, isLd := val.(*ssa.UnOp); isLd && ld.Op == token.MUL {
					if cell, isCell := subst(ld.X, env).(*ssa.Alloc); isCell && cell.Referrers() != nil {
						var stored []ssa.Value
						for _, ref := range *cell.Referrers() {
							if st, isSt := ref.(*ssa.Store); isSt && st.Addr == ssa.Value(cell) {
								stored = append(stored, st.Val)
							}
						}
						if len(stored) == 1 {
							val = stored[0]
						}
					}
				}
				if prm, isP := val.(*ssa.Parameter); isP && prm.Parent() == root && prm.Name() == "collectionNum" {
					good = true
				}
				r.Check(good, cons, u.Pos(call.Pos()), table+".CollectionNum == collectionNum", fmt.Sprintf("the purge filters %v; expected the collection-number field of the documents stored in %q with the collectionNum parameter (a wrong field or value deletes another collection's documents, or nothing)", shown, collName))
			})
		}
		scan(root, map[ssa.Value]ssa.Value{}, 0)
	}
	if n < 2 { // three purge sites may legitimately become one loop over a table, which this rule does not read
		r.Lost(fmt.Sprintf("purges of shared collections (found %d)", n))
	}
	// the purge entry point passes the number of the named collection
	if fn := u.Fn(pMongo, "MongoCollections", "PurgeAllDocumentsOfCollection"); fn != nil {
		ok := false
		for _, f2 := range withClosures(fn) {
			for _, c := range callsNamed(flatRoot(f2), "purgeAllDocumentsOfCollectionNum") {
				a := c.Common().Args
				ok = strings.HasSuffix(canonName(a[len(a)-1]), "#0.Num") && strings.Contains(canonName(a[len(a)-1]), "GetCollection(")
			}
		}
		r.Check(ok, "PurgeAllDocumentsOfCollection/number of the named collection", u.Pos(fn.Pos()), "GetCollection(name).Num", "the purge does not use the number of the collection document found by the given name")
	}
}

// R17.6 filters are fresh values
func ruleR17_6(w *World, r *Report) {
	u := w.Server()
	r.Rule("R17.6", "the filter builder starts from a fresh empty filter (no package-level backing array shared between queries)", 1)
	fn := u.Fn(pSchema, "", "GetFilter")
	if fn == nil {
		r.Lost("schema.GetFilter")
		return
	}
	good := true
	forEachInstr(fn, func(in ssa.Instruction) {
		if ret, ok := in.(*ssa.Return); ok && len(ret.Results) == 1 {
			o := origins(ret.Results[0])
			if o.hasPrefix("global:") {
				good = false
			}
		}
	})
	r.Check(good, "schema.GetFilter/fresh", u.Pos(fn.Pos()), "returns a new empty filter", "GetFilter returns a value backed by a package-level variable: filters built concurrently (or one after another with spare capacity) overwrite each other's clauses, so a query or purge of one collection can select another collection's documents")
}
