// ordalint decides structural necessary conditions of the orda properties C01..C20 from the
// type-checked source of /repo. It never executes orda code.
package main

import (
	"encoding/json"
	"flag"
	"fmt"
	"os"
	"path/filepath"
	"reflect"
	"sort"
	"strconv"
	"strings"
	"time"
)

// ruleFn binds a rule to /repo and records its obligations.
type ruleFn func(w *World, r *Report)

type propertySpec struct {
	ID          string
	Explanation string   // what is decided and what is not
	Assumptions []string // trusted / assumed
	Rules       []ruleFn
	NeedsServer bool
}

var registry = map[string]*propertySpec{}

func register(p *propertySpec) { registry[p.ID] = p }

func main() {
	prop := flag.String("property", "", "property id (C01..C20)")
	tier := flag.String("tier", "quick", "quick|thorough")
	repo := flag.String("repo", "/repo", "repository root")
	evid := flag.String("evidence", "", "evidence file to write")
	knownPath := flag.String("known", "", "known findings file")
	replay := flag.String("replay", "", "violations file to replay: re-runs the property named in it and prints the constructs")
	list := flag.Bool("list", false, "list properties and rules")
	dump := flag.String("dump", "", "development aid: universe:pkgsuffix:Recv:func")
	genBaseline := flag.String("gen-baseline", "", "development aid: write the baseline symbol table of the current tree to this file")
	gsweep := flag.String("global-sweep", "", "development aid: analyse every single-edit variant of every anchored function with the rules of all properties; write the table to this file")
	vFile := flag.String("variant-file", "", "internal: child process of the sensitivity sweep")
	vSrc := flag.String("variant-src", "", "internal")
	vBase := flag.String("variant-baseline", "", "internal")
	allProps := flag.String("all-props", "", "development aid (corpus sweeps): run the quick tier of every property in this one process, loading the tree once; evidence goes to this directory, one line 'PROP <id> exit=<code>' per property")
	flag.Parse()
	if *allProps != "" {
		runAllProps(*repo, *allProps, *knownPath)
		return
	}
	if *vFile != "" {
		variantChild(*repo, *prop, *vFile, *vSrc, *vBase)
		return
	}
	if *gsweep != "" {
		globalSweep(*repo, *gsweep)
		return
	}
	if *genBaseline != "" {
		writeBaseline(newWorld(*repo, false), *genBaseline)
		return
	}
	if *dump != "" {
		dumpFn(newWorld(*repo, false), *dump)
		return
	}

	if *list {
		var ids []string
		for id := range registry {
			ids = append(ids, id)
		}
		sort.Strings(ids)
		for _, id := range ids {
			fmt.Println(id)
		}
		return
	}
	if *replay != "" {
		b, err := os.ReadFile(*replay)
		if err != nil {
			machineryFailure("replay: %v", err)
		}
		var v struct {
			Property   string       `json:"property"`
			Tier       string       `json:"tier"`
			Violations []Obligation `json:"violations"`
		}
		if err := json.Unmarshal(b, &v); err != nil {
			machineryFailure("replay: %v", err)
		}
		fmt.Printf("replaying %d recorded violations of %s against the current tree of %s\n", len(v.Violations), v.Property, *repo)
		for _, o := range v.Violations {
			fmt.Printf("  recorded: rule=%s construct=%q at %s: %s\n", o.Rule, o.Construct, o.Pos, o.Detail)
		}
		*prop, *tier = v.Property, v.Tier
	}
	spec := registry[*prop]
	if spec == nil {
		machineryFailure("unknown property %q", *prop)
	}
	if *tier != "quick" && *tier != "thorough" {
		machineryFailure("unknown tier %q", *tier)
	}
	self, _ := os.Executable()
	base := filepath.Dir(filepath.Dir(self))
	if *evid == "" {
		*evid = filepath.Join(base, "evidence", *prop+".json")
	}
	if *knownPath == "" {
		*knownPath = filepath.Join(base, "known_findings.json")
	}
	seed := 0
	if s := os.Getenv("VERIF_SEED"); s != "" {
		seed, _ = strconv.Atoi(s)
	}
	start := time.Now()
	defer func() {
		if e := recover(); e != nil {
			// a panic inside the analyser is a broken machine, not a verdict
			fmt.Fprintf(os.Stderr, "ordalint: panic: %v\n", e)
			panic(e)
		}
	}()
	w := newWorld(*repo, *tier == "thorough")
	if spec.NeedsServer {
		w.Server()
	}
	r := newReport(spec.ID)
	ran := map[uintptr]bool{}
	for _, rule := range spec.Rules {
		// a rule that several cross-listings name runs once
		if p := reflect.ValueOf(rule).Pointer(); ran[p] {
			continue
		} else {
			ran[p] = true
		}
		resetFlatRoots()
		rule(w, r)
	}
	controls := runControls()
	kf := loadKnown(*knownPath)
	if *tier == "thorough" {
		max := 150
		if s := os.Getenv("VERIF_SWEEP_MAX"); s != "" {
			max, _ = strconv.Atoi(s)
		}
		r.Sweep = sensitivitySweep(w, spec, r, kf, seed, max)
	}
	expl := spec.Explanation
	if !strings.Contains(expl, "static") {
		expl = "static analysis (no orda code is executed): " + expl
	}
	code := r.finish(w, kf, *tier, seed, *evid, start, expl, spec.Assumptions, controls)
	os.Exit(code)
}

// runAllProps is a development aid for the sweeps over the corpora of refactorings and mutants: the verdict of every
// property on one tree, computed by one process (each universe is loaded and built once; every property gets a World
// of its own, so that its rules see the universes exactly as in a process of their own). It is no manifest command; the
// registered checks run one property per process.
func runAllProps(repo, dir, knownPath string) {
	if knownPath == "" {
		self, _ := os.Executable()
		knownPath = filepath.Join(filepath.Dir(filepath.Dir(self)), "known_findings.json")
	}
	_ = os.MkdirAll(dir, 0o755)
	shared := map[string]*Universe{}
	controls := runControls()
	kf := loadKnown(knownPath)
	var ids []string
	for id := range registry {
		ids = append(ids, id)
	}
	sort.Strings(ids)
	only := os.Getenv("VERIF_ONLY")
	for _, id := range ids {
		if only != "" && !strings.Contains(only, id) {
			continue
		}
		spec := registry[id]
		start := time.Now()
		// a World of its own per property, as in the one-property-per-process mode: which universe a rule sees
		// (World.Client) depends on what this property has loaded so far, not on what other properties loaded
		w := newWorld(repo, false)
		w.shared = shared
		if spec.NeedsServer {
			w.Server()
		}
		r := newReport(spec.ID)
		ran := map[uintptr]bool{}
		for _, rule := range spec.Rules {
			if p := reflect.ValueOf(rule).Pointer(); ran[p] {
				continue
			} else {
				ran[p] = true
			}
			resetFlatRoots()
			rule(w, r)
		}
		code := r.finish(w, kf, "quick", 0, filepath.Join(dir, "ev_"+id+".json"), start, "static analysis (sweep mode)", spec.Assumptions, controls)
		fmt.Printf("PROP %s exit=%d\n", id, code)
	}
}
