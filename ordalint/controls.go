package main

// runControls evaluates the always-run control fixtures of the shared primitives (see
// controls_*.go). They prove on every run that the primitives the rules are built from still
// fire on a violating shape and stay silent on the accepted idioms.
func runControls() []controlResult {
	var out []controlResult
	for _, c := range controlTable {
		ok, detail := c.run()
		out = append(out, controlResult{Name: c.name, OK: ok, Detail: detail})
	}
	return out
}

type control struct {
	name string
	run  func() (bool, string)
}

var controlTable []control
