package main

import (
	"fmt"
	"go/ast"
	"go/importer"
	"go/parser"
	"go/token"
	"go/types"
	"strings"

	"golang.org/x/tools/go/ssa"
	"golang.org/x/tools/go/ssa/ssautil"
)

// runControls evaluates the always-run control fixtures of the shared primitives. They prove on
// every run that the primitives the rules are built from still fire on a violating shape and stay
// silent on the accepted idioms. A misbehaving control is a broken analyser (exit 2).
func runControls() []controlResult {
	var out []controlResult
	add := func(name string, ok bool, detail string) {
		out = append(out, controlResult{Name: name, OK: ok, Detail: detail})
	}
	u64, i32, str := types.Typ[types.Uint64], types.Typ[types.Int32], types.Typ[types.String]
	inj := func(f string, ts ...types.Type) bool { ok, _ := formatInjective(f, ts); return ok }
	add("A8 refuses %d%d%d%s", !inj("%d%d%d%s", types.Typ[types.Uint32], u64, types.Typ[types.Uint32], str), "adjacent variable-width fields")
	add("A8 accepts %d:%d:%d:%s", inj("%d:%d:%d:%s", types.Typ[types.Uint32], u64, types.Typ[types.Uint32], str), "separated, free text last")
	add("A8 accepts %s:%d right to left", inj("%s:%d", str, u64), "digits field bounded by ':' from the right")
	add("A8 accepts PP:%d:%s", inj("PP:%d:%s", i32, str), "left to right")
	add("A8 refuses %s:%d:%s", !inj("%s:%d:%s", str, i32, str), "free text on both ends")
	add("A8 accepts PD:%d:%s (constant prefix substituted)", inj("PD:%d:%s", i32, str), "left to right")
	add("operator negation", negOp(token.LSS) == token.GEQ && negOp(token.EQL) == token.NEQ && swapOp(token.LEQ) == token.GEQ, "!(a<b) is a>=b; a<=b is b>=a")

	// source normalisation: a table of method values walked by a range loop is unrolled; a loop that can be left
	// early, or whose table is used elsewhere, is not touched
	tableSrc := func(body, after string) []byte {
		return []byte("package p\n\ntype T struct{ err error }\n\nfunc (t *T) a() error { return nil }\nfunc (t *T) b() error { return nil }\n\nfunc (t *T) run() {\n\tsteps := [...]func() error{t.a, t.b}\n\tfor _, step := range steps {\n" + body + "\t}\n" + after + "}\n")
	}
	un1, _ := unrollTables("/x/p.go", tableSrc("\t\tif t.err = step(); t.err != nil {\n\t\t\treturn\n\t\t}\n", ""))
	add("N1 table loop unrolled in order", un1 != nil && strings.Contains(string(un1), "t.err = t.a()") && strings.Contains(string(un1), "t.err = t.b()") &&
		strings.Index(string(un1), "t.a()") < strings.Index(string(un1), "t.b()") && !strings.Contains(string(un1), "range steps") && strings.Contains(string(un1), "//line /x/p.go:15"),
		"body once per element, loop and table gone, positions resynchronised")
	un2, _ := unrollTables("/x/p.go", tableSrc("\t\tif t.err = step(); t.err != nil {\n\t\t\tbreak\n\t\t}\n", ""))
	un3, _ := unrollTables("/x/p.go", tableSrc("\t\tt.err = step()\n", "\t_ = len(steps)\n"))
	add("N1 refuses a loop with break, and a table that is used elsewhere", un2 == nil && un3 == nil, "left as written")

	fns, err := buildFixture()
	if err != nil {
		add("fixture builds", false, err.Error())
		return out
	}
	retCmp := func(name string) string {
		fn := fns[name]
		if fn == nil {
			return "missing " + name
		}
		s := ""
		forEachInstr(fn, func(in ssa.Instruction) {
			if ret, ok := in.(*ssa.Return); ok && len(ret.Results) == 1 {
				if bo, ok := ret.Results[0].(*ssa.BinOp); ok {
					if lc, ok := canonLinCmp(normLit(condEdge{bo, true})); ok {
						s = lc.String()
					}
				}
			}
		})
		return s
	}
	a, b, c := retCmp("eq1"), retCmp("eq2"), retCmp("eq3")
	add("A4 linear forms: a+1==b, b-1==a, b==a+1 are one form", a != "" && a == b && b == c, a+" | "+b+" | "+c)
	lt, le := retCmp("lt"), retCmp("le")
	add("A4 linear forms: a<b differs from a<=b", lt != "" && le != "" && lt != le, lt+" | "+le)
	gt := retCmp("gt")
	add("A4 linear forms: b>a is a<b", gt == lt, gt+" | "+lt)

	// guarded store: every path to a map update carries 'absent' or the comparison
	guardOK := func(name string) (bool, string) {
		fn := fns[name]
		if fn == nil {
			return false, "missing"
		}
		all := true
		n := 0
		forEachInstr(fn, func(in ssa.Instruction) {
			mu, ok := in.(*ssa.MapUpdate)
			if !ok {
				return
			}
			n++
			paths, _ := reachingLits(fn, nil, mu)
			for _, p := range paths {
				good := false
				for _, l := range p {
					if l.Kind == "ok" && !l.Pol {
						good = true
					}
					if lc, ok := canonLinCmp(l); ok && lc.Op == token.LSS && lc.L.K == 0 && len(lc.L.Terms) == 2 && lc.L.Terms["$2.a"] == -1 {
						good = true // existing.a - incoming.a < 0
					}
				}
				all = all && good
			}
		})
		return all && n > 0, fmt.Sprintf("%d stores", n)
	}
	g1, d1 := guardOK("guardGood")
	add("A4 reaching conditions: early-return idiom accepted", g1, d1)
	g2, d2 := guardOK("guardSwitch")
	add("A4 reaching conditions: switch-form accepted", g2, d2)
	g3, d3 := guardOK("guardBad")
	add("A4 reaching conditions: reversed comparison refused", !g3, d3)
	g4, d4 := guardOK("guardMissing")
	add("A4 reaching conditions: unguarded path refused", !g4, d4)

	// must-reach with defer
	mr := func(name string) bool {
		fn := fns[name]
		if fn == nil {
			return false
		}
		var first ssa.Instruction
		for _, c := range callsNamed(fn, "lock") {
			first = c.(ssa.Instruction)
		}
		if first == nil {
			return false
		}
		ok, _ := mustReach(first, func(in ssa.Instruction) bool {
			c, isC := in.(ssa.CallInstruction)
			return isC && calleeName(c) == "unlock"
		}, false)
		return ok
	}
	add("A3 must-reach: defer unlock counts on every exit", mr("pairDefer"), "")
	add("A3 must-reach: explicit unlock on each exit accepted", mr("pairExplicit"), "")
	add("A3 must-reach: early return without unlock refused", !mr("pairLeak"), "")
	return out
}

const fixtureSrc = `package fix

type T struct{ a, b uint64 }

func (t *T) lock()   {}
func (t *T) unlock() {}

func eq1(t *T) bool { return t.a+1 == t.b }
func eq2(t *T) bool { return t.b-1 == t.a }
func eq3(t *T) bool { return t.b == t.a+1 }
func lt(t *T) bool  { return t.a < t.b }
func le(t *T) bool  { return t.a <= t.b }
func gt(t *T) bool  { return t.b > t.a }

func guardGood(m map[string]*T, k string, n *T) {
	old, ok := m[k]
	if !ok {
		m[k] = n
		return
	}
	if old.a < n.a {
		m[k] = n
	}
}

func guardSwitch(m map[string]*T, k string, n *T) {
	old, ok := m[k]
	switch {
	case !ok:
		m[k] = n
	case n.a > old.a:
		m[k] = n
	}
}

func guardBad(m map[string]*T, k string, n *T) {
	old, ok := m[k]
	if !ok || old.a > n.a {
		m[k] = n
	}
}

func guardMissing(m map[string]*T, k string, n *T) {
	old, ok := m[k]
	if ok && old.b == 0 {
		return
	}
	m[k] = n
}

func pairDefer(t *T, x int) int {
	t.lock()
	defer t.unlock()
	if x > 0 {
		return 1
	}
	return 0
}

func pairExplicit(t *T, x int) int {
	t.lock()
	if x > 0 {
		t.unlock()
		return 1
	}
	t.unlock()
	return 0
}

func pairLeak(t *T, x int) int {
	t.lock()
	if x > 0 {
		return 1
	}
	t.unlock()
	return 0
}
`

func buildFixture() (map[string]*ssa.Function, error) {
	fset := token.NewFileSet()
	f, err := parser.ParseFile(fset, "fix.go", fixtureSrc, 0)
	if err != nil {
		return nil, err
	}
	pkg := types.NewPackage("fix", "fix")
	spkg, _, err := ssautil.BuildPackage(&types.Config{Importer: importer.Default()}, fset, pkg, []*ast.File{f}, ssa.InstantiateGenerics)
	if err != nil {
		return nil, err
	}
	out := map[string]*ssa.Function{}
	for name, m := range spkg.Members {
		if fn, ok := m.(*ssa.Function); ok {
			out[name] = fn
		}
	}
	return out, nil
}
