package main

import (
	"fmt"
	"go/token"
	"go/types"
	"os"
	"regexp"
	"sort"
	"strings"

	"golang.org/x/tools/go/ssa"
)

var pushAbs = rewriter(`\$0\.gotPushPullPack\.Operations\[[^\]]*\]\.ID\.Seq`, "OP.Seq", `\$0\.currentCP\.Cseq`, "CP.Cseq", `\$0\.currentCP\.Sseq`, "CP.Sseq")

const litAccept = "+CP.Cseq-OP.Seq+1 == 0"
const litNotAccept = "+CP.Cseq-OP.Seq+1 != 0"
const litDuplicate = "-CP.Cseq+OP.Seq <= 0"
const litNotDuplicate = "+CP.Cseq-OP.Seq < 0"

// R06.1 accept / ignore / fail partition of pushOperations
func ruleR06_1(w *World, r *Report, onlyIgnore bool) {
	u := w.Server()
	id := "R06.1"
	text := "pushOperations accepts an operation iff its client sequence is checkpoint.Cseq+1 (assigning the next server sequence exactly once, building the document with it and the handler's DUID, appending it, then advancing Cseq), ignores it iff its sequence is <= Cseq, and otherwise fails with PushPullMissingOps"
	if onlyIgnore {
		id = "R07.1"
		text = "a re-pushed operation (client sequence <= checkpoint.Cseq) is ignored without failing the request and without being stored again"
	}
	floor := 3
	if onlyIgnore {
		floor = 2
	}
	r.Rule(id, text, floor)
	fn := u.Fn(pService, "PushPullHandler", "pushOperations")
	if fn == nil {
		r.Lost("PushPullHandler.pushOperations")
		return
	}
	owner := "PushPullHandler.pushOperations"
	d := deepOf(fn)

	// the error arm: return of PushPullMissingOps
	nErr := 0
	d.each(func(x dins) {
		ret, ok := x.in.(*ssa.Return)
		if !ok || len(ret.Results) != 1 || x.n != d.root {
			return
		}
		for _, v := range resolvePhis(ret.Results[0]) {
			c, ok := v.(*ssa.Call)
			if !ok || calleeName(c) != "New" {
				continue
			}
			code, _ := constInt(c.Call.Args[0])
			nErr++
			paths, okp := d.paths(dins{x.n, c}, pushAbs)
			good := okp && allLitPathsHaveLin(paths, litNotAccept, litNotDuplicate)
			isMissing := errorCodeName(u, code) == "PushPullMissingOps"
			r.Check(good && isMissing, owner+"/fail arm", u.Pos(ret.Pos()), "fails only for seq > Cseq+1 with PushPullMissingOps",
				fmt.Sprintf("the failing arm is reached under %v with code %s; expected exactly 'seq != Cseq+1 and seq > Cseq' with PushPullMissingOps (a duplicate must be ignored, not refused)", linsOf(paths), errorCodeName(u, code)))
		}
	})
	if nErr == 0 {
		r.Bad(owner+"/fail arm", u.Pos(fn.Pos()), "no arm returns PushPullMissingOps: a gap in the client's sequence would be accepted silently")
	}
	apps := d.stores("$0.pushingOperations")
	if onlyIgnore {
		for _, st := range apps {
			paths, okp := d.paths(st, pushAbs)
			r.Check(okp && allLitPathsHaveLin(paths, litAccept), owner+"/append only on accept", d.pos(u, st), "append under seq == Cseq+1", fmt.Sprintf("an operation is appended for storage under %v", linsOf(paths)))
		}
		return
	}

	// the accept arm
	var incs, starts []dins
	for _, st := range d.stores("$0.currentCP.Sseq") {
		if d.inLoop(st) {
			incs = append(incs, st)
		} else {
			starts = append(starts, st)
		}
	}
	if len(incs) != 1 {
		r.Bad(owner+"/accept arm: Sseq++", u.Pos(fn.Pos()), fmt.Sprintf("%d stores to the server sequence inside the loop; expected exactly one increment", len(incs)))
		return
	}
	inc := incs[0]
	paths, okp := d.paths(inc, pushAbs)
	val := abstractLin(d.linear(inc.n, inc.in.(*ssa.Store).Val), pushAbs).String()
	r.Check(okp && allLitPathsHaveLin(paths, litAccept) && val == "+CP.Sseq+1", owner+"/accept arm: Sseq++", d.pos(u, inc), "Sseq = Sseq+1 under seq == Cseq+1",
		fmt.Sprintf("the server sequence becomes %s under %v; expected Sseq+1 under seq == Cseq+1 (consecutive numbers, no holes after skipped duplicates)", val, linsOf(paths)))
	for _, st := range starts {
		got := d.name(st.n, st.in.(*ssa.Store).Val)
		r.Check(strings.HasSuffix(got, ".Sseq.End"), owner+"/start from end of log", d.pos(u, st), got, "numbering starts from "+got+", expected the recorded end of the log")
	}
	docs := d.calls("NewOperationDoc")
	if len(docs) != 1 {
		r.Bad(owner+"/accept arm: document", u.Pos(fn.Pos()), fmt.Sprintf("%d calls of NewOperationDoc, expected one", len(docs)))
		return
	}
	doc := docs[0]
	args := doc.in.(ssa.CallInstruction).Common().Args
	a2 := abstractLin(d.linear(doc.n, args[2]), pushAbs).String()
	afterInc := false
	if load, ok := args[2].(ssa.Instruction); ok {
		afterInc = d.dominates(inc, dins{doc.n, load})
	}
	good := len(args) == 4 && d.name(doc.n, args[1]) == "$0.DUID" && a2 == "+CP.Sseq" && afterInc && d.name(doc.n, args[3]) == "$0.collectionDoc.Num" &&
		strings.HasPrefix(d.name(doc.n, args[0]), "$0.gotPushPullPack.Operations[")
	r.Check(good, owner+"/accept arm: document", d.pos(u, doc), "NewOperationDoc(op, DUID, incremented Sseq, collection number)",
		fmt.Sprintf("the stored document is built from (%s, %s, %s [after increment: %v], %s)", d.name(doc.n, args[0]), d.name(doc.n, args[1]), a2, afterInc, d.name(doc.n, args[3])))
	okApp := len(apps) == 1 && d.dominates(doc, apps[0]) && origins(apps[0].in.(*ssa.Store).Val)["call:schema.NewOperationDoc"]
	r.Check(okApp, owner+"/accept arm: append", d.pos(u, doc), "the document is appended once", "the built document is not appended exactly once to pushingOperations")
	syncs := d.calls("SyncCseq")
	okSync := len(syncs) == 1 && d.dominates(doc, syncs[0])
	if okSync {
		sa := syncs[0].in.(ssa.CallInstruction).Common().Args
		okSync = abstractLin(d.linear(syncs[0].n, sa[1]), pushAbs).String() == "+OP.Seq" && d.name(syncs[0].n, sa[0]) == "$0.currentCP"
	}
	r.Check(okSync, owner+"/accept arm: Cseq advance", d.pos(u, doc), "SyncCseq(op.Seq) after the append", "the checkpoint's client sequence is not advanced to the accepted operation's sequence after it is appended")
}

func linsOf(ps []litPath) [][]string {
	var out [][]string
	for _, p := range ps {
		out = append(out, p.lins)
	}
	return out
}

func strsOf(ps []litPath) [][]string {
	var out [][]string
	for _, p := range ps {
		out = append(out, p.strs)
	}
	return out
}

func errorCodeName(u *Universe, code int64) string {
	p := u.Pkgs[pErrors]
	if p == nil {
		return ""
	}
	sc := p.Types.Scope()
	for _, n := range sc.Names() {
		if c, ok := sc.Lookup(n).(*types.Const); ok {
			if nn, ok := c.Type().(*types.Named); ok && nn.Obj().Name() == "ErrorCode" {
				if c.Val().ExactString() == fmt.Sprint(code) && !strings.HasPrefix(n, "base") {
					return n
				}
			}
		}
	}
	return ""
}

// R06.2 document key
func ruleR06_2(w *World, r *Report) {
	u := w.Server()
	r.Rule("R06.2", "the _id of a stored operation (and of a stored snapshot) is an injective format over (datatype id, server sequence) and the field carries the bson _id tag, so the database's unique _id index forbids repeats", 4)
	check := func(fn *ssa.Function, owner string) {
		if fn == nil {
			r.Lost(owner)
			return
		}
		found := false
		for _, s := range sprintfSites(fn) {
			if len(s.Opnds) != 2 {
				continue
			}
			found = true
			inj, why := formatInjective(s.Format, s.Types)
			names := canonName(s.Opnds[0]) + "," + canonName(s.Opnds[1])
			okOps := strings.Contains(strings.ToLower(names), "$") && isIntegral(s.Types[1])
			r.Check(inj && okOps, owner+"/_id format", u.Pos(s.Call.Pos()), fmt.Sprintf("%q over (%s): %s", s.Format, names, why), fmt.Sprintf("key format %q over (%s): %s", s.Format, names, why))
		}
		if !found {
			r.Lost(owner + ": key format")
		}
	}
	check(u.Fn(pSchema, "", "NewOperationDoc"), "schema.NewOperationDoc")
	check(u.Fn(pMongo, "MongoCollections", "InsertSnapshot"), "MongoCollections.InsertSnapshot")
	for _, tn := range []string{"OperationDoc", "SnapshotDoc"} {
		n := u.Named(pSchema, tn)
		if n == nil {
			r.Lost("schema." + tn)
			continue
		}
		st := n.Underlying().(*types.Struct)
		good := false
		for _, k := range structKeys(st, "bson") {
			if k.Name == "ID" && k.Key == "_id" {
				good = true
			}
		}
		r.Check(good, "schema."+tn+"/ID tag", u.Pos(n.Obj().Pos()), `ID has bson:"_id"`, "the ID field is not stored as _id: uniqueness is no longer enforced by the database")
	}
	// the operation key must use the same sequence that is stored in the Sseq field
	if fn := u.Fn(pSchema, "", "NewOperationDoc"); fn != nil {
		for _, f := range []struct{ field, want string }{{"Sseq", "$2"}, {"DUID", "$1"}, {"CollectionNum", "$3"}} {
			sts := storesTo(fn, "complit."+f.field)
			if len(sts) == 0 {
				r.Lost("NewOperationDoc: field " + f.field)
				continue
			}
			got := canonName(sts[0].Val)
			r.Check(got == f.want, "schema.NewOperationDoc/"+f.field, u.Pos(sts[0].Pos()), got, "OperationDoc."+f.field+" is set from "+got)
		}
	}
}

// R06.3 commit order
func ruleR06_3(w *World, r *Report) {
	u := w.Server()
	r.Rule("R06.3", "the push commit records the new end of the log in the datatype document before updating it, inserts the operations before updating the datatype document, and never updates the document after a failed insert", 3)
	proc := u.Fn(pService, "PushPullHandler", "process")
	if proc == nil {
		r.Lost("PushPullHandler.process")
		return
	}
	d := deepOf(proc)
	owner := "push commit"
	var ins, upd dins
	for _, x := range d.calls("InsertOperations") {
		if _, ok := x.in.(*ssa.Call); ok {
			ins = x
		}
	}
	for _, x := range d.calls("UpdateDatatype") {
		if _, ok := x.in.(*ssa.Call); ok {
			upd = x
		}
	}
	if os.Getenv("VERIF_DEBUG_R063") != "" {
		for _, n := range d.nodes {
			fmt.Fprintf(os.Stderr, "R06.3 node %s depth %d\n", fnName(n.fn), n.depth)
		}
	}
	if ins.in == nil || upd.in == nil {
		r.Lost(owner + ": InsertOperations and UpdateDatatype")
		return
	}
	okEnd := false
	endDetail := ""
	for _, e := range d.stores(".Sseq.End") {
		if !strings.HasPrefix(d.name(e.n, e.in.(*ssa.Store).Addr), "$0.datatypeDoc.") {
			continue
		}
		if d.name(e.n, e.in.(*ssa.Store).Val) != "$0.currentCP.Sseq" {
			okEnd = false
			break
		}
		if d.dominates(e, upd) {
			okEnd = true
			continue
		}
		// the end of the log is left alone by a read-only request (which never derived currentCP.Sseq from it, F27):
		// the store runs before the update on every path except those of a read-only handler
		if d.reachable(upd, e) || !d.reachable(e, upd) {
			okEnd = false
			break
		}
		// both live in the commit function: their conditions relative to its entry are compared
		// the store may live in another (new) function than the update: it must run whenever its own function runs,
		// except for a read-only handler, and the call that leads to it must come before the update on every path
		anc := d.lca(e.n, upd.n)
		pe, ok1 := d.localPaths(e.n, e.in, nil)
		var pu []litPath
		ok2 := true
		guarded := ok1 && len(pe) > 0
		for _, p := range pe {
			for _, l := range p.strs {
				if l != "!$0.isReadOnly" {
					guarded = false
				}
			}
		}
		site := e
		for site.n != anc && site.n.parent != nil {
			site = dins{site.n.parent, site.n.site.(ssa.Instruction)}
		}
		if site.n == anc && site != e {
			guarded = guarded && d.dominates(site, upd)
		} else if site == e {
			// same function as the common ancestor: compare with the conditions of the update there
			pu, ok2 = d.pathsFrom(anc, upd, nil)
			common := map[string]int{}
			for _, p := range pu {
				seen := map[string]bool{}
				for _, l := range p.strs {
					if !seen[l] {
						seen[l] = true
						common[l]++
					}
				}
			}
			pe2, ok3 := d.pathsFrom(anc, e, nil)
			guarded = ok2 && ok3 && len(pe2) > 0
			for _, p := range pe2 {
				for _, l := range p.strs {
					if common[l] == len(pu) {
						continue
					}
					if l != "!$0.isReadOnly" {
						guarded = false
					}
				}
			}
			pe = pe2
		}
		okEnd = guarded
		if !guarded {
			endDetail = fmt.Sprintf(" [paths to the store: %v; to the update: %v]", strsOf(pe), strsOf(pu))
			break
		}
	}
	// the end of the log is written back only by a handler that derived its server sequence from it: every handler
	// flag under which "currentCP.Sseq = Sseq.End" is skipped (today: read-only) must also guard the write-back (F27)
	flagRe := regexp.MustCompile(`^!?\$0\.[A-Za-z]+$`)
	var flags []string
	for _, st := range d.stores("$0.currentCP.Sseq") {
		if !strings.HasSuffix(d.name(st.n, st.in.(*ssa.Store).Val), ".Sseq.End") {
			continue
		}
		lp, okl := d.localPaths(st.n, st.in, nil)
		if !okl || len(lp) == 0 {
			continue
		}
		cnt := map[string]int{}
		for _, p := range lp {
			seen := map[string]bool{}
			for _, l := range p.strs {
				if flagRe.MatchString(l) && !seen[l] {
					seen[l] = true
					cnt[l]++
				}
			}
		}
		for l, c := range cnt {
			if c == len(lp) {
				flags = append(flags, l)
			}
		}
	}
	sort.Strings(flags)
	for _, e := range d.stores(".Sseq.End") {
		if !strings.HasPrefix(d.name(e.n, e.in.(*ssa.Store).Addr), "$0.datatypeDoc.") {
			continue
		}
		lp, okl := d.localPaths(e.n, e.in, nil)
		tied := okl && len(lp) > 0
		for _, p := range lp {
			for _, f := range flags {
				if !has(p.strs, f) {
					tied = false
				}
			}
		}
		r.Check(tied, owner+"/end of log written back only by a handler that read it", d.pos(u, e), fmt.Sprintf("guarded by %v like the initialisation of the server sequence", flags),
			fmt.Sprintf("the handler's server sequence is taken from the recorded end of the log only under %v, but the end of the log is written back without that guard: a request that skipped the initialisation (a read-only one) sets the end of the log back to its own stale checkpoint, and the next writer is handed sequence numbers that already exist (F27)", flags))
	}
	r.Check(okEnd, owner+"/end of log", d.pos(u, upd), "Sseq.End = currentCP.Sseq before UpdateDatatype (skipped only for a read-only request)", "the recorded end of the log is not set from the handler's current server sequence before the datatype document is updated (or the store depends on something other than 'not read-only')"+endDetail)
	r.Check(!d.reachable(upd, ins), owner+"/insert before update", d.pos(u, ins), "operations are inserted first", "the datatype document (checkpoint, end of log) is updated before the operations are stored: a crash in between acknowledges operations that are not in the log")
	// at the function that contains both writes (directly or through helpers): the update is
	// reached after the insert only on the insert's error-free edge
	var common *dnode
	for x := ins.n; x != nil && common == nil; x = x.parent {
		for y := upd.n; y != nil; y = y.parent {
			if x == y {
				common = x
				break
			}
		}
	}
	good := false
	if common != nil {
		pa, pb := lift(ins, common), lift(upd, common)
		if pac, isCall := pa.(*ssa.Call); isCall && pb != nil && pa != pb {
			paths, okp := pathsWithBlocks(common.fn, nil, pb.Block())
			good = okp
			ev := errResult(pac)
			for _, p := range paths {
				if !p.Blocks[pa.Block()] {
					continue
				}
				nilErr := false
				for _, l := range p.Lits {
					if isNilCheckOf(l, ev, true) {
						nilErr = true
					}
				}
				good = good && nilErr
			}
		}
	}
	r.Check(good, owner+"/no update after failed insert", d.pos(u, upd), "UpdateDatatype only after a successful insert", "UpdateDatatype is reachable after InsertOperations failed")
	// the inserted operations are the accepted ones
	ia := ins.in.(*ssa.Call).Call.Args
	got := d.name(ins.n, ia[len(ia)-1])
	r.Check(got == "$0.pushingOperations", owner+"/inserted operations", d.pos(u, ins), "pushingOperations", "the inserted documents are "+got)
}

// R06.4 no storage error dropped
func ruleR06_4(w *World, r *Report) {
	u := w.Server()
	r.Rule("R06.4", "every call from the service and snapshot packages into the repository, and every mongo-driver call in the repository, has its error result compared with nil, and the non-nil edge returns a non-nil error", 30)
	isDriver := func(p string) bool { return strings.HasPrefix(p, "go.mongodb.org/mongo-driver") }
	for _, fn := range u.ordaFuncs(func(p string) bool { return p == pService || p == pSnapshot || p == pMongo }) {
		inRepo := fn.Pkg != nil && fn.Pkg.Pkg.Path() == pMongo || (fn.Parent() != nil && fn.Parent().Pkg.Pkg.Path() == pMongo)
		for _, ci := range callsIn(fn) {
			o := calleeObj(ci)
			if o == nil || o.Pkg() == nil {
				continue
			}
			target := (inRepo && isDriver(o.Pkg().Path())) || o.Pkg().Path() == pMongo
			if !target {
				continue
			}
			sig := o.Type().(*types.Signature)
			if sig.Results().Len() == 0 || !isErrorLike(sig.Results().At(sig.Results().Len()-1).Type()) {
				continue
			}
			cons := fnName(fn) + "/error of " + objName(o)
			// enumerated exception: closing a cursor on the way out is clean-up; what the iteration itself
			// produced is judged by the Err() clause below
			if objName(o) == "Cursor.Close" {
				r.OK(cons, u.Pos(ci.Pos()), "cursor clean-up (the iteration's own error is checked through Err())")
				continue
			}
			call, isCall := ci.(*ssa.Call)
			if !isCall {
				r.Bad(cons, u.Pos(ci.Pos()), "a storage call is deferred or started as a goroutine: its error is lost")
				continue
			}
			ev := errResult(call)
			if ev == nil || len(realRefs(ev)) == 0 {
				r.Bad(cons, u.Pos(call.Pos()), "the error result is discarded")
				continue
			}
			// find the nil comparison and check the non-nil edge
			verdict, detail := errorEdgeReturns(fn, ev)
			if !verdict && isReturnedDirectly(ev) {
				verdict, detail = true, "returned to the caller"
			}
			r.Check(verdict, cons, u.Pos(call.Pos()), detail, detail)
		}
	}
	// a cursor that is iterated has its Err() consulted afterwards: Next() returns false both at the end and on a
	// failed getMore, and only Err() tells the two apart (a failed iteration must not pass for a short result)
	for _, fn := range u.ordaFuncs(func(p string) bool { return p == pMongo }) {
		var next, errc ssa.CallInstruction
		for _, ci := range callsIn(fn) {
			o := calleeObj(ci)
			if o == nil {
				continue
			}
			switch objName(o) {
			case "Cursor.Next":
				next = ci
			case "Cursor.Err":
				errc = ci
			}
		}
		if next == nil {
			continue
		}
		cons := fnName(fn) + "/iteration error consulted"
		if errc == nil {
			r.Bad(cons, u.Pos(next.Pos()), "the cursor is iterated with Next() but Err() is never consulted: a getMore that fails ends the loop like the end of the data, and the caller gets a truncated result without an error")
			continue
		}
		call, _ := errc.(*ssa.Call)
		checked := false
		if call != nil {
			forEachInstr(fn, func(in ssa.Instruction) {
				ret, ok := in.(*ssa.Return)
				if !ok || !returnsNonNilLast(ret) {
					return
				}
				paths, _ := reachingLits(fn, nil, ret)
				for _, p := range paths {
					for _, l := range p {
						if isNilCheckOf(l, ssa.Value(call), false) {
							checked = true
						}
					}
				}
			})
		}
		r.Check(checked && reachableFrom(next.(ssa.Instruction), errc.(ssa.Instruction)), cons, u.Pos(errc.Pos()), "Err() != nil returns an error after the loop", "the result of cursor.Err() does not lead to an error return after the iteration")
	}
}

// isReturnedDirectly: the error value is (only) handed to the caller by a return.
func isReturnedDirectly(ev ssa.Value) bool {
	for _, ref := range *ev.Referrers() {
		switch x := ref.(type) {
		case *ssa.Return:
			return true
		case *ssa.Phi:
			if x.Referrers() != nil {
				for _, r2 := range *x.Referrers() {
					if _, ok := r2.(*ssa.Return); ok {
						return true
					}
				}
			}
		case *ssa.Store:
			// stored into the named result or a handler field that the caller inspects
			return true
		case *ssa.ChangeInterface, *ssa.MakeInterface:
			if v, ok := ref.(ssa.Value); ok && v.Referrers() != nil {
				for _, r2 := range *v.Referrers() {
					if _, ok := r2.(*ssa.Return); ok {
						return true
					}
				}
			}
		}
	}
	return false
}

// errorEdgeReturns: some If compares ev with nil and every path from the non-nil edge returns a
// non-nil last result.
func errorEdgeReturns(fn *ssa.Function, ev ssa.Value) (bool, string) {
	// "return f(...)": the error is handed to the caller unchanged
	if refs := realRefs(ev); len(refs) > 0 {
		all := true
		for _, rf := range refs {
			ret, ok := rf.(*ssa.Return)
			if !ok || len(ret.Results) == 0 || ret.Results[len(ret.Results)-1] != ev {
				all = false
			}
		}
		if all {
			return true, "the error is returned to the caller unchanged"
		}
	}
	// SingleResult.Err() is a getter: any Err() call on the same receiver stands for the same error.
	same := func(v ssa.Value) bool {
		v = stripIface(loadSource(v))
		if v == ev {
			return true
		}
		a, okA := v.(*ssa.Call)
		b, okB := ev.(*ssa.Call)
		if okA && okB && calleeName(a) == "Err" && calleeName(b) == "Err" {
			ra, _ := recvAndArgs(a)
			rb, _ := recvAndArgs(b)
			return ra != nil && ra == rb
		}
		return false
	}
	isNil := func(l Lit, eq bool) bool {
		if l.Kind != "cmp" {
			return false
		}
		if (eq && l.Op != token.EQL) || (!eq && l.Op != token.NEQ) {
			return false
		}
		x, y := l.X, l.Y
		if c, ok := x.(*ssa.Const); ok && c.Value == nil {
			x, y = y, x
		}
		c, ok := y.(*ssa.Const)
		return ok && c.Value == nil && same(x)
	}
	// "err == mongo.ErrNoDocuments": the accepted not-found idiom returns (nil, nil) on its true edge
	notFoundEdge := func(b *ssa.BasicBlock) *ssa.BasicBlock {
		if len(b.Instrs) == 0 {
			return nil
		}
		ifi, ok := b.Instrs[len(b.Instrs)-1].(*ssa.If)
		if !ok {
			return nil
		}
		l := normLit(condEdge{ifi.Cond, true})
		if l.Kind != "cmp" || (l.Op != token.EQL && l.Op != token.NEQ) {
			return nil
		}
		x, y := l.X, l.Y
		if strings.HasSuffix(exprName(x), "ErrNoDocuments") {
			x, y = y, x
		}
		if !strings.HasSuffix(exprName(y), "ErrNoDocuments") || !same(x) {
			return nil
		}
		if l.Op == token.EQL {
			return b.Succs[0]
		}
		return b.Succs[1]
	}
	found := false
	for _, b := range fn.Blocks {
		if len(b.Instrs) == 0 {
			continue
		}
		ifi, ok := b.Instrs[len(b.Instrs)-1].(*ssa.If)
		if !ok {
			continue
		}
		l := normLit(condEdge{ifi.Cond, true})
		var succ *ssa.BasicBlock
		switch {
		case isNil(l, false):
			succ = b.Succs[0]
		case isNil(l, true):
			succ = b.Succs[1]
		default:
			continue
		}
		found = true
		ok2 := errEdgeWalk(succ, notFoundEdge)
		if !ok2 {
			return false, "the non-nil edge of the error does not return an error on every path (the failure is swallowed)"
		}
	}
	if !found {
		return false, "the error result is never compared with nil"
	}
	return true, "checked; the failing edge returns an error"
}

// R07.3 own operations are filtered by origin on one side
func ruleR07_3(w *World, r *Report) {
	us := w.Server()
	r.Rule("R07.3", "the requester's own operations, which the pull query returns again when an acknowledgement was lost, are filtered by origin on one side: either the pull query constrains the stored client id, or the client compares an operation's CUID with its own before applying it", 1)
	serverSide := false
	if fd, _ := us.DeclOf(pMongo, "MongoCollections", "GetOperations"); fd != nil {
		for k := range filterClauses(nil, fd.Body) {
			if strings.Contains(strings.ToLower(k), "cuid") {
				serverSide = true
			}
		}
	}
	clientSide := false
	u := w.Client()
	for _, spec := range [][2]string{{"WiredDatatype", "ApplyPushPullPack"}, {"WiredDatatype", "excludeDuplicatedOperations"}, {"WiredDatatype", "ReceiveRemoteModelOperations"},
		{"TransactionDatatype", "ExecuteRemoteTransactionWithCtx"}, {"TransactionDatatype", "SentenceInTx"}, {"BaseDatatype", "executeRemoteBase"}} {
		fn := u.Fn(pDatatypes, spec[0], spec[1])
		if fn == nil {
			continue
		}
		forEachInstr(fn, func(in ssa.Instruction) {
			if bo, ok := in.(*ssa.BinOp); ok && (bo.Op == token.EQL || bo.Op == token.NEQ) {
				x, y := canonName(bo.X), canonName(bo.Y)
				isCUID := func(n string) bool { return strings.HasSuffix(n, ".CUID") || strings.HasSuffix(n, ".GetCUID()") }
				// the origin of a received operation against the replica's own client id
				if isCUID(x) && isCUID(y) && (strings.Contains(x, "opID") != strings.Contains(y, "opID") || strings.Contains(x, "ctx.Client") != strings.Contains(y, "ctx.Client")) {
					clientSide = true
				}
			}
		})
	}
	r.Check(serverSide || clientSide, "pull-path/own-operation-filter", "server/mongodb/collection_operations.go + client/pkg/internal/datatypes/wired.go", "an origin filter exists",
		"neither the pull query nor the client's apply path filters operations by their origin; the client subtracts counts instead (excludeDuplicatedOperations), which skips a foreign operation and re-applies an own one when a response was lost")
}

// errEdgeWalk: every path from b returns a non-nil last result, except through the accepted
// not-found edge.
func errEdgeWalk(b *ssa.BasicBlock, skip func(*ssa.BasicBlock) *ssa.BasicBlock) bool {
	seen := map[*ssa.BasicBlock]bool{b: true}
	var walk func(b *ssa.BasicBlock) bool
	walk = func(b *ssa.BasicBlock) bool {
		for _, in := range b.Instrs {
			switch x := in.(type) {
			case *ssa.Return:
				return returnsNonNilLast(x) || len(x.Results) == 0
			case *ssa.Panic:
				return true
			}
		}
		sk := skip(b)
		for _, s := range b.Succs {
			if s == sk || seen[s] {
				continue
			}
			seen[s] = true
			if !walk(s) {
				return false
			}
		}
		return true
	}
	return walk(b)
}
