package main

import (
	"encoding/json"
	"fmt"
	"os"
	"path/filepath"
	"sort"
	"strings"
	"time"
)

// Obligation is one instance of a rule bound to one construct of /repo.
type Obligation struct {
	Rule      string   `json:"rule"`
	Construct string   `json:"construct"` // stable key: function / role / instance, never a line number
	Pos       string   `json:"pos,omitempty"`
	Status    string   `json:"status"` // discharged | violated | undecided | anchor-lost | known-finding
	Detail    string   `json:"detail,omitempty"`
	Path      []string `json:"path,omitempty"`
}

// RuleInfo describes a rule for the evidence file.
type RuleInfo struct {
	ID    string `json:"id"`
	Text  string `json:"text"`
	Floor int    `json:"floor"`
	Bound int    `json:"bound"`
}

type Report struct {
	Sweep    *sweepResult
	Property string
	Obls     []Obligation
	rules    map[string]*RuleInfo
	order    []string
	cur      string
}

func newReport(prop string) *Report {
	return &Report{Property: prop, rules: map[string]*RuleInfo{}}
}

// Rule opens a rule: the obligations recorded next belong to it.
func (r *Report) Rule(id, text string, floor int) {
	if _, ok := r.rules[id]; !ok {
		r.rules[id] = &RuleInfo{ID: id, Text: text, Floor: floor}
		r.order = append(r.order, id)
	}
	r.cur = id
}

func (r *Report) add(status, construct, pos, detail string, path ...string) {
	r.Obls = append(r.Obls, Obligation{Rule: r.cur, Construct: construct, Pos: pos, Status: status, Detail: detail, Path: path})
	r.rules[r.cur].Bound++
}

func (r *Report) OK(construct, pos, detail string, path ...string) {
	r.add("discharged", construct, pos, detail, path...)
}
func (r *Report) Bad(construct, pos, detail string, path ...string) {
	r.add("violated", construct, pos, detail, path...)
}
func (r *Report) Undecided(construct, pos, detail string) { r.add("undecided", construct, pos, detail) }
func (r *Report) Lost(role string) {
	r.add("anchor-lost", role, "", "the construct this rule rests on was not found: role="+role)
}

// Check records discharged or violated.
func (r *Report) Check(ok bool, construct, pos, okDetail, badDetail string) {
	if ok {
		r.OK(construct, pos, okDetail)
	} else {
		r.Bad(construct, pos, badDetail)
	}
}

// ---------------------------------------------------------------------------------------------
// known findings

type knownEntry struct {
	Property  string   `json:"property"`  // owning property (informational)
	Rule      string   `json:"rule"`      // rule id
	Construct string   `json:"construct"` // exact construct key
	What      string   `json:"what"`
	Finding   string   `json:"finding"` // F-number in DESIGN.md
	AlsoUnder []string `json:"also_under,omitempty"`
}

type knownFile struct {
	Known []knownEntry `json:"known"`
	Fixed []string     `json:"fixed"`
}

func loadKnown(path string) *knownFile {
	kf := &knownFile{}
	b, err := os.ReadFile(path)
	if err != nil {
		return kf
	}
	if err := json.Unmarshal(b, kf); err != nil {
		machineryFailure("known findings file %s: %v", path, err)
	}
	return kf
}

func (kf *knownFile) match(o *Obligation) *knownEntry {
	for i := range kf.Known {
		k := &kf.Known[i]
		if k.Rule == o.Rule && k.Construct == o.Construct {
			return k
		}
	}
	return nil
}

// ---------------------------------------------------------------------------------------------
// evidence

type evidence struct {
	PropertyID  string                 `json:"property_id"`
	Tier        string                 `json:"tier"`
	Seed        int                    `json:"seed"`
	Level       string                 `json:"level"`
	Coverage    map[string]interface{} `json:"coverage"`
	Assumptions []string               `json:"assumptions"`
	WallS       float64                `json:"wall_s"`
	Violations  int                    `json:"violations"`
}

// finish prints the verdict lines, writes the evidence and the violations file, and returns the
// process exit code.
func (r *Report) finish(w *World, kf *knownFile, tier string, seed int, evidencePath string, start time.Time,
	explanation string, assumptions []string, controls []controlResult) int {

	// floors: a rule that binds fewer constructs than were confirmed by reading passes vacuously.
	for _, id := range r.order {
		ri := r.rules[id]
		if ri.Bound < ri.Floor {
			r.cur = id
			r.add("anchor-lost", id+"/instance-floor", "",
				fmt.Sprintf("rule bound %d constructs, fewer than the %d confirmed by reading", ri.Bound, ri.Floor))
			ri.Bound-- // the floor obligation itself is not an instance
		}
	}

	var viol, known []Obligation
	discharged := 0
	constructs := map[string]bool{}
	for i := range r.Obls {
		o := &r.Obls[i]
		constructs[o.Rule+"|"+o.Construct] = true
		switch o.Status {
		case "discharged":
			discharged++
		default:
			if k := kf.match(o); k != nil {
				o.Status = "known-finding"
				o.Detail = k.Finding + ": " + k.What + " | " + o.Detail
				known = append(known, *o)
			} else {
				viol = append(viol, *o)
			}
		}
	}
	sort.SliceStable(known, func(i, j int) bool { return known[i].Rule+known[i].Construct < known[j].Rule+known[j].Construct })
	for _, o := range known {
		fmt.Printf("KNOWN-FINDING: property=%s rule=%s construct=%q %s\n", r.Property, o.Rule, o.Construct, o.Detail)
	}
	violPath := strings.TrimSuffix(evidencePath, ".json") + ".violations.json"
	os.Remove(violPath)
	for _, o := range viol {
		fmt.Printf("  violated: rule=%s construct=%q at %s status=%s: %s\n", o.Rule, o.Construct, o.Pos, o.Status, o.Detail)
		for _, p := range o.Path {
			fmt.Printf("      %s\n", p)
		}
	}
	ctlBad := 0
	for _, c := range controls {
		if !c.OK {
			ctlBad++
			fmt.Printf("  control misbehaved: %s: %s\n", c.Name, c.Detail)
		}
	}

	var rules []RuleInfo
	for _, id := range r.order {
		rules = append(rules, *r.rules[id])
	}
	samples := []interface{}{}
	for i, o := range r.Obls {
		if i < 400 {
			samples = append(samples, o)
		}
	}
	stats := map[string]int{}
	for k, v := range w.Stats {
		stats[k] = v
	}
	cov := map[string]interface{}{
		"explanation":         explanation,
		"obligations":         len(r.Obls),
		"discharged":          discharged,
		"known_findings":      len(known),
		"evaluations":         len(r.Obls) + len(controls),
		"distinct_nontrivial": len(constructs),
		"rule":                "one obligation per (rule, construct of /repo) as bound by the analyser on this run; distinct = distinct (rule, construct) keys; control evaluations are excluded from distinct_nontrivial",
		"samples":             samples,
		"rules":               rules,
		"analysed":            stats,
		"controls":            controls,
		"checker_cmd":         strings.Join(os.Args, " "),
		"trusted_base": []string{"go/types type checker and go/ssa builder of golang.org/x/tools v0.29.0",
			"the rule definitions in /verif/ordalint (each is a necessary condition, not the property itself)",
			"the Go toolchain's view of build tags (default tags, GOOS/GOARCH of this machine)"},
		"exhaustive": true,
	}
	// how the loaded code differs in shape from the reviewed tree, as the analyser read it (renamed functions, new
	// helpers analysed as part of their callers, table-driven loops read as their unrolled sequence)
	var shape []string
	for _, u := range w.unis {
		shape = append(shape, u.Renames...)
	}
	sort.Strings(shape)
	if len(shape) > 0 {
		cov["read_as"] = shape
	}
	if r.Sweep != nil {
		cov["sensitivity_sweep"] = r.Sweep
		cov["evaluations"] = len(r.Obls) + len(controls) + r.Sweep.Variants
		fmt.Printf("sensitivity sweep: %d single-edit variants of %d anchored functions, %d do not type-check, %d flagged, %d unflagged\n",
			r.Sweep.Variants, r.Sweep.Functions, r.Sweep.NotCompiling, r.Sweep.Flagged, len(r.Sweep.Unflagged))
	}
	ev := evidence{PropertyID: r.Property, Tier: tier, Seed: seed, Level: "other", Coverage: cov,
		Assumptions: assumptions, WallS: time.Since(start).Seconds(), Violations: len(viol)}
	if err := os.MkdirAll(filepath.Dir(evidencePath), 0o755); err == nil {
		b, _ := json.MarshalIndent(ev, "", " ")
		if err := os.WriteFile(evidencePath, b, 0o644); err != nil {
			machineryFailure("writing %s: %v", evidencePath, err)
		}
	}
	fmt.Printf("ordalint %s %s: %d obligations over %d rules, %d discharged, %d known findings, %d violations, %d controls (%.1fs)\n",
		r.Property, tier, len(r.Obls), len(r.order), discharged, len(known), len(viol), len(controls), time.Since(start).Seconds())
	if ctlBad > 0 {
		fmt.Fprintf(os.Stderr, "ordalint: %d control fixtures misbehaved: the analyser is broken\n", ctlBad)
		return 2
	}
	if len(viol) > 0 {
		b, _ := json.MarshalIndent(map[string]interface{}{"property": r.Property, "tier": tier, "violations": viol}, "", " ")
		_ = os.WriteFile(violPath, b, 0o644)
		fmt.Printf("VIOLATION property=%s replay=%s\n", r.Property, violPath)
		return 1
	}
	return 0
}

// controlResult is the outcome of one always-run control fixture (a tiny positive or negative
// example proving that a rule, or the primitive it is built from, is alive).
type controlResult struct {
	Name   string `json:"name"`
	OK     bool   `json:"ok"`
	Detail string `json:"detail"`
}
