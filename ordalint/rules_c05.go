package main

import (
	"fmt"
	"go/ast"
	"go/token"
	"go/types"
	"regexp"
	"strings"

	"golang.org/x/tools/go/ssa"
)

// abstractLin re-keys the atoms of a linear form (coefficients of equal keys are summed).
func abstractLin(l Linear, f func(string) string) Linear {
	out := Linear{Terms: map[string]int64{}, K: l.K}
	for k, c := range l.Terms {
		out.Terms[f(k)] += c
	}
	for k, c := range out.Terms {
		if c == 0 {
			delete(out.Terms, k)
		}
	}
	return out
}

type rewrite struct {
	re *regexp.Regexp
	to string
}

func rewriter(pairs ...string) func(string) string {
	var rs []rewrite
	for i := 0; i+1 < len(pairs); i += 2 {
		rs = append(rs, rewrite{regexp.MustCompile(pairs[i]), pairs[i+1]})
	}
	return func(s string) string {
		for _, r := range rs {
			s = r.re.ReplaceAllString(s, r.to)
		}
		return s
	}
}

// pathLinCmps returns, per path to in, the canonical comparison literals (abstracted by f).
func pathLinCmps(fn *ssa.Function, in ssa.Instruction, f func(string) string) ([][]string, bool) {
	paths, ok := reachingLits(fn, nil, in)
	var out [][]string
	for _, p := range paths {
		var ls []string
		for _, l := range p {
			if lc, ok := canonLinCmp(l); ok {
				if f != nil {
					lc.L = abstractLin(lc.L, f)
				}
				ls = append(ls, lc.String())
			}
		}
		out = append(out, ls)
	}
	return out, ok
}

func allPathsHave(paths [][]string, want ...string) bool {
	if len(paths) == 0 {
		return false
	}
	for _, p := range paths {
		for _, w := range want {
			found := false
			for _, l := range p {
				if l == w {
					found = true
				}
			}
			if !found {
				return false
			}
		}
	}
	return true
}

// storesTo lists the stores whose canonical address ends with suffix.
func storesTo(fn *ssa.Function, suffix string) []*ssa.Store {
	var out []*ssa.Store
	forEachInstr(fn, func(in ssa.Instruction) {
		if st, ok := in.(*ssa.Store); ok && strings.HasSuffix(canonName(st.Addr), suffix) {
			out = append(out, st)
		}
	})
	return out
}

// R05.1 client apply order
func ruleR05_1(w *World, r *Report) {
	u := w.Client()
	r.Rule("R05.1", "ApplyPushPullPack: the error/option check precedes the duplicate exclusion, which precedes the checkpoint sync, which precedes the application of the pulled operations; all three run only when the check returned no error", 3)
	fn := u.Fn(pDatatypes, "WiredDatatype", "ApplyPushPullPack")
	if fn == nil {
		r.Lost("WiredDatatype.ApplyPushPullPack")
		return
	}
	get := func(name string) *ssa.Call {
		for _, c := range callsNamed(fn, name) {
			if call, ok := c.(*ssa.Call); ok {
				return call
			}
		}
		return nil
	}
	chk, excl, syn, upd, recv := get("checkOptionAndError"), get("excludeDuplicatedOperations"), get("syncCheckPoint"), get("updateStateOfDatatype"), get("ReceiveRemoteModelOperations")
	if chk == nil || excl == nil || syn == nil || recv == nil || upd == nil {
		r.Lost("ApplyPushPullPack: checkOptionAndError, excludeDuplicatedOperations, syncCheckPoint, updateStateOfDatatype, ReceiveRemoteModelOperations")
		return
	}
	steps := []struct {
		name string
		prev *ssa.Call
		c    *ssa.Call
	}{{"excludeDuplicatedOperations", chk, excl}, {"syncCheckPoint", excl, syn}, {"updateStateOfDatatype", syn, upd}, {"ReceiveRemoteModelOperations", upd, recv}}
	for _, s := range steps {
		cons := "WiredDatatype.ApplyPushPullPack/" + s.name
		switch {
		case !instrDominates(s.prev, s.c):
			r.Bad(cons, u.Pos(s.c.Pos()), s.name+" is not preceded by "+calleeName(s.prev)+" on every path (the duplicate computation must read the old checkpoint; the subscribe reset of state, buffer and operation id must precede the application of the pulled operations)")
		case !guardedByNilErr(fn, s.c, chk):
			r.Bad(cons, u.Pos(s.c.Pos()), s.name+" also runs when the response was an error pack: a refused push-pull must change nothing on the client")
		default:
			r.OK(cons, u.Pos(s.c.Pos()), "ordered and error-gated")
		}
	}
	// once the checkpoint has moved past the pulled operations they are applied, whatever the steps in between report
	reached, _ := mustReach(syn, func(in ssa.Instruction) bool { return in == ssa.Instruction(recv) }, false)
	r.Check(reached, "WiredDatatype.ApplyPushPullPack/pulled operations applied after the checkpoint moved", u.Pos(recv.Pos()), "ReceiveRemoteModelOperations on every path after syncCheckPoint",
		"after syncCheckPoint there is a path that does not apply the pulled operations (for instance when updateStateOfDatatype reports an error): the checkpoint already acknowledges them, so the replica never receives them again")
}

// R05.2 checkpoint never moves backwards
func ruleR05_2(w *World, r *Report) {
	u := w.Client()
	r.Rule("R05.2", "the client's checkpoint fields are written only in syncCheckPoint (each store guarded by old < new on the same field, storing the new value), in the subscribe reset of checkOptionAndError and in the exported SetCheckPoint (helpers extracted from these count as part of them)", 4)
	type root struct {
		name string
		d    *deepFn
	}
	var roots []root
	covered := map[*ssa.Function]string{}
	for _, n := range []string{"syncCheckPoint", "checkOptionAndError", "SetCheckPoint"} {
		fn := u.Fn(pDatatypes, "WiredDatatype", n)
		if fn == nil {
			if n != "SetCheckPoint" {
				r.Lost("WiredDatatype." + n)
			}
			continue
		}
		d := deepOf(fn)
		roots = append(roots, root{n, d})
		for _, nd := range d.nodes {
			if _, ok := covered[nd.fn]; !ok {
				covered[nd.fn] = n
			}
		}
	}
	nGuarded := 0
	for _, rt := range roots {
		rt.d.each(func(x dins) {
			st, ok := x.in.(*ssa.Store)
			if !ok {
				return
			}
			owner, field, _, isField := storeField(st.Addr)
			addr := rt.d.name(x.n, st.Addr)
			if !isField || owner != "CheckPoint" || !strings.HasPrefix(addr, "$0.checkPoint.") {
				return
			}
			cons := "WiredDatatype." + rt.name + "/store checkPoint." + field
			switch rt.name {
			case "syncCheckPoint":
				nGuarded++
				want := fmt.Sprintf("+$0.checkPoint.%s-$1.%s < 0", field, field)
				paths, okp := rt.d.paths(x, nil)
				val := rt.d.linear(x.n, st.Val).String()
				good := okp && allLitPathsHaveLin(paths, want) && val == "+$1."+field
				r.Check(good, cons, u.Pos(st.Pos()), "guarded by old < new, stores the new value", fmt.Sprintf("the store is not of the form 'if old.%s < new.%s { old.%s = new.%s }' (value %s, guards %v): a stale response could move the checkpoint backwards", field, field, field, field, val, linsOf(paths)))
			case "checkOptionAndError":
				paths, okp := rt.d.paths(x, nil)
				good := okp && allLitPathsContain(paths, "!HasErrorBit(", "HasSubscribeBit(")
				for _, p := range paths {
					for _, l := range p.strs {
						if strings.HasPrefix(l, "!HasSubscribeBit(") {
							good = false
						}
					}
				}
				r.Check(good, cons, u.Pos(st.Pos()), "subscribe reset", "the checkpoint is reset outside the subscribe branch of a successful response")
			case "SetCheckPoint":
				r.OK(cons, u.Pos(st.Pos()), "exported setter (server-side rebuild)")
			}
		})
	}
	// who may write
	for _, fn := range u.ordaFuncs(func(p string) bool { return p == pDatatypes || p == pOrda || p == pCManagers }) {
		name := fnName(fn)
		forEachInstr(fn, func(in ssa.Instruction) {
			st, ok := in.(*ssa.Store)
			if !ok {
				return
			}
			addr := canonName(st.Addr)
			owner, field, _, isField := storeField(st.Addr)
			if isField && owner == "WiredDatatype" && field == "checkPoint" {
				r.Check(name == "datatypes.NewWiredDatatype" || isFreshBase(st.Addr), name+"/replaces the checkpoint object", u.Pos(st.Pos()), "constructor", "the checkpoint object is replaced outside the constructor")
				return
			}
			if !isField || owner != "CheckPoint" || !strings.Contains(addr, ".checkPoint.") {
				return
			}
			if _, ok := covered[fn]; !ok {
				r.Bad(name+"/store checkPoint."+field, u.Pos(st.Pos()), "an unexpected function writes the client checkpoint")
			}
		})
	}
	if nGuarded < 2 {
		r.Lost(fmt.Sprintf("guarded checkpoint stores in syncCheckPoint (found %d)", nGuarded))
	}
}

// R05.5 checkpoint arithmetic in normal form
func ruleR05_5(w *World, r *Report) {
	u := w.Client()
	r.Rule("R05.5", "the integer expressions the checkpoint protocol rests on have the intended normal forms (pulled count, skipped prefix, request checkpoint, first pushed index, subscribe reset, server end-of-log after a pull)", 8)
	wd := func(name string) *ssa.Function { return u.Fn(pDatatypes, "WiredDatatype", name) }

	// (1) pulled = (new.Sseq - old.Sseq) - (new.Cseq - old.Cseq)
	if fn := wd("calculatePullingOperations"); fn == nil {
		// inlined into its caller: the formula is then part of the skipped-prefix expression checked below
		r.OK("calculatePullingOperations/pulled", "", "helper not present; formula checked in excludeDuplicatedOperations")
	} else {
		forEachInstr(fn, func(in ssa.Instruction) {
			if ret, ok := in.(*ssa.Return); ok && len(ret.Results) == 1 {
				got := canonLinear(ret.Results[0]).String()
				r.Check(got == "+$0.checkPoint.Cseq-$0.checkPoint.Sseq-$1.Cseq+$1.Sseq", "calculatePullingOperations/pulled", u.Pos(ret.Pos()), got, "pulled count is "+got+", expected (new.Sseq-old.Sseq)-(new.Cseq-old.Cseq)")
			}
		})
	}
	// (2) skipped = len(ops) - pulled, applied only when len(ops) > pulled
	if fn := wd("excludeDuplicatedOperations"); fn == nil {
		r.Lost("WiredDatatype.excludeDuplicatedOperations")
	} else {
		const pulledForm = `\{\+\$0\.checkPoint\.Cseq-\$0\.checkPoint\.Sseq-\$1\.CheckPoint\.Cseq\+\$1\.CheckPoint\.Sseq\}`
		ab := rewriter(`phi\(0\|`+pulledForm+`\)`, "PULLED0", pulledForm, "PULLED", `len\(\$1\.Operations\)`, "LEN")
		n := 0
		forEachInstr(fn, func(in ssa.Instruction) {
			sl, ok := in.(*ssa.Slice)
			if !ok || canonName(sl.X) != "$1.Operations" {
				return
			}
			n++
			low := "<none>"
			if sl.Low != nil {
				low = abstractLin(canonLinear(sl.Low), ab).String()
			}
			paths, okp := pathLinCmps(fn, sl, ab)
			good := okp && low == "+LEN-PULLED0" && sl.High == nil && allPathsHave(paths, "-LEN+PULLED0 < 0")
			clamped := strings.Contains(low, "PULLED0") // max(pulled, 0): a stale response yields a negative count
			r.Check(good, "excludeDuplicatedOperations/skip", u.Pos(sl.Pos()), "skip = len(ops)-max(pulled,0) when len(ops) > pulled", fmt.Sprintf("the skipped prefix is [%s:] under %v (pulled clamped at 0: %v); expected [len(ops)-pulled:] under len(ops) > pulled with a negative count (stale response) clamped to 0", low, paths, clamped))
		})
		if n == 0 {
			r.Lost("excludeDuplicatedOperations: reslicing of the pulled operations")
		}
	}
	// (3) request checkpoint and first pushed sequence
	if fn := wd("CreatePushPullPack"); fn == nil {
		r.Lost("WiredDatatype.CreatePushPullPack")
	} else {
		ab := rewriter(`len\(\$0\.getModelOperations\(.*\)\)`, "LEN(pushed)")
		for _, f := range []struct{ field, want string }{{"Sseq", "+$0.checkPoint.Sseq"}, {"Cseq", "+$0.checkPoint.Cseq+LEN(pushed)"}} {
			sts := storesTo(fn, "complit."+f.field)
			if len(sts) == 0 {
				r.Lost("CreatePushPullPack: request checkpoint " + f.field)
				continue
			}
			got := abstractLin(canonLinear(sts[0].Val), ab).String()
			r.Check(got == f.want, "CreatePushPullPack/request checkpoint "+f.field, u.Pos(sts[0].Pos()), got, "request checkpoint "+f.field+" is "+got+", expected "+f.want)
		}
		found := false
		for _, c := range callsNamed(fn, "getModelOperations") {
			found = true
			got := canonLinear(c.Common().Args[1]).String()
			r.Check(got == "+$0.checkPoint.Cseq+1", "CreatePushPullPack/first pushed seq", u.Pos(c.Pos()), got, "operations are pushed from sequence "+got+", expected checkPoint.Cseq+1")
		}
		if !found {
			r.Lost("CreatePushPullPack: getModelOperations call")
		}
	}
	// (4) first pushed index
	if fn := wd("getModelOperations"); fn == nil {
		r.Lost("WiredDatatype.getModelOperations")
	} else {
		ab := rewriter(`\$0\.localBuffer\[0\]\.ID\.Seq`, "FIRST", `len\(\$0\.localBuffer\)`, "LEN")
		n := 0
		forEachInstr(fn, func(in ssa.Instruction) {
			sl, ok := in.(*ssa.Slice)
			if !ok || canonName(sl.X) != "$0.localBuffer" {
				return
			}
			n++
			low := "<none>"
			if sl.Low != nil {
				low = abstractLin(canonLinear(sl.Low), ab).String()
			}
			paths, okp := pathLinCmps(fn, sl, ab)
			good := okp && low == "+$1-FIRST" && sl.High == nil && allPathsHave(paths, "-$1+FIRST <= 0", "+$1-FIRST-LEN < 0")
			r.Check(good, "getModelOperations/start", u.Pos(sl.Pos()), "start = cseq - first.Seq within [0,len)", fmt.Sprintf("the pushed suffix is [%s:] under %v; expected [cseq-first.Seq:] under 0 <= start < len", low, paths))
		})
		if n == 0 {
			r.Lost("getModelOperations: slicing of the local buffer")
		}
	}
	// (5) subscribe reset
	if fn := wd("checkOptionAndError"); fn == nil {
		r.Lost("WiredDatatype.checkOptionAndError")
	} else {
		d := deepOf(fn)
		for _, f := range []struct{ field, want string }{{"Cseq", "+$1.CheckPoint.Cseq"}, {"Sseq", "+$1.CheckPoint.Sseq-len($1.Operations)"}} {
			sts := d.stores("$0.checkPoint." + f.field)
			if len(sts) == 0 {
				r.Lost("checkOptionAndError: subscribe reset of " + f.field)
				continue
			}
			got := d.linear(sts[0].n, sts[0].in.(*ssa.Store).Val).String()
			r.Check(got == f.want, "checkOptionAndError/subscribe reset "+f.field, d.pos(u, sts[0]), got, "subscribe reset sets "+f.field+" to "+got+", expected "+f.want)
		}
	}
	// (6) server: end of log after a pull
	if us, ok := w.unis["server"]; ok {
		fn := us.Fn(pService, "PushPullHandler", "pullOperations")
		if fn == nil {
			r.Lost("PushPullHandler.pullOperations")
			return
		}
		ab := rewriter(`\$0\.managers\.Mongo\.MongoCollections\.GetOperations\([^#]*\)#1\[\{\+len\([^#]*#1\)-1\}\]`, "LASTPULLED", `len\(\$0\.pushingOperations\)`, "LEN(pushing)")
		sts := storesTo(fn, "$0.currentCP.Sseq")
		if len(sts) == 0 {
			r.Lost("pullOperations: store to currentCP.Sseq")
		}
		for _, st := range sts {
			got := abstractLin(canonLinear(st.Val), ab).String()
			r.Check(got == "+LASTPULLED+LEN(pushing)", "pullOperations/end of log", us.Pos(st.Pos()), got, "after a pull the handler's Sseq becomes "+got+", expected lastPulled.Sseq + len(pushingOperations) (operations actually accepted, not those received)")
		}
	}
}

// callChain checks that each named call is dominated by the previous one and only reached when the
// previous returned a nil error (the error may have been stored into a field and re-loaded).
func callChain(u *Universe, r *Report, fn *ssa.Function, owner string, names []string) {
	var prev *ssa.Call
	for _, n := range names {
		var cur *ssa.Call
		for _, c := range callsNamed(fn, n) {
			if call, ok := c.(*ssa.Call); ok {
				cur = call
			}
		}
		if cur == nil {
			r.Lost(owner + ": call of " + n)
			return
		}
		if prev != nil {
			cons := owner + "/" + calleeName(prev) + " before " + n
			switch {
			case !instrDominates(prev, cur):
				r.Bad(cons, u.Pos(cur.Pos()), n+" is not preceded by "+calleeName(prev)+" on every path")
			case !guardedByNilErr(fn, cur, prev):
				r.Bad(cons, u.Pos(cur.Pos()), n+" runs even when "+calleeName(prev)+" returned an error")
			default:
				r.OK(cons, u.Pos(cur.Pos()), "ordered and error-gated")
			}
		}
		prev = cur
	}
}

// stage: a step of a pipeline, recognised by a characteristic effect (so that it is found whether
// the step is a helper, is inlined into the pipeline function or is split into several helpers).
type stage struct {
	name  string
	match func(d *deepFn, x dins) bool
}

func storeStage(name, addr string) stage {
	return stage{name, func(d *deepFn, x dins) bool {
		st, ok := x.in.(*ssa.Store)
		return ok && d.name(x.n, st.Addr) == addr
	}}
}

func callStage(name string, callees ...string) stage {
	return stage{name, func(d *deepFn, x dins) bool {
		c, ok := x.in.(*ssa.Call)
		return ok && has(callees, calleeName(c))
	}}
}

// stageOrder: every marker of a stage is preceded by every marker of the previous stage, and is
// reached only on the error-free edge of the call that contains the previous stage.
func stageOrder(u *Universe, r *Report, d *deepFn, owner string, stages []stage) map[string][]dins {
	found := map[string][]dins{}
	d.each(func(x dins) {
		for _, st := range stages {
			if st.match(d, x) {
				found[st.name] = append(found[st.name], x)
			}
		}
	})
	for i, st := range stages {
		if len(found[st.name]) == 0 {
			r.Lost(owner + ": stage " + st.name)
			return found
		}
		if i == 0 {
			continue
		}
		prev := stages[i-1]
		cons := owner + "/" + prev.name + " before " + st.name
		bad := ""
		pos := ""
		for _, bm := range found[st.name] {
			for _, am := range found[prev.name] {
				if why := orderedGated(d, am, bm); why != "" && bad == "" {
					bad, pos = why, d.pos(u, bm)
				}
			}
		}
		if bad != "" {
			r.Bad(cons, pos, st.name+" "+bad+" "+prev.name)
		} else {
			r.OK(cons, d.pos(u, found[st.name][0]), "ordered and error-gated")
		}
	}
	return found
}

func orderedGated(d *deepFn, a, b dins) string {
	var common *dnode
	for x := a.n; x != nil && common == nil; x = x.parent {
		for y := b.n; y != nil; y = y.parent {
			if x == y {
				common = x
				break
			}
		}
	}
	if common == nil {
		return "is unrelated to"
	}
	pa, pb := lift(a, common), lift(b, common)
	if pa == nil || pb == nil {
		return "is unrelated to"
	}
	if pa == pb {
		return ""
	}
	if !instrDominates(pa, pb) {
		return "is not preceded on every path by"
	}
	if call, ok := pa.(*ssa.Call); ok && pa != a.in {
		if ev := errResult(call); ev != nil {
			if _, isIface := ev.Type().Underlying().(*types.Interface); isIface && !guardedByNilErr(common.fn, pb, call) {
				return "runs even after a failure of"
			}
		}
	}
	return ""
}

// R05.3 server step order
func ruleR05_3(w *World, r *Report) {
	u := w.Server()
	r.Rule("R05.3", "the push-pull handler initialises, validates, classifies, subscribes/creates, pushes, pulls and commits in this order, each step only after the previous one succeeded; the response checkpoint is the handler's current checkpoint", 7)
	fn := u.Fn(pService, "PushPullHandler", "process")
	if fn == nil {
		r.Lost("PushPullHandler.process")
		return
	}
	d := deepOf(fn)
	stageOrder(u, r, d, "PushPullHandler.process", []stage{
		storeStage("initialise (reply channel set)", "$0.retCh"),
		{"validate (read-only client refused)", func(d *deepFn, x dins) bool {
			// a test of isReadOnly that leads to the refusal PushPullAbortionOfClient
			fa, ok := x.in.(*ssa.FieldAddr)
			if !ok || fieldName(fa.X.Type(), fa.Field) != "PushPullHandler.isReadOnly" {
				return false
			}
			leads := false
			for _, c := range callsNamed(x.n.fn, "New") {
				recv, _ := recvAndArgs(c)
				k, isK := recv.(*ssa.Const)
				if !isK {
					continue
				}
				if code, isInt := constInt(k); isInt && errorCodeName(u, code) == "PushPullAbortionOfClient" && reachableFrom(x.in, c.(ssa.Instruction)) {
					leads = true
				}
			}
			return leads
		}},
		storeStage("classify (case evaluated)", "$0.casePushPull"),
		storeStage("subscribe/create (client entry bound)", "$0.subClientDoc"),
		storeStage("push (operations numbered)", "$0.pushingOperations"),
		callStage("pull (GetOperations)", "GetOperations"),
		callStage("commit (InsertOperations/UpdateDatatype)", "InsertOperations", "UpdateDatatype"),
	})
	sts := d.stores("$0.resPushPullPack.CheckPoint")
	if len(sts) == 0 {
		r.Lost("process: response checkpoint")
	}
	for _, x := range sts {
		got := d.name(x.n, x.in.(*ssa.Store).Val)
		r.Check(got == "$0.currentCP", "process/response checkpoint", d.pos(u, x), got, "the response carries "+got+" as checkpoint, expected the handler's currentCP")
	}
}

// sortSpec finds opt.SetSort(bson.D{{Key: K, Value: V}}) in a function and returns (K expr, V const).
func sortSpec(u *Universe, pkg, recv, name string) (key string, val string, pos token.Pos, ok bool) {
	fd0, p := u.DeclOf(pkg, recv, name)
	if fd0 == nil {
		return
	}
	// the sort document may be built in a new helper, or held in a local before it is handed to SetSort
	for _, fd := range u.declWithNewHelpers(pkg, recv, name) {
		inits := map[types.Object]ast.Expr{}
		ast.Inspect(fd.Body, func(n ast.Node) bool {
			if as, ok := n.(*ast.AssignStmt); ok && as.Tok == token.DEFINE && len(as.Lhs) == len(as.Rhs) {
				for i, l := range as.Lhs {
					if id, isID := l.(*ast.Ident); isID {
						if obj := p.TypesInfo.Defs[id]; obj != nil {
							inits[obj] = as.Rhs[i]
						}
					}
				}
			}
			return true
		})
		ast.Inspect(fd.Body, func(n ast.Node) bool {
			c, isC := n.(*ast.CallExpr)
			if !isC {
				return true
			}
			sel, isS := c.Fun.(*ast.SelectorExpr)
			if !isS || sel.Sel.Name != "SetSort" || len(c.Args) != 1 {
				return true
			}
			arg := ast.Node(c.Args[0])
			if id, isID := c.Args[0].(*ast.Ident); isID {
				if init, has := inits[p.TypesInfo.Uses[id]]; has {
					arg = init
				}
			}
			// a small function that builds the document from its parameters: read its literal with the arguments in
			// place of the parameters
			subst := map[types.Object]ast.Expr{}
			if hc, isCall := arg.(*ast.CallExpr); isCall {
				if f := calleeOf(p.TypesInfo, hc); f != nil {
					if hd, hp := u.Decl(f); hd != nil && hd.Body != nil && len(hd.Body.List) == 1 && hp == p {
						if ret, isRet := hd.Body.List[0].(*ast.ReturnStmt); isRet && len(ret.Results) == 1 {
							i := 0
							for _, fl := range hd.Type.Params.List {
								for _, nm := range fl.Names {
									if i < len(hc.Args) {
										subst[p.TypesInfo.Defs[nm]] = hc.Args[i]
									}
									i++
								}
							}
							arg = ret.Results[0]
						}
					}
				}
			}
			actual := func(e ast.Expr) ast.Expr {
				if id, isID := ast.Unparen(e).(*ast.Ident); isID {
					if a, has := subst[p.TypesInfo.Uses[id]]; has {
						return a
					}
				}
				return e
			}
			ast.Inspect(arg, func(m ast.Node) bool {
				kv, isKV := m.(*ast.KeyValueExpr)
				if !isKV {
					return true
				}
				if id, isID := kv.Key.(*ast.Ident); isID {
					switch id.Name {
					case "Key":
						v := actual(kv.Value)
						key = exprString(v)
						if cv := constOf(p.TypesInfo, v); cv != nil {
							key += "=" + cv.ExactString()
						}
					case "Value":
						if cv := constOf(p.TypesInfo, actual(kv.Value)); cv != nil {
							val = cv.ExactString()
						}
					}
				}
				return true
			})
			pos, ok = c.Pos(), true
			return false
		})
	}
	return
}

func exprString(e ast.Expr) string {
	switch x := e.(type) {
	case *ast.Ident:
		return x.Name
	case *ast.SelectorExpr:
		return exprString(x.X) + "." + x.Sel.Name
	case *ast.BasicLit:
		return x.Value
	}
	return fmt.Sprintf("%T", e)
}

// R05.4 pull is a log-ordered range from the client's checkpoint
func ruleR05_4(w *World, r *Report) {
	u := w.Server()
	r.Rule("R05.4", "operations are pulled from checkpoint.Sseq+1 (and the server rebuild from snapshot.Sseq+1), filtered by the datatype id and a lower bound on the server sequence, and sorted ascending by the server sequence", 5)
	if fn := u.Fn(pService, "PushPullHandler", "pullOperations"); fn == nil {
		r.Lost("PushPullHandler.pullOperations")
	} else {
		found := false
		for _, c := range callsNamed(fn, "GetOperations") {
			found = true
			args := c.Common().Args
			from := canonLinear(args[len(args)-2]).String()
			duid := canonName(args[len(args)-3])
			r.Check(from == "+$0.gotPushPullPack.CheckPoint.Sseq+1", "pullOperations/lower bound", u.Pos(c.Pos()), from, "operations are pulled from "+from+", expected the request checkpoint's Sseq + 1")
			r.Check(duid == "$0.DUID", "pullOperations/datatype id", u.Pos(c.Pos()), duid, "operations are pulled for "+duid+", expected the handler's DUID")
		}
		if !found {
			r.Lost("pullOperations: GetOperations call")
		}
	}
	if fn := u.Fn(pSnapshot, "Manager", "GetLatestDatatype"); fn == nil {
		r.Lost("snapshot.Manager.GetLatestDatatype")
	} else {
		found := false
		for _, c := range callsNamed(fn, "GetOperations") {
			found = true
			args := c.Common().Args
			l := canonLinear(args[len(args)-2])
			good := l.K == 1 && len(l.Terms) == 1
			for k, co := range l.Terms {
				good = good && co == 1 && strings.Contains(k, ".Sseq") && strings.Contains(k, "GetLatestSnapshot")
			}
			r.Check(good, "GetLatestDatatype/lower bound", u.Pos(c.Pos()), l.String(), "the rebuild replays operations from "+l.String()+", expected latestSnapshot.Sseq + 1 (or 1 without a snapshot)")
		}
		if !found {
			r.Lost("GetLatestDatatype: GetOperations call")
		}
	}
	key, val, pos, ok := sortSpec(u, pMongo, "MongoCollections", "GetOperations")
	if !ok {
		r.Bad("GetOperations/sort", "", "the operation query has no sort specification: the log order of a pull is unspecified")
	} else {
		r.Check(strings.HasPrefix(key, "schema.OperationDocFields.Sseq") && val == "1", "GetOperations/sort", u.Pos(pos), key+" asc", fmt.Sprintf("operations are sorted by %s (%s); expected ascending server sequence", key, val))
	}
	// filter clauses of GetOperations
	fd, p := u.DeclOf(pMongo, "MongoCollections", "GetOperations")
	if fd != nil {
		clauses := map[string]string{}
		for _, hd := range u.declWithNewHelpers(pMongo, "MongoCollections", "GetOperations") {
			for k, v := range filterClauses(p.TypesInfo, hd.Body) {
				clauses[k] = v
			}
		}
		r.Check(clauses["AddFilterEQ:schema.OperationDocFields.DUID"] == "duid", "GetOperations/filter duid", u.Pos(fd.Pos()), "duid == parameter", fmt.Sprintf("the operation query does not filter the datatype id by the duid parameter (clauses %v)", clauses))
		r.Check(clauses["AddFilterGTE:schema.OperationDocFields.Sseq"] == "from", "GetOperations/filter from", u.Pos(fd.Pos()), "sseq >= from", fmt.Sprintf("the operation query has no lower bound sseq >= from (clauses %v)", clauses))
	}
}

// filterClauses collects Add*(key, value) calls of a function body: "AddFilterEQ:<key expr>" -> value expr.
func filterClauses(info interface{}, body *ast.BlockStmt) map[string]string {
	out := map[string]string{}
	ast.Inspect(body, func(n ast.Node) bool {
		c, ok := n.(*ast.CallExpr)
		if !ok {
			return true
		}
		sel, ok := c.Fun.(*ast.SelectorExpr)
		if !ok || !strings.HasPrefix(sel.Sel.Name, "AddFilter") || len(c.Args) != 2 {
			return true
		}
		out[sel.Sel.Name+":"+exprString(c.Args[0])] = exprString(c.Args[1])
		return true
	})
	return out
}
