package main

import (
	"go/ast"
	"go/constant"
	"go/token"
	"go/types"
	"strings"

	"golang.org/x/tools/go/packages"
	"golang.org/x/tools/go/ssa"
	"golang.org/x/tools/go/types/typeutil"
)

// calleeOf resolves the function or method called by a call expression (nil for conversions,
// builtins and calls of function values).
func calleeOf(info *types.Info, call *ast.CallExpr) *types.Func {
	f, _ := typeutil.Callee(info, call).(*types.Func)
	return f
}

// constOf returns the constant value of an expression, if it has one.
func constOf(info *types.Info, e ast.Expr) constant.Value {
	if tv, ok := info.Types[e]; ok {
		return tv.Value
	}
	return nil
}

// objOf returns the object an identifier or selector denotes.
func objOf(info *types.Info, e ast.Expr) types.Object {
	switch x := ast.Unparen(e).(type) {
	case *ast.Ident:
		return info.ObjectOf(x)
	case *ast.SelectorExpr:
		return info.ObjectOf(x.Sel)
	}
	return nil
}

// armOutcome classifies the body of a switch arm (or any block).
//
//	"empty"              no statements (falls to the code after the switch)
//	"return:<callee>"    first return statement returns (as its last result) a call of <callee>
//	"return-nil"         returns only nil / zero results
//	"panic"              calls panic
//	"other"
type armInfo struct {
	Kind    string
	Callee  *types.Func // for return:<callee>: the called function of the last result
	Callees []*types.Func
	Pos     token.Pos
}

func classifyArm(info *types.Info, body []ast.Stmt) armInfo {
	if len(body) == 0 {
		return armInfo{Kind: "empty"}
	}
	ai := armInfo{Kind: "other", Pos: body[0].Pos()}
	// collect all calls in the arm
	for _, s := range body {
		ast.Inspect(s, func(n ast.Node) bool {
			if c, ok := n.(*ast.CallExpr); ok {
				if id, ok := c.Fun.(*ast.Ident); ok && id.Name == "panic" {
					if _, isB := info.Uses[id].(*types.Builtin); isB {
						ai.Kind = "panic"
					}
				}
				if f := calleeOf(info, c); f != nil {
					ai.Callees = append(ai.Callees, f)
				}
			}
			return true
		})
	}
	if ai.Kind == "panic" {
		return ai
	}
	// the first top-level return decides
	for _, s := range body {
		ret, ok := s.(*ast.ReturnStmt)
		if !ok {
			continue
		}
		if len(ret.Results) == 0 {
			ai.Kind = "return"
			return ai
		}
		last := ast.Unparen(ret.Results[len(ret.Results)-1])
		if c, ok := last.(*ast.CallExpr); ok {
			if f := calleeOf(info, c); f != nil {
				ai.Kind, ai.Callee = "return:"+objName(f), f
				return ai
			}
		}
		allNil := true
		for _, r := range ret.Results {
			if tv, ok := info.Types[r]; !ok || !tv.IsNil() {
				allNil = false
			}
		}
		if allNil {
			ai.Kind = "return-nil"
		} else {
			ai.Kind = "return-value"
		}
		return ai
	}
	return ai
}

// enumConstName returns the declared name of the constant an expression denotes.
func enumConstName(info *types.Info, e ast.Expr) string {
	if o, ok := objOf(info, e).(*types.Const); ok {
		return o.Name()
	}
	return ""
}

// switchesIn lists the expression switches of a function body in source order.
func switchesIn(body *ast.BlockStmt) []*ast.SwitchStmt {
	var out []*ast.SwitchStmt
	ast.Inspect(body, func(n ast.Node) bool {
		if s, ok := n.(*ast.SwitchStmt); ok {
			out = append(out, s)
		}
		return true
	})
	return out
}

func typeSwitchesIn(body *ast.BlockStmt) []*ast.TypeSwitchStmt {
	var out []*ast.TypeSwitchStmt
	ast.Inspect(body, func(n ast.Node) bool {
		if s, ok := n.(*ast.TypeSwitchStmt); ok {
			out = append(out, s)
		}
		return true
	})
	return out
}

// namedOf strips pointers and returns the named type.
func namedOf(t types.Type) *types.Named {
	for {
		switch x := t.(type) {
		case *types.Pointer:
			t = x.Elem()
			continue
		case *types.Named:
			return x
		}
		return nil
	}
}

// typeSwitchArms maps the named type of each case of a type switch to its clause.
func typeSwitchArms(info *types.Info, ts *ast.TypeSwitchStmt) map[string]*ast.CaseClause {
	out := map[string]*ast.CaseClause{}
	for _, s := range ts.Body.List {
		cc := s.(*ast.CaseClause)
		if cc.List == nil {
			out["default"] = cc
			continue
		}
		for _, e := range cc.List {
			if tv, ok := info.Types[e]; ok {
				if n := namedOf(tv.Type); n != nil {
					out[n.Obj().Name()] = cc
				}
			}
		}
	}
	return out
}

// structFields lists the fields of a struct type with their json/bson key under the given tag
// ("" when the field is excluded with "-").
type fieldKey struct {
	Name     string
	Key      string
	Exported bool
	Type     types.Type
	Embedded bool
	Inline   bool
}

func structKeys(st *types.Struct, tag string) []fieldKey {
	var out []fieldKey
	for i := 0; i < st.NumFields(); i++ {
		f := st.Field(i)
		fk := fieldKey{Name: f.Name(), Key: f.Name(), Exported: f.Exported(), Type: f.Type(), Embedded: f.Embedded()}
		if tag == "bson" {
			fk.Key = strings.ToLower(f.Name())
		}
		t := reflectTag(st.Tag(i), tag)
		if t != "" {
			parts := strings.Split(t, ",")
			if parts[0] == "-" && len(parts) == 1 {
				fk.Key = ""
			} else if parts[0] != "" {
				fk.Key = parts[0]
			}
			for _, p := range parts[1:] {
				if p == "inline" {
					fk.Inline = true
				}
			}
		}
		if !fk.Exported {
			fk.Key = ""
		}
		out = append(out, fk)
	}
	return out
}

// reflectTag is reflect.StructTag.Get without importing reflect's quirks.
func reflectTag(tag, key string) string {
	for tag != "" {
		i := 0
		for i < len(tag) && tag[i] == ' ' {
			i++
		}
		tag = tag[i:]
		if tag == "" {
			break
		}
		i = 0
		for i < len(tag) && tag[i] > ' ' && tag[i] != ':' && tag[i] != '"' && tag[i] != 0x7f {
			i++
		}
		if i == 0 || i+1 >= len(tag) || tag[i] != ':' || tag[i+1] != '"' {
			break
		}
		name := tag[:i]
		tag = tag[i+1:]
		i = 1
		for i < len(tag) && tag[i] != '"' {
			if tag[i] == '\\' {
				i++
			}
			i++
		}
		if i >= len(tag) {
			break
		}
		val := tag[1:i]
		tag = tag[i+1:]
		if name == key {
			return val
		}
	}
	return ""
}

// fileOf returns the syntax file containing pos.
func fileOf(p *packages.Package, pos token.Pos) *ast.File {
	for _, f := range p.Syntax {
		if f.Pos() <= pos && pos <= f.End() {
			return f
		}
	}
	return nil
}

// mustReach: on every path from instruction `from` (exclusive) to a function exit, an instruction
// satisfying target is executed (a `defer` of a matching call counts, since it runs at exit).
// Paths that end in a panic are ignored unless panics is true.
func mustReach(from ssa.Instruction, target func(ssa.Instruction) bool, panics bool) (bool, ssa.Instruction) {
	return mustReachAt(from.Block(), instrIndex(from)+1, target, panics)
}

// mustReachAt: mustReach from position start of block b0.
func mustReachAt(b0 *ssa.BasicBlock, start0 int, target func(ssa.Instruction) bool, panics bool) (bool, ssa.Instruction) {
	seen := map[*ssa.BasicBlock]bool{}
	var bad ssa.Instruction
	var walk func(b *ssa.BasicBlock, start int) bool
	walk = func(b *ssa.BasicBlock, start int) bool {
		for i := start; i < len(b.Instrs); i++ {
			in := b.Instrs[i]
			if target(in) {
				return true
			}
			// a call of a new helper in which the target always runs
			if c, isCall := in.(*ssa.Call); isCall {
				if h := c.Call.StaticCallee(); h != nil && flattenable[h] {
					hit := false
					forEachOwnInstr(h, func(x ssa.Instruction) {
						if target(x) && alwaysRuns(x) {
							hit = true
						}
					})
					if hit {
						return true
					}
				}
			}
			switch in.(type) {
			case *ssa.Return:
				// the return of a new helper continues after each of its call sites; the constants it returns there
				// are known to the caller's tests of them (reachEnv)
				if g := b.Parent(); flattenable[g] && len(helperSites[g]) > 0 {
					all := true
					ret := in.(*ssa.Return)
					for _, site := range helperSites[g] {
						saved := reachEnv
						env := map[ssa.Value]ssa.Value{}
						for k, v := range saved {
							env[k] = v
						}
						if len(ret.Results) == 1 {
							if c, isC := envValue(ret.Results[0]).(*ssa.Const); isC {
								env[site] = c
							}
						} else if refs := site.Referrers(); refs != nil {
							for _, ref := range *refs {
								if ex, isEx := ref.(*ssa.Extract); isEx && ex.Index < len(ret.Results) {
									if c, isC := envValue(ret.Results[ex.Index]).(*ssa.Const); isC {
										env[ex] = c
									}
								}
							}
						}
						reachEnv = env
						sb := site.Block()
						// the caller's blocks are walked again for every returned constant combination
						savedSeen := seen
						seen = map[*ssa.BasicBlock]bool{}
						okSite := walk(sb, instrIndex(site)+1)
						seen = savedSeen
						reachEnv = saved
						if !okSite {
							all = false
						}
					}
					if all {
						return true
					}
				}
				bad = in
				return false
			case *ssa.Panic:
				if panics {
					bad = in
					return false
				}
				return true
			}
		}
		succs := b.Succs
		if len(b.Instrs) > 0 && len(reachEnv) > 0 {
			if ifi, isIf := b.Instrs[len(b.Instrs)-1].(*ssa.If); isIf && len(b.Succs) == 2 {
				cond, neg := ifi.Cond, false
				for {
					if un, isUn := cond.(*ssa.UnOp); isUn && un.Op == token.NOT {
						cond, neg = un.X, !neg
						continue
					}
					break
				}
				if c, isC := envValue(cond).(*ssa.Const); isC && c.Value != nil && c.Value.Kind() == constant.Bool {
					if constant.BoolVal(c.Value) != neg {
						succs = b.Succs[:1]
					} else {
						succs = b.Succs[1:]
					}
				}
			}
		}
		for _, s := range succs {
			if seen[s] {
				continue
			}
			seen[s] = true
			if !walk(s, 0) {
				return false
			}
		}
		return true
	}
	savedEnv := reachEnv
	defer func() { reachEnv = savedEnv }()
	ok := walk(b0, start0)
	return ok, bad
}

// reachEnv: while mustReach walks a caller after the return of a new helper, the constants that return yielded
// (per result) are bound to the call's results here; envValue reads a value through it.
var reachEnv map[ssa.Value]ssa.Value

func envValue(v ssa.Value) ssa.Value {
	if reachEnv != nil {
		if c, ok := reachEnv[v]; ok {
			return c
		}
	}
	return v
}

// reachableFrom: is there a CFG path from instruction a to instruction b (a before b)?
func reachableFrom(a, b ssa.Instruction) bool {
	if a.Parent() != b.Parent() {
		return reachableFromCross(a, b)
	}
	if a.Block() == b.Block() && instrIndex(a) < instrIndex(b) {
		return true
	}
	seen := map[*ssa.BasicBlock]bool{}
	work := append([]*ssa.BasicBlock(nil), a.Block().Succs...)
	for len(work) > 0 {
		x := work[len(work)-1]
		work = work[:len(work)-1]
		if seen[x] {
			continue
		}
		seen[x] = true
		if x == b.Block() {
			return true
		}
		work = append(work, x.Succs...)
	}
	return false
}
