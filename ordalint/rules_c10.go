package main

import (
	"fmt"
	"go/ast"
	"go/types"
	"sort"
	"strings"

	"golang.org/x/tools/go/ssa"
)

// snapshot state structs of client/pkg/orda
var snapshotStructs = []string{"counterSnapshot", "mapSnapshot", "listSnapshot", "orderedNode", "timedNode",
	"jsonCommon", "jsonPrimitive", "jsonObject", "jsonArray", "jsonElement"}

// fields that the capture side need not read because they are rebuilt from other captured state
var captureDerived = map[string]string{
	"listSnapshot.Map":     "rebuilt from the order of the captured nodes",
	"orderedNode.prev":     "rebuilt by insertNext from the captured order",
	"jsonPrimitive.common": "rebuilt: one jsonCommon per restored document",
	"jsonCommon.root":      "rebuilt: the object being restored",
	"jsonCommon.Cemetery":  "rebuilt from the tombstones (D != nil) of the captured nodes",
}

// reflectionEffects: struct types handed to encoding/json are read (Marshal) or written
// (Unmarshal) through reflection: exactly their exported, non-"-" fields, recursively.
func reflectionEffects(t types.Type, into map[string]bool, seen map[types.Type]bool) {
	if t == nil || seen[t] {
		return
	}
	seen[t] = true
	switch x := t.(type) {
	case *types.Pointer:
		reflectionEffects(x.Elem(), into, seen)
	case *types.Slice:
		reflectionEffects(x.Elem(), into, seen)
	case *types.Array:
		reflectionEffects(x.Elem(), into, seen)
	case *types.Map:
		reflectionEffects(x.Elem(), into, seen)
	case *types.Named:
		// a type with its own (Un)MarshalJSON is handled by calling it, which the call graph models
		if st, ok := x.Underlying().(*types.Struct); ok {
			for _, fk := range structKeys(st, "json") {
				if fk.Key != "" {
					into[x.Obj().Name()+"."+fk.Name] = true
					reflectionEffects(fk.Type, into, seen)
				}
			}
		}
	case *types.Struct:
		for _, fk := range structKeys(x, "json") {
			if fk.Key != "" {
				reflectionEffects(fk.Type, into, seen)
			}
		}
	}
}

// jsonCalls returns the static types of the values handed to json.Marshal / json.Unmarshal in fn.
func jsonCallTypes(fn *ssa.Function, which string) []types.Type {
	var out []types.Type
	for _, c := range callsIn(fn) {
		f := staticCallee(c)
		if f == nil || f.Pkg == nil || f.Pkg.Pkg.Path() != "encoding/json" || f.Name() != which {
			continue
		}
		idx := 0
		if which == "Unmarshal" {
			idx = 1
		}
		v := c.Common().Args[idx]
		if mi, ok := v.(*ssa.MakeInterface); ok {
			v = mi.X
		}
		out = append(out, v.Type())
	}
	return out
}

func hasOwnJSONMethod(t types.Type, method string) bool {
	n := namedOf(t)
	if n == nil {
		return false
	}
	for i := 0; i < n.NumMethods(); i++ {
		if n.Method(i).Name() == method {
			return true
		}
	}
	return false
}

// R10.1 capture and restore completeness
func ruleR10_1(w *World, r *Report) {
	u := w.Client()
	r.Rule("R10.1", "every field of the snapshot state structs is written on the path of the snapshot's UnmarshalJSON (restore) and read on the path of its MarshalJSON (capture), unless it is in the table of fields rebuilt from other captured state; every literal of a state struct on the restore path sets its BaseDatatype link", 19)
	v := newCGView(u, w.Thorough)
	stop := func(f *ssa.Function) bool {
		n := f.Name()
		return n == "Errorf" || n == "Infof" || n == "String" || n == "L" || strings.HasPrefix(n, "New") && f.Pkg != nil && f.Pkg.Pkg.Path() == pErrors
	}
	rootStructs := map[string][]string{
		"counterSnapshot": {"counterSnapshot"},
		"mapSnapshot":     {"mapSnapshot", "timedNode"},
		"listSnapshot":    {"listSnapshot", "orderedNode", "timedNode"},
		"jsonObject":      {"jsonCommon", "jsonPrimitive", "jsonObject", "jsonArray", "jsonElement", "mapSnapshot", "listSnapshot", "orderedNode"},
	}
	restoreSet := map[*ssa.Function]*ssa.Function{}
	for _, root := range []string{"counterSnapshot", "mapSnapshot", "listSnapshot", "jsonObject"} {
		uf, mf := u.Fn(pOrda, root, "UnmarshalJSON"), u.Fn(pOrda, root, "MarshalJSON")
		if uf == nil || mf == nil {
			r.Lost(root + ".UnmarshalJSON / MarshalJSON")
			continue
		}
		rs := v.reach([]*ssa.Function{uf}, stop)
		cs := v.reach([]*ssa.Function{mf}, stop)
		for f, p := range rs {
			restoreSet[f] = p
		}
		writes, reads := map[string]bool{}, map[string]bool{}
		for f := range rs {
			for k := range localEffects(f).Writes {
				writes[k] = true
			}
			for _, t := range jsonCallTypes(f, "Unmarshal") {
				reflectionEffects(t, writes, map[types.Type]bool{})
			}
		}
		for f := range cs {
			for k := range localEffects(f).Reads {
				reads[k] = true
			}
			for _, t := range jsonCallTypes(f, "Marshal") {
				reflectionEffects(t, reads, map[types.Type]bool{})
				// timedNode is marshalled by reflection as the dynamic type behind map[string]timedType
				if strings.Contains(t.String(), "timedType") {
					if n := u.Named(pOrda, "timedNode"); n != nil {
						reflectionEffects(n, reads, map[types.Type]bool{})
					}
				}
			}
		}
		for _, sn := range rootStructs[root] {
			n := u.Named(pOrda, sn)
			if n == nil {
				r.Lost("snapshot struct " + sn)
				continue
			}
			st := n.Underlying().(*types.Struct)
			for i := 0; i < st.NumFields(); i++ {
				f := st.Field(i)
				key := sn + "." + f.Name()
				if old, renamed := fieldOldName[key]; renamed {
					key = sn + "." + old // reads and writes are recorded under the field's name in the reviewed tree
				}
				if nn := namedOf(f.Type()); nn != nil && nn.Obj().Name() == "BaseDatatype" {
					continue // link to the owning datatype, handled below
				}
				// within a document, lists and maps are rebuilt by the document's own (un)marshal functions
				cons := root + ": " + key
				if !writes[key] {
					r.Bad(cons+"/restored", u.Pos(f.Pos()), "the field is part of the state of a "+root+" snapshot but nothing on its UnmarshalJSON path writes it: a restored replica differs from the original in this field")
				} else {
					r.OK(cons+"/restored", u.Pos(f.Pos()), "written on the restore path")
				}
				if why, ok := captureDerived[key]; ok {
					r.OK(cons+"/captured", u.Pos(f.Pos()), "derived: "+why)
				} else if !reads[key] {
					r.Bad(cons+"/captured", u.Pos(f.Pos()), "the field is part of the state of a "+root+" snapshot but nothing on its MarshalJSON path reads it: it is lost (or replaced by something else) on export")
				} else {
					r.OK(cons+"/captured", u.Pos(f.Pos()), "read on the capture path")
				}
			}
		}
	}
	// BaseDatatype links in literals built on the restore path
	var fs []*ssa.Function
	for f := range restoreSet {
		fs = append(fs, f)
	}
	sort.Slice(fs, func(i, j int) bool { return fs[i].String() < fs[j].String() })
	for _, f := range fs {
		if f.Synthetic != "" {
			continue
		}
		forEachInstr(f, func(in ssa.Instruction) {
			al, ok := in.(*ssa.Alloc)
			if !ok {
				return
			}
			n := namedOf(al.Type())
			if n == nil {
				return
			}
			st, ok := n.Underlying().(*types.Struct)
			if !ok || !has(snapshotStructs, n.Obj().Name()) {
				return
			}
			for i := 0; i < st.NumFields(); i++ {
				fld := st.Field(i)
				if nn := namedOf(fld.Type()); nn == nil || nn.Obj().Name() != "BaseDatatype" {
					continue
				}
				set := false
				if refs := al.Referrers(); refs != nil {
					for _, ref := range *refs {
						if fa, ok := ref.(*ssa.FieldAddr); ok && fa.Field == i && fa.Referrers() != nil {
							for _, r2 := range *fa.Referrers() {
								if s, ok := r2.(*ssa.Store); ok && s.Addr == ssa.Value(fa) {
									set = true
								}
							}
						}
					}
				}
				r.Check(set, fnName(f)+"/literal "+n.Obj().Name()+" sets BaseDatatype", u.Pos(al.Pos()), "link set", "a "+n.Obj().Name()+" built while restoring a snapshot has no BaseDatatype: the restored replica panics (nil logger/context) where the original returns an error")
			}
		})
	}
}

// R10.2 DTO agreement
func ruleR10_2(w *World, r *Report) {
	u := w.Client()
	r.Rule("R10.2", "the type handed to json.Marshal in a snapshot's MarshalJSON and the type handed to json.Unmarshal in its UnmarshalJSON have the same JSON key set; every marshalled DTO struct has only exported, uniquely keyed fields", 8)
	for _, t := range []string{"counterSnapshot", "mapSnapshot", "listSnapshot", "jsonObject"} {
		mf, uf := u.Fn(pOrda, t, "MarshalJSON"), u.Fn(pOrda, t, "UnmarshalJSON")
		if mf == nil || uf == nil {
			r.Lost(t + ".MarshalJSON/UnmarshalJSON")
			continue
		}
		mt, ut := jsonCallTypes(mf, "Marshal"), jsonCallTypes(uf, "Unmarshal")
		if len(mt) == 0 || len(ut) == 0 {
			r.Bad(t+"/DTO pair", u.Pos(mf.Pos()), "MarshalJSON/UnmarshalJSON no longer go through encoding/json with a DTO")
			continue
		}
		mk, uk := keySet(mt[0]), keySet(ut[0])
		r.Check(strings.Join(mk, ",") == strings.Join(uk, ",") && len(mk) > 0, t+"/DTO pair", u.Pos(mf.Pos()), "keys "+strings.Join(mk, ","),
			fmt.Sprintf("capture writes JSON keys %v but restore reads %v", mk, uk))
	}
	p := u.Pkgs[pOrda]
	sc := p.Types.Scope()
	for _, name := range sc.Names() {
		if !strings.HasPrefix(name, "marshaled") {
			continue
		}
		n, ok := sc.Lookup(name).Type().(*types.Named)
		if !ok {
			continue
		}
		st, ok := n.Underlying().(*types.Struct)
		if !ok {
			continue
		}
		seen := map[string]bool{}
		bad := ""
		for _, fk := range structKeys(st, "json") {
			if fk.Key == "" {
				bad = "field " + fk.Name + " is not marshalled (unexported or json:\"-\")"
			}
			if seen[fk.Key] {
				bad = "JSON key " + fk.Key + " is used twice (encoding/json silently drops both)"
			}
			seen[fk.Key] = true
		}
		r.Check(bad == "", "DTO "+name, u.Pos(n.Obj().Pos()), fmt.Sprintf("%d fields, exported, unique keys", st.NumFields()), bad)
	}
}

func keySet(t types.Type) []string {
	for {
		if p, ok := t.(*types.Pointer); ok {
			t = p.Elem()
			continue
		}
		break
	}
	st, ok := t.Underlying().(*types.Struct)
	if !ok {
		return nil
	}
	var out []string
	for _, fk := range structKeys(st, "json") {
		if fk.Key != "" {
			out = append(out, fk.Key)
		}
	}
	sort.Strings(out)
	return out
}

// R10.3 meta agreement
func ruleR10_3(w *World, r *Report) {
	u := w.Client()
	r.Rule("R10.3", "GetMeta copies Key, TypeOf, DUID and OpID of the datatype into DatatypeMeta and SetMeta writes exactly these back into the fields they came from", 4)
	gm, sm := u.Fn(pDatatypes, "BaseDatatype", "GetMeta"), u.Fn(pDatatypes, "BaseDatatype", "SetMeta")
	if gm == nil || sm == nil {
		r.Lost("BaseDatatype.GetMeta/SetMeta")
		return
	}
	get := map[string]string{} // meta field -> base field
	forEachInstr(gm, func(in ssa.Instruction) {
		st, ok := in.(*ssa.Store)
		if !ok {
			return
		}
		o, f, _, ok := storeField(st.Addr)
		if ok && o == "DatatypeMeta" {
			get[f] = lastDot(canonName(st.Val))
		}
	})
	set := map[string]string{} // meta field -> base field
	forEachInstr(sm, func(in ssa.Instruction) {
		st, ok := in.(*ssa.Store)
		if !ok {
			return
		}
		o, f, _, ok := storeField(st.Addr)
		if ok && o == "BaseDatatype" {
			set[lastDot(canonName(st.Val))] = f
		}
	})
	n := u.Named(pModel, "DatatypeMeta")
	if n == nil {
		r.Lost("model.DatatypeMeta")
		return
	}
	st := n.Underlying().(*types.Struct)
	for i := 0; i < st.NumFields(); i++ {
		f := st.Field(i).Name()
		if !st.Field(i).Exported() {
			continue
		}
		r.Check(get[f] != "" && get[f] == set[f], "DatatypeMeta."+f, u.Pos(st.Field(i).Pos()), "exported from and restored into BaseDatatype."+get[f],
			fmt.Sprintf("GetMeta fills it from BaseDatatype.%s but SetMeta restores it into BaseDatatype.%s", get[f], set[f]))
	}
	// DTO keys of DatatypeMeta are unique and exported
	seen := map[string]bool{}
	for _, fk := range structKeys(st, "json") {
		if fk.Exported && fk.Key == "" || seen[fk.Key] && fk.Key != "" {
			r.Bad("DatatypeMeta/json keys", u.Pos(n.Obj().Pos()), "field "+fk.Name+" is not marshalled or its key is duplicated")
		}
		seen[fk.Key] = true
	}
}

// R10.4 consumers use the pair
func ruleR10_4(w *World, r *Report) {
	u := w.Client()
	r.Rule("R10.4", "GetMetaAndSnapshot exports both halves and SetMetaAndSnapshot restores both halves (meta through SetMeta, state through json.Unmarshal into the live snapshot), propagating errors; rollback and the server rebuild go through SetMetaAndSnapshot", 3)
	g, s := u.Fn(pDatatypes, "SnapshotDatatype", "GetMetaAndSnapshot"), u.Fn(pDatatypes, "SnapshotDatatype", "SetMetaAndSnapshot")
	if g == nil || s == nil {
		r.Lost("SnapshotDatatype.GetMetaAndSnapshot/SetMetaAndSnapshot")
		return
	}
	okG := len(callsNamed(g, "GetMeta")) == 1 && len(jsonCallTypes(g, "Marshal")) == 1
	if okG {
		forEachInstr(g, func(in ssa.Instruction) {
			if ret, ok := in.(*ssa.Return); ok && len(ret.Results) == 3 {
				if c, isC := ret.Results[2].(*ssa.Const); isC && c.Value == nil {
					o0, o1 := origins(ret.Results[0]), origins(ret.Results[1])
					if !o0["invoke:GetMeta"] && !o0["call:BaseDatatype.GetMeta"] || !o1["call:json.Marshal"] {
						okG = false
					}
				}
			}
		})
	}
	r.Check(okG, "SnapshotDatatype.GetMetaAndSnapshot", u.Pos(g.Pos()), "returns (GetMeta(), json.Marshal(snapshot))", "the export no longer returns the meta of GetMeta and the marshalled live snapshot")
	var setMeta, unm *ssa.Call
	for _, c := range callsNamed(s, "SetMeta") {
		setMeta, _ = c.(*ssa.Call)
	}
	for _, c := range callsIn(s) {
		if f := staticCallee(c); f != nil && f.Name() == "Unmarshal" && f.Pkg.Pkg.Path() == "encoding/json" {
			unm, _ = c.(*ssa.Call)
		}
	}
	okS := setMeta != nil && unm != nil
	if okS {
		okS = canonName(setMeta.Call.Args[len(setMeta.Call.Args)-1]) == "$1" && canonName(unm.Call.Args[0]) == "$2" &&
			(origins(unm.Call.Args[1])["invoke:GetSnapshot"] || origins(unm.Call.Args[1])["call:SnapshotDatatype.GetSnapshot"] || origins(unm.Call.Args[1])["field:SnapshotDatatype.Snapshot"])
		for _, c := range []*ssa.Call{setMeta, unm} {
			if ok, _ := errorEdgeReturns(s, errResult(c)); !ok {
				okS = false
			}
		}
	}
	r.Check(okS, "SnapshotDatatype.SetMetaAndSnapshot", u.Pos(s.Pos()), "SetMeta(meta) and json.Unmarshal(snap, live snapshot), errors returned", "the import does not restore both halves from its two arguments with their errors propagated")
	rb := u.Fn(pDatatypes, "TransactionDatatype", "Rollback")
	r.Check(rb != nil && len(callsNamed(rb, "SetMetaAndSnapshot")) > 0, "TransactionDatatype.Rollback/uses SetMetaAndSnapshot", "", "restores through the pair", "Rollback does not restore through SetMetaAndSnapshot")
	if us, ok := w.unis["server"]; ok {
		gl := us.Fn(pSnapshot, "Manager", "GetLatestDatatype")
		r.Check(gl != nil && len(callsNamed(gl, "SetMetaAndSnapshot")) > 0, "snapshot.Manager.GetLatestDatatype/uses SetMetaAndSnapshot", "", "rebuilds through the pair", "the server rebuild does not restore through SetMetaAndSnapshot")
	}
}

var _ = ast.Inspect

// R10.5 the restore and capture functions perform every rebuilding action
type action struct {
	kind  string // "store" | "mapupdate" | "call"
	what  string // address suffix / map field / callee name
	val   string // substring the stored value's canonical name must contain ("" = any)
	loop  bool   // must be inside a loop
	guard string // substring one literal on every path must contain ("" = none)
	why   string
}

func ruleR10_5(w *World, r *Report) {
	u := w.Client()
	r.Rule("R10.5", "each restore / capture function performs every action the rebuilt state depends on (the per-function counterpart of R10.1, which only knows that some function on the path writes a field)", 25)
	table := []struct {
		recv, fn string
		acts     []action
	}{
		{"listSnapshot", "UnmarshalJSON", []action{
			{"store", ".head", "newHead", false, "", "a fresh head"},
			{"store", ".size", ".Size", false, "", "the stored size"},
			{"store", ".Map", "", false, "", "a fresh identity map"},
			{"mapupdate", "listSnapshot.Map", "", true, "", "every restored node is indexed"},
			{"call", "insertNext", "", true, "", "every restored node is linked in stored order"},
		}},
		{"listSnapshot", "MarshalJSON", []action{
			{"store", ".Size", ".size", false, "", "the size is captured"},
			{"call", "marshal", "", true, "", "every node (tombstones included) is captured"},
			{"call", "getNext", "", true, "", "the raw chain is walked"},
		}},
		{"mapSnapshot", "UnmarshalJSON", []action{
			{"store", ".Map", "", false, "", "a fresh map"},
			{"mapupdate", "mapSnapshot.Map", "", true, "", "every stored entry is restored"},
			{"store", ".Size", ".Size", false, "", "the stored size"},
		}},
		{"mapSnapshot", "MarshalJSON", []action{
			{"store", ".Map", "$0.Map", false, "", "all entries (tombstones included) are captured"},
			{"store", ".Size", "$0.Size", false, "", "the live-key count is captured as it is"},
		}},
		{"counterSnapshot", "UnmarshalJSON", []action{{"store", ".Value", ".Counter", false, "", "the stored value"}}},
		{"counterSnapshot", "MarshalJSON", []action{{"store", ".Counter", ".Value", false, "", "the value is captured"}}},
		{"jsonArray", "unmarshal", []action{
			{"mapupdate", "listSnapshot.Map", "", true, "", "every restored node is indexed"},
			{"call", "insertNext", "", true, "", "every restored node is linked in stored order"},
			{"store", ".size", ".S", false, "", "the stored size"},
			{"call", "findJSONType", "", true, "", "nodes point at the rebuilt JSON values"},
		}},
		{"jsonArray", "marshal", []action{
			{"store", ".S", ".size", false, "", "the size is captured"},
			{"call", "getNext", "", true, "", "the raw chain (tombstones included) is captured"},
			{"store", ".T", "\"A\"", false, "", "the node is tagged as an array"},
			{"store", ".A", "", false, "", "the array part is attached"},
			{"store", ".N", "append(", true, "", "every node is appended"},
		}},
		{"jsonObject", "unmarshal", []action{
			{"mapupdate", "mapSnapshot.Map", "", true, "", "every key is restored"},
			{"store", ".Size", ".S", false, "", "the stored size"},
		}},
		{"jsonObject", "marshal", []action{
			{"store", ".S", ".Size", false, "", "the size is captured"},
			{"mapupdate", "", "getCreateTime", true, "", "every key is captured with the identity of its value"},
			{"store", ".T", "\"O\"", false, "", "the node is tagged as an object"},
			{"store", ".O", "", false, "", "the object part is attached"},
		}},
		{"jsonObject", "UnmarshalJSON", []action{
			{"call", "unmarshalAsJSONType", "", true, "", "every stored node is rebuilt"},
			{"call", "addToNodeMap", "", true, "", "every rebuilt node is registered"},
			{"call", "setParent", "", true, ".P != nil", "parents are re-linked"},
			{"call", "unmarshal", "", true, "", "type-dependent state is restored"},
			{"call", "addToCemetery", "", true, "isTomb(", "tombstones are put back into the cemetery"},
			{"store", ".jsonType", "complit", true, "", "the root object takes over the stored root node"},
			{"call", "findJSONType", "", true, "", "nodes are resolved through the rebuilt node map"},
		}},
		{"jsonObject", "MarshalJSON", []action{{"call", "marshal", "", true, "", "every node of the node map is captured"}}},
		{"jsonPrimitive", "marshal", []action{
			{"store", ".P", "getCreateTime", false, "", "the parent link is captured"},
			{"store", ".C", "$0.C", false, "", "the creation time is captured"},
			{"store", ".D", "$0.D", false, "", "the deletion time is captured"},
		}},
		{"jsonElement", "marshal", []action{{"store", ".E", "", false, "", "the value is captured"}, {"store", ".T", "\"E\"", false, "", "the node is tagged as an element"}}},
		{"jsonElement", "unmarshal", []action{{"store", ".V", ".E", false, "", "the value is restored"}}},
	}
	for _, t := range table {
		fn := u.Fn(pOrda, t.recv, t.fn)
		if fn == nil {
			r.Lost(t.recv + "." + t.fn)
			continue
		}
		for _, a := range t.acts {
			cons := t.recv + "." + t.fn + "/" + a.kind + " " + a.what
			if a.val != "" {
				cons += " <- " + a.val
			}
			found := false
			d := deepOfDepth(fn, 2)
			d.each(func(x dins) {
				if found {
					return
				}
				ok := false
				switch y := x.in.(type) {
				case *ssa.Store:
					ok = a.kind == "store" && strings.HasSuffix(d.name(x.n, y.Addr), a.what) && (a.val == "" || strings.Contains(d.name(x.n, y.Val), a.val))
				case *ssa.MapUpdate:
					ok = a.kind == "mapupdate" && (a.what == "" || mapFieldOf(y.Map) == a.what) && (a.val == "" || strings.Contains(d.name(x.n, y.Value), a.val))
				case ssa.CallInstruction:
					ok = a.kind == "call" && calleeName(y) == a.what
				}
				if !ok || (a.loop && !d.inLoop(x)) {
					return
				}
				if a.guard != "" {
					ps, _ := d.paths(x, nil)
					if !allLitPathsContain(ps, a.guard) {
						return
					}
				}
				found = true
			})
			r.Check(found, cons, u.Pos(fn.Pos()), a.why, "missing: "+a.why+" ("+a.kind+" "+a.what+")")
		}
	}
}
