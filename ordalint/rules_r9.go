package main

import (
	"fmt"
	"go/constant"
	"go/token"
	"strings"

	"golang.org/x/tools/go/ssa"
)

// Rules added in round 9.

// R08.6 the client's RPCs fail when the server is unreachable (they do not wait for it)
func ruleR08_6(w *World, r *Report) {
	u := w.Client()
	r.Rule("R08.6", "the sync manager does not ask gRPC to wait for the server (WaitForReady(true)): with it a Sync started while the server is down blocks for ever, holding the client's sync semaphore, instead of returning an error", 1)
	n := 0
	for _, fn := range u.ordaFuncs(func(p string) bool { return p == pCManagers }) {
		for _, c := range ownCallsIn(fn) {
			cal := staticCallee(c)
			if cal != nil && cal.Pkg != nil && strings.HasSuffix(cal.Pkg.Pkg.Path(), "google.golang.org/grpc") && cal.Name() == "WaitForReady" {
				n++
				k, isK := c.Common().Args[0].(*ssa.Const)
				waits := !isK || k.Value == nil || k.Value.Kind() != constant.Bool || constant.BoolVal(k.Value)
				r.Check(!waits, fnName(fn)+"/WaitForReady", u.Pos(c.Pos()), "fail fast", "the RPC is made with WaitForReady(true): while the server is unreachable the call never returns, and the client's Sync hangs with the sync semaphore held")
			}
		}
	}
	fn := u.Fn(pCManagers, "SyncManager", "Sync")
	if fn == nil {
		r.Lost("SyncManager.Sync")
		return
	}
	if n == 0 {
		r.OK("SyncManager.Sync/WaitForReady", u.Pos(fn.Pos()), "no wait-for-ready call option")
	}
}

// R16.14 the collector of ProcessPushPull waits for every handler and never waits for nothing
func ruleR16_14(w *World, r *Report) {
	u := w.Server()
	if u == nil {
		return
	}
	r.Rule("R16.14", "ProcessPushPull receives the answer of every handler it started (it does not give up on the request's context: a handler answers over an unbuffered channel and releases the datatype lock only after that send), and selects only while answers are outstanding (a select over no channel blocks for ever)", 2)
	fn := u.Fn(pService, "OrdaService", "ProcessPushPull")
	if fn == nil {
		r.Lost("OrdaService.ProcessPushPull")
		return
	}
	bad := ""
	forEachInstr(fn, func(in ssa.Instruction) {
		if c, ok := in.(ssa.CallInstruction); ok && c.Common().IsInvoke() && c.Common().Method.Name() == "Done" {
			bad = u.Pos(in.Pos())
		}
	})
	r.Check(bad == "", "ProcessPushPull/waits for every handler", u.Pos(fn.Pos()), "no wait on the request's context", "the collector also waits for the request's context (at "+bad+"): when the caller gives up, the handlers still running block for ever on their send with the datatype lock held, and every later push-pull of those datatypes is refused")
	n := 0
	for _, c := range callsIn(fn) {
		cal := staticCallee(c)
		if cal == nil || cal.Pkg == nil || cal.Pkg.Pkg.Path() != "reflect" || cal.Name() != "Select" {
			continue
		}
		n++
		paths, ok := pathLinCmps(fn, c.(ssa.Instruction), nil)
		good := ok && len(paths) > 0
		for _, p := range paths {
			g := false
			for _, l := range p {
				// "remaining > 0" in one of its forms: a positive count of outstanding answers
				if strings.HasSuffix(l, " < 0") && strings.HasPrefix(l, "-") && !strings.Contains(l[1:], "+") && !strings.Contains(l[1:], "-") {
					g = true
				}
				if strings.HasSuffix(l, "+1 <= 0") && strings.HasPrefix(l, "-") {
					g = true
				}
			}
			good = good && g
		}
		r.Check(good, "ProcessPushPull/select only while answers are outstanding", u.Pos(c.Pos()), "under remaining > 0", fmt.Sprintf("reflect.Select is reached under %v, without a test that an answer is outstanding: a request without packs (what Sync sends before a client has datatypes) blocks for ever in a select over no channel", paths))
	}
	if n == 0 {
		r.Lost("ProcessPushPull: reflect.Select")
	}
}

// R09.15 every operation of a committed unit is buffered for push
func ruleR09_15(w *World, r *Report) {
	u := w.Client()
	r.Rule("R09.15", "WiredDatatype.DeliverTransaction appends every operation of the unit to the local buffer whatever the unit looks like: no exit lies before the loop over the unit (a header-only unit has consumed a sequence number too)", 1)
	fn := u.Fn(pDatatypes, "WiredDatatype", "DeliverTransaction")
	if fn == nil {
		r.Lost("WiredDatatype.DeliverTransaction")
		return
	}
	var app ssa.Instruction
	for _, st := range storesTo(fn, ".localBuffer") {
		app = st
	}
	if app == nil {
		r.Lost("DeliverTransaction: the append to localBuffer")
		return
	}
	// the loop header that leads to the append: the nearest dominating block that ends in an If and lies on a cycle
	var header *ssa.BasicBlock
	for b := app.Block(); b != nil; b = b.Idom() {
		if inLoop(b) && len(b.Instrs) > 0 {
			if _, isIf := b.Instrs[len(b.Instrs)-1].(*ssa.If); isIf {
				header = b
			}
		}
	}
	bad := ""
	if header == nil {
		bad = "the append is not in a loop over the unit"
	} else {
		forEachOwnInstr(fn, func(in ssa.Instruction) {
			if ret, ok := in.(*ssa.Return); ok && !header.Dominates(ret.Block()) {
				bad = "the exit at " + u.Pos(ret.Pos()) + " lies before the loop"
			}
		})
		// and nothing but the loop's own test decides whether the body runs
		paths, _ := reachingLitsOwn(fn, nil, header.Instrs[len(header.Instrs)-1])
		for _, p := range paths {
			for _, l := range p {
				if !isRangeLoopLit(l) {
					bad = "the loop is entered only under " + litsString([]Lit{l})
				}
			}
		}
	}
	r.Check(bad == "", "DeliverTransaction/every operation buffered", u.Pos(app.Pos()), "the loop over the unit is reached on every path", bad+": a committed unit that is not buffered leaves a hole in the sequence numbers of the pending operations, and the server refuses every later push of this replica (missing operations)")
}

// R13.9 the client API asks for what its name says
func ruleR13_9(w *World, r *Report) {
	u := w.Client()
	r.Rule("R13.9", "CreateX, SubscribeX and SubscribeOrCreateX of the client pass the state DUE_TO_CREATE, DUE_TO_SUBSCRIBE and DUE_TO_SUBSCRIBE_CREATE (the option bits of the first push-pull are derived from it)", 12)
	want := map[string]int64{"Create": 0, "Subscribe": 1, "SubscribeOrCreate": 2}
	for _, dt := range []string{"Counter", "Map", "List", "Document"} {
		for _, pre := range []string{"Create", "Subscribe", "SubscribeOrCreate"} {
			name := pre + dt
			fn := u.Fn(pOrda, "clientImpl", name)
			if fn == nil {
				r.Lost("clientImpl." + name)
				continue
			}
			good, got := false, "no call that is handed a state"
			for _, c := range ownCallsIn(fn) {
				for _, a := range c.Common().Args {
					if nn := namedOf(a.Type()); nn != nil && nn.Obj().Name() == "StateOfDatatype" {
						if k, ok := constInt(a); ok {
							got = fmt.Sprint(k)
							good = k == want[pre]
						} else {
							got = exprName(a)
						}
					}
				}
			}
			r.Check(good, "clientImpl."+name+"/requested state", u.Pos(fn.Pos()), "state "+got, fmt.Sprintf("%s asks for state %s, expected %d: the first push-pull carries the wrong option bits (a SubscribeOrCreate that only creates is refused with a duplicate key as soon as the key exists)", name, got, want[pre]))
		}
	}
}

// R14.9 the JSON view of an empty container is an empty container, not null
func ruleR14_9(w *World, r *Report) {
	u := w.Client()
	r.Rule("R14.9", "the ToJSON of a list, a JSON array, a map and a JSON object starts from an allocated (empty) container, never from nil: an empty array reads back as [] and not as null (the stored user document, the REST answer and the base of the next PatchByJSON diff are made from it)", 4)
	for _, sp := range [][2]string{{"listSnapshot", "ToJSON"}, {"jsonArray", "ToJSON"}, {"mapSnapshot", "ToJSON"}, {"jsonObject", "ToJSON"}} {
		fn := u.Fn(pOrda, sp[0], sp[1])
		if fn == nil {
			r.Lost(sp[0] + "." + sp[1])
			continue
		}
		bad := ""
		n := 0
		forEachInstr(fn, func(in ssa.Instruction) {
			ret, ok := in.(*ssa.Return)
			if !ok || ret.Parent() != fn || len(ret.Results) != 1 {
				return
			}
			for _, v := range resolvePhis(stripIface(ret.Results[0])) {
				v = stripIface(v)
				n++
				// follow the container through appends and loop phis down to where it starts
				seen := map[ssa.Value]bool{}
				var walk func(x ssa.Value, d int)
				walk = func(x ssa.Value, d int) {
					x = stripIface(x)
					if seen[x] || d > 12 {
						return
					}
					seen[x] = true
					switch y := x.(type) {
					case *ssa.Phi:
						for _, e := range y.Edges {
							walk(e, d+1)
						}
					case *ssa.Call:
						if b, isB := y.Call.Value.(*ssa.Builtin); isB && b.Name() == "append" {
							walk(y.Call.Args[0], d+1)
						}
					case *ssa.Const:
						if y.Value == nil {
							bad = "nil"
						}
					}
				}
				walk(v, 0)
			}
		})
		r.Check(bad == "" && n > 0, sp[0]+"."+sp[1]+"/starts from an empty container", u.Pos(fn.Pos()), "allocated", "the container returned by "+sp[0]+"."+sp[1]+" starts from nil: when it has no live member the JSON view is null instead of [] / {} - the user document in MongoDB, the answer of the REST patch and the diff base of the next PatchByJSON carry null where the replicas hold an empty container")
	}
}

// R17.13 the server-side replica is built on a client of its own, and the collection document goes last
func ruleR17_13(w *World, r *Report) {
	u := w.Server()
	if u == nil {
		return
	}
	r.Rule("R17.13", "GetLatestDatatype builds the server-side replica on a client created for this call (a shared client keys its datatypes by key only, so colA/k would be handed out for colB/k); a reset removes the collection document only after the purges of its datatypes and clients", 2)
	if fn := u.Fn(pSnapshot, "Manager", "GetLatestDatatype"); fn == nil {
		r.Lost("snapshot.Manager.GetLatestDatatype")
	} else {
		n := 0
		for _, c := range callsNamed(fn, "CreateDatatype", "SubscribeOrCreateDatatype", "SubscribeDatatype") {
			n++
			recv, _ := recvAndArgs(c)
			good, why := recv != nil, "?"
			if recv != nil {
				for _, v := range resolvePhis(throughHelperParam(recv)) {
					call, ok := stripIface(v).(*ssa.Call)
					if !ok || calleeName(call) != "NewClient" {
						good, why = false, exprName(v)
					}
				}
			}
			r.Check(good, "GetLatestDatatype/client of the replica", u.Pos(c.Pos()), "created by NewClient in this call", "the server-side replica is created on a client that outlives the call ("+why+"): the client's registry is keyed by the datatype key alone, so the replica built for one collection is handed out for the same key of another collection, and a REST patch there is applied to - and pushed with the DUID of - the foreign datatype")
		}
		if n == 0 {
			r.Lost("GetLatestDatatype: creation of the replica")
		}
	}
	if fn := u.Fn(pMongo, "MongoCollections", "purgeAllDocumentsOfCollectionNum"); fn == nil {
		r.Lost("MongoCollections.purgeAllDocumentsOfCollectionNum")
	} else {
		var del ssa.Instruction
		for _, c := range callsNamed(fn, "DeleteOne", "DeleteMany") {
			recv := c.Common().Args[0]
			if strings.HasSuffix(canonName(recv), ".collections") {
				del = c.(ssa.Instruction)
			}
		}
		purges := callsNamed(fn, "purgeAllCollectionDatatypes", "purgeAllCollectionClients")
		if del == nil || len(purges) < 2 {
			// a refactoring may have inlined the purges: then there is nothing to order here
			r.OK("purgeAllDocumentsOfCollectionNum/collection document last", u.Pos(fn.Pos()), "purges not separable")
		} else {
			good := true
			for _, p := range purges {
				if !instrDominates(p.(ssa.Instruction), del) {
					good = false
				}
			}
			r.Check(good, "purgeAllDocumentsOfCollectionNum/collection document last", u.Pos(del.Pos()), "after the purges", "the collection document is removed before the purges of the collection's datatypes and clients: when a purge fails half-way, every retried reset finds no collection any more, purges nothing and reports success - clients and datatypes of the collection are left behind")
		}
	}
}

// R18.9 only the quit message ends the notification loop
func ruleR18_9(w *World, r *Report) {
	u := w.Client()
	r.Rule("R18.9", "the notification loop of a realtime client ends only on the quit message: an error message (a foreign or damaged payload on the topic) is logged and the loop goes on", 1)
	fn := u.Fn(pCManagers, "NotifyManager", "notificationLoop")
	if fn == nil {
		r.Lost("NotifyManager.notificationLoop")
		return
	}
	quit := constOfName(u, pCManagers, "notificationQuit")
	okq := quit >= 0
	n := 0
	forEachInstr(fn, func(in ssa.Instruction) {
		ret, ok := in.(*ssa.Return)
		if !ok {
			return
		}
		n++
		paths, okp := reachingLits(fn, nil, ret)
		good := okp && okq && len(paths) > 0
		for _, p := range paths {
			g := false
			for _, l := range p {
				if l.Kind != "cmp" || l.Op != token.EQL {
					continue
				}
				for _, side := range []ssa.Value{l.X, l.Y} {
					if k, isK := constInt(side); isK && k == quit {
						g = true
					}
				}
			}
			good = good && g
		}
		r.Check(good, "notificationLoop/ends only on quit", u.Pos(ret.Pos()), "return under typeOf == notificationQuit", "the notification loop returns on a path that is not the quit message: after one foreign or damaged message on a subscribed topic the client no longer reacts to notifications and stops converging by itself")
	})
	if n == 0 {
		r.OK("notificationLoop/ends only on quit", u.Pos(fn.Pos()), "the loop never returns")
	}
}

// R19.9 the marker of an absent document survives the constructor
func ruleR19_9(w *World, r *Report) {
	u := w.Server()
	if u == nil {
		return
	}
	r.Rule("R19.9", "schema.NewDatatypeDoc stores the DUID it is given unchanged: PatchDocument marks an absent document with the empty DUID, and GetLatestDatatype keeps the creation snapshot of the replica only for that marker", 1)
	fn := u.Fn(ordaPrefix+"/server/schema", "", "NewDatatypeDoc")
	if fn == nil {
		r.Lost("schema.NewDatatypeDoc")
		return
	}
	sts := storesTo(fn, ".DUID")
	good := len(sts) >= 1
	for _, st := range sts {
		if st.Val != ssa.Value(fn.Params[0]) {
			good = false
		}
	}
	r.Check(good, "NewDatatypeDoc/DUID as given", u.Pos(fn.Pos()), "DUID = duid", "the constructor does not store the DUID it is given (it invents one for the empty DUID): the REST patch of an absent key is then taken for an existing datatype, the creation snapshot of the replica is dropped, and no client can ever subscribe to the document (subscribe without SnapshotOp)")
}

// R20.6 a call joins the running transaction only with that transaction's context
func ruleR20_6(w *World, r *Report) {
	u := w.Client()
	r.Rule("R20.6", "BeginTransaction returns without taking the lock only when the caller presents the context of the running transaction (its.txCtx == txCtx): a context-less call (a remote operation delivered by another goroutine) waits for the lock", 1)
	fn := u.Fn(pDatatypes, "TransactionDatatype", "BeginTransaction")
	if fn == nil {
		r.Lost("TransactionDatatype.BeginTransaction")
		return
	}
	var lock ssa.Instruction
	lc := newLockCtx(u, w.Thorough)
	for _, c := range callsIn(fn) {
		if lc.acquiring(c) && lock == nil {
			lock = c.(ssa.Instruction)
		}
	}
	n := 0
	forEachInstr(fn, func(in ssa.Instruction) {
		ret, ok := in.(*ssa.Return)
		if !ok || ret.Parent() != fn {
			return
		}
		if lock != nil && reachableFrom(lock, ret) && instrDominates(lock, ret) {
			return // an exit with the lock taken
		}
		n++
		paths, okp := reachingLits(fn, nil, ret)
		good := okp && len(paths) > 0
		for _, p := range paths {
			g := false
			for _, l := range p {
				if l.Kind == "cmp" && l.Op == token.EQL {
					x, y := canonName(loadSource(l.X)), canonName(loadSource(l.Y))
					if (strings.HasSuffix(x, ".txCtx") && y == "$2") || (strings.HasSuffix(y, ".txCtx") && x == "$2") {
						g = true
					}
				}
			}
			// ... and nothing weaker next to it (an alternative such as txCtx == nil)
			for _, l := range p {
				if l.Kind == "cmp" && l.Op == token.EQL {
					for _, side := range []ssa.Value{l.X, l.Y} {
						if k, isK := side.(*ssa.Const); isK && k.Value == nil && !g {
							g = false
						}
					}
				}
			}
			good = good && g
		}
		r.Check(good, "BeginTransaction/joins only with the running context", u.Pos(ret.Pos()), "its.txCtx == txCtx on every lock-free exit", "BeginTransaction returns without the lock on a path that did not establish its.txCtx == txCtx: a call without the running transaction's context (a remote operation applied by the sync goroutine) joins a local transaction that is under way - it is rolled back with it when the transaction fails and pushed as part of it when it succeeds")
	})
	if n == 0 {
		r.Lost("BeginTransaction: the lock-free exit for calls inside the running transaction")
	}
}
