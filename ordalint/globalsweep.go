package main

import (
	"encoding/json"
	"fmt"
	"go/ast"
	"os"
	"reflect"
	"runtime"
	"runtime/debug"
	"sort"
	"strconv"
	"strings"
	"sync"
)

// Global sweep (development aid, `-global-sweep out.json`): every single-edit variant of every
// function in which any rule of any property bound an obligation is analysed with the rules of
// ALL properties. Variants that no rule reports are the analyser's blind spots; the list is
// material for reading (does the edit break a property? then a necessary condition is missing),
// never an automatic verdict.

func ruleName(f func(*World, *Report)) string {
	n := runtime.FuncForPC(reflect.ValueOf(f).Pointer()).Name()
	if i := strings.LastIndex(n, "."); i >= 0 {
		n = n[i+1:]
	}
	return n
}

func unionSpec() *propertySpec {
	seen := map[string]bool{}
	union := &propertySpec{ID: "ALL", NeedsServer: true}
	var ids []string
	for id := range registry {
		ids = append(ids, id)
	}
	sort.Strings(ids)
	for _, id := range ids {
		for _, rf := range registry[id].Rules {
			n := ruleName(rf)
			if !seen[n] {
				seen[n] = true
				union.Rules = append(union.Rules, rf)
			}
		}
	}
	return union
}

func globalSweep(repo, out string) {
	union := unionSpec()
	w := newWorld(repo, false)
	w.Server()
	r := newReport("ALL")
	for _, rule := range union.Rules {
		resetFlatRoots()
		rule(w, r)
	}
	decls := anchoredDecls(w, r)
	var fds []*ast.FuncDecl
	for fd := range decls {
		fds = append(fds, fd)
	}
	sort.Slice(fds, func(i, j int) bool { return fds[i].Pos() < fds[j].Pos() })
	var all []variant
	for _, fd := range fds {
		all = append(all, variantsOf(decls[fd], fd)...)
	}
	if s := os.Getenv("VERIF_SWEEP_MAX"); s != "" {
		if max, _ := strconv.Atoi(s); max > 0 && len(all) > max {
			step := float64(len(all)) / float64(max)
			var pick []variant
			for i := 0; i < max; i++ {
				pick = append(pick, all[int(float64(i)*step)])
			}
			all = pick
		}
	}
	baseline := map[string]bool{}
	for _, o := range r.Obls {
		if o.Status != "discharged" {
			baseline[o.Rule+"|"+o.Construct] = true
		}
	}
	baselineFile := writeBaselineKeys(baseline)
	defer os.Remove(baselineFile)
	fmt.Fprintf(os.Stderr, "global sweep: %d rules, %d anchored functions, %d variants\n", len(union.Rules), len(fds), len(all))
	type row struct {
		Desc    string `json:"variant"`
		Verdict string `json:"verdict"` // flagged | unflagged | does-not-type-check
		By      string `json:"by,omitempty"`
	}
	rows := make([]row, len(all))
	workers := 6
	if s := os.Getenv("VERIF_SWEEP_WORKERS"); s != "" {
		workers, _ = strconv.Atoi(s)
	}
	var wg sync.WaitGroup
	ch := make(chan int)
	var mu sync.Mutex
	done := 0
	for i := 0; i < workers; i++ {
		wg.Add(1)
		go func() {
			defer wg.Done()
			for k := range ch {
				flagged, compiled, why := runVariantProc(repo, "ALL", all[k], baselineFile)
				rw := row{Desc: all[k].Desc}
				switch {
				case !compiled:
					rw.Verdict = "does-not-type-check"
				case flagged:
					rw.Verdict, rw.By = "flagged", why
				default:
					rw.Verdict = "unflagged"
				}
				rows[k] = rw
				mu.Lock()
				done++
				if done%50 == 0 {
					fmt.Fprintf(os.Stderr, "  %d/%d\n", done, len(all))
				}
				mu.Unlock()
				debug.FreeOSMemory()
			}
		}()
	}
	for k := range all {
		ch <- k
	}
	close(ch)
	wg.Wait()
	nf, nu, nc := 0, 0, 0
	for _, rw := range rows {
		switch rw.Verdict {
		case "flagged":
			nf++
		case "unflagged":
			nu++
		default:
			nc++
		}
	}
	res := map[string]interface{}{"rules": len(union.Rules), "anchored_functions": len(fds), "variants": len(all), "flagged": nf, "unflagged": nu, "not_type_checking": nc, "rows": rows}
	b, _ := json.MarshalIndent(res, "", " ")
	if err := os.WriteFile(out, b, 0o644); err != nil {
		machineryFailure("global sweep: %v", err)
	}
	fmt.Printf("global sweep: %d variants of %d functions under %d rules: %d flagged, %d unflagged, %d do not type-check\n", len(all), len(fds), len(union.Rules), nf, nu, nc)
}
