package main

import (
	"fmt"
	"go/types"
	"regexp"
	"strings"

	"golang.org/x/tools/go/ssa"
)

var reGLD = regexp.MustCompile(`^\$0\.GetLatestDatatype\(\)#([012])`)

// R11.1 version and state come from the same rebuild
func ruleR11_1(w *World, r *Report) {
	u := w.Server()
	r.Rule("R11.1", "UpdateSnapshot stores, as snapshot and as user-visible document, the state (meta, snapshot, JSON view) and the version returned by one and the same GetLatestDatatype call, under the datatype's collection number, id, collection name and key", 2)
	fn := u.Fn(pSnapshot, "Manager", "UpdateSnapshot")
	if fn == nil {
		r.Lost("snapshot.Manager.UpdateSnapshot")
		return
	}
	nGLD := len(callsNamed(fn, "GetLatestDatatype"))
	want := map[string][]string{
		"InsertSnapshot":     {"$0.collectionDoc.Num", "$0.datatypeDoc.DUID", "$0.GetLatestDatatype()#1", "$0.GetLatestDatatype()#0.GetMetaAndSnapshot()#0", "$0.GetLatestDatatype()#0.GetMetaAndSnapshot()#1"},
		"InsertRealSnapshot": {"$0.collectionDoc.Name", "$0.datatypeDoc.UpdatedDatatypeDoc.Key", "$0.GetLatestDatatype()#0.ToJSON()", "$0.GetLatestDatatype()#1"},
	}
	for _, name := range []string{"InsertSnapshot", "InsertRealSnapshot"} {
		cs := callsNamed(fn, name)
		if len(cs) == 0 {
			r.Bad("UpdateSnapshot/"+name, u.Pos(fn.Pos()), "UpdateSnapshot no longer calls "+name)
			continue
		}
		args := cs[0].Common().Args
		var got []string
		for _, a := range args[len(args)-len(want[name]):] {
			got = append(got, canonName(a))
		}
		r.Check(nGLD == 1 && strings.Join(got, " | ") == strings.Join(want[name], " | "), "UpdateSnapshot/"+name+" arguments", u.Pos(cs[0].Pos()), strings.Join(got, ", "),
			fmt.Sprintf("%s is called with (%s); expected (%s) from a single GetLatestDatatype call (%d calls found)", name, strings.Join(got, ", "), strings.Join(want[name], ", "), nGLD))
	}
}

// R11.2 rebuild range and returned version
func ruleR11_2(w *World, r *Report) {
	u := w.Server()
	r.Rule("R11.2", "GetLatestDatatype restores the latest snapshot (sorted by descending version, filtered by collection and datatype id), replays the operations after it and returns as version the server sequence of the last replayed operation (or the snapshot's version when none follows)", 4)
	fn := u.Fn(pSnapshot, "Manager", "GetLatestDatatype")
	if fn == nil {
		r.Lost("snapshot.Manager.GetLatestDatatype")
		return
	}
	ab := rewriter(`\$0\.managers\.Mongo\.MongoCollections\.GetLatestSnapshot\([^#]*\)#0\.Sseq`, "SNAP.Sseq", `\$0\.managers\.Mongo\.MongoCollections\.GetOperations\(.*\)#1\[\{\+len\(.*#1\)-1\}\]`, "LASTOP.Sseq", `phi\(SNAP\.Sseq\|0\)`, "SNAPORZERO")
	var recv *ssa.Call
	for _, c := range callsNamed(fn, "ReceiveRemoteModelOperations") {
		recv, _ = c.(*ssa.Call)
	}
	if recv == nil {
		r.Bad("GetLatestDatatype/replay", u.Pos(fn.Pos()), "the rebuild no longer replays the operations after the snapshot")
		return
	}
	okReplay := strings.Contains(canonName(recv.Call.Args[0]), "GetOperations(") && strings.HasSuffix(canonName(recv.Call.Args[0]), "#0")
	r.Check(okReplay, "GetLatestDatatype/replay", u.Pos(recv.Pos()), "replays the fetched operations", "the replayed list is not the list fetched by GetOperations")
	sawLast := false
	forEachInstr(fn, func(in ssa.Instruction) {
		ret, ok := in.(*ssa.Return)
		if !ok || len(ret.Results) != 3 {
			return
		}
		isErr := true
		for _, e := range resolvePhis(ret.Results[2]) {
			if c, isC := e.(*ssa.Const); isC && c.Value == nil {
				isErr = false
			}
		}
		if isErr {
			return // error returns
		}
		for _, v := range resolvePhis(ret.Results[1]) {
			ver := ab(ab(canonLinear(v).String()))
			cons := "GetLatestDatatype/returned version"
			switch ver {
			case "+0":
				// a new datatype, or an error return merged into the same return statement
			case "+LASTOP.Sseq":
				sawLast = true
				def, _ := v.(ssa.Instruction)
				r.Check(def != nil && instrDominates(recv, def), cons+" after replay", u.Pos(ret.Pos()), ver, "the version of the last replayed operation is computed before the replay")
			case "+SNAPORZERO", "+SNAP.Sseq":
				r.OK(cons+" without later operations", u.Pos(ret.Pos()), ver)
			default:
				r.Bad(cons, u.Pos(ret.Pos()), "the rebuild reports version "+ver+"; expected the server sequence of the last replayed operation, or the snapshot's version when no operation follows it")
			}
		}
	})
	if !sawLast {
		r.Bad("GetLatestDatatype/returned version after replay", u.Pos(fn.Pos()), "after replaying operations the rebuild does not report the server sequence of the last replayed operation")
	}
	key, val, pos, ok := sortSpec(u, pMongo, "MongoCollections", "GetLatestSnapshot")
	if !ok {
		r.Bad("GetLatestSnapshot/sort", "", "the latest-snapshot query has no sort specification")
	} else {
		r.Check(strings.HasPrefix(key, "schema.SnapshotDocFields.Sseq") && val == "-1", "GetLatestSnapshot/sort", u.Pos(pos), key+" desc", fmt.Sprintf("the latest snapshot is selected by %s (%s); expected descending version", key, val))
	}
	if fd, p := u.DeclOf(pMongo, "MongoCollections", "GetLatestSnapshot"); fd != nil {
		cl := filterClauses(p.TypesInfo, fd.Body)
		r.Check(cl["AddFilterEQ:schema.SnapshotDocFields.CollectionNum"] == "collectionNum" && cl["AddFilterEQ:schema.SnapshotDocFields.DUID"] == "duid", "GetLatestSnapshot/filter", u.Pos(fd.Pos()), "collection number and datatype id", fmt.Sprintf("the latest-snapshot query filters %v", cl))
	}
	// the snapshot handed to SetMetaAndSnapshot is the fetched one
	for _, c := range callsNamed(fn, "SetMetaAndSnapshot") {
		a := c.Common().Args
		good := strings.HasSuffix(canonName(a[len(a)-2]), "#0.Meta") && strings.HasSuffix(canonName(a[len(a)-1]), "#0.Snapshot")
		r.Check(good, "GetLatestDatatype/restore", u.Pos(c.Pos()), "restores (Meta, Snapshot) of the fetched document", "the restore does not use the Meta and Snapshot of the fetched snapshot document")
	}
}

// R11.3 the user-visible document records its version
func ruleR11_3(w *World, r *Report) {
	u := w.Server()
	r.Rule("R11.3", "InsertRealSnapshot stores the version parameter under the version key of the document it writes, and replaces the document selected by the id parameter", 1)
	fn := u.Fn(pMongo, "RepositoryMongo", "InsertRealSnapshot")
	if fn == nil {
		r.Lost("RepositoryMongo.InsertRealSnapshot")
		return
	}
	d := deepOfDepth(fn, 1)
	var mu *ssa.MapUpdate
	var mux dins
	d.each(func(x dins) {
		if m, ok := x.in.(*ssa.MapUpdate); ok && strings.Contains(canonName(m.Key), "_orda_ver_") {
			mu, mux = m, x
		}
	})
	var rep, filt ssa.CallInstruction
	for _, c := range callsNamed(fn, "ReplaceOne") {
		rep = c
	}
	for _, c := range callsNamed(fn, "FilterByID") {
		filt = c
	}
	good := mu != nil && rep != nil && filt != nil
	detail := "the version is not stored in the written document, or the document is not replaced by id"
	if good {
		doc := rep.Common().Args[len(rep.Common().Args)-2]
		same := false
		if mux.n == d.root {
			same = exprName(mu.Map) == exprName(doc)
		} else if ex, ok := stripIface(doc).(*ssa.Extract); ok && ex.Index == 0 && ssa.CallInstruction(asCall(ex.Tuple)) == mux.n.site {
			// the helper returns the stamped map on every success return
			same = true
			forEachInstr(mux.n.fn, func(in ssa.Instruction) {
				ret, isRet := in.(*ssa.Return)
				if !isRet || len(ret.Results) < 2 {
					return
				}
				if c, isC := ret.Results[len(ret.Results)-1].(*ssa.Const); !isC || c.Value != nil {
					return
				}
				if exprName(ret.Results[0]) != exprName(mu.Map) {
					same = false
				}
			})
		}
		// the version is written into the map after the user data has been decoded into it: a user
		// key that happens to be the version key must not overwrite the recorded version
		late := true
		for _, un := range d.calls("Unmarshal") {
			if !(d.dominates(un, mux) || (un.n == mux.n && instrDominates(un.in, mux.in))) {
				late = false
			}
		}
		same = same && late
		ver := d.name(mux.n, mu.Value)
		good = ver == "$5" && d.dominates(mux, d.find(rep.(ssa.Instruction))) && canonName(filt.Common().Args[0]) == "$3" && same
		detail = fmt.Sprintf("version value %s, filter %s: expected the sseq parameter stored (after decoding the user data into the map) before ReplaceOne of the same document, filtered by the id parameter", ver, canonName(filt.Common().Args[0]))
	}
	pos := u.Pos(fn.Pos())
	if mu != nil {
		pos = u.Pos(mu.Pos())
	}
	r.Check(good, "InsertRealSnapshot/version", pos, "doc[Ver] = sseq after the data is decoded and before ReplaceOne(FilterByID(id), doc)", detail)
}

// ---------------------------------------------------------------------------------------------
// lock typestate (R11.4, R12.1, R12.2)

func isStorageCall(c ssa.CallInstruction) bool {
	o := calleeObj(c)
	if o == nil || o.Pkg() == nil {
		return false
	}
	switch o.Pkg().Path() {
	case pMongo:
		return true
	case pSnapshot:
		return o.Name() == "GetLatestDatatype" || o.Name() == "UpdateSnapshot"
	}
	return false
}

// lockSection checks one function that calls TryLock directly and owns the critical section.
func lockSection(u *Universe, r *Report, fn *ssa.Function, owner string) {
	var try *ssa.Call
	for _, c := range callsNamed(fn, "TryLock") {
		try, _ = c.(*ssa.Call)
	}
	if try == nil {
		r.Lost(owner + ": TryLock")
		return
	}
	// R*.1 the result is consulted, and the failure edge touches neither storage nor Unlock
	var failSucc, okSucc *ssa.BasicBlock
	for _, b := range fn.Blocks {
		if len(b.Instrs) == 0 {
			continue
		}
		ifi, ok := b.Instrs[len(b.Instrs)-1].(*ssa.If)
		if !ok {
			continue
		}
		l := normLit(condEdge{ifi.Cond, true})
		if l.Kind == "call" && l.Call == try {
			if l.Pol {
				okSucc, failSucc = b.Succs[0], b.Succs[1]
			} else {
				okSucc, failSucc = b.Succs[1], b.Succs[0]
			}
		}
	}
	if failSucc == nil {
		r.Bad(owner+"/lock result consulted", u.Pos(try.Pos()), "the result of TryLock is not tested: the section runs unserialized when the lock could not be taken")
		return
	}
	// everything reachable from the failure edge without passing through the success edge
	bad := ""
	seen := map[*ssa.BasicBlock]bool{}
	var walk func(b *ssa.BasicBlock)
	walk = func(b *ssa.BasicBlock) {
		if seen[b] || b == okSucc {
			return
		}
		seen[b] = true
		for _, in := range b.Instrs {
			if c, ok := in.(ssa.CallInstruction); ok {
				if isStorageCall(c) || calleeName(c) == "Unlock" {
					bad = calleeName(c)
				}
			}
		}
		for _, s := range b.Succs {
			walk(s)
		}
	}
	walk(failSucc)
	retErr := errEdgeWalk(failSucc, func(*ssa.BasicBlock) *ssa.BasicBlock { return nil })
	r.Check(bad == "" && retErr, owner+"/lock result consulted", u.Pos(try.Pos()), "failure edge returns an error without touching storage or the lock",
		"on the failure edge of TryLock the function still reaches "+bad+" (or does not return an error)")
	// every storage call of the function is dominated by the successful TryLock
	for _, c := range callsIn(fn) {
		if !isStorageCall(c) {
			continue
		}
		paths, _ := reachingLits(fn, nil, c.(ssa.Instruction))
		good := len(paths) > 0
		for _, p := range paths {
			held := false
			for _, l := range p {
				if l.Kind == "call" && l.Call == try && l.Pol {
					held = true
				}
			}
			good = good && held
		}
		r.Check(good, owner+"/"+calleeName(c)+" under the lock", u.Pos(c.Pos()), "reached only after a successful TryLock", calleeName(c)+" reads or writes storage on a path that does not hold the lock (before TryLock, or after it failed)")
	}
	// R*.2 release on every exit after a successful acquire: a deferred Unlock at the head of the success edge
	okRel, _ := mustReachFromBlock(okSucc, func(in ssa.Instruction) bool {
		d, ok := in.(*ssa.Defer)
		return ok && calleeName(d) == "Unlock"
	})
	if okRel {
		// and nothing that can fail runs between the acquire and the defer
		for _, in := range okSucc.Instrs {
			if d, ok := in.(*ssa.Defer); ok && calleeName(d) == "Unlock" {
				break
			}
			if c, ok := in.(ssa.CallInstruction); ok && isStorageCall(c) {
				okRel = false
			}
		}
	}
	r.Check(okRel, owner+"/unlock on every exit", u.Pos(try.Pos()), "defer Unlock() right after the successful TryLock", "after a successful TryLock some exit (return or panic) does not release the lock")
}

func ruleR11_4(w *World, r *Report) {
	u := w.Server()
	r.Rule("R11.4", "UpdateSnapshot is a proper critical section: the TryLock result is consulted, the failure edge leaves without touching storage, every storage access is under the lock, and the lock is released on every exit", 3)
	fn := u.Fn(pSnapshot, "Manager", "UpdateSnapshot")
	if fn == nil {
		r.Lost("snapshot.Manager.UpdateSnapshot")
		return
	}
	lockSection(u, r, fn, "snapshot.Manager.UpdateSnapshot")
}

var _ = types.Typ
var _ = reGLD
