package main

import (
	"fmt"
	"go/types"
	"strings"

	"golang.org/x/tools/go/ssa"
)

// Rules added in round 10.

// jsonRoundTrip reports whether fn encodes to JSON and decodes again (directly or through orda functions it calls):
// what it returns is a value as a receiver of the encoded form sees it.
func jsonRoundTrip(fn *ssa.Function, depth int, seen map[*ssa.Function]bool) (marshals, unmarshals bool) {
	if fn == nil || seen[fn] || depth > 3 {
		return
	}
	seen[fn] = true
	for _, c := range callsIn(fn) {
		cal := staticCallee(c)
		if cal == nil || cal.Pkg == nil {
			if c.Common().IsInvoke() && c.Common().Method.Name() == "Decode" && c.Common().Method.Pkg() != nil && c.Common().Method.Pkg().Path() == "encoding/json" {
				unmarshals = true
			}
			continue
		}
		path := cal.Pkg.Pkg.Path()
		switch {
		case path == "encoding/json" && (cal.Name() == "Marshal" || cal.Name() == "MarshalIndent" || cal.Name() == "Encode"):
			marshals = true
		case path == "encoding/json" && (cal.Name() == "Unmarshal" || cal.Name() == "Decode"):
			unmarshals = true
		case isOrda(path):
			m, u := jsonRoundTrip(cal, depth+1, seen)
			marshals, unmarshals = marshals || m, unmarshals || u
		}
	}
	return
}

// rawCallerValue walks v back to where it comes from and returns the name of a parameter of the entry function it
// reaches without passing through a JSON round trip ("" when there is none).
func rawCallerValue(v ssa.Value) string {
	seen := map[ssa.Value]bool{}
	raw := ""
	var walk func(v ssa.Value, depth int)
	walk = func(v ssa.Value, depth int) {
		if v == nil || seen[v] || depth > 40 || raw != "" {
			return
		}
		seen[v] = true
		switch x := v.(type) {
		case *ssa.Parameter:
			if args := helperArgs(x); len(args) > 0 {
				for _, a := range args {
					walk(a, depth+1)
				}
				return
			}
			if x.Parent() != nil && len(x.Parent().Params) > 0 && x.Parent().Params[0] == x && x.Parent().Signature.Recv() != nil {
				return // the receiver is not a value of the caller
			}
			raw = x.Name()
		case *ssa.Call:
			cc := x.Common()
			if vals, ok := helperResults(x, 0); ok && cc.Signature().Results().Len() == 1 {
				for _, e := range vals {
					walk(e, depth+1)
				}
				return
			}
			if f := cc.StaticCallee(); f != nil {
				if m, u := jsonRoundTrip(f, 0, map[*ssa.Function]bool{}); m && u {
					return // from here on the value is in its JSON form
				}
			}
			if cc.IsInvoke() {
				walk(cc.Value, depth+1)
			}
			for _, a := range cc.Args {
				walk(a, depth+1)
			}
		case *ssa.Extract:
			if call, ok := x.Tuple.(*ssa.Call); ok {
				if vals, ok := helperResults(call, x.Index); ok {
					for _, e := range vals {
						walk(e, depth+1)
					}
					return
				}
			}
			walk(x.Tuple, depth+1)
		case *ssa.UnOp:
			walk(x.X, depth+1)
		case *ssa.Phi:
			for _, e := range x.Edges {
				walk(e, depth+1)
			}
		case *ssa.MakeInterface:
			walk(x.X, depth+1)
		case *ssa.ChangeType:
			walk(x.X, depth+1)
		case *ssa.ChangeInterface:
			walk(x.X, depth+1)
		case *ssa.Convert:
			walk(x.X, depth+1)
		case *ssa.TypeAssert:
			walk(x.X, depth+1)
		case *ssa.Slice:
			walk(x.X, depth+1)
		case *ssa.IndexAddr:
			walk(x.X, depth+1)
		case *ssa.Index:
			walk(x.X, depth+1)
		case *ssa.FieldAddr:
			walk(x.X, depth+1)
		case *ssa.Field:
			walk(x.X, depth+1)
		case *ssa.Lookup:
			walk(x.X, depth+1)
		case *ssa.Alloc:
			if refs := x.Referrers(); refs != nil {
				for _, r := range *refs {
					if st, ok := r.(*ssa.Store); ok && st.Addr == x {
						walk(st.Val, depth+1)
					}
					var sub ssa.Value
					switch y := r.(type) {
					case *ssa.IndexAddr:
						if y.X == ssa.Value(x) {
							sub = y
						}
					case *ssa.FieldAddr:
						if y.X == ssa.Value(x) {
							sub = y
						}
					}
					if sub != nil && sub.Referrers() != nil {
						for _, r2 := range *sub.Referrers() {
							if st, ok := r2.(*ssa.Store); ok && st.Addr == sub {
								walk(st.Val, depth+1)
							}
						}
					}
				}
			}
		}
	}
	walk(v, 0)
	return raw
}

// R01.6 the issuing replica builds a Document value from the form the receivers see
func ruleR01_6(w *World, r *Report) {
	u := w.Client()
	r.Rule("R01.6", "the value of every Document operation made by the client API (put into an object, insert into / update in an array) is the JSON form of what the caller passed - encoded and decoded once - and never the caller's Go value: the issuer walks the value to build its nodes and to allocate their identifiers, and the receivers walk the decoded JSON ([]byte, time.Time, embedded structs, float32 have another shape there)", 3)
	ctors := map[string]bool{"NewDocPutInObjOperation": true, "NewDocInsertToArrayOperation": true, "NewDocUpdateInArrayOperation": true}
	found := map[string]bool{}
	for _, fn := range u.ordaFuncs(func(p string) bool { return p == pOrda }) {
		for _, c := range ownCallsIn(fn) {
			cal := staticCallee(c)
			if cal == nil || cal.Pkg == nil || cal.Pkg.Pkg.Path() != pOperations || !ctors[cal.Name()] {
				continue
			}
			args := c.Common().Args
			if len(args) == 0 {
				continue
			}
			root := flatRoot(fn)
			found[cal.Name()] = true
			raw := rawCallerValue(args[len(args)-1])
			if m, um := jsonRoundTrip(cal, 0, map[*ssa.Function]bool{}); m && um {
				raw = "" // the constructor itself brings the value into its JSON form
			}
			r.Check(raw == "", fnName(root)+"/"+strings.TrimPrefix(cal.Name(), "New")+" value in JSON form", u.Pos(c.Pos()), "the value went through a JSON round trip",
				"the operation is made from the caller's value '"+raw+"' as it is: a []byte, a time.Time, an embedded struct or a float32 inside it is walked as another shape on the issuing replica than on the replicas that decode the operation, the two sides build different trees with different node identifiers and never read the same document again")
		}
	}
	for name := range ctors {
		if !found[name] {
			r.Lost("a client API function that makes " + name)
		}
	}
}

// R17.14 a query compares a field with a value of the field's own type
func ruleR17_14(w *World, r *Report) {
	u := w.Server()
	if u == nil {
		return
	}
	r.Rule("R17.14", "every filter clause built from a field table (schema.XDocFields.F) compares that field with a value of the kind the document struct XDoc declares for it (numbers of any width compare by value; a string, a number, a boolean and a date never equal each other), so a clause with the wrong kind matches nothing (a purge that deletes nothing, a lookup that never finds)", 15)
	n := 0
	for _, fn := range u.ordaFuncs(func(p string) bool { return p == pMongo || p == pService || p == pSnapshot }) {
		for _, c := range callsIn(fn) {
			if !strings.HasPrefix(calleeName(c), "AddFilter") {
				continue
			}
			_, args := recvAndArgs(c)
			if len(args) != 2 {
				continue
			}
			load, ok := args[0].(*ssa.UnOp)
			if !ok {
				continue
			}
			fa, ok := load.X.(*ssa.FieldAddr)
			if !ok {
				continue
			}
			g, ok := fa.X.(*ssa.Global)
			if !ok || !strings.HasSuffix(g.Name(), "DocFields") || g.Pkg == nil {
				continue
			}
			tbl, ok := g.Type().(*types.Pointer).Elem().Underlying().(*types.Struct)
			if !ok || fa.Field >= tbl.NumFields() {
				continue
			}
			fname := tbl.Field(fa.Field).Name()
			docObj := g.Pkg.Pkg.Scope().Lookup(strings.TrimSuffix(g.Name(), "Fields"))
			if docObj == nil {
				r.Lost("the document struct of " + g.Name())
				continue
			}
			doc, ok := docObj.Type().Underlying().(*types.Struct)
			if !ok {
				continue
			}
			var ftype types.Type
			for i := 0; i < doc.NumFields(); i++ {
				if doc.Field(i).Name() == fname {
					ftype = doc.Field(i).Type()
				}
			}
			if ftype == nil {
				continue // a name of a nested document: not decided here
			}
			val := args[1]
			if mi, isMI := val.(*ssa.MakeInterface); isMI {
				val = mi.X
			}
			n++
			// BSON numbers of every width compare by value; a string, a number, a boolean and a date never equal each other
			good := types.Identical(val.Type().Underlying(), ftype.Underlying()) || (isNumericType(val.Type()) && isNumericType(ftype))
			r.Check(good, fnName(flatRoot(fn))+"/"+calleeName(c)+"("+strings.TrimSuffix(g.Name(), "Fields")+"."+fname+") value of the field's type", u.Pos(c.Pos()), "the value has the field's type "+ftype.String(),
				"the clause compares "+strings.TrimSuffix(g.Name(), "Fields")+"."+fname+" ("+ftype.String()+") with a value of type "+val.Type().String()+": no stored document matches, the query silently finds or deletes nothing")
		}
	}
	if n < 15 {
		r.Lost(fmt.Sprintf("filter clauses over field tables (found %d)", n))
	}
}

func isNumericType(t types.Type) bool {
	b, ok := t.Underlying().(*types.Basic)
	return ok && b.Info()&types.IsNumeric != 0
}
