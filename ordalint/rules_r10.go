package main

import (
	"fmt"
	"go/token"
	"go/types"
	"strings"

	"golang.org/x/tools/go/ssa"
)

// Rules added in round 10.

// jsonRoundTrip reports whether fn encodes to JSON and decodes again (directly or through orda functions it calls):
// what it returns is a value as a receiver of the encoded form sees it.
func jsonRoundTrip(fn *ssa.Function, depth int, seen map[*ssa.Function]bool) (marshals, unmarshals bool) {
	if fn == nil || seen[fn] || depth > 3 {
		return
	}
	seen[fn] = true
	for _, c := range callsIn(fn) {
		cal := staticCallee(c)
		if cal == nil || cal.Pkg == nil {
			if c.Common().IsInvoke() && c.Common().Method.Name() == "Decode" && c.Common().Method.Pkg() != nil && c.Common().Method.Pkg().Path() == "encoding/json" {
				unmarshals = true
			}
			continue
		}
		path := cal.Pkg.Pkg.Path()
		switch {
		case path == "encoding/json" && (cal.Name() == "Marshal" || cal.Name() == "MarshalIndent" || cal.Name() == "Encode"):
			marshals = true
		case path == "encoding/json" && (cal.Name() == "Unmarshal" || cal.Name() == "Decode"):
			unmarshals = true
		case isOrda(path):
			m, u := jsonRoundTrip(cal, depth+1, seen)
			marshals, unmarshals = marshals || m, unmarshals || u
		}
	}
	return
}

// rawCallerValue walks v back to where it comes from and returns the name of a parameter of the entry function it
// reaches without passing through a JSON round trip ("" when there is none).
func rawCallerValue(v ssa.Value) string { return rawCallerValueIn(v, nil) }

// rawCallerValueIn: as rawCallerValue; with within != nil only within's own parameters count.
func rawCallerValueIn(v ssa.Value, within *ssa.Function) string {
	seen := map[ssa.Value]bool{}
	raw := ""
	var walk func(v ssa.Value, depth int)
	walk = func(v ssa.Value, depth int) {
		if v == nil || seen[v] || depth > 40 || raw != "" {
			return
		}
		seen[v] = true
		switch x := v.(type) {
		case *ssa.Parameter:
			if args := helperArgs(x); len(args) > 0 {
				for _, a := range args {
					walk(a, depth+1)
				}
				return
			}
			if x.Parent() != nil && len(x.Parent().Params) > 0 && x.Parent().Params[0] == x && x.Parent().Signature.Recv() != nil {
				return // the receiver is not a value of the caller
			}
			if within != nil && x.Parent() != within {
				return
			}
			raw = x.Name()
		case *ssa.Call:
			cc := x.Common()
			if vals, ok := helperResults(x, 0); ok && cc.Signature().Results().Len() == 1 {
				for _, e := range vals {
					walk(e, depth+1)
				}
				return
			}
			if f := cc.StaticCallee(); f != nil && f != within {
				if m, u := jsonRoundTrip(f, 0, map[*ssa.Function]bool{}); m && u && rawReturn(f) == "" {
					return // from here on the value is in its JSON form: everything f returns comes out of the decoder
				}
			}
			if cc.IsInvoke() {
				walk(cc.Value, depth+1)
			}
			for _, a := range cc.Args {
				walk(a, depth+1)
			}
		case *ssa.Extract:
			if call, ok := x.Tuple.(*ssa.Call); ok {
				if vals, ok := helperResults(call, x.Index); ok {
					for _, e := range vals {
						walk(e, depth+1)
					}
					return
				}
			}
			walk(x.Tuple, depth+1)
		case *ssa.UnOp:
			walk(x.X, depth+1)
		case *ssa.Phi:
			for _, e := range x.Edges {
				walk(e, depth+1)
			}
		case *ssa.MakeInterface:
			walk(x.X, depth+1)
		case *ssa.ChangeType:
			walk(x.X, depth+1)
		case *ssa.ChangeInterface:
			walk(x.X, depth+1)
		case *ssa.Convert:
			walk(x.X, depth+1)
		case *ssa.TypeAssert:
			walk(x.X, depth+1)
		case *ssa.Slice:
			walk(x.X, depth+1)
		case *ssa.IndexAddr:
			walk(x.X, depth+1)
		case *ssa.Index:
			walk(x.X, depth+1)
		case *ssa.FieldAddr:
			walk(x.X, depth+1)
		case *ssa.Field:
			walk(x.X, depth+1)
		case *ssa.Lookup:
			walk(x.X, depth+1)
		case *ssa.Alloc:
			if refs := x.Referrers(); refs != nil {
				for _, r := range *refs {
					if st, ok := r.(*ssa.Store); ok && st.Addr == x {
						walk(st.Val, depth+1)
					}
					var sub ssa.Value
					switch y := r.(type) {
					case *ssa.IndexAddr:
						if y.X == ssa.Value(x) {
							sub = y
						}
					case *ssa.FieldAddr:
						if y.X == ssa.Value(x) {
							sub = y
						}
					}
					if sub != nil && sub.Referrers() != nil {
						for _, r2 := range *sub.Referrers() {
							if st, ok := r2.(*ssa.Store); ok && st.Addr == sub {
								walk(st.Val, depth+1)
							}
						}
					}
				}
			}
		}
	}
	walk(v, 0)
	return raw
}

// R01.6 the issuing replica builds a Document value from the form the receivers see
func ruleR01_6(w *World, r *Report) {
	u := w.Client()
	r.Rule("R01.6", "the value of every Document operation made by the client API (put into an object, insert into / update in an array) is the JSON form of what the caller passed - encoded and decoded once - and never the caller's Go value: the issuer walks the value to build its nodes and to allocate their identifiers, and the receivers walk the decoded JSON ([]byte, time.Time, embedded structs, float32 have another shape there)", 3)
	ctors := map[string]bool{"NewDocPutInObjOperation": true, "NewDocInsertToArrayOperation": true, "NewDocUpdateInArrayOperation": true}
	found := map[string]bool{}
	for _, fn := range u.ordaFuncs(func(p string) bool { return p == pOrda }) {
		for _, c := range ownCallsIn(fn) {
			cal := staticCallee(c)
			if cal == nil || cal.Pkg == nil || cal.Pkg.Pkg.Path() != pOperations || !ctors[cal.Name()] {
				continue
			}
			args := c.Common().Args
			if len(args) == 0 {
				continue
			}
			root := flatRoot(fn)
			found[cal.Name()] = true
			raw := rawCallerValue(args[len(args)-1])
			if m, um := jsonRoundTrip(cal, 0, map[*ssa.Function]bool{}); m && um {
				raw = "" // the constructor itself brings the value into its JSON form
			}
			r.Check(raw == "", fnName(root)+"/"+strings.TrimPrefix(cal.Name(), "New")+" value in JSON form", u.Pos(c.Pos()), "the value went through a JSON round trip",
				"the operation is made from the caller's value '"+raw+"' as it is: a []byte, a time.Time, an embedded struct or a float32 inside it is walked as another shape on the issuing replica than on the replicas that decode the operation, the two sides build different trees with different node identifiers and never read the same document again")
		}
	}
	for name := range ctors {
		if !found[name] {
			r.Lost("a client API function that makes " + name)
		}
	}
}

// R17.14 a query compares a field with a value of the field's own type
func ruleR17_14(w *World, r *Report) {
	u := w.Server()
	if u == nil {
		return
	}
	r.Rule("R17.14", "every filter clause built from a field table (schema.XDocFields.F) compares that field with a value of the kind the document struct XDoc declares for it (numbers of any width compare by value; a string, a number, a boolean and a date never equal each other), so a clause with the wrong kind matches nothing (a purge that deletes nothing, a lookup that never finds)", 8)
	n := 0
	for _, fn := range u.ordaFuncs(func(p string) bool { return p == pMongo || p == pService || p == pSnapshot }) {
		for _, c := range callsIn(fn) {
			if !strings.HasPrefix(calleeName(c), "AddFilter") {
				continue
			}
			_, args := recvAndArgs(c)
			if len(args) != 2 {
				continue
			}
			load, ok := args[0].(*ssa.UnOp)
			if !ok {
				continue
			}
			fa, ok := load.X.(*ssa.FieldAddr)
			if !ok {
				continue
			}
			g, ok := fa.X.(*ssa.Global)
			if !ok || !strings.HasSuffix(g.Name(), "DocFields") || g.Pkg == nil {
				continue
			}
			tbl, ok := g.Type().(*types.Pointer).Elem().Underlying().(*types.Struct)
			if !ok || fa.Field >= tbl.NumFields() {
				continue
			}
			fname := tbl.Field(fa.Field).Name()
			docObj := g.Pkg.Pkg.Scope().Lookup(strings.TrimSuffix(g.Name(), "Fields"))
			if docObj == nil {
				r.Lost("the document struct of " + g.Name())
				continue
			}
			doc, ok := docObj.Type().Underlying().(*types.Struct)
			if !ok {
				continue
			}
			var ftype types.Type
			for i := 0; i < doc.NumFields(); i++ {
				if doc.Field(i).Name() == fname {
					ftype = doc.Field(i).Type()
				}
			}
			if ftype == nil {
				continue // a name of a nested document: not decided here
			}
			val := args[1]
			if mi, isMI := val.(*ssa.MakeInterface); isMI {
				val = mi.X
			}
			n++
			// BSON numbers of every width compare by value; a string, a number, a boolean and a date never equal each other
			good := types.Identical(val.Type().Underlying(), ftype.Underlying()) || (isNumericType(val.Type()) && isNumericType(ftype))
			r.Check(good, fnName(flatRoot(fn))+"/"+calleeName(c)+"("+strings.TrimSuffix(g.Name(), "Fields")+"."+fname+") value of the field's type", u.Pos(c.Pos()), "the value has the field's type "+ftype.String(),
				"the clause compares "+strings.TrimSuffix(g.Name(), "Fields")+"."+fname+" ("+ftype.String()+") with a value of type "+val.Type().String()+": no stored document matches, the query silently finds or deletes nothing")
		}
	}
	if n < 8 { // 16 of the 21 clauses name their field directly; refactorings move some behind a parameter or a table
		r.Lost(fmt.Sprintf("filter clauses over field tables (found %d)", n))
	}
}

func isNumericType(t types.Type) bool {
	b, ok := t.Underlying().(*types.Basic)
	return ok && b.Info()&types.IsNumeric != 0
}

// R07.6 the received prefix is counted over foreign operations only
func ruleR07_6(w *World, r *Report) {
	u := w.Client()
	r.Rule("R07.6", "excludeDuplicatedOperations cuts the already-received prefix, whose length comes from checkpoint differences that do not count the replica's own operations, from the list that no longer holds the replica's own operations: the list filtered by origin is stored into the pack before the pack's operations are resliced", 1)
	fn := u.Fn(pDatatypes, "WiredDatatype", "excludeDuplicatedOperations")
	if fn == nil {
		r.Lost("WiredDatatype.excludeDuplicatedOperations")
		return
	}
	var filtered []*ssa.Store
	for _, st := range storesTo(fn, ".Operations") {
		if canonName(st.Addr) != "$1.Operations" {
			continue
		}
		if o := origins(st.Val); o.has("builtin:append") {
			filtered = append(filtered, st)
		}
	}
	var slices []*ssa.Slice
	forEachInstr(fn, func(in ssa.Instruction) {
		if sl, ok := in.(*ssa.Slice); ok && canonName(sl.X) == "$1.Operations" {
			slices = append(slices, sl)
		}
	})
	if len(slices) == 0 {
		r.Lost("excludeDuplicatedOperations: reslicing of the pulled operations")
		return
	}
	if len(filtered) == 0 {
		// no filter here: then the log query must leave the requester's operations out
		serverSide := false
		if us := w.Server(); us != nil {
			if fd, _ := us.DeclOf(pMongo, "MongoCollections", "GetOperations"); fd != nil {
				for k := range filterClauses(nil, fd.Body) {
					if strings.Contains(strings.ToLower(k), "cuid") {
						serverSide = true
					}
				}
			}
		}
		r.Check(serverSide, "excludeDuplicatedOperations/prefix counted over foreign operations", u.Pos(slices[0].Pos()), "the pull query leaves the requester's operations out", "the pack's operations are resliced by a count of foreign operations although the replica's own operations were not removed from them first (no list filtered by origin is stored into the pack in this function, and the pull query does not constrain the origin)")
		return
	}
	for _, sl := range slices {
		good := false
		for _, st := range filtered {
			if instrDominatesCross(st, sl) {
				good = true
			}
		}
		r.Check(good, "excludeDuplicatedOperations/prefix counted over foreign operations", u.Pos(sl.Pos()), "the filtered list is stored before the reslicing", "the pack's operations are resliced before the replica's own operations were removed from them: the length of the received prefix is a count of foreign operations (checkpoint differences subtract the own ones), so after a lost response - own operations in the pulled log - the cut falls one foreign operation too late and that operation is never applied")
	}
}

// R12.11 the release of a redis lock does not depend on the request
func ruleR12_11(w *World, r *Report) {
	u := w.Server()
	if u == nil {
		return
	}
	r.Rule("R12.11", "RedisLock releases its redsync mutex without the request's context (Unlock(), or UnlockContext with a context of its own): redis refuses a command on a context that is done, so a release bound to the request would leave the lock taken - until it expires - exactly when the request was cancelled or ran out of time", 2)
	n := 0
	for _, fn := range u.ordaFuncs(func(p string) bool { return p == pSUtils }) {
		root := flatRoot(fn)
		if root == nil || recvNameOfFn(root) != "RedisLock" {
			continue
		}
		for _, c := range ownCallsIn(fn) {
			cal := staticCallee(c)
			if cal == nil || cal.Pkg == nil || !strings.Contains(cal.Pkg.Pkg.Path(), "go-redsync/redsync") {
				continue
			}
			switch cal.Name() {
			case "Unlock":
				n++
				r.OK(fnName(root)+"/release without the request's context", u.Pos(c.Pos()), "Unlock()")
			case "UnlockContext":
				n++
				_, args := recvAndArgs(c)
				bound := len(args) == 0
				if !bound {
					o := origins(args[0])
					bound = o.has("field:RedisLock.ctx") || o.hasPrefix("param:")
				}
				r.Check(!bound, fnName(root)+"/release without the request's context", u.Pos(c.Pos()), "a context of its own", "the redis lock is released with the lock's request context: when that request was cancelled or its deadline passed, redis refuses the delete command, the key stays until it expires (10 s) and every other sync of the datatype fails to lock meanwhile")
			}
		}
	}
	if n < 2 {
		r.Lost(fmt.Sprintf("releases of the redsync mutex in RedisLock (found %d)", n))
	}
}

// R12.12 a configured redis is never replaced by process-local locks
func ruleR12_12(w *World, r *Report) {
	u := w.Server()
	if u == nil {
		return
	}
	r.Rule("R12.12", "redis.New hands out the client without a redsync instance (the one whose GetLock gives process-local locks) only when no redis is configured (conf == nil or no addresses): with a redis configured, several servers share the data, and a server that silently fell back to local locks would not exclude the others", 1)
	fn := u.Fn(pRedis, "", "New")
	if fn == nil || len(fn.Params) < 2 {
		r.Lost("redis.New")
		return
	}
	conf := fn.Params[1]
	n := 0
	forEachOwnInstr(fn, func(in ssa.Instruction) {
		ret, ok := in.(*ssa.Return)
		if !ok || len(ret.Results) != 2 {
			return
		}
		if k, isK := ret.Results[1].(*ssa.Const); !isK || k.Value != nil {
			return // an error is returned
		}
		al, ok := ret.Results[0].(*ssa.Alloc)
		if !ok {
			return
		}
		hasRS := false
		if refs := al.Referrers(); refs != nil {
			for _, rf := range *refs {
				fa, isFA := rf.(*ssa.FieldAddr)
				if !isFA || fieldName(fa.X.Type(), fa.Field) != "Client.rs" || fa.Referrers() == nil {
					continue
				}
				for _, r2 := range *fa.Referrers() {
					if st, isSt := r2.(*ssa.Store); isSt && st.Addr == ssa.Value(fa) {
						if k, isK := st.Val.(*ssa.Const); !isK || k.Value != nil {
							hasRS = true
						}
					}
				}
			}
		}
		if hasRS {
			return
		}
		n++
		paths, okp := reachingLitsOwn(fn, nil, ret)
		good := okp && len(paths) > 0
		for _, p := range paths {
			unconfigured := false
			for _, l := range p {
				if l.Kind != "cmp" || l.Op != token.EQL {
					continue
				}
				x, y := l.X, l.Y
				if k, isK := x.(*ssa.Const); isK && k.Value == nil {
					x, y = y, x
				}
				if k, isK := y.(*ssa.Const); !isK || k.Value != nil {
					continue
				}
				if x == ssa.Value(conf) {
					unconfigured = true
				}
				if un, isUn := x.(*ssa.UnOp); isUn {
					if fa, isFA := un.X.(*ssa.FieldAddr); isFA && fa.X == ssa.Value(conf) && strings.HasSuffix(fieldName(fa.X.Type(), fa.Field), ".Addrs") {
						unconfigured = true
					}
				}
			}
			good = good && unconfigured
		}
		r.Check(good, "redis.New/local locks only without a configured redis", u.Pos(ret.Pos()), "returned only under conf == nil || conf.Addrs == nil", "the client without a redsync instance is also returned although a redis is configured: from then on this server takes process-local locks while the other servers lock in redis, and two servers update the snapshot and the log of one datatype at the same time")
	})
	if n == 0 {
		r.Lost("redis.New: the return of the client without redsync")
	}
}

// R09.17 taking a rollback point is total
func ruleR09_17(w *World, r *Report) {
	u := w.Client()
	r.Rule("R09.17", "ResetTransaction returns without error only after it has stored the snapshot, the meta and the emptied operation list of the new rollback point (no early success: the point taken when a replica subscribes must replace the one taken before, whatever was executed in between)", 3)
	fn := u.Fn(pDatatypes, "TransactionDatatype", "ResetTransaction")
	if fn == nil {
		r.Lost("TransactionDatatype.ResetTransaction")
		return
	}
	for _, field := range []string{"rollbackSnapshot", "rollbackMeta", "rollbackOps"} {
		barrier := map[ssa.Instruction]bool{}
		for _, st := range storesTo(fn, "."+field) {
			barrier[st] = true
		}
		if len(barrier) == 0 {
			r.Lost("ResetTransaction: the store into " + field)
			continue
		}
		bad := ""
		for _, ret := range exitsWithout(fn, barrier) {
			if len(ret.Results) == 1 {
				if k, isK := ret.Results[0].(*ssa.Const); isK && k.Value == nil {
					bad = u.Pos(ret.Pos())
				}
			}
		}
		r.Check(bad == "", "TransactionDatatype.ResetTransaction/"+field+" stored before success", u.Pos(fn.Pos()), "every success exit follows the store", "ResetTransaction returns nil at "+bad+" without storing "+field+": the rollback point keeps what it held before (for a new subscriber the identifiers it had before subscribing), and the next failed transaction restores that")
	}
}

// recoversAndCalls reports whether fn (or a closure it defers) calls recover(), and whether fn calls one of its own
// function-typed parameters (the handler it wraps).
func recoversAndCalls(fn *ssa.Function) (recovers, callsParam bool) {
	if fn == nil {
		return
	}
	for _, f := range withClosures(fn) {
		for _, c := range callsIn(f) {
			if b, ok := c.Common().Value.(*ssa.Builtin); ok && b.Name() == "recover" {
				recovers = true
			}
		}
	}
	// a deferred function or method that calls recover itself
	for _, b := range fn.Blocks {
		for _, in := range b.Instrs {
			if d, ok := in.(*ssa.Defer); ok {
				if df := d.Call.StaticCallee(); df != nil && callsRecover(df, 0) {
					recovers = true
				}
			}
		}
	}
	for _, c := range callsIn(fn) {
		if p, ok := c.Common().Value.(*ssa.Parameter); ok && p.Parent() == fn {
			callsParam = true
		}
	}
	return
}

// R16.15 a panic of a gRPC handler does not end the server
func ruleR16_15(w *World, r *Report) {
	u := w.Server()
	if u == nil {
		return
	}
	r.Rule("R16.15", "the server's gRPC server is created with a unary interceptor that calls the handler under a deferred recover (grpc runs every handler in a goroutine of its own; an unrecovered panic there ends the process, and handlers such as PatchDocument replay stored operations, whose bodies the server never validated)", 1)
	n := 0
	for _, fn := range u.ordaFuncs(func(p string) bool { return strings.HasPrefix(p, ordaPrefix+"/server/") }) {
		for _, c := range callsIn(fn) {
			cal := staticCallee(c)
			if cal == nil || cal.Pkg == nil || cal.Pkg.Pkg.Path() != "google.golang.org/grpc" || cal.Name() != "NewServer" {
				continue
			}
			n++
			good := false
			// the options: a variadic slice whose elements are results of grpc.UnaryInterceptor / ChainUnaryInterceptor
			var opts []ssa.Value
			for _, a := range c.Common().Args {
				opts = append(opts, a)
			}
			seen := map[ssa.Value]bool{}
			var visit func(v ssa.Value, depth int)
			visit = func(v ssa.Value, depth int) {
				if v == nil || seen[v] || depth > 12 {
					return
				}
				seen[v] = true
				switch x := v.(type) {
				case *ssa.Call:
					oc := staticCallee(x)
					if oc != nil && oc.Pkg != nil && oc.Pkg.Pkg.Path() == "google.golang.org/grpc" && (oc.Name() == "UnaryInterceptor" || oc.Name() == "ChainUnaryInterceptor") {
						for _, a := range x.Call.Args {
							visit(a, depth+1)
						}
						return
					}
					if vals, ok := helperResults(x, 0); ok {
						for _, e := range vals {
							visit(e, depth+1)
						}
					}
				case *ssa.MakeClosure:
					if f, ok := x.Fn.(*ssa.Function); ok {
						target := f
						// a bound method value: the wrapper calls the method
						if f.Synthetic != "" {
							for _, cc := range callsIn(f) {
								if m := staticCallee(cc); m != nil {
									target = m
								}
							}
						}
						if rec, calls := recoversAndCalls(target); rec && calls {
							good = true
						}
					}
				case *ssa.Function:
					if rec, calls := recoversAndCalls(x); rec && calls {
						good = true
					}
				case *ssa.Parameter:
					// the interceptor (or the option) handed to a function that creates the server: what its callers pass
					pf := x.Parent()
					idx := -1
					for i, prm := range pf.Params {
						if prm == x {
							idx = i
						}
					}
					for _, g := range u.ordaFuncs(func(p string) bool { return strings.HasPrefix(p, ordaPrefix+"/server/") }) {
						for _, cs := range callsIn(g) {
							if staticCallee(cs) == pf && idx >= 0 && idx < len(cs.Common().Args) {
								visit(cs.Common().Args[idx], depth+1)
							}
						}
					}
				case *ssa.Slice:
					visit(x.X, depth+1)
				case *ssa.Alloc:
					if refs := x.Referrers(); refs != nil {
						for _, rf := range *refs {
							if ia, ok := rf.(*ssa.IndexAddr); ok && ia.Referrers() != nil {
								for _, r2 := range *ia.Referrers() {
									if st, ok := r2.(*ssa.Store); ok && st.Addr == ssa.Value(ia) {
										visit(st.Val, depth+1)
									}
								}
							}
							if st, ok := rf.(*ssa.Store); ok && st.Addr == ssa.Value(x) {
								visit(st.Val, depth+1)
							}
						}
					}
				case *ssa.MakeInterface:
					visit(x.X, depth+1)
				case *ssa.ChangeType:
					visit(x.X, depth+1)
				case *ssa.UnOp:
					visit(x.X, depth+1)
				case *ssa.Phi:
					for _, e := range x.Edges {
						visit(e, depth+1)
					}
				}
			}
			for _, o := range opts {
				visit(o, 0)
			}
			r.Check(good, fnName(flatRoot(fn))+"/gRPC server recovers handler panics", u.Pos(c.Pos()), "a unary interceptor with a deferred recover wraps every handler", "the gRPC server is created without an interceptor that recovers a handler's panic: one request whose handler panics (e.g. PatchDocument of a document whose log holds an operation that cannot be executed) ends the server process for every client")
		}
	}
	if n == 0 {
		r.Lost("the creation of the gRPC server (grpc.NewServer)")
	}
	// the REST gateway reaches the service through that server: a handler registered in-process
	// (Register...HandlerServer) is called by net/http directly and passes no interceptor
	gw := 0
	for _, fn := range u.ordaFuncs(func(p string) bool { return strings.HasPrefix(p, ordaPrefix+"/server/") }) {
		for _, c := range callsIn(fn) {
			nm := calleeName(c)
			if !strings.HasPrefix(nm, "RegisterOrdaServiceHandler") {
				continue
			}
			gw++
			r.Check(nm != "RegisterOrdaServiceHandlerServer", fnName(flatRoot(fn))+"/REST gateway goes through the gRPC server", u.Pos(c.Pos()), "registered from the endpoint (or a client connection)", "the REST gateway calls the service in-process (RegisterOrdaServiceHandlerServer): REST requests bypass the gRPC server and with it the interceptor that recovers a handler's panic - such a request gets no answer (net/http closes the connection)")
		}
	}
	if gw == 0 {
		r.Lost("the registration of the REST gateway (RegisterOrdaServiceHandler...)")
	}
}

// R18.10 a decoded notification is always handed to the loop
func ruleR18_10(w *World, r *Report) {
	u := w.Client()
	r.Rule("R18.10", "the MQTT callback hands every decoded notification to the notification loop with a blocking send (not in a select with a default): a notification that arrives while the loop is busy with an earlier push-pull announces operations that push-pull did not ask for, and nothing else will", 1)
	fn := u.Fn(pCManagers, "NotifyManager", "notificationSubscribeFunc")
	if fn == nil {
		r.Lost("NotifyManager.notificationSubscribeFunc")
		return
	}
	n := 0
	for _, f := range withClosures(fn) {
		forEachInstr(f, func(in ssa.Instruction) {
			switch x := in.(type) {
			case *ssa.Send:
				if strings.HasSuffix(canonName(x.Chan), ".channel") {
					n++
					r.OK("notificationSubscribeFunc/blocking hand-over", u.Pos(x.Pos()), "a plain send")
				}
			case *ssa.Select:
				for _, st := range x.States {
					if st.Dir == types.SendOnly && strings.HasSuffix(canonName(st.Chan), ".channel") {
						n++
						onlyWayOn := x.Blocking
						for _, o := range x.States {
							if o != st && o.Dir != types.RecvOnly { // waiting for a shutdown signal besides is no way past the loop
								onlyWayOn = false
							}
						}
						r.Check(onlyWayOn, "notificationSubscribeFunc/blocking hand-over", u.Pos(x.Pos()), "the send is the only way on", "the notification is sent to the loop in a select that can go another way (default, or another case): when the loop is busy with the push-pull of an earlier notification the new one is dropped, and the operations it announces are not pulled until somebody pushes again")
					}
				}
			}
		})
	}
	if n == 0 {
		r.Lost("notificationSubscribeFunc: the send to the notification loop")
	}
}

// callsRecover: fn, or an orda function it calls (up to depth), calls the builtin recover.
func callsRecover(fn *ssa.Function, depth int) bool {
	if fn == nil || depth < 0 {
		return false
	}
	for _, c := range callsIn(fn) {
		if b, ok := c.Common().Value.(*ssa.Builtin); ok && b.Name() == "recover" {
			return true
		}
	}
	return false
}

// R16.16 every goroutine of the request path recovers
func ruleR16_16(w *World, r *Report) {
	u := w.Server()
	if u == nil {
		return
	}
	r.Rule("R16.16", "every goroutine the server starts while it handles requests (service, snapshot, storage and notification packages) runs under a deferred function that recovers: a panic in a goroutine nobody recovers ends the server process, whatever the interceptor of the gRPC server does", 2)
	n := 0
	for _, fn := range u.ordaFuncs(func(p string) bool { return p == pService || p == pSnapshot || p == pMongo || p == pNotif }) {
		for _, b := range fn.Blocks {
			for _, in := range b.Instrs {
				g, ok := in.(*ssa.Go)
				if !ok {
					continue
				}
				n++
				var started *ssa.Function
				switch v := g.Call.Value.(type) {
				case *ssa.Function:
					started = v
				case *ssa.MakeClosure:
					started, _ = v.Fn.(*ssa.Function)
				}
				if started == nil {
					started = g.Call.StaticCallee()
				}
				good := false
				if started != nil {
					for _, sb := range started.Blocks {
						for _, si := range sb.Instrs {
							d, isDefer := si.(*ssa.Defer)
							if !isDefer {
								continue
							}
							var df *ssa.Function
							switch v := d.Call.Value.(type) {
							case *ssa.Function:
								df = v
							case *ssa.MakeClosure:
								df, _ = v.Fn.(*ssa.Function)
							}
							if df == nil {
								df = d.Call.StaticCallee()
							}
							if callsRecover(df, 0) {
								good = true
							}
							// a deferred function that starts by calling a recovering one does not recover itself:
							// recover() only works in the deferred function proper
						}
					}
				}
				name := "?"
				if started != nil {
					name = fnName(started)
				}
				r.Check(good, fnName(flatRoot(fn))+"/go "+name+" recovers", u.Pos(g.Pos()), "a deferred function of the goroutine calls recover", "the goroutine started here has no deferred recover: a panic in it (e.g. while the server-side replica is rebuilt from stored operations, whose bodies nobody validated) ends the server process")
			}
		}
	}
	if n < 2 {
		r.Lost(fmt.Sprintf("goroutines started on the request path (found %d)", n))
	}
}

// R15.8 a transaction header takes its identifier under the lock, after the join test
func ruleR15_8(w *World, r *Report) {
	u := w.Client()
	r.Rule("R15.8", "BeginTransaction numbers and queues the header operation of a transaction only after it has taken the datatype lock (which it does only when the call does not join a running transaction): an identifier taken before that is consumed by every nested call and never delivered - a hole in the replica's sequence numbers, after which the server refuses every push (missing operations)", 1)
	bt := u.Fn(pDatatypes, "TransactionDatatype", "BeginTransaction")
	if bt == nil {
		r.Lost("TransactionDatatype.BeginTransaction")
		return
	}
	takesLock := func(c ssa.CallInstruction) bool {
		if calleeName(c) == "Lock" {
			return true
		}
		if f := staticCallee(c); f != nil && f.Pkg != nil && isOrda(f.Pkg.Pkg.Path()) {
			for _, c2 := range callsIn(f) {
				if calleeName(c2) == "Lock" {
					return true
				}
			}
		}
		return false
	}
	var lock ssa.Instruction
	for _, c := range callsIn(bt) {
		if takesLock(c) && lock == nil {
			lock = c.(ssa.Instruction)
		}
	}
	if lock == nil {
		r.Lost("BeginTransaction: the acquisition of the datatype lock")
		return
	}
	bad := ""
	for _, c := range callsNamed(bt, "SetNextOpID", "appendOperation", "NewTransactionOperation") {
		if !instrDominates(lock, c.(ssa.Instruction)) {
			bad = calleeName(c)
		}
	}
	for _, a := range bufferAppends(bt) {
		if !instrDominates(lock, a) {
			bad = "the append to the transaction buffer"
		}
	}
	r.Check(bad == "", "BeginTransaction/header numbered under the lock", u.Pos(bt.Pos()), "numbered and queued after the lock is taken", bad+" runs before the datatype lock is taken, i.e. also for a call that only joins the running transaction: that call consumes an identifier that is never delivered, the replica's sequence numbers get a hole and the server refuses every later push of this replica")
}

// reachableFromBlock: block `to` can be reached from block `from` (from itself included).
func reachableFromBlock(from, to *ssa.BasicBlock) bool {
	seen := map[*ssa.BasicBlock]bool{}
	var walk func(b *ssa.BasicBlock) bool
	walk = func(b *ssa.BasicBlock) bool {
		if b == to {
			return true
		}
		if seen[b] {
			return false
		}
		seen[b] = true
		for _, s := range b.Succs {
			if walk(s) {
				return true
			}
		}
		return false
	}
	return walk(from)
}

// ---------------------------------------------------------------------------------------------
// Round 11 (changes aimed at the code the repairs of round 10 touched)

// rawReturn: the first result of fn derives from one of fn's own parameters without passing through the decoder.
func rawReturn(fn *ssa.Function) string {
	raw := ""
	forEachInstr(flatRoot(fn), func(in ssa.Instruction) {
		ret, ok := in.(*ssa.Return)
		if !ok || ret.Parent() != fn || len(ret.Results) == 0 || raw != "" {
			return
		}
		raw = rawCallerValueIn(ret.Results[0], fn)
	})
	return raw
}

// R17.15 the collection counter only grows
func ruleR17_15(w *World, r *Report) {
	u := w.Server()
	if u == nil {
		return
	}
	r.Rule("R17.15", "the counter that hands out collection numbers is written by GetNextCollectionNum alone (its atomic increment): no other function updates, replaces or deletes in that collection - a number 'given back' by a decrement is handed out again while another collection may already hold it, and two collections with one number share everything that is scoped by the number", 1)
	n := 0
	for _, fn := range u.ordaFuncs(func(p string) bool { return p == pMongo }) {
		for _, c := range ownCallsIn(fn) {
			recv, _ := recvAndArgs(c)
			if recv == nil || !origins(recv).has("field:MongoCollections.counters") {
				continue
			}
			n++
			name := calleeName(c)
			writes := strings.Contains(name, "Update") || strings.Contains(name, "Replace") || strings.Contains(name, "Delete") || strings.Contains(name, "Insert") || strings.Contains(name, "Write")
			owner := fnName(flatRoot(fn))
			if !writes {
				r.OK(owner+"/"+name+" on the counter collection", u.Pos(c.Pos()), "a read")
				continue
			}
			r.Check(ownersAllow(fn, func(nm string) bool { return nm == "MongoCollections.GetNextCollectionNum" }), owner+"/"+name+" on the counter collection", u.Pos(c.Pos()), "inside GetNextCollectionNum",
				owner+" writes the counter of the collection numbers: only the atomic increment of GetNextCollectionNum may (a number that is given back or set is handed out a second time)")
		}
	}
	if n == 0 {
		r.Lost("accesses of the counter collection (MongoCollections.counters)")
	}
}

// R12.13 a redis lock object owns its redsync mutex
func ruleR12_13(w *World, r *Report) {
	u := w.Server()
	if u == nil {
		return
	}
	r.Rule("R12.13", "GetRedisLock gives every lock object a redsync mutex of its own (a fresh NewMutex): a redsync mutex remembers the random value of its last acquisition, which is what makes a late Unlock of an expired holder harmless - shared between requests, that Unlock deletes the successor's lock", 1)
	fn := u.Fn(pSUtils, "", "GetRedisLock")
	if fn == nil {
		r.Lost("utils.GetRedisLock")
		return
	}
	n := 0
	for _, st := range storesTo(fn, ".mutex") {
		if !strings.HasSuffix(canonName(st.Addr), ".mutex") {
			continue
		}
		n++
		o := origins(st.Val)
		shared := o.hasPrefix("global:") || o.has("call:Map.Load") || o.has("call:Map.LoadOrStore") || o.hasPrefix("maplookup")
		fresh := false
		for k := range o {
			if strings.HasPrefix(k, "call:") && strings.HasSuffix(k, "NewMutex") {
				fresh = true
			}
		}
		r.Check(fresh && !shared, "GetRedisLock/a mutex of its own", u.Pos(st.Pos()), "rs.NewMutex(...) of this call", "the redsync mutex of the lock object comes from shared state (a package-level map) instead of a NewMutex of this call: two requests for one name share the acquisition value, and the late Unlock of a holder whose lease expired removes the lock its successor holds")
	}
	if n == 0 {
		r.Lost("GetRedisLock: the mutex of the lock object")
	}
}

// R13.10 the registry answers by key and type alone
func ruleR13_10(w *World, r *Report) {
	u := w.Client()
	r.Rule("R13.10", "DatatypeManager.ExistDatatype says 'nothing registered' (nil, nil) only when the key is not in the registry: whatever state the registered datatype is in, a second request for its key gets that datatype (same type) or the refusal (another type) - never a second, unregistered datatype", 1)
	fn := u.Fn(pCManagers, "DatatypeManager", "ExistDatatype")
	if fn == nil {
		r.Lost("DatatypeManager.ExistDatatype")
		return
	}
	n := 0
	bad := ""
	forEachOwnInstr(fn, func(in ssa.Instruction) {
		ret, ok := in.(*ssa.Return)
		if !ok || len(ret.Results) != 2 {
			return
		}
		for _, v := range ret.Results {
			if k, isK := v.(*ssa.Const); !isK || k.Value != nil {
				return
			}
		}
		n++
		paths, okp := reachingLitsOwn(fn, nil, ret)
		if !okp || len(paths) == 0 {
			bad = "undecided paths"
			return
		}
		for _, p := range paths {
			absent := false
			for _, l := range p {
				if l.Kind == "ok" && !l.Pol {
					absent = true
				}
			}
			if !absent {
				bad = litsString(p)
			}
		}
	})
	r.Check(bad == "" && n > 0, "DatatypeManager.ExistDatatype/absent only when not registered", u.Pos(fn.Pos()), "(nil, nil) only under !ok of the registry lookup", "ExistDatatype answers 'nothing registered' under "+bad+": a key that is registered (e.g. still waiting for its first sync) is treated as free, the caller builds a second datatype for it that the manager then refuses to register, and that datatype is never synchronized")
}

// R14.10 a converted container is never nil
func ruleR14_10(w *World, r *Report) {
	u := w.Client()
	r.Rule("R14.10", "ConvertToJSONSupportedValue never returns a slice it built from nil (var s []T; append...): an empty list would come out as nil, which JSON encodes as null, and null is the tombstone of map and list elements on the receiving replicas", 1)
	fn := u.Fn(pTypes, "", "ConvertToJSONSupportedValue")
	if fn == nil {
		r.Lost("types.ConvertToJSONSupportedValue")
		return
	}
	bad := ""
	n := 0
	forEachInstr(fn, func(in ssa.Instruction) {
		ret, ok := in.(*ssa.Return)
		if !ok || ret.Parent() != fn || len(ret.Results) != 1 {
			return
		}
		for _, v := range resolvePhis(stripIface(ret.Results[0])) {
			v = stripIface(v)
			n++
			if _, isSlice := v.Type().Underlying().(*types.Slice); !isSlice {
				continue
			}
			seen := map[ssa.Value]bool{}
			var walk func(x ssa.Value, d int)
			walk = func(x ssa.Value, d int) {
				x = stripIface(x)
				if seen[x] || d > 12 {
					return
				}
				seen[x] = true
				switch y := x.(type) {
				case *ssa.Phi:
					for _, e := range y.Edges {
						walk(e, d+1)
					}
				case *ssa.Call:
					if b, isB := y.Call.Value.(*ssa.Builtin); isB && b.Name() == "append" {
						walk(y.Call.Args[0], d+1)
					}
				case *ssa.Const:
					if y.Value == nil {
						bad = u.Pos(ret.Pos())
					}
				}
			}
			walk(v, 0)
		}
	})
	r.Check(bad == "" && n > 0, "ConvertToJSONSupportedValue/no container built from nil", u.Pos(fn.Pos()), "every returned slice starts allocated (or is the argument)", "the slice returned at "+bad+" starts from nil: an empty list is converted to nil, travels as null and arrives as a tombstone - the key is missing (Map) or the element is dead (List) on every other replica")
}

// marshalsJSON: fn (or an orda function it calls, two levels) calls encoding/json.Marshal.
func marshalsJSON(fn *ssa.Function) bool {
	m, _ := jsonRoundTrip(fn, 1, map[*ssa.Function]bool{})
	return m
}

// R03.18 a Map or List value is known to be encodable before it is applied
func ruleR03_18(w *World, r *Report) {
	u := w.Client()
	r.Rule("R03.18", "Map.Put, List.InsertMany and List.Update make their operation only after a check that encodes the value(s) with encoding/json returned no error: a value JSON cannot express (NaN, an infinity, a channel) would be applied locally and then panic when the operation is encoded for the transaction", 3)
	ctors := map[string]bool{"NewPutOperation": true, "NewInsertOperation": true, "NewUpdateOperation": true}
	n := 0
	for _, fn := range u.ordaFuncs(func(p string) bool { return p == pOrda }) {
		root := flatRoot(fn)
		if rn := recvNameOfFn(root); rn != "ordaMap" && rn != "list" {
			continue
		}
		for _, c := range ownCallsIn(fn) {
			cal := staticCallee(c)
			if cal == nil || cal.Pkg == nil || cal.Pkg.Pkg.Path() != pOperations || !ctors[cal.Name()] {
				continue
			}
			n++
			paths, ok := reachingLitsFlat(root, c.(ssa.Instruction), 0)
			good := ok && len(paths) > 0
			for _, p := range paths {
				checked := false
				for _, l := range p {
					if l.Kind != "cmp" || l.Op != token.EQL {
						continue
					}
					for _, side := range []ssa.Value{l.X, l.Y} {
						if ex := errSourceCall(side); ex != nil {
							if hf := staticCallee(ex); hf != nil && marshalsJSON(hf) {
								checked = true
							}
						}
					}
				}
				good = good && checked
			}
			r.Check(good, fnName(root)+"/"+strings.TrimPrefix(cal.Name(), "New")+" value encodable", u.Pos(c.Pos()), "err == nil of a check that marshals the value", "the operation is made from a value that was never tried against encoding/json: NaN or an infinity (also nested in a slice) is applied to the local state and then panics in the encoder when the transaction is delivered - the call neither returns an error nor leaves the state unchanged")
		}
	}
	if n < 3 {
		r.Lost(fmt.Sprintf("constructors of Map/List value operations in the client API (found %d)", n))
	}
}

// R03.19 the null predicate looks behind pointers
func ruleR03_19(w *World, r *Report) {
	u := w.Client()
	r.Rule("R03.19", "types.IsNullValue follows pointers and interfaces down to the value they lead to (Elem in a loop, or a recursive call) before it asks whether a slice or map is nil: a pointer to a nil slice encodes as null like the nil slice itself", 1)
	fn := u.Fn(pTypes, "", "IsNullValue")
	if fn == nil {
		r.Lost("types.IsNullValue")
		return
	}
	descends := false
	forEachInstr(fn, func(in ssa.Instruction) {
		c, ok := in.(*ssa.Call)
		if !ok {
			return
		}
		if calleeName(c) == "Elem" && inLoop(c.Block()) {
			descends = true
		}
		if staticCallee(c) == fn {
			descends = true
		}
		if f := staticCallee(c); f != nil && f.Pkg != nil && f.Pkg.Pkg.Path() == "reflect" && f.Name() == "Indirect" && inLoop(c.Block()) {
			descends = true
		}
	})
	r.Check(descends, "types.IsNullValue/looks behind pointers", u.Pos(fn.Pos()), "Elem() in a loop or a recursive call", "IsNullValue tests only the value it is handed: a pointer to a nil slice or map (or a pointer to a nil pointer) passes, is held as a live element by the issuing replica and arrives as null - a tombstone - everywhere else")
}

// R13.11 the three places a key lookup must not lose: found by key, adopted on subscribe, told apart by type
func ruleR13_11(w *World, r *Report) {
	r.Rule("R13.11", "a create or subscribe request is classified on the datatype document found by its key (the result of GetDatatypeByKey is what evaluatePushPullCase stores and examines); a granted subscription adopts the datatype's DUID for the handler and for the answer; the client's registry hands out the registered datatype only for the same type and refuses another type", 5)
	if us := w.Server(); us != nil {
		if fn := us.Fn(pService, "PushPullHandler", "evaluatePushPullCase"); fn == nil {
			r.Lost("PushPullHandler.evaluatePushPullCase")
		} else {
			good := false
			for _, st := range storesTo(fn, ".datatypeDoc") {
				if ex, ok := st.Val.(*ssa.Extract); ok && ex.Index == 0 {
					if c, isCall := ex.Tuple.(*ssa.Call); isCall && calleeName(c) == "GetDatatypeByKey" {
						good = true
					}
				}
				if c, isCall := st.Val.(*ssa.Call); isCall && calleeName(c) == "GetDatatypeByKey" {
					good = true
				}
			}
			r.Check(good, "evaluatePushPullCase/classified on the document found by key", us.Pos(fn.Pos()), "its.datatypeDoc = GetDatatypeByKey(...)", "the datatype document found by the request's key is not what evaluatePushPullCase examines: a create for a key that exists is classified as 'nothing matches' and creates a second datatype under the key; a subscribe never finds what it asks for")
		}
		if fn := us.Fn(pService, "PushPullHandler", "subscribeDatatype"); fn == nil {
			r.Lost("PushPullHandler.subscribeDatatype")
		} else {
			adopt := map[string]bool{}
			for _, st := range storesTo(fn, ".DUID") {
				if strings.HasSuffix(canonName(st.Val), "datatypeDoc.DUID") {
					adopt[canonName(st.Addr)] = true
				}
			}
			r.Check(adopt["$0.DUID"], "subscribeDatatype/handler adopts the datatype's DUID", us.Pos(fn.Pos()), "its.DUID = its.datatypeDoc.DUID", "a granted subscription goes on under the DUID the requester made up: nothing is pulled (operations are stored by DUID) and what it pushes later is filed under a DUID no datatype has")
			ans := false
			for k := range adopt {
				if strings.HasSuffix(k, "resPushPullPack.DUID") {
					ans = true
				}
			}
			r.Check(ans, "subscribeDatatype/answer carries the datatype's DUID", us.Pos(fn.Pos()), "its.resPushPullPack.DUID = its.datatypeDoc.DUID", "the answer that grants a subscription does not carry the datatype's DUID: the subscriber keeps its made-up DUID and every later sync names a datatype the server does not know")
		}
	}
	u := w.Client()
	fn := u.Fn(pCManagers, "DatatypeManager", "ExistDatatype")
	if fn == nil || len(fn.Params) < 3 {
		r.Lost("DatatypeManager.ExistDatatype")
		return
	}
	typeOf := ssa.Value(fn.Params[2])
	sameBad, otherBad := "", ""
	nSame, nOther := 0, 0
	forEachOwnInstr(fn, func(in ssa.Instruction) {
		ret, ok := in.(*ssa.Return)
		if !ok || len(ret.Results) != 2 {
			return
		}
		isNil := func(v ssa.Value) bool { k, isK := v.(*ssa.Const); return isK && k.Value == nil }
		hands, refuses := !isNil(ret.Results[0]), isNil(ret.Results[0]) && !isNil(ret.Results[1])
		if !hands && !refuses {
			return
		}
		paths, okp := reachingLitsOwn(fn, nil, ret)
		if !okp || len(paths) == 0 {
			sameBad = "undecided paths"
			return
		}
		for _, p := range paths {
			var op token.Token
			for _, l := range p {
				if l.Kind != "cmp" || (l.Op != token.EQL && l.Op != token.NEQ) {
					continue
				}
				x, y := loadSource(l.X), loadSource(l.Y)
				if (x == typeOf && strings.Contains(canonName(y), "GetType()")) || (y == typeOf && strings.Contains(canonName(x), "GetType()")) {
					op = l.Op
				}
			}
			if hands {
				nSame++
				if op != token.EQL {
					sameBad = litsString(p)
				}
			} else {
				nOther++
				if op != token.NEQ {
					otherBad = litsString(p)
				}
			}
		}
	})
	r.Check(sameBad == "" && nSame > 0, "DatatypeManager.ExistDatatype/registered datatype only for the same type", u.Pos(fn.Pos()), "(data, nil) under GetType() == typeOf", "the registered datatype is handed out under "+sameBad+", not under 'its type is the requested one': a request for another type gets the datatype of the first type (the caller's type assertion then panics or, worse, succeeds on the interface)")
	r.Check(otherBad == "" && nOther > 0, "DatatypeManager.ExistDatatype/another type refused", u.Pos(fn.Pos()), "(nil, error) under GetType() != typeOf", "the refusal is returned under "+otherBad+", not under 'its type differs from the requested one': the same key requested again with the same type is refused, or another type is not")
}
