package main

import (
	"bytes"
	"fmt"
	"go/ast"
	"go/printer"
	"go/token"
	"os"
	"os/exec"
	"path/filepath"
	"reflect"
	"runtime"
	"runtime/debug"
	"sort"
	"strings"
	"sync"
)

// variant is one in-memory edit of one source file of /repo.
type variant struct {
	File string // absolute path
	Desc string
	Src  []byte
}

type sweepResult struct {
	Variants      int      `json:"variants"`
	NotCompiling  int      `json:"variants_not_type_checking"`
	Flagged       int      `json:"flagged"`
	Unflagged     []string `json:"unflagged"`
	FlaggedSample []string `json:"flagged_sample"`
	Functions     int      `json:"anchored_functions"`
	Capped        bool     `json:"capped"`
	Operators     string   `json:"operators"`
}

var cmpFlip = map[token.Token]token.Token{token.LSS: token.GTR, token.GTR: token.LSS, token.LEQ: token.GEQ, token.GEQ: token.LEQ, token.EQL: token.NEQ, token.NEQ: token.EQL}
var cmpRelax = map[token.Token]token.Token{token.LSS: token.LEQ, token.GTR: token.GEQ, token.LEQ: token.LSS, token.GEQ: token.GTR}

// anchoredDecls: the function declarations of /repo in which the report bound obligations.
func anchoredDecls(w *World, r *Report) map[*ast.FuncDecl]*Universe {
	out := map[*ast.FuncDecl]*Universe{}
	type key struct {
		file string
		line int
	}
	want := map[key]bool{}
	for _, o := range r.Obls {
		i := strings.LastIndex(o.Pos, ":")
		if i < 0 {
			continue
		}
		var line int
		fmt.Sscanf(o.Pos[i+1:], "%d", &line)
		want[key{filepath.Join(w.Repo, o.Pos[:i]), line}] = true
	}
	for _, u := range w.unis {
		for _, p := range u.Pkgs {
			for _, f := range p.Syntax {
				fname := u.Fset.Position(f.Pos()).Filename
				if isTestFile(u.Fset, f.Pos()) || isGenerated(u.Fset, f.Pos()) {
					continue
				}
				for _, d := range f.Decls {
					fd, ok := d.(*ast.FuncDecl)
					if !ok || fd.Body == nil {
						continue
					}
					a, b := u.Fset.Position(fd.Pos()).Line, u.Fset.Position(fd.End()).Line
					for k := range want {
						if k.file == fname && a <= k.line && k.line <= b {
							out[fd] = u
						}
					}
				}
			}
		}
	}
	return out
}

func render(fset *token.FileSet, f *ast.File) []byte {
	var buf bytes.Buffer
	_ = printer.Fprint(&buf, fset, f)
	return buf.Bytes()
}

// variantsOf produces the single-edit variants of one function.
func variantsOf(u *Universe, fd *ast.FuncDecl) []variant {
	var file *ast.File
	for _, p := range u.Pkgs {
		for _, f := range p.Syntax {
			if f.Pos() <= fd.Pos() && fd.End() <= f.End() {
				file = f
			}
		}
	}
	if file == nil {
		return nil
	}
	fname := u.Fset.Position(file.Pos()).Filename
	name := fd.Name.Name
	if fd.Recv != nil && len(fd.Recv.List) > 0 {
		name = exprStringAny(fd.Recv.List[0].Type) + "." + name
	}
	var out []variant
	emit := func(desc string, pos token.Pos) {
		out = append(out, variant{File: fname, Desc: fmt.Sprintf("%s:%d %s: %s", filepath.Base(fname), u.Fset.Position(pos).Line, name, desc), Src: render(u.Fset, file)})
	}
	// comparison operators
	ast.Inspect(fd.Body, func(n ast.Node) bool {
		be, ok := n.(*ast.BinaryExpr)
		if !ok {
			return true
		}
		orig := be.Op
		if to, ok := cmpFlip[orig]; ok {
			be.Op = to
			emit(fmt.Sprintf("comparison %s -> %s", orig, to), be.OpPos)
			be.Op = orig
		}
		if to, ok := cmpRelax[orig]; ok {
			be.Op = to
			emit(fmt.Sprintf("comparison %s -> %s", orig, to), be.OpPos)
			be.Op = orig
		}
		if orig == token.LAND {
			be.Op = token.LOR
			emit("&& -> ||", be.OpPos)
			be.Op = orig
		}
		return true
	})
	// statement-level edits inside every block
	ast.Inspect(fd.Body, func(n ast.Node) bool {
		blk, ok := n.(*ast.BlockStmt)
		var list *[]ast.Stmt
		if ok {
			list = &blk.List
		} else if cc, ok := n.(*ast.CaseClause); ok {
			list = &cc.Body
		} else {
			return true
		}
		orig := append([]ast.Stmt(nil), (*list)...)
		for i, s := range orig {
			deletable := false
			switch x := s.(type) {
			case *ast.ExprStmt, *ast.IncDecStmt, *ast.DeferStmt:
				deletable = true
			case *ast.AssignStmt:
				deletable = x.Tok != token.DEFINE
			case *ast.IfStmt:
				deletable = x.Init == nil && x.Else == nil
			}
			if deletable {
				*list = append(append([]ast.Stmt(nil), orig[:i]...), orig[i+1:]...)
				emit("statement deleted: "+stmtKind(s), s.Pos())
				*list = orig
			}
			if i+1 < len(orig) && swappable(orig[i]) && swappable(orig[i+1]) {
				sw := append([]ast.Stmt(nil), orig...)
				sw[i], sw[i+1] = sw[i+1], sw[i]
				*list = sw
				emit("adjacent statements swapped", s.Pos())
				*list = orig
			}
		}
		return true
	})
	return out
}

func swappable(s ast.Stmt) bool {
	switch x := s.(type) {
	case *ast.ExprStmt, *ast.IncDecStmt:
		return true
	case *ast.AssignStmt:
		return x.Tok != token.DEFINE
	}
	return false
}

func stmtKind(s ast.Stmt) string {
	switch x := s.(type) {
	case *ast.ExprStmt:
		if c, ok := x.X.(*ast.CallExpr); ok {
			return "call " + exprStringAny(c.Fun)
		}
		return "expression"
	case *ast.IncDecStmt:
		return exprStringAny(x.X) + x.Tok.String()
	case *ast.AssignStmt:
		return "assignment to " + exprStringAny(x.Lhs[0])
	case *ast.IfStmt:
		return "if " + exprStringAny(x.Cond)
	case *ast.DeferStmt:
		return "defer " + exprStringAny(x.Call.Fun)
	}
	return fmt.Sprintf("%T", s)
}

func exprStringAny(e ast.Expr) string {
	var buf bytes.Buffer
	_ = printer.Fprint(&buf, token.NewFileSet(), e)
	s := buf.String()
	if len(s) > 60 {
		s = s[:60] + "…"
	}
	return strings.ReplaceAll(s, "\n", " ")
}

// sensitivitySweep re-runs the property's rules on in-memory single-edit variants of the
// functions the rules anchor in, and counts how many the rules flag.
func sensitivitySweep(w *World, spec *propertySpec, r *Report, kf *knownFile, seed int, maxVariants int) *sweepResult {
	decls := anchoredDecls(w, r)
	var all []variant
	var fds []*ast.FuncDecl
	for fd := range decls {
		fds = append(fds, fd)
	}
	sort.Slice(fds, func(i, j int) bool { return fds[i].Pos() < fds[j].Pos() })
	for _, fd := range fds {
		all = append(all, variantsOf(decls[fd], fd)...)
	}
	res := &sweepResult{Functions: len(fds), Operators: "comparison flipped / relaxed, && -> ||, one statement deleted (call, assignment, inc/dec, defer, guard-if without else), two adjacent statements swapped"}
	if len(all) > maxVariants {
		// deterministic sample driven by the seed
		res.Capped = true
		step := float64(len(all)) / float64(maxVariants)
		var pick []variant
		for i := 0; i < maxVariants; i++ {
			pick = append(pick, all[(int(float64(i)*step)+seed)%len(all)])
		}
		all = pick
	}
	res.Variants = len(all)
	baseline := map[string]bool{}
	for _, o := range r.Obls {
		if o.Status != "discharged" {
			baseline[o.Rule+"|"+o.Construct] = true
		}
	}
	baselineFile := writeBaselineKeys(baseline)
	defer os.Remove(baselineFile)
	workers := runtime.NumCPU() / 3
	if workers < 1 {
		workers = 1
	}
	if workers > 6 {
		workers = 6
	}
	var mu sync.Mutex
	var wg sync.WaitGroup
	ch := make(chan variant)
	for i := 0; i < workers; i++ {
		wg.Add(1)
		go func() {
			defer wg.Done()
			for v := range ch {
				flagged, compiled, why := runVariantProc(w.Repo, spec.ID, v, baselineFile)
				mu.Lock()
				switch {
				case !compiled:
					res.NotCompiling++
				case flagged:
					res.Flagged++
					if len(res.FlaggedSample) < 40 {
						res.FlaggedSample = append(res.FlaggedSample, v.Desc+"  =>  "+why)
					}
				default:
					res.Unflagged = append(res.Unflagged, v.Desc)
				}
				mu.Unlock()
				debug.FreeOSMemory()
			}
		}()
	}
	for _, v := range all {
		ch <- v
	}
	close(ch)
	wg.Wait()
	sort.Strings(res.Unflagged)
	sort.Strings(res.FlaggedSample)
	_ = os.Stderr
	return res
}

// runVariant analyses one variant; flagged = the rules report something the unchanged tree does not.
func runVariant(repo string, spec *propertySpec, v variant, baseline map[string]bool) (flagged, compiled bool, why string) {
	defer func() {
		if e := recover(); e != nil {
			if e == errVariantDoesNotCompile {
				flagged, compiled = false, false
				return
			}
			// a rule that panics on a variant counts as flagged-by-crash: report it as such
			flagged, compiled, why = true, true, fmt.Sprintf("analyser panic: %v", e)
		}
	}()
	w := newWorld(repo, false)
	w.Overlay = map[string][]byte{v.File: v.Src}
	w.Soft = true
	if spec.NeedsServer {
		w.Server()
	}
	r := newReport(spec.ID)
	ran := map[uintptr]bool{}
	for _, rule := range spec.Rules {
		if p := reflect.ValueOf(rule).Pointer(); ran[p] {
			continue
		} else {
			ran[p] = true
		}
		resetFlatRoots()
		rule(w, r)
	}
	for id, ri := range r.rules {
		if ri.Bound < ri.Floor {
			return true, true, id + ": instance floor missed"
		}
	}
	for _, o := range r.Obls {
		if o.Status != "discharged" && !baseline[o.Rule+"|"+o.Construct] {
			return true, true, o.Rule + " " + o.Construct
		}
	}
	return false, true, ""
}

// The analyser keeps per-run state in package variables (canonical-name mode, substitution
// stack), so variants are analysed in child processes, never in goroutines of one process.

func writeBaselineKeys(baseline map[string]bool) string {
	f, err := os.CreateTemp("", "ordalint-baseline-*.txt")
	if err != nil {
		machineryFailure("sweep: %v", err)
	}
	defer f.Close()
	for k := range baseline {
		fmt.Fprintln(f, k)
	}
	return f.Name()
}

func runVariantProc(repo, specID string, v variant, baselineFile string) (flagged, compiled bool, why string) {
	f, err := os.CreateTemp("", "ordalint-variant-*.go")
	if err != nil {
		machineryFailure("sweep: %v", err)
	}
	f.Write(v.Src)
	f.Close()
	defer os.Remove(f.Name())
	self, _ := os.Executable()
	cmd := exec.Command(self, "-repo", repo, "-property", specID, "-variant-file", v.File, "-variant-src", f.Name(), "-variant-baseline", baselineFile)
	out, _ := cmd.Output()
	line := strings.TrimSpace(string(out))
	if i := strings.LastIndex(line, "\n"); i >= 0 {
		line = line[i+1:]
	}
	switch {
	case strings.HasPrefix(line, "VARIANT nocompile"):
		return false, false, ""
	case strings.HasPrefix(line, "VARIANT unflagged"):
		return false, true, ""
	case strings.HasPrefix(line, "VARIANT flagged"):
		return true, true, strings.TrimSpace(strings.TrimPrefix(line, "VARIANT flagged"))
	}
	// the child died (panic in a rule): counts as flagged-by-crash
	return true, true, "analyser failure on the variant: " + line
}

// variantChild is the entry point of the child process.
func variantChild(repo, specID, file, srcPath, baselinePath string) {
	src, err := os.ReadFile(srcPath)
	if err != nil {
		machineryFailure("variant: %v", err)
	}
	baseline := map[string]bool{}
	if b, err := os.ReadFile(baselinePath); err == nil {
		for _, l := range strings.Split(string(b), "\n") {
			if l != "" {
				baseline[l] = true
			}
		}
	}
	var spec *propertySpec
	if specID == "ALL" {
		spec = unionSpec()
	} else {
		spec = registry[specID]
	}
	if spec == nil {
		machineryFailure("variant: unknown property %q", specID)
	}
	flagged, compiled, why := runVariant(repo, spec, variant{File: file, Src: src}, baseline)
	switch {
	case !compiled:
		fmt.Println("VARIANT nocompile")
	case flagged:
		fmt.Println("VARIANT flagged " + why)
	default:
		fmt.Println("VARIANT unflagged")
	}
}
