package main

import (
	"fmt"
	"go/ast"
	"go/constant"
	"go/token"
	"go/types"
	"sort"
	"strings"

	"golang.org/x/tools/go/ssa"
)

// Rules added after the fourth round of independent changes (DESIGN.md section 14).

// ---------------------------------------------------------------------------------------------
// R08.5 the option bits of a push-pull pack: writer and reader agree, and the accessor aliases the pack

// bitConstOf returns the constant c of "*its |= c" (setter) or of "(*its & c) == c" (tester).
func bitConstOf(fn *ssa.Function) (set bool, val int64, ok bool) {
	if fn == nil || len(fn.Params) == 0 {
		return false, 0, false
	}
	isLoadOfRecv := func(v ssa.Value) bool {
		u, isU := v.(*ssa.UnOp)
		return isU && u.Op == token.MUL && u.X == ssa.Value(fn.Params[0])
	}
	found := false
	forEachOwnInstr(fn, func(in ssa.Instruction) {
		switch x := in.(type) {
		case *ssa.Store:
			if x.Addr != ssa.Value(fn.Params[0]) {
				return
			}
			if b, isB := x.Val.(*ssa.BinOp); isB && b.Op == token.OR {
				l, c := b.X, b.Y
				if _, isC := l.(*ssa.Const); isC {
					l, c = c, l
				}
				if k, isK := constInt(c); isK && isLoadOfRecv(l) {
					set, val, found = true, k, true
				}
			}
		case *ssa.Return:
			if len(x.Results) != 1 {
				return
			}
			eq, isB := x.Results[0].(*ssa.BinOp)
			if !isB || eq.Op != token.EQL {
				return
			}
			and, c2 := eq.X, eq.Y
			if _, isC := and.(*ssa.Const); isC {
				and, c2 = c2, and
			}
			ab, isAnd := and.(*ssa.BinOp)
			k2, isK2 := constInt(c2)
			if !isAnd || ab.Op != token.AND || !isK2 {
				return
			}
			l, c := ab.X, ab.Y
			if _, isC := l.(*ssa.Const); isC {
				l, c = c, l
			}
			if k, isK := constInt(c); isK && isLoadOfRecv(l) && k == k2 {
				set, val, found = false, k, true
			}
		}
	})
	return set, val, found
}

func ruleR08_5(w *World, r *Report) {
	u := w.Client()
	r.Rule("R08.5", "the option bits of a push-pull pack: every Set<X>Bit ORs in, and the matching Has<X> tests, the constant PushPullBit<X>; the constants are distinct single bits; GetPushPullPackOption returns a pointer into the pack (a setter called through it changes the pack that is sent)", 15)
	opt := u.Named(pModel, "PushPullPackOption")
	if opt == nil {
		r.Lost("model.PushPullPackOption")
		return
	}
	consts := map[string]int64{}
	if p := u.Pkgs[pModel]; p != nil {
		for _, n := range p.Types.Scope().Names() {
			if c, ok := p.Types.Scope().Lookup(n).(*types.Const); ok && strings.HasPrefix(n, "PushPullBit") && types.Identical(c.Type(), opt) {
				if v, exact := constant.Int64Val(c.Val()); exact {
					consts[strings.TrimPrefix(n, "PushPullBit")] = v
				}
			}
		}
	}
	seenVal := map[int64]string{}
	var names []string
	for n := range consts {
		names = append(names, n)
	}
	sort.Strings(names)
	for _, n := range names {
		v := consts[n]
		if n == "Normal" {
			r.Check(v == 0, "PushPullBitNormal", "-", "0", "the 'normal' option is not the empty bit set")
			continue
		}
		single := v > 0 && v&(v-1) == 0
		other, dup := seenVal[v]
		seenVal[v] = n
		r.Check(single && !dup, "PushPullBit"+n+"/distinct single bit", "-", fmt.Sprintf("%#x", v), fmt.Sprintf("PushPullBit%s = %#x is not a single bit of its own (shared with %q): two options cannot be told apart", n, v, other))
	}
	ms := types.NewMethodSet(types.NewPointer(opt))
	for _, n := range names {
		if n == "Normal" {
			continue
		}
		var setter, tester *ssa.Function
		for i := 0; i < ms.Len(); i++ {
			f := u.Prog.FuncValue(ms.At(i).Obj().(*types.Func))
			switch ms.At(i).Obj().Name() {
			case "Set" + n + "Bit":
				setter = f
			case "Has" + n + "Bit", "Has" + n:
				tester = f
			}
		}
		for _, role := range []struct {
			f    *ssa.Function
			kind string
			set  bool
		}{{setter, "Set" + n + "Bit", true}, {tester, "Has" + n + "[Bit]", false}} {
			cons := "PushPullPackOption." + role.kind
			if role.f == nil {
				r.Lost(cons)
				continue
			}
			isSet, v, ok := bitConstOf(role.f)
			good := ok && isSet == role.set && v == consts[n]
			verb := map[bool]string{true: "sets", false: "tests"}[role.set]
			r.Check(good, cons, u.Pos(role.f.Pos()), fmt.Sprintf("%s %#x = PushPullBit%s", verb, consts[n], n),
				fmt.Sprintf("%s does not %s the bit PushPullBit%s (%#x) (recognised: %v, constant %#x): the side that writes the option and the side that reads it disagree, e.g. a refused push-pull is not seen as an error and its checkpoint is taken as an acknowledgement", role.kind, strings.TrimSuffix(verb, "s"), n, consts[n], ok, v))
		}
	}
	// the accessor returns a pointer to the pack's own Option field
	get := u.Fn(pModel, "PushPullPack", "GetPushPullPackOption")
	if get == nil {
		r.Lost("PushPullPack.GetPushPullPackOption")
		return
	}
	alias, n := true, 0
	forEachOwnInstr(get, func(in ssa.Instruction) {
		ret, ok := in.(*ssa.Return)
		if !ok || len(ret.Results) != 1 {
			return
		}
		n++
		for _, v := range resolvePhisOwn(ret.Results[0]) {
			for {
				if ct, isCT := v.(*ssa.ChangeType); isCT {
					v = ct.X
					continue
				}
				if cv, isCV := v.(*ssa.Convert); isCV {
					v = cv.X
					continue
				}
				break
			}
			fa, isFA := v.(*ssa.FieldAddr)
			if !isFA || fa.X != ssa.Value(get.Params[0]) || fieldName(fa.X.Type(), fa.Field) != "PushPullPack.Option" {
				alias = false
			}
		}
	})
	r.Check(alias && n > 0, "PushPullPack.GetPushPullPackOption/aliases the pack", u.Pos(get.Pos()), "returns &pack.Option",
		"GetPushPullPackOption does not return a pointer to the pack's own Option field: the server sets the error (or other) bit on a copy, the response leaves without it and the client takes a refused push-pull for a success")
}

// ---------------------------------------------------------------------------------------------
// R09.7 a fresh rollback point has an empty replay list

func ruleR09_7(w *World, r *Report) {
	u := w.Client()
	r.Rule("R09.7", "every function that captures a new rollback point (stores rollbackSnapshot/rollbackMeta) also empties the list of operations to replay (rollbackOps = nil) on every error-free path: operations that are already part of the captured state must not be replayed on top of it", 2)
	n := 0
	for _, fn := range u.ordaFuncs(func(p string) bool { return p == pDatatypes }) {
		if flattenable[fn] {
			continue
		}
		caps := append(storesTo(fn, ".rollbackSnapshot"), storesTo(fn, ".rollbackMeta")...)
		if len(caps) == 0 {
			continue
		}
		n++
		var clears []*ssa.Store
		for _, st := range storesTo(fn, ".rollbackOps") {
			if c, ok := st.Val.(*ssa.Const); ok && c.Value == nil {
				clears = append(clears, st)
			}
		}
		good := true
		detail := ""
		for _, cap := range caps {
			if cap.Parent() != fn {
				continue // captured inside a new helper: judged through the helper's own returns below
			}
			ok, bad := mustReach(cap, func(in ssa.Instruction) bool {
				if st, isSt := in.(*ssa.Store); isSt {
					for _, c := range clears {
						if c == st {
							return true
						}
					}
				}
				if ret, isRet := in.(*ssa.Return); isRet && returnsNonNilLast(ret) {
					return true // an error exit: the caller treats the rollback point as unusable
				}
				if ci, isCall := in.(ssa.CallInstruction); isCall {
					if callee := staticCallee(ci); callee != nil && flattenable[callee] {
						for _, c := range clears {
							if c.Parent() == callee {
								return true
							}
						}
					}
				}
				return false
			}, false)
			if !ok {
				good = false
				detail = "after the capture at " + u.Pos(cap.Pos()) + " the exit at " + u.Pos(bad.Pos()) + " is reached without rollbackOps = nil"
			}
		}
		r.Check(good, fnName(fn)+"/fresh rollback point forgets the replay list", u.Pos(fn.Pos()), "rollbackOps = nil follows the capture on every error-free exit",
			detail+": the next rollback restores the new rollback point and then replays operations that are already contained in it (identifiers shift, effects are applied twice)")
	}
	if n < 2 {
		r.Lost("functions that capture a rollback point (ResetTransaction, Rollback)")
	}
}

// ---------------------------------------------------------------------------------------------
// R09.8 Replay re-executes as local exactly the replica's own operations

func ruleR09_8(w *World, r *Report) {
	u := w.Client()
	r.Rule("R09.8", "Replay decides between local and remote re-execution by comparing the operation's client id with the replica's own client id (opID.CUID)", 1)
	fn := u.Fn(pDatatypes, "BaseDatatype", "Replay")
	if fn == nil {
		r.Lost("BaseDatatype.Replay")
		return
	}
	locals := callsNamed(fn, "executeLocalBase")
	remotes := callsNamed(fn, "executeRemoteBase", "ExecuteRemote", "SyncLamport")
	if len(locals) == 0 || len(remotes) == 0 {
		r.Lost("Replay: local and remote re-execution")
		return
	}
	isOwnTest := func(l Lit) (bool, bool) { // (is the own-operation test, polarity: equal)
		if l.Kind != "cmp" || (l.Op != token.EQL && l.Op != token.NEQ) {
			return false, false
		}
		a, b := canonName(loadSource(l.X)), canonName(loadSource(l.Y))
		own := func(s string) bool { return strings.HasSuffix(s, ".opID.CUID") && strings.HasPrefix(s, "$0") }
		opc := func(s string) bool { return strings.HasPrefix(s, "$1") && strings.HasSuffix(s, "CUID") }
		if (own(a) && opc(b)) || (own(b) && opc(a)) {
			return true, l.Op == token.EQL
		}
		return false, false
	}
	check := func(cs []ssa.CallInstruction, wantEq bool, what string) {
		for _, c := range cs {
			paths, ok := reachingLits(fn, nil, c.(ssa.Instruction))
			good := ok && len(paths) > 0
			seen := ""
			for _, p := range paths {
				has := false
				for _, l := range p {
					if is, eq := isOwnTest(l); is && eq == wantEq {
						has = true
					}
				}
				if !has {
					good = false
					seen = litsString(p)
				}
			}
			r.Check(good, "BaseDatatype.Replay/"+what, u.Pos(c.Pos()), "guarded by own CUID "+map[bool]string{true: "==", false: "!="}[wantEq]+" operation CUID",
				"Replay re-executes an operation "+what+" under "+seen+", not under a comparison of the replica's own client id (opID.CUID) with the operation's client id: own operations are replayed as remote ones (or the reverse), the sequence number falls back and later operations reuse identifiers")
		}
	}
	check(locals, true, "as local")
	check(remotes, false, "as remote")
}

// ---------------------------------------------------------------------------------------------
// R10.6 capture and restore are total: no early exit skips a part of the state

func recvFieldTouches(fn *ssa.Function, writes bool) map[*ssa.BasicBlock]map[string]bool {
	out := map[*ssa.BasicBlock]map[string]bool{}
	if len(fn.Params) == 0 {
		return out
	}
	recv := ssa.Value(fn.Params[0])
	add := func(b *ssa.BasicBlock, f string) {
		if out[b] == nil {
			out[b] = map[string]bool{}
		}
		out[b][f] = true
	}
	forEachOwnInstr(fn, func(in ssa.Instruction) {
		fa, ok := in.(*ssa.FieldAddr)
		if !ok || fa.X != recv {
			return
		}
		name := fieldName(fa.X.Type(), fa.Field)
		w, rd := false, false
		for _, ref := range *fa.Referrers() {
			switch x := ref.(type) {
			case *ssa.Store:
				if x.Addr == ssa.Value(fa) {
					w = true
				} else {
					rd = true
				}
			default:
				rd = true
			}
		}
		if (writes && w) || (!writes && rd) {
			add(fa.Block(), name)
		}
	})
	return out
}

func ruleR10_6(w *World, r *Report) {
	u := w.Client()
	r.Rule("R10.6", "capture (MarshalJSON/marshal) and restore (UnmarshalJSON/unmarshal) of the snapshot types are total: outside loops, every error-free path through the function reads (capture) or writes (restore) the same fields of the receiver, so no early exit (an 'empty' shortcut) skips part of the state, e.g. the tombstones of an emptied list or the list of an empty array", 12)
	n := 0
	for _, fn := range u.ordaFuncs(func(p string) bool { return p == pOrda }) {
		if fn.Signature.Recv() == nil || flattenable[fn] {
			continue
		}
		var writes bool
		switch fn.Name() {
		case "MarshalJSON", "marshal":
			writes = false
		case "UnmarshalJSON", "unmarshal":
			writes = true
		default:
			continue
		}
		touch := recvFieldTouches(fn, writes)
		if len(touch) == 0 {
			continue
		}
		n++
		all := map[string]bool{}
		for b, fs := range touch {
			if inLoop(b) {
				continue
			}
			for f := range fs {
				all[f] = true
			}
		}
		good := true
		detail := ""
		forEachOwnInstr(fn, func(in ssa.Instruction) {
			ret, ok := in.(*ssa.Return)
			if !ok || ret.Block().Comment == "recover" {
				return
			}
			if definiteErrorExit(fn, ret) {
				return
			}
			paths, okp := pathsWithBlocks(fn, nil, ret.Block())
			if !okp {
				good, detail = false, "too many paths"
				return
			}
			for _, p := range paths {
				got := map[string]bool{}
				for b := range p.Blocks {
					if inLoop(b) {
						continue
					}
					for f := range touch[b] {
						got[f] = true
					}
				}
				for f := range all {
					if !got[f] {
						good = false
						detail = fmt.Sprintf("the exit at %s is reached under %s without %s the field %q", u.Pos(ret.Pos()), litsString(p.Lits), map[bool]string{true: "restoring", false: "capturing"}[writes], f)
					}
				}
			}
		})
		r.Check(good, fnName(fn)+"/total", u.Pos(fn.Pos()), fmt.Sprintf("%d field(s) on every error-free path", len(all)), detail+": a part of the state is skipped on that path, so the restored replica answers later operations differently from the original")
	}
	if n < 12 {
		r.Bad("R10.6/instance-floor", "-", fmt.Sprintf("only %d capture/restore functions found", n))
	}
}

// ---------------------------------------------------------------------------------------------
// R12.9 the wait for a lock is bounded by the lease time; R12.10 one lock name per datatype

func ruleR12_9(w *World, r *Report) {
	u := w.Server()
	r.Rule("R12.9", "in every TryLock of the server's lock implementations the blocking acquire waits on the context bounded by the lease time (the result of context.WithTimeout), not on the request's own context", 2)
	n := 0
	for _, fn := range u.ordaFuncs(func(p string) bool { return strings.HasSuffix(p, "/server/utils") }) {
		if fn.Name() != "TryLock" || fn.Signature.Recv() == nil {
			continue
		}
		for _, c := range callsIn(fn) {
			_, args := recvAndArgs(c)
			recv, _ := recvAndArgs(c)
			if recv == nil || !strings.HasSuffix(canonName(recv), ".mutex") {
				continue
			}
			for _, a := range args {
				if !isContextType(a.Type()) {
					continue
				}
				n++
				bounded := false
				if ex, ok := stripIface(a).(*ssa.Extract); ok && ex.Index == 0 {
					if call, isCall := ex.Tuple.(*ssa.Call); isCall && (calleeName(call) == "WithTimeout" || calleeName(call) == "WithDeadline") {
						bounded = true
					}
				}
				r.Check(bounded, fnName(fn)+"/bounded wait", u.Pos(c.Pos()), "waits on the WithTimeout context", "the acquire "+calleeName(c)+" waits on "+canonName(a)+", not on the context derived with the lease time: a request whose own context has no deadline waits for a stuck holder for ever (every request returns: C12, C16)")
			}
		}
	}
	if n < 2 {
		r.Lost("blocking acquires with a context in LocalLock.TryLock / RedisLock.TryLock")
	}
}

func isContextType(t types.Type) bool {
	s := t.String()
	return s == "context.Context" || strings.HasSuffix(s, "iface.OrdaContext")
}

func ruleR12_10(w *World, r *Report) {
	u := w.Server()
	r.Rule("R12.10", "the name of the lock a function takes does not depend on the request: the name argument of every GetLock call is one value on all paths (no per-option lock such as a separate lock for read-only requests)", 3)
	n := 0
	for _, fn := range u.ordaFuncs(func(p string) bool { return strings.Contains(p, "/server/") }) {
		for _, c := range callsIn(fn) {
			if calleeName(c) != "GetLock" {
				continue
			}
			_, args := recvAndArgs(c)
			if len(args) < 2 {
				continue
			}
			n++
			vals := resolvePhisOwn(args[len(args)-1])
			r.Check(len(vals) == 1, fnName(fn)+"/one lock name", u.Pos(c.Pos()), canonName(args[len(args)-1]), fmt.Sprintf("the lock name is chosen among %d alternatives depending on the request: requests for the same datatype that take different names do not exclude each other", len(vals)))
		}
	}
	if n < 3 {
		r.Lost("GetLock call sites (push-pull, snapshot update, patch)")
	}
}

// ---------------------------------------------------------------------------------------------
// R17.9 a response pack is applied to the datatype it names

func ruleR17_9(w *World, r *Report) {
	u := w.Client()
	r.Rule("R17.9", "the client applies each pack of a push-pull response to the datatype found under that pack's own key (responses arrive in completion order, not in request order)", 1)
	n := 0
	for _, fn := range u.ordaFuncs(func(p string) bool { return p == pCManagers }) {
		for _, c := range callsNamed(fn, "ApplyPushPullPack") {
			recv, args := recvAndArgs(c)
			if len(args) != 1 {
				continue
			}
			n++
			pack := args[0]
			// the datatype is the result of a lookup in dataMap keyed by pack.GetKey() / pack.Key
			good := false
			seen := ""
			for _, v := range resolvePhisOwn(stripIface(recv)) {
				ex, ok := v.(*ssa.Extract)
				var lk *ssa.Lookup
				if ok {
					lk, _ = ex.Tuple.(*ssa.Lookup)
				} else {
					lk, _ = v.(*ssa.Lookup)
				}
				if lk == nil || !strings.HasSuffix(canonName(lk.X), ".dataMap") {
					seen = canonName(v)
					continue
				}
				key := lk.Index
				seen = canonName(key)
				switch k := key.(type) {
				case *ssa.Call:
					kr, _ := recvAndArgs(k)
					if (calleeName(k) == "GetKey") && kr == pack {
						good = true
					}
				case *ssa.UnOp:
					if fa, isFA := k.X.(*ssa.FieldAddr); isFA && fa.X == pack && strings.HasSuffix(fieldName(fa.X.Type(), fa.Field), ".Key") {
						good = true
					}
				}
			}
			r.Check(good, fnName(fn)+"/pack applied to the datatype of its own key", u.Pos(c.Pos()), "dataMap[pack.GetKey()].ApplyPushPullPack(pack)", "the datatype a response pack is applied to is looked up by "+seen+", not by the key of that pack: with several datatypes in one exchange a pack (operations, checkpoint, DUID) is applied to another datatype")
		}
	}
	if n < 1 {
		r.Lost("the call that applies a response pack (DatatypeManager.syncPushPullPacks)")
	}
}

// ---------------------------------------------------------------------------------------------
// R17.10 a unique index of a per-collection document type includes the collection number

func ruleR17_10(w *World, r *Report) {
	u := w.Server()
	r.Rule("R17.10", "every unique index declared for a document type that carries a collection number includes the collection number in its keys: the same key (or any other value) in two collections must be storable", 4)
	p := u.Pkgs[pSchema]
	if p == nil {
		r.Lost("server/schema")
		return
	}
	n := 0
	for _, f := range p.Syntax {
		for _, d := range f.Decls {
			fd, ok := d.(*ast.FuncDecl)
			if !ok || fd.Name.Name != "GetIndexModel" || fd.Body == nil || fd.Recv == nil {
				continue
			}
			n++
			recvName := types.ExprString(fd.Recv.List[0].Type)
			recvName = strings.TrimPrefix(recvName, "*")
			hasCol := false
			if named := u.Named(pSchema, recvName); named != nil {
				if obj, _, _ := types.LookupFieldOrMethod(named, true, p.Types, "CollectionNum"); obj != nil {
					hasCol = true
				}
			}
			ast.Inspect(fd.Body, func(nd ast.Node) bool {
				cl, isCL := nd.(*ast.CompositeLit)
				if !isCL {
					return true
				}
				var keys, opts ast.Expr
				for _, e := range cl.Elts {
					if kv, isKV := e.(*ast.KeyValueExpr); isKV {
						if id, isID := kv.Key.(*ast.Ident); isID {
							switch id.Name {
							case "Keys":
								keys = kv.Value
							case "Options":
								opts = kv.Value
							}
						}
					}
				}
				if keys == nil || opts == nil {
					return true
				}
				unique := false
				ast.Inspect(opts, func(x ast.Node) bool {
					if call, isCall := x.(*ast.CallExpr); isCall {
						if sel, isSel := call.Fun.(*ast.SelectorExpr); isSel && sel.Sel.Name == "SetUnique" && len(call.Args) == 1 {
							if tv, has := p.TypesInfo.Types[call.Args[0]]; !has || tv.Value == nil || constant.BoolVal(tv.Value) {
								unique = true
							}
						}
					}
					return true
				})
				if !unique {
					return true
				}
				scoped := false
				ast.Inspect(keys, func(x ast.Node) bool {
					if sel, isSel := x.(*ast.SelectorExpr); isSel && sel.Sel.Name == "CollectionNum" {
						scoped = true
					}
					return true
				})
				pos := u.Pos(cl.Pos())
				if hasCol {
					r.Check(scoped, recvName+".GetIndexModel/unique index scoped by collection", pos, "keys include CollectionNum", "a unique index of "+recvName+" does not include the collection number: the second collection that uses the same value (e.g. the same datatype key) cannot store its document")
				}
				return true
			})
			r.OK(recvName+".GetIndexModel", u.Pos(fd.Pos()), "index declarations examined")
		}
	}
	if n < 4 {
		r.Lost("GetIndexModel declarations in server/schema")
	}
}

// ---------------------------------------------------------------------------------------------
// R02.6 a remote map/object operation always reaches the timestamp decision

func ruleR02_6(w *World, r *Report) {
	u := w.Client()
	r.Rule("R02.6", "on the remote path of a map/object put or remove the last-writer-wins decision function is reached on every path: no shortcut on the liveness of the key (a tombstone must still take the newer timestamp of a later remove, otherwise an older put resurrects the key)", 4)
	type hop struct{ recv, name string }
	decide := map[string]bool{"putCommonWithTimedType": true, "removeRemoteWithTimedType": true}
	n := 0
	for _, fn := range u.ordaFuncs(func(p string) bool { return p == pOrda }) {
		if flattenable[fn] || fn.Signature.Recv() == nil {
			continue
		}
		name := fn.Name()
		if strings.Contains(name, "Local") || decide[name] {
			continue
		}
		var calls []ssa.CallInstruction
		for _, c := range callsIn(fn) {
			if decide[calleeName(c)] || (strings.HasSuffix(calleeName(c), "Remote") && (strings.HasPrefix(calleeName(c), "remove") || strings.HasPrefix(calleeName(c), "put"))) || calleeName(c) == "putCommon" {
				if _, isGo := c.(*ssa.Go); !isGo {
					calls = append(calls, c)
				}
			}
		}
		if len(calls) == 0 {
			continue
		}
		// only chains below the remote entry points: put*/remove* helpers of the map snapshot and of the JSON object
		rn := recvTypeName(fn.Object().(*types.Func))
		if rn != "mapSnapshot" && rn != "jsonObject" {
			continue
		}
		for _, c := range calls {
			n++
			in := c.(ssa.Instruction)
			paths, ok := reachingLits(fn, nil, in)
			good := ok
			seen := ""
			for _, p := range paths {
				for _, l := range p {
					s := renderLit(l)
					if strings.Contains(s, "isTomb(") || strings.Contains(s, "get(") || strings.Contains(s, "getValue(") || strings.Contains(s, "getFromMap(") || l.Kind == "ok" {
						if l.Kind == "ok" {
							if _, isTA := l.X.(*ssa.TypeAssert); isTA {
								continue
							}
						}
						good = false
						seen = s
					}
				}
			}
			// and it is reached from the entry on every path (no early return before it)
			dom := true
			forEachOwnInstr(fn, func(x ssa.Instruction) {
				if ret, isRet := x.(*ssa.Return); isRet && ret.Block().Comment != "recover" && !instrDominates(in, ret) {
					ps, _ := reachingLits(fn, nil, ret)
					for _, p := range ps {
						for _, l := range p {
							s := renderLit(l)
							if strings.Contains(s, "isTomb(") || strings.Contains(s, "get(") || strings.Contains(s, "getValue(") || strings.Contains(s, "getFromMap(") {
								dom = false
								seen = s
							}
						}
					}
				}
			})
			r.Check(good && dom, fnName(fn)+"/"+calleeName(c)+" reached regardless of liveness", u.Pos(c.Pos()), "unconditional", "the timestamp decision "+calleeName(c)+" is skipped or taken depending on "+seen+": an operation on a removed key does not update the tombstone's timestamp, so replicas that receive the operations in different orders keep different values")
		}
	}
	if n < 4 {
		r.Bad("R02.6/instance-floor", "-", fmt.Sprintf("only %d calls of the decision functions found on the remote chains", n))
	}
}

// ---------------------------------------------------------------------------------------------
// R06.5 the operations of a push are stored by an ordered bulk write

func ruleR06_5(w *World, r *Report) {
	u := w.Server()
	r.Rule("R06.5", "bulk writes into the operation log are ordered (the driver default): the documents of a batch become visible, and fail, in sequence order, so every readable state of the log is a prefix 1..k", 1)
	n := 0
	for _, fn := range u.ordaFuncs(func(p string) bool { return p == pMongo }) {
		var bulks []ssa.CallInstruction
		for _, c := range callsIn(fn) {
			if calleeName(c) == "InsertMany" || calleeName(c) == "BulkWrite" {
				bulks = append(bulks, c)
			}
		}
		if len(bulks) == 0 {
			continue
		}
		for _, c := range bulks {
			n++
			bad := ""
			for _, o := range callsIn(fn) {
				if calleeName(o) != "SetOrdered" {
					continue
				}
				_, args := recvAndArgs(o)
				if len(args) == 1 {
					if k, isC := args[0].(*ssa.Const); isC && k.Value != nil && k.Value.Kind() == constant.Bool && constant.BoolVal(k.Value) {
						continue
					}
				}
				bad = u.Pos(o.Pos())
			}
			r.Check(bad == "", fnName(fn)+"/"+calleeName(c)+" ordered", u.Pos(c.Pos()), "ordered bulk write", "the bulk write is made unordered (SetOrdered at "+bad+"): a reader, or a batch that fails half-way, sees sequence numbers with a gap (1,2,4); a snapshot rebuilt at that moment misses an operation for good")
		}
	}
	if n < 1 {
		r.Lost("the bulk insert of pushed operations (MongoCollections.InsertOperations)")
	}
}

// definiteErrorExit: the return hands out an error that is known to be non-nil: built by an error constructor, or
// tested != nil on every path to the return. A passed-through result (return json.Marshal(x)) is not one.
func definiteErrorExit(fn *ssa.Function, ret *ssa.Return) bool {
	if len(ret.Results) == 0 {
		return false
	}
	last := ret.Results[len(ret.Results)-1]
	if !isErrorLike(last.Type()) {
		return false
	}
	if c, ok := last.(*ssa.Const); ok && c.Value == nil {
		return false
	}
	for _, v := range resolvePhisOwn(last) {
		v = stripIface(v)
		if c, ok := v.(*ssa.Call); ok && isConstructorOfError(c) {
			continue
		}
		paths, ok := reachingLitsOwn(fn, nil, ret)
		if !ok || len(paths) == 0 {
			return false
		}
		for _, p := range paths {
			tested := false
			for _, l := range p {
				if isNilCheckOf(l, v, false) || isNilCheckOf(l, last, false) {
					tested = true
				}
			}
			if !tested {
				return false
			}
		}
	}
	return true
}
