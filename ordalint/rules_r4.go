package main

import (
	"fmt"
	"go/ast"
	"go/constant"
	"go/token"
	"go/types"
	"os"
	"sort"
	"strings"

	"golang.org/x/tools/go/ssa"
)

// Rules added after the fourth round of independent changes (DESIGN.md section 14).

// ---------------------------------------------------------------------------------------------
// R08.5 the option bits of a push-pull pack: writer and reader agree, and the accessor aliases the pack

// bitConstOf returns the constant c of "*its |= c" (setter) or of "(*its & c) == c" (tester).
func bitConstOf(fn *ssa.Function) (set bool, val int64, ok bool) {
	if fn == nil || len(fn.Params) == 0 {
		return false, 0, false
	}
	isLoadOfRecv := func(v ssa.Value) bool {
		u, isU := v.(*ssa.UnOp)
		return isU && u.Op == token.MUL && u.X == ssa.Value(fn.Params[0])
	}
	found := false
	forEachOwnInstr(fn, func(in ssa.Instruction) {
		switch x := in.(type) {
		case *ssa.Store:
			if x.Addr != ssa.Value(fn.Params[0]) {
				return
			}
			if b, isB := x.Val.(*ssa.BinOp); isB && b.Op == token.OR {
				l, c := b.X, b.Y
				if _, isC := l.(*ssa.Const); isC {
					l, c = c, l
				}
				if k, isK := constInt(c); isK && isLoadOfRecv(l) {
					set, val, found = true, k, true
				}
			}
		case *ssa.Return:
			if len(x.Results) != 1 {
				return
			}
			eq, isB := x.Results[0].(*ssa.BinOp)
			if !isB || eq.Op != token.EQL {
				return
			}
			and, c2 := eq.X, eq.Y
			if _, isC := and.(*ssa.Const); isC {
				and, c2 = c2, and
			}
			ab, isAnd := and.(*ssa.BinOp)
			k2, isK2 := constInt(c2)
			if !isAnd || ab.Op != token.AND || !isK2 {
				return
			}
			l, c := ab.X, ab.Y
			if _, isC := l.(*ssa.Const); isC {
				l, c = c, l
			}
			if k, isK := constInt(c); isK && isLoadOfRecv(l) && k == k2 {
				set, val, found = false, k, true
			}
		}
	})
	return set, val, found
}

func ruleR08_5(w *World, r *Report) {
	u := w.Client()
	r.Rule("R08.5", "the option bits of a push-pull pack: every Set<X>Bit ORs in, and the matching Has<X> tests, the constant PushPullBit<X>; the constants are distinct single bits; GetPushPullPackOption returns a pointer into the pack (a setter called through it changes the pack that is sent)", 15)
	opt := u.Named(pModel, "PushPullPackOption")
	if opt == nil {
		r.Lost("model.PushPullPackOption")
		return
	}
	consts := map[string]int64{}
	if p := u.Pkgs[pModel]; p != nil {
		for _, n := range p.Types.Scope().Names() {
			if c, ok := p.Types.Scope().Lookup(n).(*types.Const); ok && strings.HasPrefix(n, "PushPullBit") && types.Identical(c.Type(), opt) {
				if v, exact := constant.Int64Val(c.Val()); exact {
					consts[strings.TrimPrefix(n, "PushPullBit")] = v
				}
			}
		}
	}
	seenVal := map[int64]string{}
	var names []string
	for n := range consts {
		names = append(names, n)
	}
	sort.Strings(names)
	for _, n := range names {
		v := consts[n]
		if n == "Normal" {
			r.Check(v == 0, "PushPullBitNormal", "-", "0", "the 'normal' option is not the empty bit set")
			continue
		}
		single := v > 0 && v&(v-1) == 0
		other, dup := seenVal[v]
		seenVal[v] = n
		r.Check(single && !dup, "PushPullBit"+n+"/distinct single bit", "-", fmt.Sprintf("%#x", v), fmt.Sprintf("PushPullBit%s = %#x is not a single bit of its own (shared with %q): two options cannot be told apart", n, v, other))
	}
	ms := types.NewMethodSet(types.NewPointer(opt))
	for _, n := range names {
		if n == "Normal" {
			continue
		}
		var setter, tester *ssa.Function
		for i := 0; i < ms.Len(); i++ {
			f := u.Prog.FuncValue(ms.At(i).Obj().(*types.Func))
			switch ms.At(i).Obj().Name() {
			case "Set" + n + "Bit":
				setter = f
			case "Has" + n + "Bit", "Has" + n:
				tester = f
			}
		}
		for _, role := range []struct {
			f    *ssa.Function
			kind string
			set  bool
		}{{setter, "Set" + n + "Bit", true}, {tester, "Has" + n + "[Bit]", false}} {
			cons := "PushPullPackOption." + role.kind
			if role.f == nil {
				r.Lost(cons)
				continue
			}
			isSet, v, ok := bitConstOf(role.f)
			good := ok && isSet == role.set && v == consts[n]
			verb := map[bool]string{true: "sets", false: "tests"}[role.set]
			r.Check(good, cons, u.Pos(role.f.Pos()), fmt.Sprintf("%s %#x = PushPullBit%s", verb, consts[n], n),
				fmt.Sprintf("%s does not %s the bit PushPullBit%s (%#x) (recognised: %v, constant %#x): the side that writes the option and the side that reads it disagree, e.g. a refused push-pull is not seen as an error and its checkpoint is taken as an acknowledgement", role.kind, strings.TrimSuffix(verb, "s"), n, consts[n], ok, v))
		}
	}
	// the accessor returns a pointer to the pack's own Option field
	get := u.Fn(pModel, "PushPullPack", "GetPushPullPackOption")
	if get == nil {
		r.Lost("PushPullPack.GetPushPullPackOption")
		return
	}
	alias, n := true, 0
	forEachOwnInstr(get, func(in ssa.Instruction) {
		ret, ok := in.(*ssa.Return)
		if !ok || len(ret.Results) != 1 {
			return
		}
		n++
		for _, v := range resolvePhisOwn(ret.Results[0]) {
			for {
				if ct, isCT := v.(*ssa.ChangeType); isCT {
					v = ct.X
					continue
				}
				if cv, isCV := v.(*ssa.Convert); isCV {
					v = cv.X
					continue
				}
				break
			}
			fa, isFA := v.(*ssa.FieldAddr)
			if !isFA || fa.X != ssa.Value(get.Params[0]) || fieldName(fa.X.Type(), fa.Field) != "PushPullPack.Option" {
				alias = false
			}
		}
	})
	r.Check(alias && n > 0, "PushPullPack.GetPushPullPackOption/aliases the pack", u.Pos(get.Pos()), "returns &pack.Option",
		"GetPushPullPackOption does not return a pointer to the pack's own Option field: the server sets the error (or other) bit on a copy, the response leaves without it and the client takes a refused push-pull for a success")
}

// ---------------------------------------------------------------------------------------------
// R09.7 a fresh rollback point has an empty replay list

func ruleR09_7(w *World, r *Report) {
	u := w.Client()
	r.Rule("R09.7", "every function that captures a new rollback point (stores rollbackSnapshot/rollbackMeta) also empties the list of operations to replay (rollbackOps = nil) on every error-free path: operations that are already part of the captured state must not be replayed on top of it", 2)
	n := 0
	for _, fn := range u.ordaFuncs(func(p string) bool { return p == pDatatypes }) {
		if flattenable[fn] {
			continue
		}
		caps := append(storesTo(fn, ".rollbackSnapshot"), storesTo(fn, ".rollbackMeta")...)
		if len(caps) == 0 {
			continue
		}
		n++
		var clears []*ssa.Store
		for _, st := range storesTo(fn, ".rollbackOps") {
			if c, ok := st.Val.(*ssa.Const); ok && c.Value == nil {
				clears = append(clears, st)
			}
		}
		good := true
		detail := ""
		for _, cap := range caps {
			if cap.Parent() != fn {
				continue // captured inside a new helper: judged through the helper's own returns below
			}
			ok, bad := mustReach(cap, func(in ssa.Instruction) bool {
				if st, isSt := in.(*ssa.Store); isSt {
					for _, c := range clears {
						if c == st {
							return true
						}
					}
				}
				if ret, isRet := in.(*ssa.Return); isRet && returnsNonNilLast(ret) {
					return true // an error exit: the caller treats the rollback point as unusable
				}
				if ci, isCall := in.(ssa.CallInstruction); isCall {
					if callee := staticCallee(ci); callee != nil && flattenable[callee] {
						for _, c := range clears {
							if c.Parent() == callee {
								return true
							}
						}
					}
				}
				return false
			}, false)
			if !ok {
				good = false
				detail = "after the capture at " + u.Pos(cap.Pos()) + " the exit at " + u.Pos(bad.Pos()) + " is reached without rollbackOps = nil"
			}
		}
		r.Check(good, fnName(fn)+"/fresh rollback point forgets the replay list", u.Pos(fn.Pos()), "rollbackOps = nil follows the capture on every error-free exit",
			detail+": the next rollback restores the new rollback point and then replays operations that are already contained in it (identifiers shift, effects are applied twice)")
	}
	if n < 2 {
		r.Lost("functions that capture a rollback point (ResetTransaction, Rollback)")
	}
}

// ---------------------------------------------------------------------------------------------
// R09.8 Replay re-executes as local exactly the replica's own operations

func ruleR09_8(w *World, r *Report) {
	u := w.Client()
	r.Rule("R09.8", "Replay decides between local and remote re-execution by comparing the operation's client id with the replica's own client id (opID.CUID)", 1)
	fn := u.Fn(pDatatypes, "BaseDatatype", "Replay")
	if fn == nil {
		r.Lost("BaseDatatype.Replay")
		return
	}
	locals := callsNamed(fn, "executeLocalBase")
	remotes := callsNamed(fn, "executeRemoteBase", "ExecuteRemote", "SyncLamport")
	if len(locals) == 0 || len(remotes) == 0 {
		r.Lost("Replay: local and remote re-execution")
		return
	}
	isOwnTest := func(l Lit) (bool, bool) { // (is the own-operation test, polarity: equal)
		if l.Kind != "cmp" || (l.Op != token.EQL && l.Op != token.NEQ) {
			return false, false
		}
		a, b := canonName(loadSource(l.X)), canonName(loadSource(l.Y))
		own := func(s string) bool { return strings.HasSuffix(s, ".opID.CUID") && strings.HasPrefix(s, "$0") }
		opc := func(s string) bool { return strings.HasPrefix(s, "$1") && strings.HasSuffix(s, "CUID") }
		if (own(a) && opc(b)) || (own(b) && opc(a)) {
			return true, l.Op == token.EQL
		}
		return false, false
	}
	check := func(cs []ssa.CallInstruction, wantEq bool, what string) {
		for _, c := range cs {
			paths, ok := reachingLits(fn, nil, c.(ssa.Instruction))
			good := ok && len(paths) > 0
			seen := ""
			for _, p := range paths {
				has := false
				for _, l := range p {
					if is, eq := isOwnTest(l); is && eq == wantEq {
						has = true
					}
				}
				if !has {
					good = false
					seen = litsString(p)
				}
			}
			r.Check(good, "BaseDatatype.Replay/"+what, u.Pos(c.Pos()), "guarded by own CUID "+map[bool]string{true: "==", false: "!="}[wantEq]+" operation CUID",
				"Replay re-executes an operation "+what+" under "+seen+", not under a comparison of the replica's own client id (opID.CUID) with the operation's client id: own operations are replayed as remote ones (or the reverse), the sequence number falls back and later operations reuse identifiers")
		}
	}
	check(locals, true, "as local")
	check(remotes, false, "as remote")
	// and no recorded operation is passed over: every way out of Replay leads through one of the two re-executions
	// (the header of a unit and the other operations without an effect consume their identifier in executeLocalBase)
	barrier := map[ssa.Instruction]bool{}
	for _, c := range append(append([]ssa.CallInstruction{}, locals...), remotes...) {
		barrier[c.(ssa.Instruction)] = true
	}
	bad := ""
	for _, ret := range exitsWithout(fn, barrier) {
		bad = u.Pos(ret.Pos())
	}
	r.Check(bad == "", "BaseDatatype.Replay/every operation re-executed", u.Pos(fn.Pos()), "no exit before the re-execution", "Replay returns at "+bad+" without re-executing the operation: a recorded operation that is skipped (e.g. the header of a unit) does not take its sequence number and Lamport value again, the next local operation after a rollback reuses an identifier and the server drops it as a duplicate")
}

// exitsWithout lists the returns of fn that can be reached from its entry without executing one of the barrier
// instructions (block-wise: a barrier anywhere in a block guards what follows the block, and the block's own return).
func exitsWithout(fn *ssa.Function, barrier map[ssa.Instruction]bool) []*ssa.Return {
	if fn == nil || len(fn.Blocks) == 0 {
		return nil
	}
	hasBarrier := func(b *ssa.BasicBlock) bool {
		for _, in := range b.Instrs {
			if barrier[in] {
				return true
			}
		}
		return false
	}
	var out []*ssa.Return
	seen := map[*ssa.BasicBlock]bool{}
	var walk func(b *ssa.BasicBlock)
	walk = func(b *ssa.BasicBlock) {
		if seen[b] {
			return
		}
		seen[b] = true
		if hasBarrier(b) {
			return
		}
		for _, in := range b.Instrs {
			if ret, ok := in.(*ssa.Return); ok {
				out = append(out, ret)
			}
		}
		for _, s := range b.Succs {
			walk(s)
		}
	}
	walk(fn.Blocks[0])
	return out
}

// ---------------------------------------------------------------------------------------------
// R10.6 capture and restore are total: no early exit skips a part of the state

func recvFieldTouches(fn *ssa.Function, writes bool) map[*ssa.BasicBlock]map[string]bool {
	out := map[*ssa.BasicBlock]map[string]bool{}
	if len(fn.Params) == 0 {
		return out
	}
	recv := ssa.Value(fn.Params[0])
	add := func(b *ssa.BasicBlock, f string) {
		if out[b] == nil {
			out[b] = map[string]bool{}
		}
		out[b][f] = true
	}
	forEachOwnInstr(fn, func(in ssa.Instruction) {
		fa, ok := in.(*ssa.FieldAddr)
		if !ok || fa.X != recv {
			return
		}
		name := fieldName(fa.X.Type(), fa.Field)
		w, rd := false, false
		for _, ref := range *fa.Referrers() {
			switch x := ref.(type) {
			case *ssa.Store:
				if x.Addr == ssa.Value(fa) {
					w = true
				} else {
					rd = true
				}
			default:
				rd = true
			}
		}
		if (writes && w) || (!writes && rd) {
			add(fa.Block(), name)
		}
	})
	return out
}

func ruleR10_6(w *World, r *Report) {
	u := w.Client()
	r.Rule("R10.6", "capture (MarshalJSON/marshal) and restore (UnmarshalJSON/unmarshal) of the snapshot types are total: outside loops, every error-free path through the function reads (capture) or writes (restore) the same fields of the receiver, so no early exit (an 'empty' shortcut) skips part of the state, e.g. the tombstones of an emptied list or the list of an empty array", 12)
	n := 0
	for _, fn := range u.ordaFuncs(func(p string) bool { return p == pOrda }) {
		if fn.Signature.Recv() == nil || flattenable[fn] {
			continue
		}
		var writes bool
		switch fn.Name() {
		case "MarshalJSON", "marshal":
			writes = false
		case "UnmarshalJSON", "unmarshal":
			writes = true
		default:
			continue
		}
		touch := recvFieldTouches(fn, writes)
		if len(touch) == 0 {
			continue
		}
		n++
		all := map[string]bool{}
		for b, fs := range touch {
			if inLoop(b) {
				continue
			}
			for f := range fs {
				all[f] = true
			}
		}
		good := true
		detail := ""
		forEachOwnInstr(fn, func(in ssa.Instruction) {
			ret, ok := in.(*ssa.Return)
			if !ok || ret.Block().Comment == "recover" {
				return
			}
			if definiteErrorExit(fn, ret) {
				return
			}
			paths, okp := pathsWithBlocks(fn, nil, ret.Block())
			if !okp {
				good, detail = false, "too many paths"
				return
			}
			for _, p := range paths {
				got := map[string]bool{}
				for b := range p.Blocks {
					if inLoop(b) {
						continue
					}
					for f := range touch[b] {
						got[f] = true
					}
				}
				for f := range all {
					if !got[f] {
						good = false
						detail = fmt.Sprintf("the exit at %s is reached under %s without %s the field %q", u.Pos(ret.Pos()), litsString(p.Lits), map[bool]string{true: "restoring", false: "capturing"}[writes], f)
					}
				}
			}
		})
		r.Check(good, fnName(fn)+"/total", u.Pos(fn.Pos()), fmt.Sprintf("%d field(s) on every error-free path", len(all)), detail+": a part of the state is skipped on that path, so the restored replica answers later operations differently from the original")
	}
	if n < 12 {
		r.Bad("R10.6/instance-floor", "-", fmt.Sprintf("only %d capture/restore functions found", n))
	}
}

// ---------------------------------------------------------------------------------------------
// R12.9 the wait for a lock is bounded by the lease time; R12.10 one lock name per datatype

func ruleR12_9(w *World, r *Report) {
	u := w.Server()
	r.Rule("R12.9", "in every TryLock of the server's lock implementations the blocking acquire waits on the context bounded by the lease time (the result of context.WithTimeout), not on the request's own context", 2)
	n := 0
	for _, fn := range u.ordaFuncs(func(p string) bool { return strings.HasSuffix(p, "/server/utils") }) {
		if fn.Name() != "TryLock" || fn.Signature.Recv() == nil {
			continue
		}
		for _, c := range callsIn(fn) {
			_, args := recvAndArgs(c)
			recv, _ := recvAndArgs(c)
			if recv == nil || !strings.HasSuffix(canonName(recv), ".mutex") {
				continue
			}
			for _, a := range args {
				if !isContextType(a.Type()) {
					continue
				}
				n++
				bounded := false
				vals := resolvePhis(stripIface(a)) // through a new helper that builds the lease context
				for _, v := range vals {
					ok1 := false
					if ex, ok := stripIface(v).(*ssa.Extract); ok && ex.Index == 0 {
						if call, isCall := ex.Tuple.(*ssa.Call); isCall && (calleeName(call) == "WithTimeout" || calleeName(call) == "WithDeadline") {
							ok1 = true
						}
					}
					bounded = ok1
					if !ok1 {
						break
					}
				}
				r.Check(bounded, fnName(fn)+"/bounded wait", u.Pos(c.Pos()), "waits on the WithTimeout context", "the acquire "+calleeName(c)+" waits on "+canonName(a)+", not on the context derived with the lease time: a request whose own context has no deadline waits for a stuck holder for ever (every request returns: C12, C16)")
			}
		}
	}
	if n < 2 {
		r.Lost("blocking acquires with a context in LocalLock.TryLock / RedisLock.TryLock")
	}
}

func isContextType(t types.Type) bool {
	s := t.String()
	return s == "context.Context" || strings.HasSuffix(s, "iface.OrdaContext")
}

func ruleR12_10(w *World, r *Report) {
	u := w.Server()
	r.Rule("R12.10", "the name of the lock a function takes does not depend on the request: the name argument of every GetLock call is one value on all paths (no per-option lock such as a separate lock for read-only requests)", 3)
	n := 0
	for _, fn := range u.ordaFuncs(func(p string) bool { return strings.Contains(p, "/server/") }) {
		for _, c := range callsIn(fn) {
			if calleeName(c) != "GetLock" {
				continue
			}
			_, args := recvAndArgs(c)
			if len(args) < 2 {
				continue
			}
			n++
			vals := resolvePhisOwn(args[len(args)-1])
			r.Check(len(vals) == 1, fnName(fn)+"/one lock name", u.Pos(c.Pos()), canonName(args[len(args)-1]), fmt.Sprintf("the lock name is chosen among %d alternatives depending on the request: requests for the same datatype that take different names do not exclude each other", len(vals)))
		}
	}
	if n < 3 {
		r.Lost("GetLock call sites (push-pull, snapshot update, patch)")
	}
}

// ---------------------------------------------------------------------------------------------
// R17.9 a response pack is applied to the datatype it names

func ruleR17_9(w *World, r *Report) {
	u := w.Client()
	r.Rule("R17.9", "the client applies each pack of a push-pull response to the datatype found under that pack's own key (responses arrive in completion order, not in request order)", 1)
	n := 0
	for _, fn := range u.ordaFuncs(func(p string) bool { return p == pCManagers }) {
		for _, c := range callsNamed(fn, "ApplyPushPullPack") {
			recv, args := recvAndArgs(c)
			if len(args) != 1 {
				continue
			}
			n++
			pack := args[0]
			// the datatype is the result of a lookup in dataMap keyed by pack.GetKey() / pack.Key
			good := false
			seen := ""
			for _, v := range resolvePhisOwn(stripIface(recv)) {
				ex, ok := v.(*ssa.Extract)
				var lk *ssa.Lookup
				if ok {
					lk, _ = ex.Tuple.(*ssa.Lookup)
				} else {
					lk, _ = v.(*ssa.Lookup)
				}
				if lk == nil || !strings.HasSuffix(canonName(lk.X), ".dataMap") {
					seen = canonName(v)
					continue
				}
				key := lk.Index
				seen = canonName(key)
				switch k := key.(type) {
				case *ssa.Call:
					kr, _ := recvAndArgs(k)
					if (calleeName(k) == "GetKey") && kr == pack {
						good = true
					}
				case *ssa.UnOp:
					if fa, isFA := k.X.(*ssa.FieldAddr); isFA && fa.X == pack && strings.HasSuffix(fieldName(fa.X.Type(), fa.Field), ".Key") {
						good = true
					}
				}
			}
			r.Check(good, fnName(fn)+"/pack applied to the datatype of its own key", u.Pos(c.Pos()), "dataMap[pack.GetKey()].ApplyPushPullPack(pack)", "the datatype a response pack is applied to is looked up by "+seen+", not by the key of that pack: with several datatypes in one exchange a pack (operations, checkpoint, DUID) is applied to another datatype")
		}
	}
	if n < 1 {
		r.Lost("the call that applies a response pack (DatatypeManager.syncPushPullPacks)")
	}
}

// ---------------------------------------------------------------------------------------------
// R17.10 a unique index of a per-collection document type includes the collection number

func ruleR17_10(w *World, r *Report) {
	u := w.Server()
	r.Rule("R17.10", "every unique index declared for a document type that carries a collection number includes the collection number in its keys: the same key (or any other value) in two collections must be storable", 4)
	p := u.Pkgs[pSchema]
	if p == nil {
		r.Lost("server/schema")
		return
	}
	n := 0
	for _, f := range p.Syntax {
		for _, d := range f.Decls {
			fd, ok := d.(*ast.FuncDecl)
			if !ok || fd.Name.Name != "GetIndexModel" || fd.Body == nil || fd.Recv == nil {
				continue
			}
			n++
			recvName := types.ExprString(fd.Recv.List[0].Type)
			recvName = strings.TrimPrefix(recvName, "*")
			hasCol := false
			if named := u.Named(pSchema, recvName); named != nil {
				if obj, _, _ := types.LookupFieldOrMethod(named, true, p.Types, "CollectionNum"); obj != nil {
					hasCol = true
				}
			}
			ast.Inspect(fd.Body, func(nd ast.Node) bool {
				cl, isCL := nd.(*ast.CompositeLit)
				if !isCL {
					return true
				}
				var keys, opts ast.Expr
				for _, e := range cl.Elts {
					if kv, isKV := e.(*ast.KeyValueExpr); isKV {
						if id, isID := kv.Key.(*ast.Ident); isID {
							switch id.Name {
							case "Keys":
								keys = kv.Value
							case "Options":
								opts = kv.Value
							}
						}
					}
				}
				if keys == nil || opts == nil {
					return true
				}
				unique := false
				ast.Inspect(opts, func(x ast.Node) bool {
					if call, isCall := x.(*ast.CallExpr); isCall {
						if sel, isSel := call.Fun.(*ast.SelectorExpr); isSel && sel.Sel.Name == "SetUnique" && len(call.Args) == 1 {
							if tv, has := p.TypesInfo.Types[call.Args[0]]; !has || tv.Value == nil || constant.BoolVal(tv.Value) {
								unique = true
							}
						}
					}
					return true
				})
				if !unique {
					return true
				}
				scoped := false
				ast.Inspect(keys, func(x ast.Node) bool {
					if sel, isSel := x.(*ast.SelectorExpr); isSel && sel.Sel.Name == "CollectionNum" {
						scoped = true
					}
					return true
				})
				pos := u.Pos(cl.Pos())
				if hasCol {
					r.Check(scoped, recvName+".GetIndexModel/unique index scoped by collection", pos, "keys include CollectionNum", "a unique index of "+recvName+" does not include the collection number: the second collection that uses the same value (e.g. the same datatype key) cannot store its document")
				}
				return true
			})
			r.OK(recvName+".GetIndexModel", u.Pos(fd.Pos()), "index declarations examined")
		}
	}
	if n < 4 {
		r.Lost("GetIndexModel declarations in server/schema")
	}
}

// ---------------------------------------------------------------------------------------------
// R02.6 a remote map/object operation always reaches the timestamp decision

func ruleR02_6(w *World, r *Report) {
	u := w.Client()
	r.Rule("R02.6", "on the remote path of a map/object put or remove the last-writer-wins decision function is reached on every path: no shortcut on the liveness of the key (a tombstone must still take the newer timestamp of a later remove, otherwise an older put resurrects the key)", 4)
	type hop struct{ recv, name string }
	decide := map[string]bool{"putCommonWithTimedType": true, "removeRemoteWithTimedType": true}
	n := 0
	for _, fn := range u.ordaFuncs(func(p string) bool { return p == pOrda }) {
		if flattenable[fn] || fn.Signature.Recv() == nil {
			continue
		}
		name := fn.Name()
		if strings.Contains(name, "Local") || decide[name] {
			continue
		}
		var calls []ssa.CallInstruction
		for _, c := range callsIn(fn) {
			if decide[calleeName(c)] || (strings.HasSuffix(calleeName(c), "Remote") && (strings.HasPrefix(calleeName(c), "remove") || strings.HasPrefix(calleeName(c), "put"))) || calleeName(c) == "putCommon" {
				if _, isGo := c.(*ssa.Go); !isGo {
					calls = append(calls, c)
				}
			}
		}
		if len(calls) == 0 {
			continue
		}
		// only chains below the remote entry points: put*/remove* helpers of the map snapshot and of the JSON object
		rn := recvTypeName(fn.Object().(*types.Func))
		if rn != "mapSnapshot" && rn != "jsonObject" {
			continue
		}
		for _, c := range calls {
			n++
			in := c.(ssa.Instruction)
			paths, ok := reachingLits(fn, nil, in)
			good := ok
			seen := ""
			for _, p := range paths {
				for _, l := range p {
					s := renderLit(l)
					if strings.Contains(s, "isTomb(") || strings.Contains(s, "get(") || strings.Contains(s, "getValue(") || strings.Contains(s, "getFromMap(") || l.Kind == "ok" {
						if l.Kind == "ok" {
							if _, isTA := l.X.(*ssa.TypeAssert); isTA {
								continue
							}
						}
						good = false
						seen = s
					}
				}
			}
			// and it is reached from the entry on every path (no early return before it)
			dom := true
			forEachOwnInstr(fn, func(x ssa.Instruction) {
				if ret, isRet := x.(*ssa.Return); isRet && ret.Block().Comment != "recover" && !instrDominates(in, ret) {
					ps, _ := reachingLits(fn, nil, ret)
					for _, p := range ps {
						for _, l := range p {
							s := renderLit(l)
							if strings.Contains(s, "isTomb(") || strings.Contains(s, "get(") || strings.Contains(s, "getValue(") || strings.Contains(s, "getFromMap(") {
								dom = false
								seen = s
							}
						}
					}
				}
			})
			r.Check(good && dom, fnName(fn)+"/"+calleeName(c)+" reached regardless of liveness", u.Pos(c.Pos()), "unconditional", "the timestamp decision "+calleeName(c)+" is skipped or taken depending on "+seen+": an operation on a removed key does not update the tombstone's timestamp, so replicas that receive the operations in different orders keep different values")
		}
	}
	if n < 4 {
		r.Bad("R02.6/instance-floor", "-", fmt.Sprintf("only %d calls of the decision functions found on the remote chains", n))
	}
}

// ---------------------------------------------------------------------------------------------
// R06.5 the operations of a push are stored by an ordered bulk write

func ruleR06_5(w *World, r *Report) {
	u := w.Server()
	r.Rule("R06.5", "bulk writes into the operation log are ordered (the driver default): the documents of a batch become visible, and fail, in sequence order, so every readable state of the log is a prefix 1..k", 1)
	n := 0
	for _, fn := range u.ordaFuncs(func(p string) bool { return p == pMongo }) {
		var bulks []ssa.CallInstruction
		for _, c := range callsIn(fn) {
			if calleeName(c) == "InsertMany" || calleeName(c) == "BulkWrite" {
				bulks = append(bulks, c)
			}
		}
		if len(bulks) == 0 {
			continue
		}
		for _, c := range bulks {
			n++
			bad := ""
			for _, o := range callsIn(fn) {
				if calleeName(o) != "SetOrdered" {
					continue
				}
				_, args := recvAndArgs(o)
				if len(args) == 1 {
					if k, isC := args[0].(*ssa.Const); isC && k.Value != nil && k.Value.Kind() == constant.Bool && constant.BoolVal(k.Value) {
						continue
					}
				}
				bad = u.Pos(o.Pos())
			}
			r.Check(bad == "", fnName(fn)+"/"+calleeName(c)+" ordered", u.Pos(c.Pos()), "ordered bulk write", "the bulk write is made unordered (SetOrdered at "+bad+"): a reader, or a batch that fails half-way, sees sequence numbers with a gap (1,2,4); a snapshot rebuilt at that moment misses an operation for good")
		}
	}
	if n < 1 {
		r.Lost("the bulk insert of pushed operations (MongoCollections.InsertOperations)")
	}
}

// definiteErrorExit: the return hands out an error that is known to be non-nil: built by an error constructor, or
// tested != nil on every path to the return. A passed-through result (return json.Marshal(x)) is not one.
func definiteErrorExit(fn *ssa.Function, ret *ssa.Return) bool {
	if len(ret.Results) == 0 {
		return false
	}
	last := ret.Results[len(ret.Results)-1]
	if !isErrorLike(last.Type()) {
		return false
	}
	if c, ok := last.(*ssa.Const); ok && c.Value == nil {
		return false
	}
	for _, v := range resolvePhisOwn(last) {
		v = stripIface(v)
		if c, ok := v.(*ssa.Call); ok && isConstructorOfError(c) {
			continue
		}
		paths, ok := reachingLitsOwn(fn, nil, ret)
		if !ok || len(paths) == 0 {
			return false
		}
		for _, p := range paths {
			tested := false
			for _, l := range p {
				if isNilCheckOf(l, v, false) || isNilCheckOf(l, last, false) {
					tested = true
				}
			}
			if !tested {
				return false
			}
		}
	}
	return true
}

// ---------------------------------------------------------------------------------------------
// Rules that guard the repairs of round 4 (F27-F42)

// R10.7 importing meta and snapshot takes a new rollback point (F28)
func ruleR10_7(w *World, r *Report) {
	u := w.Client()
	r.Rule("R10.7", "SetMetaAndSnapshot refreshes the rollback point (ResetTransaction) on every error-free path: a transaction that fails on a restored replica must roll back to the imported state, not to what the instance was before the import", 1)
	fn := u.Fn(pDatatypes, "SnapshotDatatype", "SetMetaAndSnapshot")
	if fn == nil {
		r.Lost("SnapshotDatatype.SetMetaAndSnapshot")
		return
	}
	good, n := true, 0
	detail := ""
	forEachOwnInstr(fn, func(in ssa.Instruction) {
		ret, ok := in.(*ssa.Return)
		if !ok || definiteErrorExit(fn, ret) {
			return
		}
		n++
		paths, okp := pathsWithBlocks(fn, nil, ret.Block())
		if !okp {
			good, detail = false, "too many paths"
			return
		}
		for _, p := range paths {
			has := false
			lits := p.Lits
			for _, c := range callsIn(fn) {
				if calleeName(c) == "ResetTransaction" && p.Blocks[c.Block()] {
					has = true
				}
			}
			// the path on which the datatype does not offer ResetTransaction at all (failed interface assertion) is
			// accepted only if that assertion is the literal that skips it
			if !has {
				for _, l := range lits {
					if l.Kind == "ok" && !l.Pol {
						if ta, isTA := l.X.(*ssa.TypeAssert); isTA {
							if it, isI := ta.AssertedType.Underlying().(*types.Interface); isI {
								for i := 0; i < it.NumMethods(); i++ {
									if it.Method(i).Name() == "ResetTransaction" {
										has = true
									}
								}
							}
						}
					}
				}
			}
			if !has {
				good = false
				detail = "the exit at " + u.Pos(ret.Pos()) + " is reached under " + litsString(lits) + " without ResetTransaction"
			}
		}
	})
	// ... taken after both halves were imported
	for _, c := range callsIn(fn) {
		if calleeName(c) != "ResetTransaction" {
			continue
		}
		for _, o := range callsIn(fn) {
			if n := calleeName(o); n == "SetMeta" || n == "Unmarshal" || n == "SetSnapshot" {
				if reachableFrom(c.(ssa.Instruction), o.(ssa.Instruction)) {
					good = false
					detail = "ResetTransaction runs before " + n + ": the rollback point carries the imported identifiers but the state from before the import"
				}
			}
		}
	}
	r.Check(good && n > 0, "SnapshotDatatype.SetMetaAndSnapshot/new rollback point", u.Pos(fn.Pos()), "ResetTransaction on every error-free path", detail+": the rollback point still describes the instance before the import, and the first failed transaction brings that back (F28)")
}

// R19.6 a nested transaction runs with the context of the enclosing one (F29)
func ruleR19_6(w *World, r *Report) {
	u := w.Client()
	r.Rule("R19.6", "DoTransaction never hands a nil transaction context to the user function: when BeginTransaction reports a nested call (nil) the function runs with the context of the enclosing transaction", 1)
	fn := u.Fn(pDatatypes, "TransactionDatatype", "DoTransaction")
	if fn == nil {
		r.Lost("TransactionDatatype.DoTransaction")
		return
	}
	var body *ssa.Call
	for _, c := range callsIn(fn) {
		if call, ok := c.(*ssa.Call); ok {
			if _, isParam := stripLoad(call.Call.Value).(*ssa.Parameter); isParam && !call.Call.IsInvoke() {
				body = call
			}
		}
	}
	if body == nil || len(body.Call.Args) != 1 {
		r.Lost("DoTransaction: the call of the user function")
		return
	}
	vals := resolvePhisOwn(body.Call.Args[0])
	hasOuter, onlyBegin := false, true
	for _, v := range vals {
		if p, ok := v.(*ssa.Parameter); ok && p != fn.Params[0] {
			hasOuter = true
			onlyBegin = false
		} else if c, ok := v.(*ssa.Call); !ok || calleeName(c) != "BeginTransaction" {
			onlyBegin = false
		}
	}
	good := hasOuter
	if onlyBegin {
		// acceptable only if the call is guarded by result != nil
		paths, ok := reachingLitsOwn(fn, nil, body)
		good = ok && len(paths) > 0
		for _, p := range paths {
			g := false
			for _, l := range p {
				for _, v := range vals {
					if isNilCheckOf(l, v, false) {
						g = true
					}
				}
			}
			good = good && g
		}
	}
	r.Check(good, "TransactionDatatype.DoTransaction/context of a nested call", u.Pos(body.Pos()), "enclosing context when nested", "the user function receives the result of BeginTransaction, which is nil for a call nested in a running transaction: its operations run with a nil context and the first one locks the mutex the goroutine already holds (Patch/PatchByJSON with several operations inside Transaction deadlocks, F29)")
}

// R19.7 the paths of a patch are resolved from the document the patch is applied to (F30)
func ruleR19_7(w *World, r *Report) {
	u := w.Client()
	r.Rule("R19.7", "patchEach resolves the path of a patch operation starting at the node of the Document it is called on (PatchByJSON computed the difference against that node's value), not at the root", 1)
	fn := u.Fn(pOrda, "document", "patchEach")
	if fn == nil {
		r.Lost("document.patchEach")
		return
	}
	n := 0
	resolvers := callsNamed(fn, "getTargetFromPatch")
	if len(resolvers) == 0 {
		// renamed: the resolver is the call that yields (node, key, error) from (node, path)
		for _, c := range callsIn(fn) {
			res := c.Common().Signature().Results()
			if res.Len() == 3 && strings.HasSuffix(res.At(0).Type().String(), ".jsonType") && res.At(1).Type().String() == "string" {
				resolvers = append(resolvers, c)
			}
		}
	}
	for _, c := range resolvers {
		n++
		_, args := recvAndArgs(c)
		good := false
		seen := "no start node"
		if len(args) == 2 {
			seen = canonName(args[0])
			good = seen == "$0.snapshot()"
		}
		r.Check(good, "document.patchEach/start node", u.Pos(c.Pos()), "starts at its.snapshot()", "the patch path is resolved starting at "+seen+": a patch applied to a child Document changes another part of the tree (F30)")
	}
	if n == 0 {
		r.Lost("patchEach: getTargetFromPatch")
	}
	// and the resolver does start where it is told
	if g := u.Fn(pOrda, "jsonPrimitive", "getTargetByPaths"); g != nil && len(g.Params) >= 3 {
		usesFrom := false
		forEachOwnInstr(g, func(in ssa.Instruction) {
			if phi, ok := in.(*ssa.Phi); ok {
				for _, e := range phi.Edges {
					if e == ssa.Value(g.Params[1]) {
						usesFrom = true
					}
				}
			}
		})
		roots := callsNamed(g, "getRoot")
		r.Check(usesFrom && len(roots) == 0, "jsonPrimitive.getTargetByPaths/walk starts at the given node", u.Pos(g.Pos()), "node := from", "the walk does not start at the node it is given (it consults getRoot or ignores the start node)")
	} else {
		r.Lost("jsonPrimitive.getTargetByPaths(from, paths)")
	}
}

// R11.6 the server-side replica of an existing datatype is reset before use (F34)
func ruleR11_6(w *World, r *Report) {
	u := w.Server()
	r.Rule("R11.6", "GetLatestDatatype resets the wire state (ResetWired) of the replica it builds on every error-free path, after any import of a stored snapshot: the replica's own creation-time snapshot operation must never be pushed into the log of an existing datatype", 1)
	fn := u.Fn(pSnapshot, "Manager", "GetLatestDatatype")
	if fn == nil {
		r.Lost("snapshot.Manager.GetLatestDatatype")
		return
	}
	resets := callsNamed(fn, "ResetWired")
	good := len(resets) > 0
	detail := "ResetWired is never called"
	forEachInstr(fn, func(in ssa.Instruction) {
		ret, ok := in.(*ssa.Return)
		if !ok || ret.Parent() != fn || returnsNonNilLast(ret) {
			return
		}
		dom := false
		for _, c := range resets {
			if instrDominates(c.(ssa.Instruction), ret) {
				dom = true
			}
		}
		if !dom {
			// the datatype does not exist on the server yet (no DUID): the replica's creation is what will be pushed
			paths, okp := reachingLitsOwn(fn, nil, ret)
			fresh := okp && len(paths) > 0
			for _, p := range paths {
				g := false
				for _, l := range p {
					if l.Kind == "cmp" && l.Op == token.EQL && strings.HasSuffix(canonName(loadSource(l.X)), ".DUID") {
						if c, isC := l.Y.(*ssa.Const); isC && c.Value != nil && c.Value.Kind() == constant.String && constant.StringVal(c.Value) == "" {
							g = true
						}
					}
				}
				fresh = fresh && g
			}
			dom = fresh
		}
		if !dom {
			good = false
			detail = "the error-free exit at " + u.Pos(ret.Pos()) + " is reached on a path without ResetWired (e.g. only when a stored snapshot exists)"
		}
	})
	for _, c := range resets {
		for _, s := range callsNamed(fn, "SetMetaAndSnapshot") {
			if reachableFrom(c.(ssa.Instruction), s.(ssa.Instruction)) {
				good = false
				detail = "ResetWired runs before SetMetaAndSnapshot, which overwrites the operation id again"
			}
		}
	}
	r.Check(good, "Manager.GetLatestDatatype/replica reset", u.Pos(fn.Pos()), "ResetWired dominates every error-free exit", detail+": PatchDocument pushes the replica's own empty creation snapshot ahead of the patch operations, and every replay of the log resets the document at that position (F34)")
}

// R17.11 reserved collection names are refused before the database is touched (F35)
func ruleR17_11(w *World, r *Report) {
	u := w.Server()
	r.Rule("R17.11", "the repository functions that create or purge a collection by a caller-supplied name refuse the names of Orda's internal collections first; the refusal covers every internal collection name", 3)
	res := u.Fn(pSchema, "", "IsReservedCollectionName")
	if res == nil {
		r.Lost("schema.IsReservedCollectionName")
		return
	}
	// the predicate covers all CollectionName* constants
	want := map[string]bool{}
	if p := u.Pkgs[pSchema]; p != nil {
		for _, n := range p.Types.Scope().Names() {
			if c, ok := p.Types.Scope().Lookup(n).(*types.Const); ok && strings.HasPrefix(n, "CollectionName") && c.Val().Kind() == constant.String {
				want[constant.StringVal(c.Val())] = true
			}
		}
	}
	got := map[string]bool{}
	forEachOwnInstr(res, func(in ssa.Instruction) {
		if b, ok := in.(*ssa.BinOp); ok && b.Op == token.EQL {
			for _, v := range []ssa.Value{b.X, b.Y} {
				if c, isC := v.(*ssa.Const); isC && c.Value != nil && c.Value.Kind() == constant.String {
					got[constant.StringVal(c.Value)] = true
				}
			}
		}
	})
	missing := ""
	for n := range want {
		if !got[n] {
			missing += " " + n
		}
	}
	r.Check(len(want) >= 6 && missing == "", "schema.IsReservedCollectionName/covers every internal collection", u.Pos(res.Pos()), fmt.Sprintf("%d names", len(want)), "the reserved-name test does not cover:"+missing)
	for _, spec := range [][2]string{{"RepositoryMongo", "PurgeCollection"}, {"", "MakeCollection"}} {
		fn := u.Fn(pMongo, spec[0], spec[1])
		cons := spec[1] + "/reserved names refused first"
		if fn == nil {
			r.Lost("mongodb." + spec[1])
			continue
		}
		var chk *ssa.Call
		for _, c := range callsNamed(fn, "IsReservedCollectionName") {
			chk, _ = c.(*ssa.Call)
		}
		if chk == nil {
			r.Bad(cons, u.Pos(fn.Pos()), "the name is not tested against the internal collection names: resetting or creating a collection called like an internal one drops or shadows the data of every collection (F35)")
			continue
		}
		bad := ""
		for _, c := range callsIn(fn) {
			in := c.(ssa.Instruction)
			if in == ssa.Instruction(chk) || isConstructorOfError(asCallOrNil(c)) || calleeName(c) == "L" {
				continue
			}
			paths, _ := reachingLitsOwn(fn, nil, in)
			for _, p := range paths {
				refused := false
				for _, l := range p {
					if l.Kind == "call" && l.Call == chk && !l.Pol {
						refused = true
					}
				}
				if !refused && !instrDominates(in, chk) {
					// calls on the refusal branch itself (building the error) are fine
					onRefusal := false
					for _, l := range p {
						if l.Kind == "call" && l.Call == chk && l.Pol {
							onRefusal = true
						}
					}
					if !onRefusal {
						bad = calleeName(c)
					}
				}
			}
		}
		nameArg := false
		for _, a := range chk.Call.Args {
			if _, isP := a.(*ssa.Parameter); isP {
				nameArg = true
			}
		}
		r.Check(bad == "" && nameArg, cons, u.Pos(chk.Pos()), "tested before any other call", "the call "+bad+" is reachable without having passed the reserved-name refusal")
	}
}

func asCallOrNil(c ssa.CallInstruction) *ssa.Call {
	call, _ := c.(*ssa.Call)
	if call == nil {
		return &ssa.Call{}
	}
	return call
}

// R03.9 bounds checks do not add two caller-supplied integers (F39)
func ruleR03_9(w *World, r *Report) {
	u := w.Client()
	r.Rule("R03.9", "the range validators compare a caller-supplied count with what is left after the position (count > size-pos); they never add position and count, a sum that wraps around for huge arguments and lets an invalid range through", 3)
	n := 0
	for _, fn := range u.ordaFuncs(func(p string) bool { return p == pOrda }) {
		if !strings.HasPrefix(fn.Name(), "validate") || fn.Signature.Recv() == nil {
			continue
		}
		n++
		bad := ""
		forEachOwnInstr(fn, func(in ssa.Instruction) {
			b, ok := in.(*ssa.BinOp)
			if !ok {
				return
			}
			switch b.Op {
			case token.LSS, token.LEQ, token.GTR, token.GEQ:
			default:
				return
			}
			for _, side := range []ssa.Value{b.X, b.Y} {
				if s, isS := side.(*ssa.BinOp); isS && (s.Op == token.ADD || s.Op == token.MUL) {
					_, px := s.X.(*ssa.Parameter)
					_, py := s.Y.(*ssa.Parameter)
					if px && py {
						bad = canonName(side)
					}
				}
			}
		})
		r.Check(bad == "", fnName(fn)+"/no overflowing sum", u.Pos(fn.Pos()), "no sum of two parameters in a comparison", "the bounds check compares "+bad+", the sum of two caller-supplied integers: it wraps around for huge arguments, the invalid range is accepted, and the operation panics after it has partly been applied (F39)")
	}
	if n < 3 {
		r.Lost("the validate* functions of the list snapshot")
	}
}

// R03.10 an index parsed from a path is range-checked before it selects an element (F37)
func ruleR03_10(w *World, r *Report) {
	u := w.Client()
	r.Rule("R03.10", "in the path walker an array index parsed from a path segment is checked against 0 and the array size before it selects an element, and a path that continues below a scalar is refused", 2)
	fn := u.Fn(pOrda, "jsonPrimitive", "getTargetByPaths")
	if fn == nil {
		r.Lost("jsonPrimitive.getTargetByPaths")
		return
	}
	n := 0
	for _, c := range callsNamed(fn, "getJSONType") {
		_, args := recvAndArgs(c)
		if len(args) != 1 {
			continue
		}
		n++
		ab := rewriter(`^strconv\.Atoi\(.*\)#0$`, "IDX", `^.*\.size$`, "SIZE")
		paths, ok := pathLinCmps(fn, c.(ssa.Instruction), ab)
		good := ok && len(paths) > 0
		for _, p := range paths {
			lower, upper := false, false
			for _, l := range p {
				switch l {
				case "-IDX <= 0", "-IDX-1 < 0":
					lower = true
				case "+IDX-SIZE < 0", "+IDX-SIZE+1 <= 0":
					upper = true
				}
			}
			good = good && lower && upper
		}
		r.Check(good, "getTargetByPaths/array index in range", u.Pos(c.Pos()), "0 <= index < size on every path", fmt.Sprintf("the parsed index selects an element under %v, without 0 <= index < size: GetByPath with an index outside the array panics (F37)", paths))
	}
	if n == 0 {
		r.Lost("getTargetByPaths: element selection by a parsed index")
	}
	// scalar arm refuses
	refuses := false
	for _, b := range fn.Blocks {
		if len(b.Instrs) == 0 {
			continue
		}
		ifi, ok := b.Instrs[len(b.Instrs)-1].(*ssa.If)
		if !ok {
			continue
		}
		lc, okc := canonLinCmp(normLit(condEdge{ifi.Cond, true}))
		if !okc || !strings.Contains(lc.String(), "getType()") {
			continue
		}
		// TypeJSONElement is the first constant of the enumeration
		k := constOfName(u, pOrda, "TypeJSONElement")
		if lc.String() != fmt.Sprintf("+%s == 0", strings.TrimSuffix(strings.TrimPrefix(lc.L.String(), "+"), fmt.Sprintf("-%d", k))) && !strings.HasSuffix(lc.String(), fmt.Sprintf("-%d == 0", k)) && !(k == 0 && strings.HasSuffix(lc.String(), "getType() == 0")) {
			continue
		}
		ok2, _ := mustReachFromBlock(b.Succs[0], func(in ssa.Instruction) bool {
			ret, isRet := in.(*ssa.Return)
			return isRet && returnsNonNilLast(ret)
		})
		if ok2 {
			refuses = true
		}
	}
	r.Check(refuses, "getTargetByPaths/path below a scalar refused", u.Pos(fn.Pos()), "the scalar arm returns an error", "a path that continues below a scalar is not refused: the scalar is returned as if it were the addressed node (F37)")
}

func constOfName(u *Universe, pkg, name string) int64 {
	p := u.Pkgs[pkg]
	if p == nil {
		return -1
	}
	c, ok := p.Types.Scope().Lookup(name).(*types.Const)
	if !ok {
		return -1
	}
	v, _ := constant.Int64Val(c.Val())
	return v
}

// R03.11 a slice with constant offsets is guarded by the length it needs (F41)
func ruleR03_11(w *World, r *Report) {
	u := w.Client()
	r.Rule("R03.11", "getTargetFromPatch cuts the first and the last segment off the split path only after it has made sure there are at least two segments (the empty path, which addresses the whole document, is refused)", 1)
	fn := u.Fn(pOrda, "jsonPrimitive", "getTargetFromPatch")
	if fn == nil {
		r.Lost("jsonPrimitive.getTargetFromPatch")
		return
	}
	n := 0
	forEachInstr(fn, func(in ssa.Instruction) {
		sl, ok := in.(*ssa.Slice)
		if !ok || sl.Low == nil || sl.High == nil {
			return
		}
		lo, isK := constInt(sl.Low)
		if !isK || lo < 1 {
			return
		}
		n++
		ab := rewriter(`^len\(strings\.Split\(.*\)\)$`, "LEN")
		hi := abstractLin(canonLinear(sl.High), ab).String()
		paths, okp := pathLinCmps(fn, in, ab)
		good := okp && len(paths) > 0 && hi == "+LEN-1" && lo == 1
		for _, p := range paths {
			g := false
			for _, l := range p {
				switch l {
				case "-LEN+2 <= 0", "-LEN+1 < 0":
					g = true
				}
			}
			good = good && g
		}
		r.Check(good, "getTargetFromPatch/segments cut under len >= 2", u.Pos(sl.Pos()), "paths[1:len-1] under len(paths) >= 2", fmt.Sprintf("the split path is sliced [%d:%s] under %v, without len >= 2: a patch operation with the empty path (PatchByJSON with a non-object target) panics (F41)", lo, hi, paths))
	})
	if n == 0 {
		r.Lost("getTargetFromPatch: slicing of the split path")
	}
}

// R03.12 no type assertion on, and no Document around, a result that may be nil (F31, F38)
func ruleR03_12(w *World, r *Report) {
	u := w.Client()
	r.Rule("R03.12", "in the client API a non-comma-ok type assertion is never applied to the result of an orda function that can return nil, and toDocument is never given the possibly-nil parent of a node, unless a nil test guards it", 2)
	var mayReturnNilD func(f *ssa.Function, idx, depth int) bool
	mayReturnNilD = func(f *ssa.Function, idx, depth int) bool {
		if f == nil || len(f.Blocks) == 0 || depth > 4 {
			return false
		}
		found := false
		forEachOwnInstr(f, func(in ssa.Instruction) {
			ret, ok := in.(*ssa.Return)
			if !ok || idx >= len(ret.Results) {
				return
			}
			for _, v := range resolvePhisOwn(ret.Results[idx]) {
				// (a nil written out in a new helper stands for a local that was nil in the caller before the helper
				// was extracted: what counts there is a nil handed on from a function of the reviewed tree)
				if c, isC := v.(*ssa.Const); isC && c.Value == nil && !(depth == 0 && flattenable[f]) {
					found = true
				}
				// a result handed on from another orda function
				var call *ssa.Call
				j := 0
				switch y := stripIface(v).(type) {
				case *ssa.Call:
					call = y
				case *ssa.Extract:
					call, _ = y.Tuple.(*ssa.Call)
					j = y.Index
				}
				if call != nil {
					if g := staticCallee(call); g != nil && g != f && g.Pkg != nil && isOrda(g.Pkg.Pkg.Path()) && mayReturnNilD(g, j, depth+1) {
						found = true
					}
				}
			}
		})
		return found
	}
	mayReturnNil := func(f *ssa.Function, idx int) bool { return mayReturnNilD(f, idx, 0) }
	guarded := func(fn *ssa.Function, in ssa.Instruction, v ssa.Value) bool {
		paths, ok := reachingLitsOwn(fn, nil, in)
		if !ok || len(paths) == 0 {
			return false
		}
		for _, p := range paths {
			g := false
			for _, l := range p {
				if isNilCheckOf(l, v, false) {
					g = true
				}
			}
			if !g {
				return false
			}
		}
		return true
	}
	n := 0
	for _, fn := range u.ordaFuncs(func(p string) bool { return p == pOrda }) {
		if flattenable[fn] {
			continue
		}
		forEachOwnInstr(fn, func(in ssa.Instruction) {
			switch x := in.(type) {
			case *ssa.TypeAssert:
				if x.CommaOk {
					return
				}
				src := x.X
				var call *ssa.Call
				idx := 0
				switch y := src.(type) {
				case *ssa.Call:
					call = y
				case *ssa.Extract:
					call, _ = y.Tuple.(*ssa.Call)
					idx = y.Index
				}
				if call == nil {
					return
				}
				callee := staticCallee(call)
				if callee == nil || callee.Pkg == nil || !isOrda(callee.Pkg.Pkg.Path()) || !mayReturnNil(callee, idx) {
					return
				}
				n++
				r.Check(guarded(fn, in, src), fnName(fn)+"/assertion on the result of "+fnName(callee), u.Pos(x.Pos()), "guarded by != nil", "the result of "+fnName(callee)+", which can be nil (a refused call), is type-asserted without a nil test: the assertion panics after the error handler has run (F31)")
			case *ssa.Call:
				if calleeName(x) != "toDocument" {
					return
				}
				_, args := recvAndArgs(x)
				if len(args) != 1 {
					return
				}
				src := stripIface(args[0])
				c, isCall := src.(*ssa.Call)
				if !isCall || calleeName(c) != "getParent" {
					return
				}
				n++
				r.Check(guarded(fn, in, args[0]) || guarded(fn, in, src), fnName(fn)+"/Document around the parent node", u.Pos(x.Pos()), "parent != nil", "a Document is built around getParent() without a nil test: the root has no parent, and the Document around nil panics on its first use (F38)")
			}
		})
	}
	if n < 1 {
		r.Lost("sites that wrap a possibly-nil result (GetParentDocument)")
	}
}

// ---------------------------------------------------------------------------------------------
// Findings of round 4 that are recorded, not repaired (F43-F45)

// R13.6 a retried subscription adopts the datatype's DUID (F43)
func ruleR13_6(w *World, r *Report) {
	u := w.Server()
	r.Rule("R13.6", "a Subscribe or SubscribeOrCreate request of a client that is already registered for the key (the retry after a lost response) is not handled under the requester's own, client-chosen DUID: the arm subscribes again (adopting the datatype's DUID) instead of just proceeding", 2)
	table, pos, _, ok := dispatchTable(u)
	if !ok {
		r.Undecided("processSubscribeOrCreate/table", "", "dispatch table not recognised")
		return
	}
	for _, bits := range []string{"S", "S|C"} {
		k := bits + ",caseAllMatchedSubscribed"
		got := table[k]
		r.Check(got == "subscribe" || strings.HasPrefix(got, "differs:subscribe|"), "processSubscribeOrCreate/("+k+") retried subscription", pos[k], got,
			"outcome is '"+got+"': the retried request goes on as an ordinary push-pull under the requester's own DUID - nothing is pulled, the response carries the wrong DUID, and the subscriber's operations are stored under that DUID while the real datatype's end of log is advanced")
	}
}

// R09.9 the error of a member of a received unit is not discarded (F44)
func ruleR09_9(w *World, r *Report) {
	u := w.Client()
	r.Rule("R09.9", "the error of ExecuteRemote is not discarded where received operations are applied: a member of a transaction unit that cannot be executed must be able to fail the unit", 1)
	// wherever the datatype layer applies a received operation (executeRemoteBase in the reviewed tree; its callers
	// when that small function is inlined)
	n := 0
	for _, fn := range u.ordaFuncs(func(p string) bool { return p == pDatatypes }) {
		for _, c := range ownCallsIn(fn) {
			call, ok := c.(*ssa.Call)
			if !ok || !call.Call.IsInvoke() || calleeName(call) != "ExecuteRemote" {
				continue
			}
			n++
			ev := errResult(call)
			used := ev != nil && len(realRefs(ev)) > 0
			r.Check(used, "remote apply/error of ExecuteRemote", u.Pos(c.Pos()), "the error is consumed", "the error of ExecuteRemote is discarded: an operation of a received transaction unit that cannot be executed is skipped silently and the rest of the unit is applied (neither all nor none)")
		}
	}
	if n == 0 {
		r.Lost("the datatype layer: ExecuteRemote")
	}
}

// R09.10 the checkpoint moves past a received unit only when the unit is complete (F45)
func ruleR09_10(w *World, r *Report) {
	u := w.Client()
	r.Rule("R09.10", "ApplyPushPullPack advances the checkpoint past the received operations only after their units were found complete (a check that can refuse precedes syncCheckPoint, or the application itself does)", 1)
	fn := u.Fn(pDatatypes, "WiredDatatype", "ApplyPushPullPack")
	if fn == nil {
		r.Lost("WiredDatatype.ApplyPushPullPack")
		return
	}
	var sync ssa.CallInstruction
	for _, c := range callsNamed(fn, "syncCheckPoint") {
		sync = c
	}
	if sync == nil {
		r.Lost("ApplyPushPullPack: syncCheckPoint")
		return
	}
	// a call that inspects the received operations and whose error result guards syncCheckPoint
	good := false
	for _, c := range callsIn(fn) {
		call, ok := c.(*ssa.Call)
		if !ok || call == sync || calleeName(call) == "checkOptionAndError" {
			continue
		}
		takesOps := false
		for _, a := range call.Call.Args {
			if strings.HasSuffix(canonName(a), ".Operations") || canonName(a) == "$1" {
				takesOps = true
			}
		}
		if takesOps && errResult(call) != nil && guardedByNilErr(fn, sync.(ssa.Instruction), call) {
			good = true
		}
	}
	r.Check(good, "WiredDatatype.ApplyPushPullPack/checkpoint after completeness check", u.Pos(sync.Pos()), "units checked before the checkpoint moves", "the checkpoint is advanced before the received operations are examined: a response that ends inside a transaction unit is refused by ReceiveRemoteModelOperations, but its positions are already consumed, so the rest of the unit arrives with the next pull and is applied alone")
}

// ---------------------------------------------------------------------------------------------
// Round 5

// R07.4 the push buffer is only appended to or reset as a whole
func ruleR07_4(w *World, r *Report) {
	u := w.Client()
	r.Rule("R07.4", "the buffer of operations waiting to be pushed (WiredDatatype.localBuffer) is only appended to by DeliverTransaction and reset as a whole by the constructor, ResetWired and the subscribe reset; nothing trims it by a checkpoint (what is sent is chosen by position at send time, so a stale response can never drop unpushed operations)", 3)
	allowed := map[string]string{
		"NewWiredDatatype":                    "constructor",
		"WiredDatatype.ResetWired":            "reset",
		"WiredDatatype.DeliverTransaction":    "append",
		"WiredDatatype.updateStateOfDatatype": "subscribe reset",
	}
	n := 0
	for _, fn := range u.ordaFuncs(func(p string) bool { return p == pDatatypes || p == pOrda || p == pCManagers }) {
		if flattenable[fn] {
			continue
		}
		for _, st := range storesTo(fn, ".localBuffer") {
			owner, fld, base, ok := storeField(st.Addr)
			if !ok || owner != "WiredDatatype" || fld != "localBuffer" {
				continue
			}
			n++
			name := fnName(fn)
			kind, known := allowed[name]
			if isFreshBase(base) {
				kind, known = "constructor", true
			}
			good := known
			val := canonName(st.Val)
			switch kind {
			case "append":
				good = good && strings.HasPrefix(val, "append($0.localBuffer,")
			case "reset", "subscribe reset", "constructor":
				_, isMake := st.Val.(*ssa.MakeSlice)
				_, isSlice := st.Val.(*ssa.Slice)
				good = good && (isMake || isSlice) && !strings.Contains(val, "localBuffer")
			}
			r.Check(good, name+"/writes the push buffer", u.Pos(st.Pos()), kind, "the push buffer is written by "+name+" as "+val+": only DeliverTransaction (append) and the whole-buffer resets may change it; trimming it (for instance by the checkpoint of a response, which may be stale) drops operations that were never pushed")
		}
	}
	if n < 3 {
		r.Lost("writers of WiredDatatype.localBuffer")
	}
}

// R03.13 the recursive null test visits every element of a container
func ruleR03_13(w *World, r *Report) {
	u := w.Client()
	r.Rule("R03.13", "the recursive null test of Document values answers 'no null' only after it has looked at the whole value: a constant false is returned only under tests of the value's kind, loop exits and the answers of its own recursive calls - never under a shortcut on element types", 1)
	n := 0
	for _, fn := range u.ordaFuncs(func(p string) bool { return p == pOrda || p == pTypes }) {
		if !isNullPredicate(fn) {
			continue
		}
		recursive := false
		for _, c := range callsIn(fn) {
			if staticCallee(c) == fn {
				recursive = true
			}
		}
		if !recursive {
			continue
		}
		n++
		bad := ""
		// is the predicate applied to a decoded value somewhere (a function that marshals and unmarshals JSON and
		// hands the predicate something that is not just its parameter)?
		decodedToo := false
		for _, g := range u.ordaFuncs(func(p string) bool { return p == pOrda || p == pTypes }) {
			if m, um := jsonRoundTrip(g, 0, map[*ssa.Function]bool{}); !(m && um) {
				continue
			}
			for _, c := range callsIn(g) {
				if staticCallee(c) != fn {
					continue
				}
				for _, a := range c.Common().Args {
					if o := origins(throughValueOf(a)); o["alloc"] && !o.hasPrefix("param:") {
						decodedToo = true
					}
				}
			}
		}
		forEachOwnInstr(fn, func(in ssa.Instruction) {
			ret, ok := in.(*ssa.Return)
			if !ok || len(ret.Results) != 1 {
				return
			}
			isFalse := false
			for _, v := range resolvePhisOwn(ret.Results[0]) {
				if c, isC := v.(*ssa.Const); isC && c.Value != nil && c.Value.Kind() == constant.Bool && !constant.BoolVal(c.Value) {
					isFalse = true
				}
			}
			if !isFalse {
				return
			}
			paths, _ := reachingLitsOwn(fn, nil, ret)
			for _, p := range paths {
				// the test is (also) applied to the value as decoded from JSON, whose containers all have the element
				// type interface{}: a path that requires another element type is never taken for that form
				if decodedToo {
					infeasible := false
					for _, l := range p {
						if s := renderLit(l); strings.HasSuffix(s, ".Type().Elem().Kind() != 20") {
							infeasible = true
						}
					}
					if infeasible {
						continue
					}
				}
				for _, l := range p {
					s := renderLit(l)
					switch {
					case strings.Contains(s, ".Kind()") && !strings.Contains(s, "Elem()") && !strings.Contains(s, "Type()"):
					case strings.Contains(s, "φ") || strings.Contains(s, "len(") || strings.Contains(s, ".Len()"):
					case strings.Contains(s, fn.Name()+"("):
					case strings.Contains(s, "Next("):
					case strings.Contains(s, "IsNil("): // a nil slice or map is itself the null (F46)
					case strings.Contains(s, "StructToMap") || strings.Contains(s, "== nil") || strings.Contains(s, "!= nil"):
					default:
						bad = s
					}
				}
			}
		})
		r.Check(bad == "", fnName(fn)+"/no shortcut", u.Pos(fn.Pos()), "false only after the whole value was visited", "the null test answers 'no null' under "+bad+": part of the value is never looked at (e.g. a slice whose element type is not an interface), and a null nested there panics in reflect after the operation identifier was taken")
	}
	if n < 1 {
		r.Lost("the recursive null test of Document values (hasNullValue)")
	}
}

// R13.7 the client-local refusal of a key does not depend on handlers (F47)
func ruleR13_7(w *World, r *Report) {
	u := w.Client()
	r.Rule("R13.7", "when the client's registry refuses a key (it is used by a datatype of another type) subscribeOrCreateDatatype returns nil on every path, whether or not handlers were given, and an error handler is only called when there is one", 2)
	fn := u.Fn(pOrda, "clientImpl", "subscribeOrCreateDatatype")
	if fn == nil {
		r.Lost("clientImpl.subscribeOrCreateDatatype")
		return
	}
	var exist *ssa.Call
	for _, c := range callsNamed(fn, "ExistDatatype") {
		exist, _ = c.(*ssa.Call)
	}
	if exist == nil {
		r.Lost("subscribeOrCreateDatatype: ExistDatatype")
		return
	}
	ev := errResult(exist)
	found := false
	for _, b := range exist.Parent().Blocks {
		if len(b.Instrs) == 0 {
			continue
		}
		ifi, ok := b.Instrs[len(b.Instrs)-1].(*ssa.If)
		if !ok {
			continue
		}
		l := normLit(condEdge{ifi.Cond, true})
		var entry *ssa.BasicBlock
		switch {
		case isNilCheckOf(l, ev, false):
			entry = b.Succs[0]
		case isNilCheckOf(l, ev, true):
			entry = b.Succs[1]
		default:
			continue
		}
		found = true
		reach, bad := mustReachFromBlock(entry, func(in ssa.Instruction) bool {
			ret, isRet := in.(*ssa.Return)
			if !isRet || len(ret.Results) != 1 {
				return false
			}
			if ret.Parent() != fn {
				return false // the exit of a new helper: the walk goes on in the caller
			}
			c, isC := envValue(ret.Results[0]).(*ssa.Const)
			return isC && c.Value == nil
		})
		pos := u.Pos(ifi.Pos())
		if bad != nil {
			pos = u.Pos(bad.Pos())
		}
		r.Check(reach, "subscribeOrCreateDatatype/refused key returns nil", pos, "nil on every path after the refusal", "after the registry refused the key there is a path that goes on (for instance when no handlers were given): a second datatype is handed out for the key, which is never registered and never synchronized (F47)")
	}
	if !found {
		r.Bad("subscribeOrCreateDatatype/refused key returns nil", u.Pos(exist.Pos()), "the error of ExistDatatype is not tested")
	}
	// every call of the error handler is guarded by errorHandler != nil
	n := 0
	for _, c := range callsIn(fn) {
		call, ok := c.(*ssa.Call)
		if !ok || call.Call.IsInvoke() || call.Call.StaticCallee() != nil {
			continue
		}
		name := canonName(call.Call.Value)
		if !strings.HasSuffix(name, ".errorHandler") {
			continue
		}
		n++
		// the guard is looked for on the paths of the function that holds the call (the anchored function or a new
		// helper), each literal taken by itself: either the test errorHandler != nil, or a true predicate helper
		// that returns true only under that test
		isSet := func(l Lit) bool {
			if l.Kind == "cmp" && l.Op == token.NEQ && strings.HasSuffix(canonName(loadSource(l.X)), ".errorHandler") {
				if k, isC := l.Y.(*ssa.Const); isC && k.Value == nil {
					return true
				}
			}
			return false
		}
		paths, okp := reachingLitsOwn(call.Parent(), nil, call)
		good := okp && len(paths) > 0
		for _, p := range paths {
			g := false
			for _, l := range p {
				if isSet(l) {
					g = true
				}
				if l.Kind == "call" && l.Pol && l.Call != nil {
					if h := l.Call.Call.StaticCallee(); h != nil && flattenable[h] {
						if hl, okh := boolReturnLits(h, true); okh && len(hl) > 0 {
							all := true
							for _, hp := range hl {
								has := false
								for _, x := range hp {
									if isSet(x) {
										has = true
									}
								}
								all = all && has
							}
							if all {
								g = true
							}
						}
					}
				}
			}
			good = good && g
		}
		if os.Getenv("VERIF_DEBUG_R137") != "" {
			for _, p := range paths {
				fmt.Fprintf(os.Stderr, "R13.7 %s: %s\n", u.Pos(call.Pos()), litsString(p))
			}
		}
		r.Check(good, "subscribeOrCreateDatatype/error handler called only when set", u.Pos(call.Pos()), "guarded by errorHandler != nil", "the error handler is called without a test that it is set: handlers without an error handler make the refusal panic (F47)")
	}
	if n == 0 {
		r.Lost("subscribeOrCreateDatatype: calls of the error handler")
	}
}

// R03.14 a caller-supplied value is never type-asserted without the comma-ok form (F48)
func ruleR03_14(w *World, r *Report) {
	u := w.Client()
	r.Rule("R03.14", "in the value-conversion code of the client a value that arrives as interface{} (a caller-supplied value, or rv.Interface() of one) is never asserted to a concrete type without the comma-ok form: the assertion panics for every other type of the same kind (map[string]string is not map[string]interface{})", 1)
	n := 0
	for _, fn := range u.ordaFuncs(func(p string) bool { return p == pOrda || p == pTypes }) {
		if flattenable[fn] || !strings.HasPrefix(fn.Name(), "create") && !strings.HasPrefix(fn.Name(), "Convert") && !strings.HasPrefix(fn.Name(), "addValue") {
			continue
		}
		n++
		forEachOwnInstr(fn, func(in ssa.Instruction) {
			ta, ok := in.(*ssa.TypeAssert)
			if !ok || ta.CommaOk {
				return
			}
			if _, isIface := ta.AssertedType.Underlying().(*types.Interface); isIface {
				return
			}
			it, isI := ta.X.Type().Underlying().(*types.Interface)
			if !isI || it.NumMethods() != 0 {
				return
			}
			src := ta.X
			fromCaller := false
			if _, isP := src.(*ssa.Parameter); isP {
				fromCaller = true
			}
			if c, isC := src.(*ssa.Call); isC && calleeName(c) == "Interface" {
				fromCaller = true
			}
			if !fromCaller {
				return
			}
			r.Bad(fnName(fn)+"/assertion on a caller-supplied value", u.Pos(ta.Pos()), "the value "+canonName(src)+" is asserted to "+ta.AssertedType.String()+" without the comma-ok form: any other type of that kind panics after the operation identifier was taken (F48)")
		})
		r.OK(fnName(fn)+"/no unchecked assertion on caller values", u.Pos(fn.Pos()), "examined")
	}
	if n < 3 {
		r.Lost("value-conversion functions (create*, Convert*)")
	}
}

// R03.15 a put never reports a tombstone as the value it replaced (F49)
func ruleR03_15(w *World, r *Report) {
	u := w.Client()
	r.Rule("R03.15", "the element a put on a Document object reports as replaced is not one that was already deleted: in putCommon the existing element is returned only when it was not a tombstone before it is buried", 1)
	fn := u.Fn(pOrda, "jsonObject", "putCommon")
	if fn == nil {
		r.Lost("jsonObject.putCommon")
		return
	}
	var decide *ssa.Call
	for _, c := range callsNamed(fn, "putCommonWithTimedType") {
		decide, _ = c.(*ssa.Call)
	}
	funerals := callsNamed(fn, "funeral")
	if decide == nil || len(funerals) == 0 {
		r.Lost("putCommon: putCommonWithTimedType and funeral")
		return
	}
	n := 0
	good := true
	detail := ""
	forEachOwnInstr(fn, func(in ssa.Instruction) {
		ret, ok := in.(*ssa.Return)
		if !ok || len(ret.Results) != 1 {
			return
		}
		for _, v := range resolvePhisOwn(ret.Results[0]) {
			if c, isC := v.(*ssa.Const); isC && c.Value == nil {
				continue
			}
			n++
			paths, okp := reachingLitsOwn(fn, nil, ret)
			if !okp || len(paths) == 0 {
				good, detail = false, "too many paths"
				continue
			}
			for _, p := range paths {
				live := false
				for _, l := range p {
					if l.Kind == "call" && calleeName(l.Call) == "isTomb" && !l.Pol {
						for _, f := range funerals {
							if instrDominates(l.Call, f.(ssa.Instruction)) {
								live = true
							}
						}
					}
					if l.Kind == "bool" && !l.Pol {
						// the answer of isTomb() kept in a local before the burial
						if call, isCall := l.X.(*ssa.Call); isCall && calleeName(call) == "isTomb" {
							for _, f := range funerals {
								if instrDominates(call, f.(ssa.Instruction)) {
									live = true
								}
							}
						}
					}
				}
				if !live {
					good = false
					detail = "the existing element is returned under " + litsString(p)
				}
			}
		}
	})
	r.Check(good && n > 0, "jsonObject.putCommon/replaced value was live", u.Pos(fn.Pos()), "returned only when isTomb() was false before the burial", detail+": a put on a key that had been deleted reports the deleted element as the value it replaced (a plain map, and the Map datatype, report none) (F49)")
}

// ---------------------------------------------------------------------------------------------
// Round 6

// R01.5 the members of an object value are created in the sorted order of the names they carry on the wire
func ruleR01_5(w *World, r *Report) {
	u := w.Client()
	r.Rule("R01.5", "createJSONObject sorts the members of a map value by their names (sort.Strings of the names, or sort.Slice over the keys) and creates the members by walking the sorted slice: every replica allocates the children's identifiers in the same order (how a key is rendered no longer matters: R01.6 makes every key a string)", 3)
	fn := u.Fn(pOrda, "jsonPrimitive", "createJSONObject")
	if fn == nil {
		r.Lost("jsonPrimitive.createJSONObject")
		return
	}
	var sorted ssa.Value
	for _, c := range callsIn(fn) {
		if f := staticCallee(c); f != nil && f.Pkg != nil && f.Pkg.Pkg.Path() == "sort" && len(c.Common().Args) >= 1 {
			switch f.Name() {
			case "Strings", "Slice", "SliceStable":
				sorted = c.Common().Args[0]
				if mi, isMI := sorted.(*ssa.MakeInterface); isMI {
					sorted = mi.X
				}
			}
		}
	}
	r.Check(sorted != nil, "createJSONObject/names sorted", u.Pos(fn.Pos()), "sorted", "the member names are not sorted (sort.Strings / sort.Slice): the children of a map value are created in Go's random map order on the writing replica and in sorted order elsewhere, so their identifiers differ")
	if sorted == nil {
		return
	}
	// the names put into the sorted slice
	nameOK, nNames := true, 0
	bad := ""
	forEachInstr(fn, func(in ssa.Instruction) {
		st, ok := in.(*ssa.Store)
		if !ok {
			return
		}
		ia, isIA := st.Addr.(*ssa.IndexAddr)
		if !isIA {
			return
		}
		if _, isAlloc := ia.X.(*ssa.Alloc); !isAlloc || st.Val.Type().String() != "string" {
			return
		}
		// an element handed to append(names, x)
		nNames++
		call, isCall := st.Val.(*ssa.Call)
		if !isCall || calleeName(call) != "Sprint" {
			nameOK = false
			bad = canonName(st.Val)
		}
	})
	_, _, _ = nameOK, nNames, bad
	r.OK("createJSONObject/member names as on the wire", u.Pos(fn.Pos()), "since the issuing replica operates on the JSON form of a value (R01.6) every map that reaches createJSONObject has string keys: any rendering of a key is its text")
	// the members are added in the order of the sorted slice
	ordered := false
	for _, c := range callsNamed(fn, "addValueToJSONObject") {
		_, args := recvAndArgs(c)
		if len(args) < 2 || !inLoop(c.Block()) {
			continue
		}
		o := origins(args[1])
		if o["index"] || o["rangeiter"] {
			name := canonName(args[1])
			if strings.Contains(name, canonName(sorted)) || strings.HasPrefix(name, canonName(sorted)) {
				ordered = true
			}
		}
	}
	r.Check(ordered, "createJSONObject/members created in sorted order", u.Pos(fn.Pos()), "range over the sorted names", "the members of a map value are not created by walking the sorted names")
}

// R03.16 isGarbage looks at every ancestor
func ruleR03_16(w *World, r *Report) {
	u := w.Client()
	r.Rule("R03.16", "isGarbage walks from the node up to the root: the node it tests advances with getParent() in a loop (or by recursion) until there is no parent, so a handle below a deleted container is refused at any depth", 1)
	fn := u.Fn(pOrda, "jsonPrimitive", "isGarbage")
	if fn == nil {
		r.Lost("jsonPrimitive.isGarbage")
		return
	}
	walks := false
	forEachOwnInstr(fn, func(in ssa.Instruction) {
		if phi, ok := in.(*ssa.Phi); ok && inLoop(phi.Block()) {
			for _, e := range phi.Edges {
				if c, isC := stripIface(e).(*ssa.Call); isC && calleeName(c) == "getParent" {
					// the tested node is the phi
					for _, t := range callsNamed(fn, "isTomb") {
						recv, _ := recvAndArgs(t)
						if recv == ssa.Value(phi) && inLoop(t.Block()) {
							walks = true
						}
					}
				}
			}
		}
		if c, ok := in.(*ssa.Call); ok && calleeName(c) == "isGarbage" {
			recv, _ := recvAndArgs(c)
			if pc, isC := stripIface(recv).(*ssa.Call); isC && calleeName(pc) == "getParent" {
				walks = true
			}
		}
	})
	r.Check(walks, "jsonPrimitive.isGarbage/walks to the root", u.Pos(fn.Pos()), "isTomb() of every ancestor", "isGarbage does not test every ancestor (no loop over getParent() with isTomb() on the loop variable, no recursion on the parent): a Document handle two or more levels below a deleted container is not recognised as deleted, and operations through it change a detached subtree and are queued for push")
}

// R17.12 lookups compare names and keys exactly
func ruleR17_12(w *World, r *Report) {
	u := w.Server()
	r.Rule("R17.12", "the repository sets no collation on its queries: collection names, keys and identifiers are compared byte for byte (a case-insensitive lookup would resolve 'shop' to 'Shop')", 1)
	n := 0
	for _, fn := range u.ordaFuncs(func(p string) bool { return p == pMongo }) {
		n++
		for _, c := range callsIn(fn) {
			if calleeName(c) == "SetCollation" {
				r.Bad(fnName(fn)+"/collation", u.Pos(c.Pos()), "a query of the repository sets a collation: names that differ only by what the collation ignores (case, accents) resolve to the same document, so a client of one collection works on another's data and a reset removes the wrong one")
			}
		}
	}
	r.Check(n > 10, "server/mongodb/no collation", "-", fmt.Sprintf("%d functions examined", n), "the repository package was not found")
}

// R20.4 a Document handle derived from another carries its transaction context
func ruleR20_4(w *World, r *Report) {
	u := w.Client()
	r.Rule("R20.4", "every Document a Document method hands out is the receiver itself, nil, or built from the receiver (toDocument/toDocuments, which copy the transaction context): never the registered root datatype, whose handle re-locks the mutex a running transaction holds", 5)
	n := u.Named(pOrda, "document")
	if n == nil {
		r.Lost("orda.document")
		return
	}
	cnt := 0
	ms := types.NewMethodSet(types.NewPointer(n))
	for i := 0; i < ms.Len(); i++ {
		m, _ := ms.At(i).Obj().(*types.Func)
		if m == nil || m.Pkg() == nil || m.Pkg().Path() != pOrda {
			continue
		}
		fn := u.Prog.FuncValue(m)
		if fn == nil || len(fn.Blocks) == 0 || fn.Signature.Recv() == nil || recvTypeName(m) != "document" {
			continue
		}
		res := fn.Signature.Results()
		idx := -1
		for j := 0; j < res.Len(); j++ {
			if strings.HasSuffix(res.At(j).Type().String(), "orda.Document") {
				idx = j
			}
		}
		if idx < 0 {
			continue
		}
		cnt++
		bad := ""
		forEachOwnInstr(fn, func(in ssa.Instruction) {
			ret, ok := in.(*ssa.Return)
			if !ok || idx >= len(ret.Results) {
				return
			}
			for _, v := range resolvePhisOwn(ret.Results[idx]) {
				x := stripIface(v)
				switch y := x.(type) {
				case *ssa.Const:
					continue
				case *ssa.Parameter:
					if y == fn.Params[0] {
						continue
					}
				case *ssa.Call:
					if nm := calleeName(y); nm == "toDocument" || recvTypeName(calleeObjOrNil(y)) == "document" {
						continue
					}
				case *ssa.TypeAssert:
					if strings.Contains(canonName(y.X), ".Datatype") {
						bad = canonName(y.X)
						continue
					}
					continue
				case *ssa.Extract:
					continue
				}
			}
		})
		r.Check(bad == "", "document."+m.Name()+"/handle built from the receiver", u.Pos(fn.Pos()), "its / toDocument(..) / nil", "the method hands out "+bad+" (the registered datatype) as a Document: that handle has no transaction context, so using it inside Transaction() re-locks the mutex the goroutine already holds and the datatype deadlocks")
	}
	if cnt < 5 {
		r.Lost("document methods that return a Document")
	}
}

func calleeObjOrNil(c ssa.CallInstruction) *types.Func {
	if c == nil {
		return nil
	}
	return calleeObj(c)
}

// R16.8 a method called on an optional sub-message is nil-safe (F50)
func ruleR16_8(w *World, r *Report) {
	u := w.Client()
	r.Rule("R16.8", "in the protocol model a method that is called on a message-typed field of another message (an optional sub-message, nil when the sender left it out) does not read the fields of its receiver without a nil test - it goes through the generated getters, which are nil-safe", 1)
	nilSafe := func(f *ssa.Function) (bool, string) {
		if f == nil || len(f.Blocks) == 0 || len(f.Params) == 0 {
			return true, ""
		}
		recv := ssa.Value(f.Params[0])
		bad := ""
		forEachOwnInstr(f, func(in ssa.Instruction) {
			fa, ok := in.(*ssa.FieldAddr)
			if !ok || fa.X != recv {
				return
			}
			paths, okp := reachingLitsOwn(f, nil, fa)
			guarded := okp && len(paths) > 0
			for _, p := range paths {
				g := false
				for _, l := range p {
					if isNilCheckOf(l, recv, false) {
						g = true
					}
				}
				guarded = guarded && g
			}
			if !guarded {
				bad = fieldName(fa.X.Type(), fa.Field)
			}
		})
		return bad == "", bad
	}
	n := 0
	for _, fn := range u.ordaFuncs(func(p string) bool { return p == pModel }) {
		if isGenerated(u.Fset, fn.Pos()) {
			continue
		}
		for _, c := range callsIn(fn) {
			call, ok := c.(*ssa.Call)
			if !ok || call.Call.IsInvoke() {
				continue
			}
			callee := staticCallee(call)
			if callee == nil || callee.Pkg == nil || callee.Pkg.Pkg.Path() != pModel || isGenerated(u.Fset, callee.Pos()) {
				continue
			}
			recv, _ := recvAndArgs(call)
			ld, isLoad := recv.(*ssa.UnOp)
			if recv == nil || !isLoad {
				continue
			}
			fa, isFA := ld.X.(*ssa.FieldAddr)
			if !isFA {
				continue
			}
			if _, isPtr := ld.Type().Underlying().(*types.Pointer); !isPtr {
				continue
			}
			n++
			ok2, field := nilSafe(callee)
			r.Check(ok2, fnName(fn)+"/"+fnName(callee)+" on the optional "+fieldName(fa.X.Type(), fa.Field), u.Pos(call.Pos()), "callee is nil-safe", fnName(callee)+" reads its receiver's field "+field+" directly, and is called on a sub-message that is nil when the sender omitted it: logging such a request panics in the gRPC handler goroutine and ends the server process (F50)")
		}
	}
	if n < 1 {
		r.Lost("methods called on optional sub-messages in client/pkg/model")
	}
}
