package main

import (
	"fmt"
	"go/constant"
	"go/token"
	"go/types"
	"sort"
	"strings"

	"golang.org/x/tools/go/callgraph"
	"golang.org/x/tools/go/ssa"
)

// ---------------------------------------------------------------------------------------------
// paths with blocks

type cfgPath struct {
	Lits   []Lit
	Blocks map[*ssa.BasicBlock]bool
}

// pathsWithBlocks is pathsTo that also records the blocks each path visits.
func pathsWithBlocks(fn *ssa.Function, from, to *ssa.BasicBlock) ([]cfgPath, bool) {
	if from == nil {
		from = fn.Blocks[0]
	}
	canReach := map[*ssa.BasicBlock]bool{to: true}
	work := []*ssa.BasicBlock{to}
	for len(work) > 0 {
		b := work[len(work)-1]
		work = work[:len(work)-1]
		for _, p := range b.Preds {
			if !canReach[p] {
				canReach[p] = true
				work = append(work, p)
			}
		}
	}
	if !canReach[from] {
		return nil, true
	}
	ok := true
	var out []cfgPath
	onPath := map[*ssa.BasicBlock]bool{}
	var order []*ssa.BasicBlock
	var cur []condEdge
	var dfs func(b *ssa.BasicBlock)
	dfs = func(b *ssa.BasicBlock) {
		if !ok {
			return
		}
		order = append(order, b)
		defer func() { order = order[:len(order)-1] }()
		if b == to {
			if len(out) >= maxPaths {
				ok = false
				return
			}
			p := cfgPath{Blocks: map[*ssa.BasicBlock]bool{}}
			for _, e := range cur {
				p.Lits = append(p.Lits, normLit(e))
			}
			for _, x := range order {
				p.Blocks[x] = true
			}
			out = append(out, p)
			return
		}
		onPath[b] = true
		defer func() { onPath[b] = false }()
		var ifc ssa.Value
		if len(b.Instrs) > 0 {
			if i, isIf := b.Instrs[len(b.Instrs)-1].(*ssa.If); isIf {
				ifc = i.Cond
			}
		}
		known := -1
		if ifc != nil {
			ifc, known = resolveCondOnPath(ifc, order)
		}
		for si, s := range b.Succs {
			if onPath[s] || !canReach[s] {
				continue
			}
			if known >= 0 && (si == 0) != (known == 1) {
				continue
			}
			if ifc != nil && known < 0 {
				cur = append(cur, condEdge{ifc, si == 0})
			}
			dfs(s)
			if ifc != nil && known < 0 {
				cur = cur[:len(cur)-1]
			}
		}
	}
	dfs(from)
	return out, ok
}

// ---------------------------------------------------------------------------------------------
// loops and recursion

func inLoop(b *ssa.BasicBlock) bool {
	seen := map[*ssa.BasicBlock]bool{}
	work := append([]*ssa.BasicBlock(nil), b.Succs...)
	for len(work) > 0 {
		x := work[len(work)-1]
		work = work[:len(work)-1]
		if x == b {
			return true
		}
		if seen[x] {
			continue
		}
		seen[x] = true
		work = append(work, x.Succs...)
	}
	return false
}

// ---------------------------------------------------------------------------------------------
// call graph closure restricted to orda (A2)

type cgView struct {
	u     *Universe
	g     *callgraph.Graph
	keep  func(*ssa.Function) bool
	cache map[*ssa.Function][]*ssa.Function
}

func newCGView(u *Universe, thorough bool) *cgView {
	return &cgView{u: u, g: u.CallGraph(thorough), cache: map[*ssa.Function][]*ssa.Function{},
		keep: func(f *ssa.Function) bool {
			if f == nil {
				return false
			}
			p := f.Pkg
			if p == nil && f.Parent() != nil {
				p = f.Parent().Pkg
			}
			if p == nil {
				// synthetic wrappers (bound methods, thunks): keep if their object is in orda
				if o := f.Object(); o != nil && o.Pkg() != nil {
					return isOrda(o.Pkg().Path()) && !isTestFile(u.Fset, f.Pos())
				}
				return false
			}
			return isOrda(p.Pkg.Path()) && !isTestFile(u.Fset, f.Pos()) && !isGenerated(u.Fset, f.Pos())
		}}
}

// callees returns the orda callees of f (through static calls and CHA/VTA dispatch), including
// its closures (a function "calls" the anonymous functions it creates).
func (v *cgView) callees(f *ssa.Function) []*ssa.Function {
	if c, ok := v.cache[f]; ok {
		return c
	}
	set := map[*ssa.Function]bool{}
	if n := v.g.Nodes[f]; n != nil {
		for _, e := range n.Out {
			if v.keep(e.Callee.Func) {
				set[e.Callee.Func] = true
			}
		}
	}
	for _, a := range f.AnonFuncs {
		set[a] = true
	}
	var out []*ssa.Function
	for x := range set {
		out = append(out, x)
	}
	sort.Slice(out, func(i, j int) bool { return out[i].String() < out[j].String() })
	v.cache[f] = out
	return out
}

// calleesAt returns the orda callees of one call site.
func (v *cgView) calleesAt(site ssa.CallInstruction) []*ssa.Function {
	f := site.Parent()
	set := map[*ssa.Function]bool{}
	if n := v.g.Nodes[f]; n != nil {
		for _, e := range n.Out {
			if e.Site == site && v.keep(e.Callee.Func) {
				set[e.Callee.Func] = true
			}
		}
	}
	var out []*ssa.Function
	for x := range set {
		out = append(out, x)
	}
	sort.Slice(out, func(i, j int) bool { return out[i].String() < out[j].String() })
	return out
}

// reach returns every function reachable from roots with, for each, its predecessor (for path
// printing). stop(f) prevents expansion of f.
func (v *cgView) reach(roots []*ssa.Function, stop func(*ssa.Function) bool) map[*ssa.Function]*ssa.Function {
	pred := map[*ssa.Function]*ssa.Function{}
	var work []*ssa.Function
	for _, r := range roots {
		if r != nil {
			if _, ok := pred[r]; !ok {
				pred[r] = nil
				work = append(work, r)
			}
		}
	}
	for len(work) > 0 {
		f := work[0]
		work = work[1:]
		if stop != nil && stop(f) {
			continue
		}
		for _, c := range v.callees(f) {
			if _, ok := pred[c]; !ok {
				pred[c] = f
				work = append(work, c)
			}
		}
	}
	return pred
}

func pathTo(pred map[*ssa.Function]*ssa.Function, f *ssa.Function) []string {
	var rev []string
	for x := f; x != nil; x = pred[x] {
		rev = append(rev, fnName(x))
		if len(rev) > 40 {
			break
		}
	}
	for i, j := 0, len(rev)-1; i < j; i, j = i+1, j-1 {
		rev[i], rev[j] = rev[j], rev[i]
	}
	return rev
}

// callers returns the call sites (in orda, non-test) that may call f.
func (v *cgView) callers(f *ssa.Function) []ssa.CallInstruction {
	var out []ssa.CallInstruction
	seen := map[*ssa.Function]bool{}
	var walk func(f *ssa.Function)
	walk = func(f *ssa.Function) {
		if seen[f] {
			return
		}
		seen[f] = true
		n := v.g.Nodes[f]
		if n == nil {
			return
		}
		for _, e := range n.In {
			if e.Site == nil {
				continue
			}
			if e.Caller.Func.Synthetic != "" || flattenable[e.Caller.Func] {
				// promoted-method and bound-method wrappers, and new helpers, are transparent
				walk(e.Caller.Func)
				continue
			}
			if v.keep(e.Caller.Func) {
				out = append(out, e.Site)
			}
		}
	}
	walk(f)
	return out
}

// ---------------------------------------------------------------------------------------------
// A6 field effects

type effects struct {
	Reads  map[string]bool // "T.F"
	Writes map[string]bool
}

func newEffects() *effects { return &effects{Reads: map[string]bool{}, Writes: map[string]bool{}} }

// localEffects computes the (struct, field) pairs a function reads and writes directly.
func localEffects(fn *ssa.Function) *effects {
	e := newEffects()
	forEachInstr(fn, func(in ssa.Instruction) {
		switch x := in.(type) {
		case *ssa.Field:
			e.Reads[fieldName(x.X.Type(), x.Field)] = true
		case *ssa.FieldAddr:
			name := fieldName(x.X.Type(), x.Field)
			refs := x.Referrers()
			if refs == nil {
				return
			}
			for _, r := range *refs {
				switch y := r.(type) {
				case *ssa.Store:
					if y.Addr == ssa.Value(x) {
						e.Writes[name] = true
					} else {
						e.Reads[name] = true
					}
				case *ssa.UnOp:
					e.Reads[name] = true
					// a map loaded from the field and then updated/deleted counts as a write of the field
					if mrefs := y.Referrers(); mrefs != nil {
						for _, mr := range *mrefs {
							if mu, ok := mr.(*ssa.MapUpdate); ok && mu.Map == ssa.Value(y) {
								e.Writes[name] = true
							}
							if c, ok := mr.(*ssa.Call); ok {
								if b, ok := c.Call.Value.(*ssa.Builtin); ok && b.Name() == "delete" {
									e.Writes[name] = true
								}
							}
						}
					}
				default:
					e.Reads[name] = true
				}
			}
		}
	})
	return e
}

// closureEffects unions the effects of every function reachable from roots.
func closureEffects(v *cgView, roots []*ssa.Function) *effects {
	e := newEffects()
	for f := range v.reach(roots, nil) {
		le := localEffects(f)
		for k := range le.Reads {
			e.Reads[k] = true
		}
		for k := range le.Writes {
			e.Writes[k] = true
		}
	}
	return e
}

// ---------------------------------------------------------------------------------------------
// store-to-load forwarding inside a block

// loadSource: if v is a load of a struct field that was stored earlier in the same block with no
// call in between, return the stored value; otherwise v.
func loadSource(v ssa.Value) ssa.Value {
	un, ok := v.(*ssa.UnOp)
	if !ok || un.Op != token.MUL {
		return v
	}
	fa, ok := un.X.(*ssa.FieldAddr)
	if !ok {
		return v
	}
	b := un.Block()
	idx := instrIndex(un)
	for i := idx - 1; i >= 0; i-- {
		switch x := b.Instrs[i].(type) {
		case *ssa.Store:
			if fa2, ok := x.Addr.(*ssa.FieldAddr); ok && fa2.Field == fa.Field && exprName(fa2.X) == exprName(fa.X) &&
				types.Identical(fa2.X.Type(), fa.X.Type()) {
				return x.Val
			}
		case *ssa.Call, *ssa.Go, *ssa.Defer:
			return v
		}
	}
	return v
}

// isNilCheckOf: literal "x == nil" (eq=true) or "x != nil" (eq=false) where x (after forwarding) is
// the value target.
func isNilCheckOf(l Lit, target ssa.Value, eq bool) bool {
	if l.Kind != "cmp" {
		return false
	}
	if (eq && l.Op != token.EQL) || (!eq && l.Op != token.NEQ) {
		return false
	}
	x, y := l.X, l.Y
	if c, ok := x.(*ssa.Const); ok && c.Value == nil {
		x, y = y, x
	}
	c, ok := y.(*ssa.Const)
	if !ok || c.Value != nil {
		return false
	}
	x = loadSource(x)
	return x == target || stripIface(x) == target
}

func stripIface(v ssa.Value) ssa.Value {
	for {
		switch x := v.(type) {
		case *ssa.ChangeInterface:
			v = x.X
		case *ssa.MakeInterface:
			v = x.X
		default:
			return v
		}
	}
}

// errResult returns the value of the last (error-like) result of a call: the call itself for a
// single result, or the Extract of the last index.
func errResult(c *ssa.Call) ssa.Value {
	sig := c.Call.Signature()
	n := sig.Results().Len()
	if n == 0 {
		return nil
	}
	if n == 1 {
		return c
	}
	if refs := c.Referrers(); refs != nil {
		for _, r := range *refs {
			if ex, ok := r.(*ssa.Extract); ok && ex.Index == n-1 {
				return ex
			}
		}
	}
	return nil
}

func resultN(c *ssa.Call, i int) ssa.Value {
	sig := c.Call.Signature()
	if sig.Results().Len() == 1 && i == 0 {
		return c
	}
	if refs := c.Referrers(); refs != nil {
		for _, r := range *refs {
			if ex, ok := r.(*ssa.Extract); ok && ex.Index == i {
				return ex
			}
		}
	}
	return nil
}

func isErrorLike(t types.Type) bool {
	if t == nil {
		return false
	}
	if n, ok := t.(*types.Named); ok {
		if n.Obj().Name() == "error" && n.Obj().Pkg() == nil {
			return true
		}
		if n.Obj().Name() == "OrdaError" {
			return true
		}
	}
	return false
}

// returnsNonNilLast: the Return's last result is not the nil constant.
func returnsNonNilLast(ret *ssa.Return) bool {
	if len(ret.Results) == 0 {
		return false
	}
	last := ret.Results[len(ret.Results)-1]
	if c, ok := last.(*ssa.Const); ok && c.Value == nil {
		return false
	}
	// a result spilled because of a defer: "store cell <- nil; return *cell"
	if vals := resolveSpill(last); len(vals) > 0 {
		allNil := true
		for _, v := range vals {
			if c, ok := v.(*ssa.Const); !ok || c.Value != nil {
				allNil = false
			}
		}
		if allNil {
			return false
		}
	}
	return true
}

// ---------------------------------------------------------------------------------------------
// A8 format injectivity

type fmtField struct {
	lit   string // literal text (verb == 0)
	verb  byte
	class string // "digits" | "any"
}

// parseFormat splits a format into literal runs and verbs; operand classes come from operand types.
func parseFormat(format string, operandTypes []types.Type) ([]fmtField, bool) {
	var out []fmtField
	arg := 0
	lit := ""
	for i := 0; i < len(format); i++ {
		c := format[i]
		if c != '%' {
			lit += string(c)
			continue
		}
		if i+1 >= len(format) {
			return nil, false
		}
		i++
		if format[i] == '%' {
			lit += "%"
			continue
		}
		// no flags/width supported: anything else is "not decided"
		v := format[i]
		if v != 'd' && v != 's' && v != 'v' {
			return nil, false
		}
		if lit != "" {
			out = append(out, fmtField{lit: lit})
			lit = ""
		}
		if arg >= len(operandTypes) {
			return nil, false
		}
		class := "any"
		if b, ok := operandTypes[arg].Underlying().(*types.Basic); ok && b.Info()&types.IsInteger != 0 {
			if b.Info()&types.IsUnsigned != 0 {
				class = "digits"
			} else {
				class = "sdigits" // may start with '-'
			}
		}
		out = append(out, fmtField{verb: v, class: class})
		arg++
	}
	if lit != "" {
		out = append(out, fmtField{lit: lit})
	}
	return out, arg == len(operandTypes)
}

func inClass(c byte, class string) bool {
	switch class {
	case "digits":
		return c >= '0' && c <= '9'
	case "sdigits":
		return (c >= '0' && c <= '9') || c == '-'
	}
	return true
}

// injectiveOneWay: parsing left to right, every variable-width field is terminated by a literal
// byte outside its alphabet, or is the last field.
func injectiveOneWay(fs []fmtField) bool {
	for i, f := range fs {
		if f.verb == 0 {
			continue
		}
		if i == len(fs)-1 {
			continue
		}
		nx := fs[i+1]
		if nx.verb != 0 {
			return false // two adjacent variable-width fields
		}
		if inClass(nx.lit[0], f.class) {
			return false
		}
	}
	return true
}

func reverseFields(fs []fmtField) []fmtField {
	out := make([]fmtField, len(fs))
	for i, f := range fs {
		g := f
		if g.verb == 0 {
			b := []byte(g.lit)
			for l, r := 0, len(b)-1; l < r; l, r = l+1, r-1 {
				b[l], b[r] = b[r], b[l]
			}
			g.lit = string(b)
		}
		out[len(fs)-1-i] = g
	}
	return out
}

// formatInjective decides unique decodability of a format over its operand types.
func formatInjective(format string, operandTypes []types.Type) (bool, string) {
	fs, ok := parseFormat(format, operandTypes)
	if !ok {
		return false, "format not understood (flags, width or operand count)"
	}
	// a signed number can start with '-' but a reversed parse ends with digits: treat sdigits as
	// digits∪{'-'} in both directions (conservative).
	if injectiveOneWay(fs) {
		return true, "uniquely decodable left to right"
	}
	if injectiveOneWay(reverseFields(fs)) {
		return true, "uniquely decodable right to left"
	}
	return false, "two variable-width fields are not separated by a byte outside their alphabets in either direction"
}

// sprintfSites finds the fmt.Sprintf/Fprintf calls of fn with a constant format; returns the
// format and the static types of the operands.
type sprintfSite struct {
	Call    *ssa.Call
	Format  string
	Types   []types.Type
	Opnds   []ssa.Value
	FuncPos token.Pos
}

func sprintfSites(fn *ssa.Function) []sprintfSite {
	var out []sprintfSite
	forEachInstr(fn, func(in ssa.Instruction) {
		c, ok := in.(*ssa.Call)
		if !ok {
			return
		}
		f := c.Call.StaticCallee()
		if f == nil || f.Pkg == nil || f.Pkg.Pkg.Path() != "fmt" {
			return
		}
		fi := -1
		switch f.Name() {
		case "Sprintf", "Errorf":
			fi = 0
		case "Fprintf":
			fi = 1
		default:
			return
		}
		if len(c.Call.Args) <= fi+1 {
			return
		}
		fc, ok := c.Call.Args[fi].(*ssa.Const)
		if !ok || fc.Value == nil {
			return
		}
		format := strings.Trim(fc.Value.ExactString(), "\"")
		if s, err := unquoteConst(fc); err == nil {
			format = s
		}
		site := sprintfSite{Call: c, Format: format}
		// variadic slice: collect the stores into the backing array
		sl, ok := c.Call.Args[fi+1].(*ssa.Slice)
		if !ok {
			out = append(out, site)
			return
		}
		alloc, ok := sl.X.(*ssa.Alloc)
		if !ok {
			return
		}
		elems := map[int64]ssa.Value{}
		if refs := alloc.Referrers(); refs != nil {
			for _, r := range *refs {
				ia, ok := r.(*ssa.IndexAddr)
				if !ok {
					continue
				}
				k, ok := constInt(ia.Index)
				if !ok {
					continue
				}
				if irefs := ia.Referrers(); irefs != nil {
					for _, ir := range *irefs {
						if st, ok := ir.(*ssa.Store); ok {
							elems[k] = st.Val
						}
					}
				}
			}
		}
		for i := int64(0); i < int64(len(elems)); i++ {
			v := elems[i]
			for {
				if mi, ok := v.(*ssa.MakeInterface); ok {
					v = mi.X
					continue
				}
				break
			}
			site.Opnds = append(site.Opnds, v)
			site.Types = append(site.Types, v.Type())
		}
		out = append(out, site)
	})
	return out
}

func unquoteConst(c *ssa.Const) (string, error) {
	if c.Value == nil || c.Value.Kind() != constant.String {
		return "", fmt.Errorf("not a string")
	}
	return constant.StringVal(c.Value), nil
}
