package main

import (
	"fmt"
	"go/types"
	"strings"

	"golang.org/x/tools/go/ssa"
)

var handlerSteps = []string{"validatePushPullPack", "evaluatePushPullCase", "processSubscribeOrCreate", "pushOperations", "pullOperations", "commitToMongoDB"}

// R12.1 acquire result guards the section
func ruleR12_1(w *World, r *Report) {
	u := w.Server()
	r.Rule("R12.1", "the result of every TryLock is consulted: on the failure edge nothing of the critical section runs (no handler step, no storage access, no Unlock) and an error is reported", 3)
	// the push-pull handler: steps only on the success edge
	if fn := u.Fn(pService, "PushPullHandler", "process"); fn == nil {
		r.Lost("PushPullHandler.process")
	} else {
		var try *ssa.Call
		for _, c := range callsNamed(fn, "TryLock") {
			try, _ = c.(*ssa.Call)
		}
		if try == nil {
			r.Bad("PushPullHandler.process/lock result consulted", u.Pos(fn.Pos()), "the handler goroutine does not take the datatype lock")
		} else {
			bad := ""
			n := 0
			d := deepOf(fn)
			d.each(func(x dins) {
				c, ok := x.in.(*ssa.Call)
				if !ok || !isStorageCall(c) {
					return
				}
				for a := x.n; a != nil; a = a.parent {
					if a.site != nil {
						if _, isDefer := a.site.(*ssa.Defer); isDefer {
							return
						}
					}
				}
				n++
				// the decision is taken in process itself: look at the root position of the call
				rootPos := lift(x, d.root)
				paths, _ := reachingLits(fn, nil, rootPos)
				if len(paths) == 0 {
					bad = calleeName(c)
				}
				heldAll := len(paths) > 0
				for _, p := range paths {
					held := false
					for _, l := range p {
						if l.Kind == "call" && l.Call == try && l.Pol {
							held = true
						}
					}
					if !held {
						heldAll = false
					}
				}
				if !heldAll {
					// the decision may have moved, with the steps, into a new helper that is handed the result of
					// TryLock: then every path to the call inside that helper tests the parameter
					heldAll = false
					cur := x.in
					for a := x.n; a != nil && a.parent != nil && !heldAll; a = a.parent {
						if flattenable[a.fn] {
							hp, okh := reachingLitsOwn(a.fn, nil, cur)
							all := okh && len(hp) > 0
							for _, p := range hp {
								held := false
								for _, l := range p {
									if l.Kind != "bool" || !l.Pol {
										continue
									}
									if prm, isP := l.X.(*ssa.Parameter); isP {
										args := helperArgs(prm)
										same := len(args) > 0
										for _, av := range args {
											if av != ssa.Value(try) {
												same = false
											}
										}
										if same {
											held = true
										}
									}
								}
								all = all && held
							}
							heldAll = all
						}
						cur = a.site.(ssa.Instruction)
					}
				}
				if !heldAll {
					bad = calleeName(c)
				}
			})
			// the failure edge must leave with an error recorded in the handler
			errSet := false
			for _, st := range storesTo(fn, ".err") {
				paths, _ := reachingLits(fn, nil, st)
				for _, p := range paths {
					for _, l := range p {
						if l.Kind == "call" && l.Call == try && !l.Pol {
							if c, ok := st.Val.(*ssa.Call); ok && calleeName(c) == "New" {
								errSet = true
							}
						}
					}
				}
			}
			// ... or by a new helper that is handed the result of TryLock and whose refusal is stored
			for _, st := range storesTo(fn, ".err") {
				hc, isCall := st.Val.(*ssa.Call)
				if !isCall {
					continue
				}
				h := hc.Call.StaticCallee()
				if h == nil || !flattenable[h] {
					continue
				}
				forEachOwnInstr(h, func(in ssa.Instruction) {
					ret, isRet := in.(*ssa.Return)
					if !isRet || len(ret.Results) != 1 {
						return
					}
					rc, isNew := ret.Results[0].(*ssa.Call)
					if !isNew || calleeName(rc) != "New" {
						return
					}
					hp, _ := reachingLitsOwn(h, nil, ret)
					for _, p := range hp {
						for _, l := range p {
							if l.Kind != "bool" || l.Pol {
								continue
							}
							if prm, isP := l.X.(*ssa.Parameter); isP {
								for _, av := range helperArgs(prm) {
									if av == ssa.Value(try) {
										errSet = true
									}
								}
							}
						}
					}
				})
			}
			r.Check(bad == "" && n >= 3 && errSet, "PushPullHandler.process/lock result consulted", u.Pos(try.Pos()), fmt.Sprintf("all %d storage accesses below process on the success edge; the failure edge records an error", n),
				fmt.Sprintf("the storage access %q runs on a path where TryLock was not successful, or the failure edge records no error (storage accesses found %d, error recorded %v)", bad, n, errSet))
		}
	}
	if fn := u.Fn(pService, "OrdaService", "PatchDocument"); fn == nil {
		r.Lost("OrdaService.PatchDocument")
	} else {
		lockSection(u, r, fn, "OrdaService.PatchDocument")
	}
	if fn := u.Fn(pSnapshot, "Manager", "UpdateSnapshot"); fn == nil {
		r.Lost("snapshot.Manager.UpdateSnapshot")
	} else {
		lockSection(u, r, fn, "snapshot.Manager.UpdateSnapshot")
	}
	// no other TryLock call sites exist unchecked
	for _, fn := range u.ordaFuncs(func(p string) bool { return strings.HasPrefix(p, ordaPrefix+"/server") }) {
		if len(callsNamed(fn, "TryLock")) == 0 {
			continue
		}
		name := fnName(fn)
		switch name {
		case "PushPullHandler.process", "OrdaService.PatchDocument", "Manager.UpdateSnapshot", "LocalLock.TryLock", "RedisLock.TryLock":
		default:
			if !strings.Contains(fn.Pkg.Pkg.Path(), "/server/utils") {
				r.Bad(name+"/unchecked TryLock site", u.Pos(fn.Pos()), "a new function takes a lock; it is not covered by the lock discipline rules")
			}
		}
	}
}

// R12.2 release on every exit
func ruleR12_2(w *World, r *Report) {
	u := w.Server()
	r.Rule("R12.2", "after a successful TryLock the lock is released on every exit, the panic path included: the handler's deferred exit function unlocks exactly when the lock was taken; the other sections defer Unlock right after acquiring", 1)
	proc := u.Fn(pService, "PushPullHandler", "process")
	fin := u.Fn(pService, "PushPullHandler", "finalize")
	if proc == nil || fin == nil {
		r.Lost("PushPullHandler.process / finalize")
		return
	}
	var def *ssa.Defer
	forEachInstr(proc, func(in ssa.Instruction) {
		if d, ok := in.(*ssa.Defer); ok && calleeName(d) == "finalize" {
			def = d
		}
	})
	if def == nil {
		r.Bad("PushPullHandler.finalize/unlock iff locked", u.Pos(proc.Pos()), "the exit function is not deferred")
		return
	}
	ruleLockedParam(u, r, fin, def)
}

func isCtxType(t types.Type) bool {
	s := t.String()
	return strings.HasSuffix(s, "iface.OrdaContext") || s == "context.Context" || strings.HasSuffix(s, "context.OrdaContext")
}

// R12.3 a request-scoped context must not outlive its request; R12.6 one mutex per name
func ruleR12_3(w *World, r *Report) {
	u := w.Server()
	r.Rule("R12.3", "nothing derived from a request's context is stored into a package-level variable (the process-wide lock map keeps only the mutex), and the mutex of a lock name is obtained by one atomic LoadOrStore", 2)
	n := 0
	for _, fn := range u.ordaFuncs(func(p string) bool { return strings.HasPrefix(p, ordaPrefix+"/server") }) {
		ctxParams := map[string]bool{}
		for _, p := range fn.Params {
			if isCtxType(p.Type()) {
				ctxParams["param:"+p.Name()] = true
			}
		}
		for _, c := range callsIn(fn) {
			f := staticCallee(c)
			if f == nil || f.Pkg == nil || f.Pkg.Pkg.Path() != "sync" || recvTypeName(calleeObj(c)) != "Map" {
				continue
			}
			recv, args := recvAndArgs(c)
			if _, isGlobal := stripLoad(recv).(*ssa.Global); !isGlobal {
				continue
			}
			switch f.Name() {
			case "Delete", "LoadAndDelete", "CompareAndDelete", "Clear", "Range":
				if f.Name() != "Range" {
					r.Bad(fnName(fn)+"/"+f.Name()+" on "+exprName(recv), u.Pos(c.Pos()), "an entry of the process-wide lock map is removed: a request that already waits on the removed mutex and a newcomer that creates a fresh one for the same name are both let into the critical section")
				}
			case "Store", "LoadOrStore", "Swap", "CompareAndSwap":
				n++
				val := args[len(args)-1]
				o := origins(val)
				leak := ""
				for k := range ctxParams {
					if o[k] {
						leak = k
					}
				}
				r.Check(leak == "", fnName(fn)+"/"+f.Name()+" into "+exprName(recv), u.Pos(c.Pos()), "stored value does not derive from a context parameter",
					"the value stored into the process-wide map derives from "+leak+": once that request ends (its context is cancelled) every later user of the entry inherits the cancelled context")
				if f.Name() == "Store" {
					r.Bad(fnName(fn)+"/non-atomic creation in "+exprName(recv), u.Pos(c.Pos()), "the entry is created by a plain Store (after a Load): two first users of a name can each create their own mutex and both enter the critical section")
				}
			}
		}
		// stores into globals
		forEachInstr(fn, func(in ssa.Instruction) {
			st, ok := in.(*ssa.Store)
			if !ok {
				return
			}
			if _, isG := st.Addr.(*ssa.Global); !isG {
				return
			}
			o := origins(st.Val)
			for k := range ctxParams {
				if o[k] {
					r.Bad(fnName(fn)+"/global store", u.Pos(st.Pos()), "a value derived from "+k+" is stored into the package-level variable "+exprName(st.Addr))
				}
			}
		})
	}
	if fn := u.Fn(pSUtils, "", "GetLocalLock"); fn == nil {
		r.Lost("utils.GetLocalLock")
	} else {
		sts := storesTo(fn, ".mutex")
		good := len(sts) == 1 && origins(sts[0].Val)["call:Map.LoadOrStore"]
		pos := u.Pos(fn.Pos())
		if len(sts) > 0 {
			pos = u.Pos(sts[0].Pos())
		}
		r.Check(good, "utils.GetLocalLock/one mutex per name", pos, "the returned lock shares the mutex obtained by LoadOrStore", "the mutex of the returned lock is not the value returned by an atomic LoadOrStore on the lock map: requests for one name may not share a mutex")
		ctxs := storesTo(fn, ".ctx")
		okCtx := len(ctxs) == 1 && canonName(ctxs[0].Val) == "$0"
		r.Check(okCtx, "utils.GetLocalLock/own context", pos, "each caller's lock carries its own context", "the returned lock does not carry the caller's own context")
	}
	if n == 0 {
		r.Lost("stores into a process-wide sync.Map (the lock map)")
	}
}

// R12.4 distinct keys take distinct locks
func ruleR12_4(w *World, r *Report) {
	u := w.Server()
	r.Rule("R12.4", "lock names are injective formats over (kind prefix, collection number, datatype key): different collections or keys never share a lock, and the same key always maps to the same lock", 3)
	type site struct {
		fn     *ssa.Function
		owner  string
		prefix string
	}
	checkSite := func(s sprintfSite, owner string, consts map[int]string) {
		format := s.Format
		var tys []types.Type
		var names []string
		// substitute constant operands (the kind prefix) into the format
		vi := 0
		out := ""
		for i := 0; i < len(format); i++ {
			if format[i] == '%' && i+1 < len(format) && format[i+1] != '%' {
				if k, ok := consts[vi]; ok {
					out += k
				} else {
					out += format[i : i+2]
					tys = append(tys, s.Types[vi])
					names = append(names, canonName(s.Opnds[vi]))
				}
				vi++
				i++
				continue
			}
			out += string(format[i])
		}
		inj, why := formatInjective(out, tys)
		// roles: exactly one integral operand that is a collection number, one string operand that is a key
		roleOK := len(tys) == 2
		if roleOK {
			numName, keyName := names[0], names[1]
			if !isIntegral(tys[0]) {
				numName, keyName = names[1], names[0]
			}
			roleOK = (strings.HasSuffix(numName, ".Num") || numName == "$1") && (strings.HasSuffix(keyName, ".Key") || keyName == "$2") && !strings.Contains(keyName, "DUID")
		}
		r.Check(inj && roleOK, owner+"/lock name", u.Pos(s.Call.Pos()), fmt.Sprintf("%q over (%s): %s", out, strings.Join(names, ", "), why),
			fmt.Sprintf("lock name %q over (%s): %s; expected an injective format over the collection number and the datatype key", out, strings.Join(names, ", "), why))
	}
	check := func(fn *ssa.Function, owner string, consts map[int]string) {
		if fn == nil {
			r.Lost(owner)
			return
		}
		ss := sprintfSites(fn)
		if len(ss) != 1 {
			r.Undecided(owner+"/lock name", u.Pos(fn.Pos()), fmt.Sprintf("%d format calls found, expected one", len(ss)))
			return
		}
		checkSite(ss[0], owner, consts)
	}
	gl := u.Fn(pSUtils, "", "GetLockName")
	if gl == nil {
		r.Lost("utils.GetLockName")
		return
	}
	v := newCGView(u, false)
	// every lock the server takes: the name handed to Managers.GetLock comes from a naming function with one
	// format (checked), from utils.GetLockName (checked below, per call site), or from a format written in place
	getLock := u.Fn(pSManagers, "Managers", "GetLock")
	if getLock == nil {
		r.Lost("managers.Managers.GetLock")
		return
	}
	nLocks := 0
	for _, c := range v.callers(getLock) {
		args := c.Common().Args
		if len(args) == 0 {
			continue
		}
		nLocks++
		owner := fnName(c.Parent())
		for _, a := range resolvePhis(args[len(args)-1]) {
			call, isCall := stripIface(a).(*ssa.Call)
			if !isCall {
				r.Bad(owner+"/lock name", u.Pos(c.Pos()), "the name of the lock taken here ("+exprName(a)+") is not produced by a format over (collection number, key)")
				continue
			}
			callee := staticCallee(call)
			switch {
			case callee == gl:
				// judged per call site below
			case callee != nil && callee.Pkg != nil && callee.Pkg.Pkg.Path() == "fmt":
				found := false
				for _, s := range sprintfSites(c.Parent()) {
					if s.Call == call {
						found = true
						checkSite(s, owner, nil)
					}
				}
				if !found {
					r.Undecided(owner+"/lock name", u.Pos(call.Pos()), "the format call that names the lock could not be read")
				}
			case callee != nil && isOrda(callee.Pkg.Pkg.Path()):
				name := fnName(callee)
				if callee.Pkg.Pkg.Path() == pSnapshot {
					name = "snapshot." + name
				}
				check(callee, name, nil)
			default:
				r.Bad(owner+"/lock name", u.Pos(c.Pos()), "the name of the lock taken here ("+exprName(a)+") is not produced by a format over (collection number, key)")
			}
		}
	}
	if nLocks < 3 {
		r.Lost(fmt.Sprintf("call sites of Managers.GetLock (found %d, expected the three sections push-pull, snapshot update, patch)", nLocks))
	}
	// GetLockName: the prefix must be a constant at every call site
	prefix := ""
	okConst := true
	ncall := 0
	for _, c := range v.callers(gl) {
		ncall++
		k, isC := c.Common().Args[0].(*ssa.Const)
		if !isC {
			okConst = false
			continue
		}
		prefix, _ = unquoteConst(k)
		num, key := canonName(c.Common().Args[1]), canonName(c.Common().Args[2])
		r.Check(strings.HasSuffix(num, ".Num") && strings.HasSuffix(key, ".Key"), fnName(c.Parent())+"/GetLockName operands", u.Pos(c.Pos()), num+", "+key, "the lock of this section is named after ("+num+", "+key+"), expected (collection number, datatype key)")
	}
	if !okConst || ncall == 0 {
		r.Undecided("utils.GetLockName/lock name", u.Pos(gl.Pos()), "the kind prefix is not a constant at every call site")
		return
	}
	check(gl, "utils.GetLockName", map[int]string{0: prefix})
}
