package main

import (
	"fmt"
	"go/ast"
	"regexp"
	"sort"
	"strings"

	"golang.org/x/tools/go/ssa"
)

// R19.1 a multi-operation patch is one transaction
func ruleR19_1(w *World, r *Report) {
	u := w.Client()
	r.Rule("R19.1", "Patch applies a single operation directly and several operations only inside Transaction, where the first failing patchEach aborts the transaction (its error is returned by the body); PatchByJSON patches with exactly the computed difference", 3)
	fn := u.Fn(pOrda, "document", "Patch")
	if fn == nil {
		r.Lost("document.Patch")
		return
	}
	n := 0
	for _, f := range withClosures(fn) {
		if f != fn {
			flatRoot(f)
		}
		for _, c := range callsNamed(f, "patchEach") {
			n++
			if f == fn {
				lin, _ := pathLinCmps(fn, c.(ssa.Instruction), nil)
				r.Check(allPathsHave(lin, "+len($1)-1 == 0"), "document.Patch/direct patchEach", u.Pos(c.Pos()), "only for a single operation", fmt.Sprintf("patchEach runs outside a transaction under %v; expected only when there is exactly one operation", lin))
				continue
			}
			// in the closure handed to Transaction
			handed := false
			for _, t := range callsNamed(fn, "Transaction") {
				for _, a := range t.Common().Args {
					if mc, ok := a.(*ssa.MakeClosure); ok && mc.Fn == ssa.Value(f) {
						handed = true
					}
				}
			}
			call, _ := c.(*ssa.Call)
			okErr := false
			if call != nil {
				okErr, _ = errorEdgeReturns(call.Parent(), errResult(call))
				// inside a new helper: the body hands the helper's result on unchanged
				for h := call.Parent(); okErr && h != f; {
					sites := helperSites[h]
					if !flattenable[h] || len(sites) != 1 || tailReturn(sites[0]) == nil {
						okErr = false
						break
					}
					h = sites[0].Parent()
				}
			}
			r.Check(handed && okErr && inLoop(c.Block()), "document.Patch/patchEach in transaction", u.Pos(c.Pos()), "every operation inside Transaction, errors abort", "patchEach is not applied to every operation inside the Transaction body with its error returned (a failing patch would leave the earlier ones applied)")
		}
	}
	flatRoot(fn)
	if n < 2 {
		r.Lost("document.Patch: the direct and the transactional patchEach")
	}
	if pj := u.Fn(pOrda, "document", "PatchByJSON"); pj != nil {
		var cmp, patch ssa.CallInstruction
		for _, c := range callsNamed(pj, "CompareJSON") {
			cmp = c
		}
		for _, c := range callsNamed(pj, "Patch") {
			patch = c
		}
		good := cmp != nil && patch != nil
		if good {
			a := cmp.Common().Args
			good = strings.HasSuffix(canonName(a[0]), "ToJSONBytes()") && canonName(a[1]) == "$1" &&
				strings.Contains(canonName(patch.Common().Args[len(patch.Common().Args)-1]), "CompareJSON(")
		}
		r.Check(good, "document.PatchByJSON/difference", u.Pos(pj.Pos()), "Patch(CompareJSON(current, target))", "PatchByJSON does not patch with the difference between the current JSON and the target")
	} else {
		r.Lost("document.PatchByJSON")
	}
}

// R19.2 JSON-pointer segments are decoded
func ruleR19_2(w *World, r *Report) {
	u := w.Client()
	r.Rule("R19.2", "the segments of a patch path are RFC 6901-decoded (first ~1 to '/', then ~0 to '~') and written back before the target is resolved and the key is returned", 1)
	fn := u.Fn(pOrda, "jsonPrimitive", "getTargetFromPatch")
	if fn == nil {
		r.Lost("jsonPrimitive.getTargetFromPatch")
		return
	}
	var inner, outer *ssa.Call
	for _, c := range callsNamed(fn, "ReplaceAll") {
		call, _ := c.(*ssa.Call)
		if call == nil {
			continue
		}
		o, _ := unquoteConst(asConst(call.Call.Args[1]))
		n, _ := unquoteConst(asConst(call.Call.Args[2]))
		switch {
		case o == "~1" && n == "/":
			inner = call
		case o == "~0" && n == "~":
			outer = call
		}
	}
	cons := "getTargetFromPatch/unescape"
	if inner == nil || outer == nil {
		r.Bad(cons, u.Pos(fn.Pos()), "the path segments are not RFC 6901-decoded: a key containing '/' or '~' (escaped by the diff as ~1 / ~0) is written under the escaped name")
		return
	}
	order := outer.Call.Args[0] == ssa.Value(inner)
	var target ssa.CallInstruction
	for _, c := range callsNamed(fn, "getTargetByPaths") {
		target = c
	}
	stored := false
	var st *ssa.Store
	forEachInstr(fn, func(in ssa.Instruction) {
		isOuter := func(v ssa.Value) bool { // the decoded token, also when a new helper does the decoding
			for _, x := range resolvePhis(v) {
				if x == ssa.Value(outer) {
					return true
				}
			}
			return false
		}
		if s, ok := in.(*ssa.Store); ok && (s.Parent() == fn || flattenable[s.Parent()]) && isOuter(s.Val) {
			if ia, ok := s.Addr.(*ssa.IndexAddr); ok && splitOfParam.MatchString(canonName(ia.X)) {
				stored, st = true, s
			}
		}
	})
	before := false
	if st != nil && target != nil {
		before = inLoop(st.Block()) && !reachableFrom(target.(ssa.Instruction), st) && reachableFrom(st, target.(ssa.Instruction))
	}
	r.Check(order && stored && before, cons, u.Pos(inner.Pos()), "~1 then ~0, written back for every segment before the lookup",
		fmt.Sprintf("decoding order ~1-before-~0: %v, written back into the segments: %v, before the target lookup: %v", order, stored, before))
}

// the segments are the Split of the path parameter (whatever its position in the signature)
var splitOfParam = regexp.MustCompile(`^strings\.Split\(\$\d+,`)

func asConst(v ssa.Value) *ssa.Const {
	c, _ := v.(*ssa.Const)
	if c == nil {
		return &ssa.Const{}
	}
	return c
}

// R19.3 patchEach supports what the differ emits
func ruleR19_3(w *World, r *Report) {
	u := w.Client()
	r.Rule("R19.3", "patchEach has an arm for every operation kind the differ emits with the options used (add, remove, replace), refuses the others, and each arm addresses objects by key and arrays by index", 3)
	fd, p := u.DeclOf(pOrda, "document", "patchEach")
	if fd == nil {
		r.Lost("document.patchEach")
		return
	}
	var sw *ast.SwitchStmt
	for _, s := range switchesIn(fd.Body) {
		if sel, ok := s.Tag.(*ast.SelectorExpr); ok && sel.Sel.Name == "Type" {
			sw = s
		}
	}
	if sw == nil {
		r.Undecided("patchEach", u.Pos(fd.Pos()), "no switch over the operation type")
		return
	}
	want := map[string][]string{"OperationAdd": {"PutToObject", "InsertToArray"}, "OperationRemove": {"DeleteInObject", "DeleteInArray"}, "OperationReplace": {"PutToObject", "UpdateManyInArray"}}
	got := map[string][]string{}
	deflt := ""
	for _, s := range sw.Body.List {
		cc := s.(*ast.CaseClause)
		ai := classifyArm(p.TypesInfo, cc.Body)
		var calls []string
		for _, c := range ai.Callees {
			calls = append(calls, c.Name())
			// an arm moved into a new helper: what the helper calls is what the arm calls
			if u.newFuncObjs[c] {
				if hd, hp := u.Decl(c); hd != nil && hd.Body != nil {
					hai := classifyArm(hp.TypesInfo, hd.Body.List)
					for _, hc := range hai.Callees {
						calls = append(calls, hc.Name())
					}
				}
			}
		}
		if cc.List == nil {
			deflt = ai.Kind
		}
		for _, e := range cc.List {
			got[exprString(e)[strings.LastIndex(exprString(e), ".")+1:]] = calls
		}
	}
	var ks []string
	for k := range want {
		ks = append(ks, k)
	}
	sort.Strings(ks)
	for _, k := range ks {
		calls := got[k]
		ok := true
		for _, wnt := range want[k] {
			ok = ok && has(calls, wnt)
		}
		r.Check(ok, "patchEach/arm "+k, u.Pos(sw.Pos()), strings.Join(want[k], ","), fmt.Sprintf("the arm for %s calls %v, expected %v", k, calls, want[k]))
	}
	if deflt == "" {
		// no default arm: every arm returns and the statement after the switch refuses the rest
		allReturn := true
		for _, s2 := range sw.Body.List {
			if ai := classifyArm(p.TypesInfo, s2.(*ast.CaseClause).Body); !strings.HasPrefix(ai.Kind, "return") {
				allReturn = false
			}
		}
		ast.Inspect(fd.Body, func(n ast.Node) bool {
			blk, ok := n.(*ast.BlockStmt)
			if !ok {
				return true
			}
			for i, st := range blk.List {
				if st == ast.Stmt(sw) && allReturn {
					deflt = classifyArm(p.TypesInfo, blk.List[i+1:]).Kind
				}
			}
			return true
		})
	}
	r.Check(strings.HasPrefix(deflt, "return:"), "patchEach/other kinds refused", u.Pos(sw.Pos()), "default returns an error", "an unsupported patch operation kind is not refused ("+deflt+")")
	// the differ is called without options that add further kinds
	if pj := u.Fn(pOrda, "document", "PatchByJSON"); pj != nil {
		for _, c := range callsNamed(pj, "CompareJSON") {
			r.Check(len(c.Common().Args) == 2 || (len(c.Common().Args) == 3 && isNilSlice(c.Common().Args[2])), "PatchByJSON/differ options", u.Pos(c.Pos()), "no options", "CompareJSON is called with options: it may emit move/copy/test operations that patchEach refuses")
		}
	}
}

func isNilSlice(v ssa.Value) bool {
	c, ok := v.(*ssa.Const)
	return ok && c.Value == nil
}

// R19.4 the REST push result is inspected
func ruleR19_4(w *World, r *Report) {
	u := w.Server()
	r.Rule("R19.4", "a push-pull response received from a handler's channel is inspected before the REST patch reports success", 1)
	fn := u.Fn(pService, "OrdaService", "PatchDocument")
	if fn == nil {
		r.Lost("OrdaService.PatchDocument")
		return
	}
	found := false
	forEachInstr(fn, func(in ssa.Instruction) {
		un, ok := in.(*ssa.UnOp)
		if !ok || un.Op.String() != "<-" {
			return
		}
		found = true
		used := len(realRefs(un)) > 0
		r.Check(used, "PatchDocument/push reply", u.Pos(un.Pos()), "reply inspected", "the reply of the push-pull handler is discarded (_ = <-ch): the endpoint answers with the target JSON even when the push was refused (lock failure, storage failure, missing operations), so the stored document and the subscribers never reach the target")
	})
	if !found {
		r.Bad("PatchDocument/push reply", u.Pos(fn.Pos()), "the endpoint does not wait for the push-pull handler at all")
	}
}

// R19.5 the REST patch client is volatile and never registered
func ruleR19_5(w *World, r *Report) {
	u := w.Server()
	r.Rule("R19.5", "the REST patch client is volatile, and a volatile client is never registered in the datatype document (each of its requests starts from a fresh checkpoint, since it numbers its operations from 1 every time)", 2)
	if fn := u.Fn(pAdmin, "", "NewPatchClient"); fn == nil {
		r.Lost("admin.NewPatchClient")
	} else {
		sts := storesTo(fn, "complit.Type")
		k := int64(-1)
		if len(sts) == 1 {
			k, _ = constInt(sts[0].Val)
		}
		r.Check(k == 2, "admin.NewPatchClient/volatile", u.Pos(fn.Pos()), "ClientType_VOLATILE", fmt.Sprintf("the REST patch client has type %d, expected ClientType_VOLATILE (2)", k))
	}
	fn := u.Fn(pService, "PushPullHandler", "initClientInfoWithDatatypeDoc")
	if fn == nil {
		r.Lost("PushPullHandler.initClientInfoWithDatatypeDoc")
		return
	}
	for _, c := range callsNamed(fn, "AddNewClient") {
		lin, _ := pathLinCmps(fn, c.(ssa.Instruction), rewriter(`\$0\.clientDoc\.Type`, "CLIENTTYPE"))
		r.Check(allPathsHave(lin, "+CLIENTTYPE-2 != 0"), "initClientInfoWithDatatypeDoc/volatile not registered", u.Pos(c.Pos()), "AddNewClient only for non-volatile clients", fmt.Sprintf("a client is registered in the datatype document under %v; expected only when its type is not VOLATILE (a registered REST patch client keeps its checkpoint, and its next patch, numbered from 1 again, is dropped as duplicate)", lin))
	}
	news := callsNamed(fn, "NewCheckPoint")
	r.Check(len(news) > 0, "initClientInfoWithDatatypeDoc/fresh checkpoint for volatile", u.Pos(fn.Pos()), "NewCheckPoint()", "a volatile client no longer starts from a fresh checkpoint")
}
