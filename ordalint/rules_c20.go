package main

import (
	"fmt"
	"go/types"
	"sort"
	"strings"

	"golang.org/x/tools/go/ssa"
)

// fields of a client datatype that the datatype mutex is meant to protect
var guardedFields = map[string]bool{
	"TransactionDatatype.isLocked": true, "TransactionDatatype.txCtx": true, "TransactionDatatype.success": true,
	"TransactionDatatype.rollbackSnapshot": true, "TransactionDatatype.rollbackMeta": true, "TransactionDatatype.rollbackOps": true,
	"WiredDatatype.localBuffer": true, "WiredDatatype.checkPoint": true,
	"BaseDatatype.opID": true, "BaseDatatype.state": true,
	"TransactionContext.opBuffer": true,
}

type lockCtx struct {
	u    *Universe
	v    *cgView
	safe map[*ssa.Function]bool
	acq  map[*ssa.Function]bool // functions that return with the datatype mutex held
}

func firstCall(fn *ssa.Function, names ...string) ssa.Instruction {
	for _, c := range callsNamed(fn, names...) {
		return c.(ssa.Instruction)
	}
	return nil
}

// mutexCall: a direct Lock/Unlock on the mutex field of a TransactionDatatype.
func mutexCall(c ssa.CallInstruction, name string) bool {
	if calleeName(c) != name {
		return false
	}
	recv, _ := recvAndArgs(c)
	return recv != nil && strings.HasSuffix(canonName(recv), ".mutex")
}

func (lc *lockCtx) acquiring(c ssa.CallInstruction) bool {
	if _, isCall := c.(*ssa.Call); !isCall {
		return false
	}
	if mutexCall(c, "Lock") {
		return true
	}
	f := staticCallee(c)
	return f != nil && lc.acq[f]
}

// computeAcquirers: a function acquires the datatype mutex when one of its acquiring calls
// dominates every return, except returns taken under "isLocked" (the re-entrant early exit).
func (lc *lockCtx) computeAcquirers(fns []*ssa.Function) {
	lc.acq = map[*ssa.Function]bool{}
	for changed := true; changed; {
		changed = false
		for _, f := range fns {
			if lc.acq[f] || f.Pkg == nil || f.Pkg.Pkg.Path() != pDatatypes {
				continue
			}
			for _, c := range callsIn(f) {
				if !lc.acquiring(c) {
					continue
				}
				all := true
				forEachInstr(f, func(in ssa.Instruction) {
					ret, ok := in.(*ssa.Return)
					if !ok || instrDominates(c.(ssa.Instruction), ret) {
						return
					}
					lits, okl := litStrings(f, ret)
					if !okl || !allPathsContain(lits, ".isLocked") {
						all = false
					}
				})
				// a release in the same function cancels it
				for _, c2 := range callsIn(f) {
					if mutexCall(c2, "Unlock") {
						all = false
					}
				}
				if all {
					lc.acq[f] = true
					changed = true
					break
				}
			}
		}
	}
}

// heldAt: is the datatype mutex held at instruction in (by the shape of the code)?
func (lc *lockCtx) heldAt(in ssa.Instruction) bool {
	fn := in.Parent()
	for _, c := range callsIn(fn) {
		if mutexCall(c, "Unlock") {
			b := c.(ssa.Instruction)
			return b != in && instrDominates(in, b) && lc.safe[fn]
		}
	}
	for _, c := range callsIn(fn) {
		if lc.acquiring(c) {
			b := c.(ssa.Instruction)
			if b != in && instrDominates(b, in) {
				return true
			}
		}
	}
	return lc.safe[fn]
}

// sitesOf returns the instructions at which fn is entered: call sites, or for an anonymous
// function the instruction that runs it (defer/call of the closure); a `go` is never held.
func (lc *lockCtx) sitesOf(fn *ssa.Function) (sites []ssa.Instruction, goroutine bool) {
	if fn.Parent() != nil {
		for _, b := range fn.Parent().Blocks {
			for _, in := range b.Instrs {
				switch x := in.(type) {
				case *ssa.Go:
					if mc, ok := x.Call.Value.(*ssa.MakeClosure); ok && mc.Fn == ssa.Value(fn) {
						goroutine = true
					}
				case *ssa.Defer:
					if mc, ok := x.Call.Value.(*ssa.MakeClosure); ok && mc.Fn == ssa.Value(fn) {
						sites = append(sites, in)
					}
				case *ssa.Call:
					if mc, ok := x.Call.Value.(*ssa.MakeClosure); ok && mc.Fn == ssa.Value(fn) {
						sites = append(sites, in)
					}
					// closure passed as an argument (e.g. the body of DoTransaction): entered where the callee calls it
					for _, a := range x.Call.Args {
						if mc, ok := a.(*ssa.MakeClosure); ok && mc.Fn == ssa.Value(fn) {
							sites = append(sites, in)
						}
					}
				}
			}
		}
		return
	}
	for _, c := range lc.v.callers(fn) {
		if _, isGo := c.(*ssa.Go); isGo {
			goroutine = true
			continue
		}
		if why := benignSite(c, fn); why != "" {
			continue
		}
		sites = append(sites, c.(ssa.Instruction))
	}
	return
}

// benignSite: enumerated call sites that do not count as unsynchronised entries, with the reason.
func benignSite(c ssa.CallInstruction, callee *ssa.Function) string {
	caller := fnName(c.Parent())
	switch {
	case caller == "datatype.init":
		return "construction time: the datatype is not shared yet"
	case caller == "datatype.SubscribeOrCreate" && oldFuncName(callee) == "DeliverTransaction":
		if len(c.Common().Args) > 0 {
			if k, ok := c.Common().Args[len(c.Common().Args)-1].(*ssa.Const); ok && k.Value == nil {
				return "DeliverTransaction(nil): the append loop over the nil transaction does not run"
			}
		}
	}
	return ""
}

// pureAccessor: Get*/Set* of BaseDatatype; their accesses are attributed to their callers.
func pureAccessor(f *ssa.Function) bool {
	n := f.Name()
	if !(strings.HasPrefix(n, "Get") || strings.HasPrefix(n, "Set")) || len(f.Blocks) != 1 {
		return false
	}
	return recvTypeName(funcObj(f)) == "BaseDatatype" && len(f.Blocks[0].Instrs) <= 16
}

func funcObj(f *ssa.Function) *types.Func {
	o, _ := f.Object().(*types.Func)
	return o
}

func newLockCtx(u *Universe, thorough bool) *lockCtx {
	lc := &lockCtx{u: u, v: newCGView(u, thorough), safe: map[*ssa.Function]bool{}}
	fns := u.ordaFuncs(func(p string) bool {
		return p == pDatatypes || p == pOrda || p == pCManagers || p == pModel || p == pOperations
	})
	for _, f := range fns {
		lc.safe[f] = true
	}
	lc.computeAcquirers(fns)
	for changed := true; changed; {
		changed = false
		for _, f := range fns {
			if !lc.safe[f] {
				continue
			}
			sites, isGo := lc.sitesOf(f)
			ok := !isGo && len(sites) > 0
			for _, s := range sites {
				if !lc.heldAt(s) {
					ok = false
				}
			}
			if !ok {
				lc.safe[f] = false
				changed = true
			}
		}
	}
	return lc
}

// R20.1 guarded fields are only touched while the datatype mutex is held
func ruleR20_1(w *World, r *Report) {
	u := w.uni("client") // the client library on its own: with the server loaded, its single-threaded uses of the library (the replica the snapshot manager rebuilds) would count as callers outside the lock brackets
	r.Rule("R20.1", "the fields the datatype mutex protects (transaction state, rollback copies, push buffer, checkpoint, operation id, state) are accessed only where the mutex is held by the shape of the code: inside the BeginTransaction..EndTransaction brackets, in functions all of whose callers are there, or in constructors", 10)
	lc := newLockCtx(u, w.Thorough)
	type acc struct {
		fn    *ssa.Function
		field string
		pos   string
		n     int
		role  bool
	}
	found := map[string]*acc{}
	held := 0
	for f := range lc.safe {
		if strings.HasPrefix(f.Name(), "New") || oldFuncName(f) == "init" || pureAccessor(f) {
			continue
		}
		forEachInstr(f, func(in ssa.Instruction) {
			var name string
			var base ssa.Value
			switch x := in.(type) {
			case *ssa.FieldAddr:
				name, base = fieldName(x.X.Type(), x.Field), x.X
			case *ssa.Field:
				name, base = fieldName(x.X.Type(), x.Field), x.X
			default:
				return
			}
			if !guardedFields[name] || isFreshBase(base) {
				return
			}
			if lc.heldAt(in) {
				held++
				return
			}
			k := fnName(f) + "/" + name
			// the flag written after the mutex was released is the same construct wherever the release sequence lives
			// (unlock(), or the same statements inlined into a deferred closure): keyed by its role
			if name == "TransactionDatatype.isLocked" {
				for _, c := range callsNamed(in.Parent(), "Unlock") {
					if recv, _ := recvAndArgs(c); recv != nil && strings.HasSuffix(canonName(recv), ".mutex") && c.Parent() == in.Parent() && reachableFrom(c.(ssa.Instruction), in) {
						k = "TransactionDatatype.unlock/" + name
					}
				}
			}
			if found[k] == nil {
				found[k] = &acc{fn: f, field: name, pos: u.Pos(in.Pos()), role: strings.HasPrefix(k, "TransactionDatatype.unlock/")}
			}
			found[k].n++
		})
	}
	// group the accesses: the functions of the sync path (everything the manager's goroutines enter
	// through the WiredDatatype interface) form one family per field
	var roots []*ssa.Function
	for _, n := range []string{"CreatePushPullPack", "ApplyPushPullPack", "NeedPull", "NeedPush", "SetCheckPoint", "ResetWired", "ReceiveRemoteModelOperations"} {
		if f := u.Fn(pDatatypes, "WiredDatatype", n); f != nil {
			roots = append(roots, f)
		}
	}
	syncPath := lc.v.reach(roots, func(f *ssa.Function) bool {
		n := fnName(f)
		return n == "TransactionDatatype.BeginTransaction" || n == "TransactionDatatype.EndTransaction" || n == "TransactionDatatype.unlock"
	})
	grouped := map[string]*acc{}
	for _, a := range found {
		name := fnName(a.fn)
		key := name + "/" + a.field
		switch {
		case a.role:
			key = "TransactionDatatype.unlock/" + a.field
		case name == "TransactionDatatype.BeginTransaction" || name == "TransactionDatatype.unlock":
		default:
			if _, ok := syncPath[a.fn]; ok {
				key = "sync path/" + a.field
			}
		}
		if g := grouped[key]; g == nil {
			c := *a
			grouped[key] = &c
		} else {
			g.n += a.n
			if a.pos < g.pos {
				g.pos = a.pos
			}
		}
	}
	var ks []string
	for k := range grouped {
		ks = append(ks, k)
	}
	sort.Strings(ks)
	for _, k := range ks {
		a := grouped[k]
		r.Bad(k+" without the datatype lock", a.pos, fmt.Sprintf("%s is accessed (%d site(s), first in %s) where the datatype mutex is not held: it runs concurrently with a transaction of another goroutine", a.field, a.n, fnName(a.fn)))
	}
	r.OK("accesses under the lock", "", fmt.Sprintf("%d accesses of guarded fields are inside the lock brackets", held))
	// explicit ordering facts the brackets rest on
	if bt := u.Fn(pDatatypes, "TransactionDatatype", "BeginTransaction"); bt != nil {
		var lock ssa.Instruction
		for _, c := range callsIn(bt) {
			if lc.acquiring(c) && lock == nil {
				lock = c.(ssa.Instruction)
			}
		}
		bad := ""
		if lock == nil {
			bad = "no lock acquisition; everything"
		}
		for _, c := range callsNamed(bt, "SetNextOpID", "appendOperation", "NewTransactionOperation") {
			if lock == nil || !instrDominates(lock, c.(ssa.Instruction)) {
				bad = calleeName(c)
			}
		}
		for _, a := range bufferAppends(bt) {
			if lock == nil || !instrDominates(lock, a) {
				bad = "the append to the transaction buffer"
			}
		}
		r.Check(bad == "", "BeginTransaction/identifier after the lock", u.Pos(bt.Pos()), "the transaction operation is numbered and queued after the lock is taken", bad+" runs before the datatype lock is taken: a transaction started while another goroutine's transaction is open takes an identifier smaller than operations queued before it")
	}
	if ul := u.Fn(pDatatypes, "TransactionDatatype", "unlock"); ul != nil {
		un := firstCall(ul, "Unlock")
		okU := un != nil
		if okU {
			lits, _ := litStrings(ul, un)
			okU = allPathsContain(lits, ".isLocked")
		}
		r.Check(okU, "unlock/only when locked", u.Pos(ul.Pos()), "mutex.Unlock under isLocked", "the mutex is unlocked without testing isLocked")
	}
}

// R20.2 every exchange with the server holds the manager's semaphore
func ruleR20_2(w *World, r *Report) {
	u := w.uni("client") // the client library on its own: with the server loaded, its single-threaded uses of the library (the replica the snapshot manager rebuilds) would count as callers outside the lock brackets
	r.Rule("R20.2", "every path that exchanges push-pull packs with the server (sync / syncPushPullPacks) runs under the manager's semaphore, and the manager's datatype map is not accessed concurrently without it", 3)
	v := newCGView(u, w.Thorough)
	ex := u.Fn(pCManagers, "DatatypeManager", "syncPushPullPacks")
	if ex == nil {
		r.Lost("DatatypeManager.syncPushPullPacks")
		return
	}
	// entry functions reaching the exchange
	var check func(f *ssa.Function, seen map[*ssa.Function]bool, trail []string)
	check = func(f *ssa.Function, seen map[*ssa.Function]bool, trail []string) {
		if seen[f] {
			return
		}
		seen[f] = true
		callers := v.callers(f)
		for _, c := range callers {
			p := c.Parent()
			root := p
			for root.Parent() != nil {
				root = root.Parent()
			}
			under := false
			for q := p; q != nil; q = q.Parent() {
				if len(callsNamed(q, "Acquire", "TryAcquire")) > 0 {
					// the acquire must dominate the call (within q) or q is an ancestor closure that acquired first
					acq := firstCall(q, "Acquire", "TryAcquire")
					if q == p {
						under = instrDominates(acq, c.(ssa.Instruction))
					} else {
						under = true
					}
				}
			}
			name := fnName(root) + " -> " + strings.Join(trail, " -> ")
			if under {
				r.OK(fnName(root)+"/exchange under the semaphore", u.Pos(c.Pos()), name)
				continue
			}
			if p.Pkg != nil && p.Pkg.Pkg.Path() == pCManagers && p.Name() != "syncPushPullPacks" && len(v.callers(p)) > 0 && !strings.HasPrefix(p.Name(), "Receive") {
				check(p, seen, append([]string{fnName(p)}, trail...))
				continue
			}
			r.Bad(fnName(root)+"/exchange under the semaphore", u.Pos(c.Pos()), "this path exchanges push-pull packs without the manager's semaphore: it can run concurrently with Sync() or a realtime push, and both create packs from the same checkpoint", name)
		}
	}
	check(ex, map[*ssa.Function]bool{}, []string{"syncPushPullPacks"})
	// the manager's datatype map
	for _, fn := range u.ordaFuncs(func(p string) bool { return p == pCManagers }) {
		if strings.HasPrefix(fn.Name(), "New") {
			continue
		}
		if flattenable[fn] {
			continue // a new helper is read at its call sites
		}
		n := 0
		var first ssa.Instruction
		// the accesses of fn itself and, at the call that leads to them, those of the new helpers it calls
		var touches func(g *ssa.Function, d int) bool
		touches = func(g *ssa.Function, d int) bool {
			hit := false
			forEachOwnInstr(g, func(in ssa.Instruction) {
				if fa, ok := in.(*ssa.FieldAddr); ok && fieldName(fa.X.Type(), fa.Field) == "DatatypeManager.dataMap" {
					hit = true
				}
				if c, ok := in.(*ssa.Call); ok && d < 4 {
					if h := c.Call.StaticCallee(); h != nil && flattenable[h] && touches(h, d+1) {
						hit = true
					}
				}
			})
			return hit
		}
		forEachOwnInstr(fn, func(in ssa.Instruction) {
			hit := false
			if fa, ok := in.(*ssa.FieldAddr); ok && fieldName(fa.X.Type(), fa.Field) == "DatatypeManager.dataMap" {
				hit = true
			}
			if c, ok := in.(*ssa.Call); ok {
				if h := c.Call.StaticCallee(); h != nil && flattenable[h] && touches(h, 1) {
					hit = true
				}
			}
			if hit {
				n++
				if first == nil {
					first = in
				}
			}
		})
		if n == 0 {
			continue
		}
		acq := firstCall(fn, "Acquire", "TryAcquire")
		under := acq != nil && instrDominates(acq, first)
		if !under {
			// all callers under the semaphore?
			cs := v.callers(fn)
			under = len(cs) > 0
			for _, c := range cs {
				a := firstCall(c.Parent(), "Acquire", "TryAcquire")
				if a == nil || !instrDominates(a, c.(ssa.Instruction)) {
					under = false
				}
			}
		}
		r.Check(under, fnName(fn)+"/dataMap under the semaphore", u.Pos(first.Pos()), "accessed under the semaphore", "the manager's datatype map (a plain Go map) is read or written here without the semaphore, concurrently with the other goroutines of the client (user calls, realtime pushes, notifications)")
	}
}

// R20.3 acquire/release pairing
func ruleR20_3(w *World, r *Report) {
	u := w.uni("client") // the client library on its own: with the server loaded, its single-threaded uses of the library (the replica the snapshot manager rebuilds) would count as callers outside the lock brackets
	r.Rule("R20.3", "the manager's semaphore is released by a defer placed right after a successful acquire, before the exchange, on every path (SyncAll and the realtime goroutine); the datatype mutex is locked and unlocked together with its isLocked flag", 4)
	if fn := u.Fn(pCManagers, "DatatypeManager", "SyncAll"); fn == nil {
		r.Lost("DatatypeManager.SyncAll")
	} else {
		semaSection(u, r, fn, "SyncAll", "Acquire", false)
		if acq, ok := firstCall(fn, "Acquire").(*ssa.Call); ok {
			okErr, _ := errorEdgeReturns(fn, acq)
			r.Check(okErr, "SyncAll/acquire failure returns", u.Pos(acq.Pos()), "error returned when the semaphore cannot be taken", "a failed Acquire does not return an error")
		}
	}
	if fn := u.Fn(pCManagers, "DatatypeManager", "DeliverTransaction"); fn != nil {
		for _, f := range withClosures(fn) {
			if len(callsNamed(f, "TryAcquire")) > 0 {
				semaSection(u, r, f, "DeliverTransaction$goroutine", "TryAcquire", true)
			}
		}
	}
	if fn := u.Fn(pDatatypes, "TransactionDatatype", "setTransactionContextAndLock"); fn != nil {
		lock := firstCall(fn, "Lock")
		sts := storesTo(fn, ".isLocked")
		ok := lock != nil && len(sts) == 1 && instrDominates(lock, sts[0])
		if ok {
			k, isC := sts[0].Val.(*ssa.Const)
			ok = isC && k.Value != nil && k.Value.ExactString() == "true"
		}
		r.Check(ok, "setTransactionContextAndLock/Lock then isLocked=true", u.Pos(fn.Pos()), "paired", "the mutex and its isLocked flag are not set together")
	}
}
