package main

import "reflect"

func init() {
	register(&propertySpec{
		ID:          "C02",
		Explanation: "decides the orientation of every last-writer-wins decision: Compare is the lexicographic sign function over (Era, Lamport, CUID); every overwrite of an existing element is guarded on all paths by 'existing strictly older than incoming'; updates never touch tombstones; the remote-insert skip loop passes only strictly newer siblings; the counter only adds. NOT decided: that 'greatest timestamp wins' follows from these guards over whole histories, 32-bit wrap-around, value-level outcomes.",
		Assumptions: []string{"timestamps of distinct operations are distinct (C15)", "the enumerated mutation sites of R02.2 are the only ones (checked by the who-may-mutate part)"},
		Rules:       []ruleFn{ruleR02_1, ruleR02_2, ruleR02_3, ruleR02_4, ruleR02_5, ruleR15_1, ruleR01_4},
	})
}

func init() {
	register(&propertySpec{
		ID:          "C01",
		Explanation: "decides that applying an operation is deterministic and exhaustive in the shape of the code: no identifier allocation or positioning inside a Go-map iteration; every operation type a datatype emits has a local and a remote arm; remote apply reads only transmitted fields; local and remote arms call their own variant; plus the cross-listed comparison, key-injectivity, delimiter and clock-sync rules. NOT decided: that the merge functions commute over all interleavings.",
		Assumptions: []string{"CHA call graph restricted to the orda packages over-approximates the calls made on an apply path"},
		Rules: []ruleFn{ruleR01_1, ruleR01_2, func(w *World, r *Report) { ruleR01_3(w, r, false) }, ruleR01_4,
			ruleR02_1, ruleR02_2, ruleR02_4, ruleR04_2, ruleR04_3, ruleR04_4, ruleR04_6, ruleR15_1, ruleR15_3, ruleR15_5, ruleR09_2, ruleR09_3},
	})
}

func init() {
	register(&propertySpec{
		ID:          "C03",
		Explanation: "decides validate-before-consume: positions are validated before an operation is built, nil values are refused before construction, the operation id is rolled back on every failing path, a failed local execution appends nothing to the push buffer, and no result is used before its error is checked. NOT decided: value-level equality with the plain data structure, the bounds arithmetic inside the validators, nil values nested inside containers.",
		Assumptions: []string{"validate* functions of the snapshots are correct"},
		Rules:       []ruleFn{ruleR03_1, ruleR03_2, ruleR03_3, ruleR03_4, ruleR03_5, ruleR03_6, ruleR03_7, ruleR04_5, ruleR04_4},
	})
}

func init() {
	register(&propertySpec{
		ID:          "C04",
		Explanation: "decides the structural facts list/array integrity rests on: remote list operations address by identity (never by index), nothing unlinks or forgets a node, every insert registers its node exactly once under its order time, sizes are decremented once per live element, index-based walks skip tombstones, updates never resurrect and concurrent siblings are ordered newest first by their immutable order time. NOT decided: the RGA ordering invariant over all interleavings; immediate readability at index i.",
		Assumptions: []string{"element identifiers are unique (C15)"},
		Rules: []ruleFn{func(w *World, r *Report) { ruleR01_3(w, r, true) }, ruleR04_2, ruleR04_3, ruleR04_4, ruleR04_5, ruleR04_6,
			ruleR02_3, ruleR02_4},
	})
}

func init() {
	register(&propertySpec{
		ID: "C05", NeedsServer: true,
		Explanation: "decides the order of the client's apply steps, that the client checkpoint only moves forward, the order and error-gating of the server's steps, that a pull is a log-ordered range from the client's checkpoint, and that the checkpoint arithmetic has the intended normal forms; plus the server's accept/ignore/fail partition and the own-operation filter. NOT decided: exactly-once application and equality of client and server state over whole histories (run-time quantities; F15 shows the intended formulas are not sufficient under message loss).",
		Assumptions: []string{"the normal forms encoded in R05.5 are the protocol's intended ones"},
		Rules: []ruleFn{ruleR05_1, ruleR05_2, ruleR05_3, ruleR05_4, ruleR05_5,
			func(w *World, r *Report) { ruleR06_1(w, r, false) }, ruleR07_3, ruleR15_4, ruleR13_3},
	})
	register(&propertySpec{
		ID: "C06", NeedsServer: true,
		Explanation: "decides the shape of the server's sequence assignment (accept iff seq == Cseq+1 with exactly one Sseq increment, ignore iff seq <= Cseq, otherwise MissingOps), that the stored key is an injective format over (duid, sseq) under the unique _id, the commit order, and that no storage error is dropped. NOT decided: that log, end-of-log and checkpoints agree after every request of every history; the success criterion of UpdateDatatype under equal timestamps.",
		Assumptions: []string{"MongoDB enforces uniqueness of _id"},
		Rules:       []ruleFn{func(w *World, r *Report) { ruleR06_1(w, r, false) }, ruleR06_2, ruleR06_3, ruleR06_4, ruleR05_3, ruleR05_5},
	})
	register(&propertySpec{
		ID: "C07", NeedsServer: true,
		Explanation: "decides the three structural defences against lost/duplicated/delayed messages: the server ignores a re-pushed operation by client sequence, a stale response cannot move the client checkpoint back, and own operations are filtered by origin on one side (known finding F15: they are not); plus apply order and checkpoint arithmetic. NOT decided: the count-based skipping itself, which is arithmetic over run-time checkpoints.",
		Assumptions: []string{},
		Rules:       []ruleFn{func(w *World, r *Report) { ruleR06_1(w, r, false) }, ruleR05_2, ruleR07_3, ruleR05_1, ruleR05_5},
	})
}

func init() {
	register(&propertySpec{
		ID: "C08", NeedsServer: true,
		Explanation: "decides that storage errors surface (none is dropped on the way to the response), that every failure leaves through the error pack, that the client turns every code the server can send into a returned error instead of a panic, that the reply/unlock discipline covers the panic path, and whether the push commit is atomic or idempotent (known finding F14: it is neither). NOT decided: recovery after a restart and convergence after retries.",
		Assumptions: []string{"a panic in the handler goroutine is recovered by the deferred exit function"},
		Rules: []ruleFn{ruleR06_4, ruleR08_2, ruleR08_3, ruleR08_4, ruleR16_1, ruleR16_2, ruleR16_4, ruleR05_1, ruleR06_3,
			func(w *World, r *Report) { ruleR06_1(w, r, false) }},
	})
	register(&propertySpec{
		ID:          "C09",
		Explanation: "decides the commit/rollback gating of transactions: a failing body marks the transaction failed, delivery and recording happen only on success, rollback is restore-then-replay with errors propagated, the announced length of a received unit is checked against the received batch before slicing and before applying. NOT decided: that restore-and-replay reproduces the earlier state (depends on C10 and the whole history); a body that panics.",
		Assumptions: []string{"snapshot round trip is faithful (C10)"},
		Rules:       []ruleFn{ruleR09_1, ruleR09_2, ruleR09_3, ruleR09_4, ruleR09_5, ruleR03_3, ruleR03_4},
	})
}

func init() {
	register(&propertySpec{
		ID:          "C10",
		Explanation: "decides writer/reader agreement of the snapshot state: every field of every state struct is written on the restore path and read on the capture path (or is in the table of fields rebuilt from captured state), the marshalled and unmarshalled DTOs have the same keys, exported and unique, GetMeta/SetMeta agree field by field, the list index is keyed by the order time also after a restore, and the export/import pair is used by rollback and by the server rebuild. NOT decided: that the rebuilt indexes equal the originals, i.e. indistinguishability itself.",
		Assumptions: []string{"encoding/json reads/writes exactly the exported, non-\"-\" fields of a struct it is handed"},
		Rules:       []ruleFn{ruleR10_1, ruleR10_2, ruleR10_3, ruleR10_4, ruleR10_5, ruleR04_6},
	})
}

func init() {
	register(&propertySpec{
		ID: "C11", NeedsServer: true,
		Explanation: "decides the provenance of what the server stores as snapshot and as user-visible document (state and version come from one and the same rebuild), the rebuild range (latest snapshot by descending version, operations from its version + 1 in log order, returned version = last replayed sequence), that the visible document records its version, and that the snapshot update is a proper critical section. NOT decided: equality of the stored state with the log replay; monotonicity of the recorded version under racing updaters (rests on the lock actually excluding).",
		Assumptions: []string{"the lock excludes (C12)", "restore is faithful (C10)"},
		Rules:       []ruleFn{ruleR11_1, ruleR11_2, ruleR11_3, ruleR11_4, ruleR10_4, ruleR05_4, ruleR04_6},
	})
}

func init() {
	register(&propertySpec{
		ID: "C12", NeedsServer: true,
		Explanation: "decides the lock discipline of the server: every TryLock result guards its section, the lock is released on every exit including the panic path, a request context never outlives its request through the process-wide lock map, one mutex per lock name is created atomically, lock names are injective over (collection number, key), and each handler sends exactly one reply so that the fan-in returns. NOT decided: data-race freedom of the server as a whole and equivalence to a serial order (no pointer analysis is available; only the lock discipline is decided).",
		Assumptions: []string{"golock.CASMutex and redsync provide mutual exclusion"},
		Rules:       []ruleFn{ruleR12_1, ruleR12_2, ruleR12_3, ruleR12_4, ruleR16_1, ruleR16_2, ruleR11_4},
	})
}

func init() {
	register(&propertySpec{
		ID: "C13", NeedsServer: true,
		Explanation: "decides the server's (option bits, case) dispatch table against the contract (known finding F13: six cells proceed instead of refusing), that classification consults type, visibility and subscription, the client's state machine (SUBSCRIBED only from DUE_TO_*, handler iff old != new, refusal reaches the error handler, reset order), and that the client turns every refusal code into a returned error. NOT decided: exactly one datatype under racing creators (needs the lock to hold and MongoDB's uniqueness); the first state of a subscriber.",
		Assumptions: []string{"the push-pull lock serialises requests of one key (C12)"},
		Rules:       []ruleFn{ruleR13_1, ruleR13_2, ruleR13_3, ruleR08_3, ruleR12_4},
	})
}

func init() {
	register(&propertySpec{
		ID: "C14", NeedsServer: true,
		Explanation: "decides that the encode, decode, store and echo tables agree exhaustively: constructor constant/body type = decoder arm = getter assertion for all operation types; every enum value has a decoder arm; body structs are fully serialisable; the snapshot type arithmetic; the stored document keeps and restores every field of an operation and its field-name tables name existing bson keys; the echo copies every body field; local and decoded construction agree on container kinds. NOT decided: value fidelity (integers above 2^53, invalid UTF-8, nil vs empty slices) and the absence of decode panics on arbitrary bytes.",
		Assumptions: []string{"encoding/json and protobuf round-trip the listed field types"},
		Rules:       []ruleFn{ruleR14_1, ruleR14_2, ruleR14_3, ruleR14_4, ruleR14_5, ruleR14_6},
	})
}

func init() {
	register(&propertySpec{
		ID:          "C15",
		Explanation: "decides that the identity key of a timestamp is an injective format, that comparison is the lexicographic sign function (a total order on distinct (Era, Lamport, CUID)), that every element created repeatedly within one operation takes a fresh delimiter, that the numbering of operation ids has a closed set of writers with the expected increments and resets, and that the clock is synchronised before every remote apply. NOT decided: gaplessness of a client's numbering across whole histories with failures and rollbacks (R03.3/R09.x give the local pairing only).",
		Assumptions: []string{"client ids are unique"},
		Rules:       []ruleFn{ruleR15_1, ruleR02_1, ruleR15_3, ruleR15_4, ruleR15_5, ruleR13_3, ruleR03_3},
	})
}

func init() {
	register(&propertySpec{
		ID: "C16", NeedsServer: true,
		Explanation: "decides that every handler goroutine sends exactly one reply on every exit (panic path included) with the fields the exit code reads initialised first, that storage is mutated only by the final commit step, that an error can never be reported as success, that every RPC returns a response or a non-nil error, that the client turns every error response into a handled error, that lock failures are answered, and that a plain push-pull for an unknown datatype is refused (known finding F19: it is handled by way of a nil dereference). NOT decided: promptness (timing); panics on nil sub-messages of well-formed requests (they become error replies through the recover branch).",
		Assumptions: []string{"gRPC delivers the returned error to the client"},
		Rules:       []ruleFn{ruleR16_1, ruleR16_2, ruleR16_3, ruleR16_4, ruleR08_3, ruleR16_6, ruleR16_7, ruleR12_1, ruleR12_2, ruleR08_2, ruleR20_3},
	})
	register(&propertySpec{
		ID: "C17", NeedsServer: true,
		Explanation: "decides that every lookup and purge is scoped: key lookups constrain the collection number, the client is bound to its collection before handlers run, purges filter the right field with the purged collection's number, filters are fresh values, lock names and the key lookup of the handler use (collection number, key); and whether the id-only lookup is collection-checked (known finding F12: it is not). NOT decided: independence of same-key datatypes over whole histories.",
		Assumptions: []string{"collection numbers are unique per collection"},
		Rules:       []ruleFn{ruleR17_1, ruleR17_2, ruleR17_3, ruleR17_4, ruleR17_6, ruleR12_4, ruleR13_2},
	})
}

func init() {
	register(&propertySpec{
		ID: "C18", NeedsServer: true,
		Explanation: "decides that the notification is published only by the post-reply goroutine, gated by 'no error and at least one stored operation', that it carries the pusher's id, the datatype id and the handler's new end of the log on the topic of (collection, key), that publisher and subscriber agree on the topic, that own notifications are ignored and foreign ones sync iff behind, and the semaphore/re-check discipline of the realtime path. NOT decided: eventual convergence of realtime clients (schedules).",
		Assumptions: []string{"MQTT delivers published messages to subscribers of the topic"},
		Rules:       []ruleFn{ruleR18_1, ruleR18_2, ruleR18_3, ruleR18_4, ruleR18_5},
	})
}

func init() {
	register(&propertySpec{
		ID: "C19", NeedsServer: true,
		Explanation: "decides that a multi-operation patch is one transaction whose first failure aborts it, that patch paths are RFC 6901-decoded in the right order before use, that patchEach supports exactly the operation kinds the differ emits, that the REST client is volatile and never registered, and whether the REST endpoint inspects the push result (known finding F17: it discards it); plus the transaction gating rules. NOT decided: that the edit script reproduces the target (value-level).",
		Assumptions: []string{"jsondiff.CompareJSON produces a correct RFC 6902 patch"},
		Rules:       []ruleFn{ruleR19_1, ruleR19_2, ruleR19_3, ruleR19_4, ruleR19_5, ruleR09_1, ruleR09_2},
	})
}

func init() {
	register(&propertySpec{
		ID:          "C20",
		Explanation: "decides the lock discipline of a client datatype and its manager from the shape of the code: which accesses of the mutex-protected fields lie outside the BeginTransaction..EndTransaction brackets (known findings F18: BeginTransaction's pre-lock test, unlock's late store, the whole sync path, the manager's map), that every exchange holds the manager's semaphore (known finding: the notification path does not), and that semaphore and mutex are released on every exit. NOT decided: absence of lost updates and deadlocks over real schedules (no pointer analysis; the lockset is function-level).",
		Assumptions: []string{"a function is treated as running under the lock only if every call site in the CHA graph is inside the brackets"},
		Rules:       []ruleFn{ruleR20_1, ruleR20_2, ruleR20_3},
	})
}

// cross-listings and rules added after the second round of independent changes (DESIGN.md section 11)
func init() {
	add := func(id string, rules ...ruleFn) {
		for _, f := range rules {
			dup := false
			for _, g := range registry[id].Rules {
				if reflect.ValueOf(f).Pointer() == reflect.ValueOf(g).Pointer() {
					dup = true
				}
			}
			if !dup {
				registry[id].Rules = append(registry[id].Rules, f)
			}
		}
	}
	add("C01", ruleR09_4, ruleR09_5, ruleR04_7)
	add("C02", ruleR09_2, ruleR04_7)
	add("C03", ruleR09_3, ruleR15_4, ruleR03_8)
	add("C04", ruleR05_5, ruleR04_7)
	add("C05", ruleR09_2, ruleR13_1)
	add("C06", ruleR13_1, ruleR12_4)
	add("C07", ruleR13_1)
	add("C08", ruleR13_1, ruleR20_3)
	add("C09", ruleR13_3, ruleR03_8)
	add("C11", ruleR12_3, ruleR11_5, ruleR12_5)
	add("C12", ruleR12_5, ruleR12_8)
	add("C13", ruleR13_4)
	add("C15", ruleR03_8)
	add("C16", ruleR05_1, ruleR12_5)
	add("C17", ruleR17_7)
	add("C18", ruleR18_6, ruleR18_7)
	add("C19", ruleR04_7)
	add("C20", ruleR15_4, ruleR18_5)
	// round 3 (DESIGN.md section 13)
	add("C04", ruleR09_3)
	add("C05", ruleR02_2, ruleR13_5)
	add("C06", ruleR14_4, ruleR13_5)
	add("C07", ruleR13_5)
	add("C08", ruleR05_5)
	add("C09", ruleR15_5, ruleR09_6)
	add("C13", ruleR13_5, ruleR09_6)
	add("C14", ruleR14_7)
	add("C03", ruleR14_7)
	add("C16", ruleR13_1)
	add("C17", ruleR11_1, ruleR06_2, ruleR17_8)
	add("C18", ruleR05_2)
	add("C20", ruleR09_2)
	// F26: a duplicated or delayed subscribe response must not reset a subscribed replica
	add("C07", ruleR13_3)
	// round 4 (DESIGN.md section 14): cross-listings
	add("C01", ruleR05_2, ruleR14_4)
	add("C02", ruleR15_5, ruleR14_4, ruleR02_6)
	add("C03", ruleR19_2)
	add("C04", ruleR05_2, ruleR09_2, ruleR14_4)
	add("C05", ruleR12_4, ruleR14_4, ruleR03_4, ruleR08_5)
	add("C06", ruleR09_3, ruleR08_5)
	add("C07", ruleR12_3, ruleR08_5)
	add("C08", ruleR08_5)
	add("C09", ruleR05_5, ruleR09_7, ruleR09_8)
	add("C10", ruleR15_4, ruleR10_6)
	add("C12", ruleR12_9, ruleR12_10)
	add("C13", ruleR12_3, ruleR05_1, ruleR08_5)
	add("C14", ruleR04_6, ruleR09_4, ruleR10_6)
	add("C15", ruleR09_2, ruleR09_8)
	add("C16", ruleR08_5, ruleR12_9)
	add("C17", ruleR17_9, ruleR17_10)
	add("C19", ruleR15_4)
	add("C20", ruleR03_4, ruleR09_8)
	add("C01", ruleR02_6)
	add("C06", ruleR06_5)
	add("C11", ruleR06_5, ruleR09_4)
	add("C18", ruleR13_3)
	// guards of the round-4 repairs
	add("C10", ruleR10_7)
	add("C09", ruleR10_7, ruleR19_6)
	add("C19", ruleR19_6, ruleR19_7, ruleR11_6, ruleR03_11)
	add("C20", ruleR19_6)
	add("C03", ruleR19_6, ruleR19_7, ruleR03_9, ruleR03_10, ruleR03_11)
	add("C11", ruleR11_6)
	add("C17", ruleR17_11)
	add("C13", ruleR13_6)
	add("C07", ruleR13_6)
	add("C09", ruleR09_9, ruleR09_10)
	// round 5 (DESIGN.md section 15)
	add("C01", ruleR03_4)
	add("C02", ruleR05_2)
	add("C04", ruleR15_5)
	add("C05", ruleR09_3, ruleR09_7)
	add("C06", ruleR05_4)
	add("C07", ruleR07_4)
	add("C08", ruleR05_4, ruleR06_5, ruleR07_4)
	add("C10", ruleR09_8)
	add("C11", ruleR15_4)
	add("C14", ruleR04_7, ruleR03_4)
	add("C15", ruleR09_3, ruleR09_7)
	add("C16", ruleR05_2)
	add("C18", ruleR13_5, ruleR18_4)
	add("C19", ruleR05_2)
	add("C20", ruleR09_3, ruleR09_7, ruleR13_4, ruleR07_4)
	add("C03", ruleR03_13, ruleR09_2)
	add("C09", ruleR10_7)
	add("C13", ruleR13_7)
	add("C16", ruleR13_7)
	add("C03", ruleR03_15)
	add("C03", ruleR03_14)
	add("C14", ruleR03_14)
	// round 6 (DESIGN.md section 17)
	add("C01", ruleR01_5)
	add("C02", ruleR15_4, ruleR01_5)
	add("C14", ruleR01_5)
	add("C15", ruleR01_5)
	add("C11", ruleR01_1, ruleR01_5)
	add("C03", ruleR03_16)
	add("C04", ruleR03_4, ruleR05_1, ruleR09_6)
	add("C05", ruleR12_3)
	add("C06", ruleR19_5, ruleR09_2)
	add("C10", ruleR09_7)
	add("C16", ruleR06_3)
	add("C17", ruleR17_12)
	add("C20", ruleR03_8, ruleR20_4)
	add("C07", ruleR16_1, ruleR08_2)
	add("C05", ruleR16_1)
	add("C06", ruleR16_1)
	add("C16", ruleR16_8)
	add("C03", ruleR03_12)
	add("C13", ruleR03_12)
	add("C16", ruleR03_12)
	// round 7: guards of the repairs F52..F55
	add("C10", ruleR10_8)
	add("C01", ruleR10_8)
	add("C04", ruleR10_8)
	add("C09", ruleR09_11)
	add("C14", ruleR09_11)
	add("C16", ruleR16_9)
	add("C08", ruleR16_9)
	add("C07", ruleR16_9)
	// round 7: what the unseen changes of seeded7 showed
	for _, id := range []string{"C15", "C01", "C02", "C04", "C05", "C09", "C10", "C19", "C03"} {
		add(id, ruleR15_7)
	}
	add("C07", ruleR07_5)
	add("C13", ruleR07_5)
	add("C05", ruleR07_5)
	add("C09", ruleR09_12)
	add("C10", ruleR09_12)
	add("C20", ruleR09_12)
	add("C14", ruleR14_8)
	add("C16", ruleR16_10, ruleR16_11, ruleR16_12)
	add("C14", ruleR16_12)
	add("C19", ruleR19_8, ruleR03_17)
	// round 8
	add("C13", ruleR13_8)
	add("C05", ruleR13_8)
	add("C16", ruleR16_13)
	add("C12", ruleR16_13)
	add("C18", ruleR18_8)
	add("C20", ruleR09_13)
	add("C09", ruleR09_14)
	// round 9
	add("C08", ruleR08_6)
	add("C16", ruleR16_14)
	add("C08", ruleR16_14)
	add("C12", ruleR16_14)
	add("C09", ruleR09_15)
	add("C06", ruleR09_15)
	add("C15", ruleR09_15)
	add("C13", ruleR13_9)
	add("C14", ruleR14_9)
	add("C11", ruleR14_9)
	add("C19", ruleR14_9)
	add("C17", ruleR17_13)
	add("C18", ruleR18_9)
	add("C19", ruleR19_9)
	add("C13", ruleR19_9)
	add("C20", ruleR20_6)
	add("C01", ruleR20_6)
	add("C09", ruleR20_6)
	// round 10
	add("C01", ruleR01_6)
	add("C14", ruleR01_6)
	add("C17", ruleR17_14)
	add("C12", ruleR12_11, ruleR12_12)
	add("C11", ruleR12_12)
	add("C16", ruleR12_11, ruleR16_15, ruleR16_16)
	add("C18", ruleR18_10)
	add("C19", ruleR18_10)
	// what caught the unseen mutants of round 10 under another property only
	add("C01", ruleR05_5, ruleR03_2)
	add("C14", ruleR03_2, ruleR10_1, ruleR10_5, ruleR15_7)
	add("C02", ruleR09_3)
	add("C19", ruleR09_3, ruleR18_4)
	add("C03", ruleR10_1, ruleR10_5)
	add("C04", ruleR15_1, ruleR10_6)
	add("C05", ruleR02_4)
	add("C06", ruleR07_5)
	add("C08", ruleR07_5)
	add("C07", ruleR20_3, ruleR18_5, ruleR06_2)
	add("C15", ruleR05_1)
	add("C17", ruleR18_2, ruleR18_3)
	add("C06", ruleR15_8)
	// round 11
	add("C17", ruleR17_15)
	add("C12", ruleR12_13)
	add("C13", ruleR13_10, ruleR13_11)
	add("C07", ruleR13_11)
	add("C14", ruleR14_10)
	add("C01", ruleR14_10)
	add("C05", ruleR06_4)
	add("C03", ruleR03_18, ruleR03_19)
	add("C01", ruleR03_19)
	add("C14", ruleR03_18, ruleR03_19)
	add("C15", ruleR15_8)
	add("C12", ruleR06_1full) // "all log invariants hold" under overlapping requests: the numbering of the accepted operations
	add("C20", ruleR12_3)     // a realtime client's overlapping push-pulls are told apart by the server's per-datatype lock alone
	for _, id := range []string{"C09", "C13", "C10", "C02", "C19"} {
		add(id, ruleR09_17)
	}
	add("C05", ruleR09_8)
	add("C06", ruleR09_8)
	add("C10", ruleR09_6)
	for _, id := range []string{"C07", "C09", "C18", "C01", "C05", "C06"} {
		add(id, ruleR07_6)
	}
	add("C05", ruleR17_14)
	add("C01", ruleR03_6)
	add("C02", ruleR05_1)
	add("C03", ruleR19_1)
	add("C04", ruleR07_5, ruleR13_3, ruleR14_6)
	add("C05", ruleR11_2, ruleR06_3)
	add("C07", ruleR12_4, ruleR09_4)
	add("C09", ruleR20_1)
	add("C10", ruleR09_2)
	add("C11", ruleR15_5, ruleR12_1, ruleR12_4)
	add("C12", ruleR17_6, ruleR17_9)
	add("C13", ruleR11_6)
	add("C14", ruleR19_2)
	add("C15", ruleR03_4, ruleR04_7)
	add("C16", ruleR17_11)
	add("C19", ruleR05_5)
	add("C20", ruleR13_3, ruleR18_4)
	add("C01", ruleR09_14)
	add("C09", ruleR09_13)
	add("C05", ruleR09_13)
	add("C01", ruleR13_5)
	add("C02", ruleR13_5)
	add("C04", ruleR05_3, ruleR13_5)
	add("C08", ruleR12_5)
	add("C09", ruleR06_4)
	add("C10", ruleR11_1)
	add("C11", ruleR06_1full)
	add("C12", ruleR08_5)
	add("C14", ruleR01_2, ruleR11_3)
	add("C15", ruleR06_1full, ruleR08_3)
	add("C16", ruleR13_3)
	add("C19", ruleR12_3, ruleR03_4)
	add("C20", ruleR12_4)
	add("C03", ruleR03_17)
	add("C03", ruleR19_8)
	add("C16", ruleR09_11)
	add("C08", ruleR09_11)
	add("C04", ruleR09_4)
	add("C03", ruleR01_5)
	add("C06", ruleR03_3, ruleR12_3)
	add("C07", ruleR05_3, ruleR05_4)
	add("C17", ruleR06_1full, ruleR19_5)
	add("C18", ruleR05_5, ruleR06_1full)
	add("C20", ruleR05_2)
	for _, id := range []string{"C04", "C13"} {
		registry[id].NeedsServer = registry[id].NeedsServer || id == "C13"
	}
	// R05.5 (6) and R13.1 read the server module
	registry["C04"].NeedsServer = false
}
