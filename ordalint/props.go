package main

func init() {
	register(&propertySpec{
		ID: "C02",
		Explanation: "decides the orientation of every last-writer-wins decision: Compare is the lexicographic sign function over (Era, Lamport, CUID); every overwrite of an existing element is guarded on all paths by 'existing strictly older than incoming'; updates never touch tombstones; the remote-insert skip loop passes only strictly newer siblings; the counter only adds. NOT decided: that 'greatest timestamp wins' follows from these guards over whole histories, 32-bit wrap-around, value-level outcomes.",
		Assumptions: []string{"timestamps of distinct operations are distinct (C15)", "the enumerated mutation sites of R02.2 are the only ones (checked by the who-may-mutate part)"},
		Rules:       []ruleFn{ruleR02_1, ruleR02_2, ruleR02_3, ruleR02_4, ruleR02_5},
	})
}
