package main

func init() {
	register(&propertySpec{
		ID: "C02",
		Explanation: "decides the orientation of every last-writer-wins decision: Compare is the lexicographic sign function over (Era, Lamport, CUID); every overwrite of an existing element is guarded on all paths by 'existing strictly older than incoming'; updates never touch tombstones; the remote-insert skip loop passes only strictly newer siblings; the counter only adds. NOT decided: that 'greatest timestamp wins' follows from these guards over whole histories, 32-bit wrap-around, value-level outcomes.",
		Assumptions: []string{"timestamps of distinct operations are distinct (C15)", "the enumerated mutation sites of R02.2 are the only ones (checked by the who-may-mutate part)"},
		Rules:       []ruleFn{ruleR02_1, ruleR02_2, ruleR02_3, ruleR02_4, ruleR02_5},
	})
}

func init() {
	register(&propertySpec{
		ID: "C01",
		Explanation: "decides that applying an operation is deterministic and exhaustive in the shape of the code: no identifier allocation or positioning inside a Go-map iteration; every operation type a datatype emits has a local and a remote arm; remote apply reads only transmitted fields; local and remote arms call their own variant; plus the cross-listed comparison, key-injectivity, delimiter and clock-sync rules. NOT decided: that the merge functions commute over all interleavings.",
		Assumptions: []string{"CHA call graph restricted to the orda packages over-approximates the calls made on an apply path"},
		Rules: []ruleFn{ruleR01_1, ruleR01_2, func(w *World, r *Report) { ruleR01_3(w, r, false) }, ruleR01_4,
			ruleR02_1, ruleR02_2, ruleR02_4},
	})
}

func init() {
	register(&propertySpec{
		ID: "C03",
		Explanation: "decides validate-before-consume: positions are validated before an operation is built, nil values are refused before construction, the operation id is rolled back on every failing path, a failed local execution appends nothing to the push buffer, and no result is used before its error is checked. NOT decided: value-level equality with the plain data structure, the bounds arithmetic inside the validators, nil values nested inside containers.",
		Assumptions: []string{"validate* functions of the snapshots are correct"},
		Rules:       []ruleFn{ruleR03_1, ruleR03_2, ruleR03_3, ruleR03_4, ruleR03_5},
	})
}

func init() {
	register(&propertySpec{
		ID: "C04",
		Explanation: "decides the structural facts list/array integrity rests on: remote list operations address by identity (never by index), nothing unlinks or forgets a node, every insert registers its node exactly once under its order time, sizes are decremented once per live element, index-based walks skip tombstones, updates never resurrect and concurrent siblings are ordered newest first by their immutable order time. NOT decided: the RGA ordering invariant over all interleavings; immediate readability at index i.",
		Assumptions: []string{"element identifiers are unique (C15)"},
		Rules: []ruleFn{func(w *World, r *Report) { ruleR01_3(w, r, true) }, ruleR04_2, ruleR04_3, ruleR04_4, ruleR04_5, ruleR04_6,
			ruleR02_3, ruleR02_4},
	})
}
