package main

import (
	"fmt"
	"go/ast"
	"go/types"
	"sort"
	"strings"

	"golang.org/x/tools/go/ssa"
)

// the four datatype implementation structs of client/pkg/orda
var datatypeStructs = []string{"counter", "ordaMap", "list", "document"}

func clientImplPkgs(p string) bool {
	return p == pOrda || p == pDatatypes || p == pCManagers || p == pModel || p == pOperations || p == pTypes
}

// orderSinks: functions whose effect depends on how often / in which order they were called before.
func orderSinks(u *Universe) map[*ssa.Function]string {
	out := map[*ssa.Function]string{}
	add := func(f *ssa.Function, why string) {
		if f != nil {
			out[f] = why
		}
	}
	add(u.Fn(pModel, "Timestamp", "GetAndNextDelimiter"), "allocates the next element identifier")
	add(u.Fn(pModel, "OperationID", "Next"), "allocates the next operation identifier")
	add(u.Fn(pOrda, "orderedNode", "insertNext"), "fixes a list position")
	add(u.Fn(pOrda, "listSnapshot", "insertLocalWithTimedTypes"), "fixes list positions")
	add(u.Fn(pOrda, "listSnapshot", "insertRemoteWithTimedTypes"), "fixes list positions")
	return out
}

// R01.1 no order-sensitive effect inside a Go-map iteration
func ruleR01_1(w *World, r *Report) {
	u := w.Client()
	r.Rule("R01.1", "the body of a range over a Go map (unspecified order) must not reach, through any call chain inside orda, a function that allocates identifiers or fixes list positions", 3)
	v := newCGView(u, w.Thorough)
	sinks := orderSinks(u)
	if len(sinks) < 5 {
		r.Lost("order-sensitive sinks (GetAndNextDelimiter, OperationID.Next, insertNext, insert*WithTimedTypes)")
		return
	}
	for _, path := range sortedPkgPaths(u, clientImplPkgs) {
		p := u.Pkgs[path]
		for _, file := range p.Syntax {
			if isTestFile(u.Fset, file.Pos()) || isGenerated(u.Fset, file.Pos()) {
				continue
			}
			for _, d := range file.Decls {
				fd, ok := d.(*ast.FuncDecl)
				if !ok || fd.Body == nil {
					continue
				}
				obj, _ := p.TypesInfo.Defs[fd.Name].(*types.Func)
				fn := u.Prog.FuncValue(obj)
				if fn == nil {
					continue
				}
				n := 0
				ast.Inspect(fd.Body, func(node ast.Node) bool {
					rs, ok := node.(*ast.RangeStmt)
					if !ok {
						return true
					}
					tv, ok := p.TypesInfo.Types[rs.X]
					if !ok {
						return true
					}
					if _, isMap := tv.Type.Underlying().(*types.Map); !isMap {
						return true
					}
					n++
					cons := fmt.Sprintf("%s/map-range#%d over %s", objName(obj), n, types.ExprString(rs.X))
					// a registry of datatypes: every iteration works on another datatype, and identifiers are allocated
					// from per-datatype state (its own operation id and clock), so the visiting order cannot leak into them
					if mt, _ := tv.Type.Underlying().(*types.Map); mt != nil {
						if es := mt.Elem().String(); strings.HasSuffix(es, "iface.WiredDatatype") || strings.HasSuffix(es, "iface.Datatype") {
							r.OK(cons, u.Pos(rs.Pos()), "registry of datatypes: each iteration acts on a different datatype with its own identifiers")
							return true
						}
					}
					// call sites of fn (and its closures) located inside the body
					var roots []*ssa.Function
					for _, f := range withClosures(fn) {
						inside := f != fn && rs.Body.Pos() <= f.Pos() && f.Pos() <= rs.Body.End()
						for _, c := range callsIn(f) {
							if inside || (rs.Body.Pos() <= c.Pos() && c.Pos() <= rs.Body.End()) {
								roots = append(roots, v.calleesAt(c)...)
							}
						}
					}
					pred := v.reach(roots, nil)
					var hit *ssa.Function
					var keys []*ssa.Function
					for f := range pred {
						keys = append(keys, f)
					}
					sort.Slice(keys, func(i, j int) bool { return keys[i].String() < keys[j].String() })
					for _, f := range keys {
						if _, bad := sinks[f]; bad {
							hit = f
							break
						}
					}
					if hit != nil {
						r.Bad(cons, u.Pos(rs.Pos()), "map iteration order reaches "+fnName(hit)+", which "+sinks[hit],
							append([]string{objName(obj) + " (range body)"}, pathTo(pred, hit)...)...)
					} else {
						r.OK(cons, u.Pos(rs.Pos()), fmt.Sprintf("body reaches %d orda functions, none order-sensitive", len(pred)))
					}
					return true
				})
			}
		}
	}
}

func sortedPkgPaths(u *Universe, keep func(string) bool) []string {
	var out []string
	for p := range u.Pkgs {
		if keep == nil || keep(p) {
			out = append(out, p)
		}
	}
	sort.Strings(out)
	return out
}

// opStructs lists the operation struct types (those embedding baseOperation).
func opStructs(u *Universe) []*types.Named {
	p := u.Pkgs[pOperations]
	if p == nil {
		return nil
	}
	var out []*types.Named
	sc := p.Types.Scope()
	for _, name := range sc.Names() {
		tn, ok := sc.Lookup(name).(*types.TypeName)
		if !ok {
			continue
		}
		n, ok := tn.Type().(*types.Named)
		if !ok {
			continue
		}
		st, ok := n.Underlying().(*types.Struct)
		if !ok {
			continue
		}
		for i := 0; i < st.NumFields(); i++ {
			if st.Field(i).Embedded() && st.Field(i).Name() == "baseOperation" {
				out = append(out, n)
			}
		}
	}
	return out
}

// R01.2 emitted ⊆ applied
func ruleR01_2(w *World, r *Report) {
	u := w.Client()
	r.Rule("R01.2", "every operation type a datatype's methods construct has a non-empty arm in that datatype's ExecuteLocal and ExecuteRemote type switches; ExecuteRemote also handles SnapshotOperation", 4)
	p := u.Pkgs[pOrda]
	if p == nil {
		r.Lost("package client/pkg/orda")
		return
	}
	for _, dt := range datatypeStructs {
		n := u.Named(pOrda, dt)
		if n == nil {
			r.Lost("datatype struct " + dt)
			continue
		}
		emitted := map[string]bool{}
		for i := 0; i < n.NumMethods(); i++ {
			fd, _ := u.Decl(n.Method(i))
			if fd == nil || fd.Body == nil {
				continue
			}
			ast.Inspect(fd.Body, func(node ast.Node) bool {
				c, ok := node.(*ast.CallExpr)
				if !ok {
					return true
				}
				f := calleeOf(p.TypesInfo, c)
				if f == nil || f.Pkg() == nil || f.Pkg().Path() != pOperations || !strings.HasPrefix(f.Name(), "New") {
					return true
				}
				res := f.Type().(*types.Signature).Results()
				if res.Len() == 1 {
					if nn := namedOf(res.At(0).Type()); nn != nil && strings.HasSuffix(nn.Obj().Name(), "Operation") {
						emitted[nn.Obj().Name()] = true
					}
				}
				return true
			})
		}
		if len(emitted) == 0 {
			r.Lost(dt + " constructs no operation")
			continue
		}
		for _, side := range []string{"ExecuteLocal", "ExecuteRemote"} {
			fn := u.Fn(pOrda, dt, side)
			if fn == nil {
				r.Lost(dt + "." + side)
				continue
			}
			// a type switch and a chain of comma-ok type assertions both compile to TypeAssert
			// instructions on the operation parameter: one arm per asserted type
			arms := map[string]*ssa.TypeAssert{}
			forEachInstr(fn, func(in ssa.Instruction) {
				ta, ok := in.(*ssa.TypeAssert)
				if !ok || len(fn.Params) < 2 || stripIface(ta.X) != ssa.Value(fn.Params[1]) && ta.X != ssa.Value(fn.Params[1]) {
					return
				}
				if n := namedOf(ta.AssertedType); n != nil {
					arms[n.Obj().Name()] = ta
				}
			})
			if len(arms) == 0 {
				r.Undecided(dt+"."+side, u.Pos(fn.Pos()), "no type dispatch on the operation parameter found")
				continue
			}
			want := map[string]bool{}
			for k := range emitted {
				want[k] = true
			}
			if side == "ExecuteRemote" {
				want["SnapshotOperation"] = true
			}
			var names []string
			for k := range want {
				names = append(names, k)
			}
			sort.Strings(names)
			for _, opn := range names {
				ta := arms[opn]
				cons := dt + "." + side + "/arm " + opn
				if ta == nil {
					r.Bad(cons, u.Pos(fn.Pos()), "operation type is constructed by "+dt+" but has no arm: it would be refused as an illegal operation (silently on the remote side)")
					continue
				}
				// the arm does something: the asserted value is used
				used := false
				for _, ref := range realRefs(ta) {
					if ex, ok := ref.(*ssa.Extract); ok && ex.Index == 0 && len(realRefs(ex)) > 0 {
						used = true
					}
					if _, ok := ref.(*ssa.Extract); !ok {
						used = true
					}
				}
				r.Check(used, cons, u.Pos(ta.Pos()), "arm present", "arm is empty")
			}
		}
	}
}

// localOnlyOpFields: fields of operation structs outside the embedded baseOperation; they are not
// serialised by ToModelOperation.
func localOnlyOpFields(u *Universe) map[string]bool {
	out := map[string]bool{}
	for _, n := range opStructs(u) {
		st := n.Underlying().(*types.Struct)
		for i := 0; i < st.NumFields(); i++ {
			if f := st.Field(i); !f.Embedded() {
				out[n.Obj().Name()+"."+f.Name()] = true
			}
		}
	}
	return out
}

func implsOf(u *Universe, method string) []*ssa.Function {
	var out []*ssa.Function
	for _, dt := range datatypeStructs {
		if f := u.Fn(pOrda, dt, method); f != nil {
			out = append(out, f)
		}
	}
	return out
}

// R01.3 remote apply never reads a non-transmitted field
func ruleR01_3(w *World, r *Report, listOnly bool) {
	u := w.Client()
	id, floor := "R01.3", 4
	if listOnly {
		id = "R04.1"
	}
	r.Rule(id, "functions reachable from ExecuteRemote never read the fields of an operation that are not transmitted (Pos, NumOfNodes: local addressing by index); remote operations address elements by identity", floor)
	local := localOnlyOpFields(u)
	if len(local) < 8 {
		r.Lost(fmt.Sprintf("local-only operation fields (found %d, expected 8)", len(local)))
		return
	}
	v := newCGView(u, w.Thorough)
	roots := implsOf(u, "ExecuteRemote")
	if len(roots) < 4 {
		r.Lost("the four ExecuteRemote implementations")
		return
	}
	for _, root := range roots {
		pred := v.reach([]*ssa.Function{root}, func(f *ssa.Function) bool { return oldFuncName(f) == "ExecuteLocal" })
		bad := false
		var fs []*ssa.Function
		for f := range pred {
			fs = append(fs, f)
		}
		sort.Slice(fs, func(i, j int) bool { return fs[i].String() < fs[j].String() })
		for _, f := range fs {
			if oldFuncName(f) == "ExecuteLocal" {
				continue
			}
			le := localEffects(f)
			for k := range le.Reads {
				if local[k] {
					bad = true
					r.Bad(fnName(root)+"/reads "+k, u.Pos(f.Pos()), fnName(f)+" reads "+k+", which is not part of the transmitted operation body", pathTo(pred, f)...)
				}
			}
		}
		if !bad {
			r.OK(fnName(root), u.Pos(root.Pos()), fmt.Sprintf("%d reachable functions read none of the %d local-only fields", len(pred), len(local)))
		}
	}
}

// R01.4 local and remote arms call their own variant
func ruleR01_4(w *World, r *Report) {
	u := w.Client()
	r.Rule("R01.4", "ExecuteRemote arms call no function of the *Local* family and pass isLocal=false; ExecuteLocal arms call no *Remote* function and pass isLocal=true (the two families differ exactly in how they treat older/concurrent state)", 8)
	for _, side := range []struct{ method, forbidden string }{{"ExecuteRemote", "Local"}, {"ExecuteLocal", "Remote"}} {
		for _, fn := range implsOf(u, side.method) {
			cons := fnName(fn)
			bad := false
			for _, c := range callsIn(fn) {
				name := calleeName(c)
				if strings.Contains(name, side.forbidden) && !strings.HasPrefix(name, "Execute") {
					bad = true
					r.Bad(cons+"/calls "+name, u.Pos(c.Pos()), side.method+" calls "+name+": the "+strings.ToLower(side.forbidden)+" variant on the "+strings.ToLower(strings.TrimPrefix(side.method, "Execute"))+" path")
				}
				// boolean isLocal arguments must be the matching constant
				if o := calleeObj(c); o != nil {
					sig := o.Type().(*types.Signature)
					_, args := recvAndArgs(c)
					for i := 0; i < sig.Params().Len() && i < len(args); i++ {
						if sig.Params().At(i).Name() == "isLocal" {
							k, isC := args[i].(*ssa.Const)
							want := side.method == "ExecuteLocal"
							if !isC || k.Value == nil || (k.Value.ExactString() == "true") != want {
								bad = true
								r.Bad(cons+"/isLocal of "+name, u.Pos(c.Pos()), fmt.Sprintf("%s passes isLocal=%s", side.method, exprName(args[i])))
							}
						}
					}
				}
			}
			if !bad {
				r.OK(cons, u.Pos(fn.Pos()), "calls only its own family")
			}
		}
	}
}
