package main

import (
	"go/token"
	"go/types"
	"strings"

	"golang.org/x/tools/go/ssa"
)

// Deep view: a function together with the bodies of the orda helpers it calls statically
// (virtual inlining, depth <= 3). It makes the rules indifferent to whether a block lives in the
// anchored function or in a helper extracted from it: instructions of helpers are seen with the
// branch literals of the path to their call site prepended, and their canonical names are
// expressed in the caller's terms (parameters substituted by the arguments).

type dnode struct {
	fn     *ssa.Function
	parent *dnode
	site   ssa.CallInstruction
	depth  int
}

type dins struct {
	n  *dnode
	in ssa.Instruction
}

type deepFn struct {
	root  *dnode
	nodes []*dnode
}

var noInlinePkgs = []string{"/client/pkg/log", "/client/pkg/errors", "/client/pkg/context", "/client/pkg/utils", "/client/pkg/types"}

func inlinable(f *ssa.Function) bool {
	if f == nil || f.Pkg == nil || len(f.Blocks) == 0 || f.Synthetic != "" {
		return false
	}
	p := f.Pkg.Pkg.Path()
	if !isOrda(p) {
		return false
	}
	for _, s := range noInlinePkgs {
		if strings.HasSuffix(p, s) {
			return false
		}
	}
	return true
}

func deepOf(fn *ssa.Function) *deepFn { return deepOfDepth(fn, 3) }

func deepOfDepth(fn *ssa.Function, maxDepth int) *deepFn {
	d := &deepFn{root: &dnode{fn: fn}}
	// The view is chosen breadth first (the functions nearest to the root are never the ones cut off by the size
	// limit) and listed depth first in call order. A new helper - a function the reviewed tree does not have - is
	// part of its caller: it costs neither depth nor size.
	kids := map[*dnode][]*dnode{}
	queue := []*dnode{d.root}
	counted := 1
	total := 1
	for len(queue) > 0 {
		n := queue[0]
		queue = queue[1:]
		for _, c := range ownCallsIn(n.fn) {
			if _, isGo := c.(*ssa.Go); isGo {
				continue
			}
			callee := staticCallee(c)
			if !inlinable(callee) {
				continue
			}
			isNew := flattenable[callee]
			if !isNew && (n.depth >= maxDepth || counted > 80) {
				continue
			}
			if total > 400 {
				continue
			}
			rec := false
			for a := n; a != nil; a = a.parent {
				if a.fn == callee {
					rec = true
				}
			}
			if rec {
				continue
			}
			ch := &dnode{fn: callee, parent: n, site: c, depth: n.depth + 1}
			if isNew {
				ch.depth = n.depth
			} else {
				counted++
			}
			total++
			kids[n] = append(kids[n], ch)
			queue = append(queue, ch)
		}
	}
	var list func(n *dnode)
	list = func(n *dnode) {
		d.nodes = append(d.nodes, n)
		for _, ch := range kids[n] {
			list(ch)
		}
	}
	list(d.root)
	return d
}

// each visits every instruction of the deep view.
func (d *deepFn) each(f func(x dins)) {
	for _, n := range d.nodes {
		forEachOwnInstr(n.fn, func(in ssa.Instruction) { f(dins{n, in}) })
	}
}

// withEnv evaluates f with the parameter substitution of node n installed.
func withEnv(n *dnode, f func()) {
	var chain []*dnode
	for a := n; a != nil && a.parent != nil; a = a.parent {
		chain = append([]*dnode{a}, chain...)
	}
	saved := substStack
	substStack = nil
	for _, a := range chain {
		env := map[*ssa.Parameter]ssa.Value{}
		args := a.site.Common().Args
		for i, p := range a.fn.Params {
			if i < len(args) {
				env[p] = args[i]
			}
		}
		substStack = append(substStack, env)
	}
	defer func() { substStack = saved }()
	f()
}

func (d *deepFn) name(n *dnode, v ssa.Value) string {
	var s string
	withEnv(n, func() { s = canonName(v) })
	return s
}

func (d *deepFn) linear(n *dnode, v ssa.Value) Linear {
	var l Linear
	withEnv(n, func() { l = canonLinear(v) })
	return l
}

// calls lists the deep call instructions with one of the names.
func (d *deepFn) calls(names ...string) []dins {
	var out []dins
	d.each(func(x dins) {
		if c, ok := x.in.(ssa.CallInstruction); ok && has(names, calleeName(c)) {
			out = append(out, x)
		}
	})
	return out
}

// stores lists the deep stores whose canonical address (in root terms) ends with suffix.
func (d *deepFn) stores(suffix string) []dins {
	var out []dins
	d.each(func(x dins) {
		if st, ok := x.in.(*ssa.Store); ok && strings.HasSuffix(d.name(x.n, st.Addr), suffix) {
			out = append(out, x)
		}
	})
	return out
}

// inLoop: the instruction, or one of the call sites leading to it, is inside a loop.
func (d *deepFn) inLoop(x dins) bool {
	if inLoop(x.in.Block()) {
		return true
	}
	for a := x.n; a != nil && a.parent != nil; a = a.parent {
		if inLoop(a.site.Block()) {
			return true
		}
	}
	return false
}

// litPath is one path to a deep instruction, as canonical strings of every kind of literal.
type litPath struct {
	strs []string // all literals, rendered as in litStrings
	lins []string // integer comparison literals in linear normal form (after the abstraction)
}

func renderLit(l Lit) string {
	switch l.Kind {
	case "cmp":
		return canonName(loadSource(l.X)) + " " + l.Op.String() + " " + canonName(loadSource(l.Y))
	case "call":
		recv, _ := recvAndArgs(l.Call)
		s := calleeName(l.Call) + "(" + canonName(recv) + ")"
		if !l.Pol {
			s = "!" + s
		}
		return s
	}
	s := canonName(l.X)
	if !l.Pol {
		s = "!" + s
	}
	return s
}

// localPaths renders the paths to instruction in of node n; literals that test the (nil-ness of
// the) result of an inlinable helper are expanded into the literals of the helper's matching
// return paths.
func (d *deepFn) localPaths(n *dnode, in ssa.Instruction, ab func(string) string) ([]litPath, bool) {
	paths, ok := reachingLitsOwn(n.fn, nil, in)
	out := []litPath{}
	for _, p := range paths {
		cur := []litPath{{}}
		for _, l := range p {
			// expansion of "helper(...) ==/!= nil"
			var alts []litPath
			if l.Kind == "cmp" && (l.Op == token.EQL || l.Op == token.NEQ) {
				x, y := l.X, l.Y
				if c, isC := x.(*ssa.Const); isC && c.Value == nil {
					x, y = y, x
				}
				if c, isC := y.(*ssa.Const); isC && c.Value == nil {
					if call := errSourceCall(stripIface(loadSource(x))); call != nil && inlinable(staticCallee(call)) {
						alts = d.returnPaths(n, call, l.Op == token.EQL, ab)
					}
				}
			}
			// expansion of "boolHelper(...)" / "!boolHelper(...)": a small predicate extracted from a condition
			if l.Kind == "call" && len(alts) == 0 {
				if callee := staticCallee(l.Call); inlinable(callee) {
					var child *dnode
					for _, c := range d.nodes {
						if c.parent == n && c.site == ssa.CallInstruction(l.Call) {
							child = c
						}
					}
					if child != nil {
						if hl, okh := boolReturnLits(callee, l.Pol); okh && len(hl) > 0 && len(hl) <= 16 {
							for _, hp := range hl {
								var lp litPath
								withEnv(child, func() {
									for _, x := range hp {
										lp.strs = append(lp.strs, renderLit(x))
										if lc, ok := canonLinCmp(x); ok {
											if ab != nil {
												lc.L = abstractLin(lc.L, ab)
											}
											lp.lins = append(lp.lins, lc.String())
										}
									}
								})
								alts = append(alts, lp)
							}
						}
					}
				}
			}
			var own litPath
			withEnv(n, func() {
				own.strs = []string{renderLit(l)}
				if lc, ok := canonLinCmp(l); ok {
					if ab != nil {
						lc.L = abstractLin(lc.L, ab)
					}
					own.lins = []string{lc.String()}
				}
			})
			var next []litPath
			for _, c := range cur {
				if len(alts) == 0 {
					next = append(next, litPath{append(append([]string{}, c.strs...), own.strs...), append(append([]string{}, c.lins...), own.lins...)})
					continue
				}
				for _, a := range alts {
					next = append(next, litPath{append(append(append([]string{}, c.strs...), own.strs...), a.strs...), append(append(append([]string{}, c.lins...), own.lins...), a.lins...)})
				}
			}
			cur = next
			if len(cur) > 512 {
				return nil, false
			}
		}
		out = append(out, cur...)
	}
	return out, ok
}

// returnPaths: the literal paths of the helper called by call (a node of the deep view below n)
// to its returns whose last result is nil (wantNil) or non-nil.
func (d *deepFn) returnPaths(n *dnode, call *ssa.Call, wantNil bool, ab func(string) string) []litPath {
	var child *dnode
	for _, c := range d.nodes {
		if c.parent == n && c.site == ssa.CallInstruction(call) {
			child = c
		}
	}
	if child == nil {
		return nil
	}
	var out []litPath
	forEachOwnInstr(child.fn, func(in ssa.Instruction) {
		ret, ok := in.(*ssa.Return)
		if !ok || len(ret.Results) == 0 {
			return
		}
		isNil := true
		for _, v := range resolveSpill(ret.Results[len(ret.Results)-1]) {
			if c, isC := v.(*ssa.Const); !isC || c.Value != nil {
				isNil = false
			}
		}
		if isNil != wantNil {
			return
		}
		ps, _ := d.localPaths(child, ret, ab)
		out = append(out, ps...)
	})
	return out
}

// paths: the literal paths from the entry of the root function to the deep instruction.
func (d *deepFn) paths(x dins, ab func(string) string) ([]litPath, bool) {
	return d.pathsFrom(nil, x, ab)
}

// lca: the deepest node of the view that is an ancestor (or self) of both a and b.
func (d *deepFn) lca(a, b *dnode) *dnode {
	anc := map[*dnode]bool{}
	for x := a; x != nil; x = x.parent {
		anc[x] = true
	}
	for x := b; x != nil; x = x.parent {
		if anc[x] {
			return x
		}
	}
	return d.root
}

// pathsFrom: the literal paths from the entry of the function of node `from` (nil: the root) to x.
func (d *deepFn) pathsFrom(from *dnode, x dins, ab func(string) string) ([]litPath, bool) {
	var chain []dins
	chain = append(chain, x)
	for a := x.n; a != nil && a.parent != nil && a != from; a = a.parent {
		chain = append([]dins{{a.parent, a.site.(ssa.Instruction)}}, chain...)
	}
	cur := []litPath{{}}
	okAll := true
	for _, c := range chain {
		ps, ok := d.localPaths(c.n, c.in, ab)
		okAll = okAll && ok
		var next []litPath
		for _, a := range cur {
			for _, b := range ps {
				next = append(next, litPath{append(append([]string{}, a.strs...), b.strs...), append(append([]string{}, a.lins...), b.lins...)})
			}
		}
		cur = next
		if len(cur) > 1024 {
			return nil, false
		}
	}
	return cur, okAll
}

func allLitPathsHaveLin(ps []litPath, want ...string) bool {
	if len(ps) == 0 {
		return false
	}
	for _, p := range ps {
		for _, w := range want {
			if !has(p.lins, w) {
				return false
			}
		}
	}
	return true
}

func allLitPathsContain(ps []litPath, subs ...string) bool {
	if len(ps) == 0 {
		return false
	}
	for _, p := range ps {
		for _, s := range subs {
			found := false
			for _, l := range p.strs {
				if strings.Contains(l, s) {
					found = true
				}
			}
			if !found {
				return false
			}
		}
	}
	return true
}

// alwaysRuns: the instruction executes whenever its own function runs to a return.
func alwaysRuns(in ssa.Instruction) bool {
	ok := true
	forEachOwnInstr(in.Parent(), func(x ssa.Instruction) {
		if ret, isRet := x.(*ssa.Return); isRet && !instrDominates(in, ret) {
			ok = false
		}
	})
	return ok
}

// lift returns the position of x in ancestor node anc: the instruction itself or the call site
// in anc that leads to it (nil if anc is not an ancestor).
func lift(x dins, anc *dnode) ssa.Instruction {
	if x.n == anc {
		return x.in
	}
	for a := x.n; a != nil && a.parent != nil; a = a.parent {
		if a.parent == anc {
			return a.site.(ssa.Instruction)
		}
	}
	return nil
}

// dominates: on every execution of the root function that reaches b, a has been executed before.
func (d *deepFn) dominates(a, b dins) bool {
	// deepest common ancestor
	var common *dnode
	for x := a.n; x != nil; x = x.parent {
		for y := b.n; y != nil; y = y.parent {
			if x == y && common == nil {
				common = x
			}
		}
		if common != nil {
			break
		}
	}
	if common == nil {
		return false
	}
	pa, pb := lift(a, common), lift(b, common)
	if pa == nil || pb == nil || pa == pb {
		return false
	}
	if !instrDominates(pa, pb) {
		return false
	}
	// a must run whenever the callee chain below pa runs (or whenever it runs to a success
	// return, if b is only reached after the helper's error result was found nil)
	for x := (dins{a.n, a.in}); x.n != common; {
		if !alwaysRuns(x.in) {
			site, _ := x.n.site.(*ssa.Call)
			if site == nil || !runsOnSuccess(x.in) {
				return false
			}
			var next ssa.Instruction = pb
			if x.n.parent != common {
				next = nil
			}
			if next == nil || !underNilErrOf(next, site) {
				return false
			}
		}
		x = dins{x.n.parent, x.n.site.(ssa.Instruction)}
	}
	return true
}

// reachable: b can execute after a (in the root's control flow).
func (d *deepFn) reachable(a, b dins) bool {
	var common *dnode
	for x := a.n; x != nil && common == nil; x = x.parent {
		for y := b.n; y != nil; y = y.parent {
			if x == y {
				common = x
				break
			}
		}
	}
	if common == nil {
		return false
	}
	pa, pb := lift(a, common), lift(b, common)
	if pa == nil || pb == nil {
		return false
	}
	if pa == pb {
		return true
	}
	return reachableFrom(pa, pb)
}

func (d *deepFn) pos(u *Universe, x dins) string { return u.Pos(x.in.Pos()) }

func asCall(v ssa.Value) *ssa.Call {
	c, _ := v.(*ssa.Call)
	return c
}

// runsOnSuccess: the instruction dominates every return of its function whose last result may be nil.
func runsOnSuccess(in ssa.Instruction) bool {
	fn := in.Parent()
	res := fn.Signature.Results()
	if res.Len() == 0 {
		return false
	}
	if _, isIface := res.At(res.Len() - 1).Type().Underlying().(*types.Interface); !isIface {
		return false
	}
	ok := true
	forEachOwnInstr(fn, func(x ssa.Instruction) {
		ret, isRet := x.(*ssa.Return)
		if !isRet || len(ret.Results) == 0 {
			return
		}
		mayNil := false
		for _, v := range resolveSpill(ret.Results[len(ret.Results)-1]) {
			switch t := stripIface(v).(type) {
			case *ssa.Const:
				if t.Value == nil {
					mayNil = true
				}
			case *ssa.Call, *ssa.MakeInterface, *ssa.Alloc:
				if _, isCall := t.(*ssa.Call); isCall && !isConstructorOfError(t.(*ssa.Call)) {
					mayNil = true
				}
			default:
				mayNil = true
			}
		}
		if mayNil && !instrDominates(in, ret) {
			// "if err != nil { return err }": the value is known to be non-nil on this return
			last := ret.Results[len(ret.Results)-1]
			paths, okp := reachingLitsOwn(fn, nil, ret)
			known := okp && len(paths) > 0
			for _, p := range paths {
				found := false
				for _, l := range p {
					if isNilCheckOf(l, stripIface(loadSource(last)), false) || isNilCheckOf(l, last, false) {
						found = true
					}
				}
				known = known && found
			}
			if !known {
				ok = false
			}
		}
	})
	return ok
}

func isConstructorOfError(c *ssa.Call) bool {
	n := calleeName(c)
	return n == "New" || n == "NewRPCError" || strings.HasPrefix(n, "Errorf") || n == "ToOrdaError"
}

// underNilErrOf: every path to in passes the test "error result of call == nil".
func underNilErrOf(in ssa.Instruction, call *ssa.Call) bool {
	paths, ok := reachingLitsOwn(in.Parent(), nil, in)
	if !ok || len(paths) == 0 {
		return false
	}
	for _, p := range paths {
		found := false
		for _, l := range p {
			if l.Kind != "cmp" || l.Op != token.EQL {
				continue
			}
			x, y := l.X, l.Y
			if c, isC := x.(*ssa.Const); isC && c.Value == nil {
				x, y = y, x
			}
			if c, isC := y.(*ssa.Const); isC && c.Value == nil && errSourceCall(stripIface(loadSource(x))) == call {
				found = true
			}
		}
		if !found {
			return false
		}
	}
	return true
}

// find: the deep position of an instruction (the first node whose function holds it); an
// instruction of a function outside the view is placed in the root.
func (d *deepFn) find(in ssa.Instruction) dins {
	for _, n := range d.nodes {
		if n.fn == in.Parent() {
			return dins{n, in}
		}
	}
	return dins{d.root, in}
}
