package main

import (
	"fmt"
	"go/constant"
	"go/token"
	"go/types"
	"os"
	"reflect"
	"strings"

	"golang.org/x/tools/go/ssa"
)

// valueFlowsFrom: does v derive (through conversions, arithmetic, slicing) from the parameter p?
func derivesFromParam(v ssa.Value, p *ssa.Parameter) bool {
	seen := map[ssa.Value]bool{}
	var walk func(v ssa.Value) bool
	walk = func(v ssa.Value) bool {
		if v == ssa.Value(p) {
			return true
		}
		if seen[v] {
			return false
		}
		seen[v] = true
		// through new helpers: a helper's parameter is what its callers pass, its result what it returns
		if hp, ok := v.(*ssa.Parameter); ok {
			for _, a := range helperArgs(hp) {
				if walk(a) {
					return true
				}
			}
			return false
		}
		{
			var call *ssa.Call
			idx := 0
			switch x := v.(type) {
			case *ssa.Extract:
				call, _ = x.Tuple.(*ssa.Call)
				idx = x.Index
			case *ssa.Call:
				call = x
			}
			if call != nil {
				if vals, ok := helperResults(call, idx); ok {
					for _, e := range vals {
						if walk(e) {
							return true
						}
					}
					return false
				}
			}
		}
		switch x := v.(type) {
		case *ssa.Convert:
			return walk(x.X)
		case *ssa.ChangeType:
			return walk(x.X)
		case *ssa.MakeInterface:
			return walk(x.X)
		case *ssa.BinOp:
			return walk(x.X) || walk(x.Y)
		case *ssa.UnOp:
			return walk(x.X)
		case *ssa.Slice:
			return walk(x.X)
		case *ssa.Phi:
			for _, e := range x.Edges {
				if walk(e) {
					return true
				}
			}
		case *ssa.Extract:
			// results of a conversion helper applied to the parameter (ConvertValueList(values))
			if c, ok := x.Tuple.(*ssa.Call); ok {
				if f := c.Call.StaticCallee(); f != nil && strings.HasPrefix(f.Name(), "Convert") {
					for _, a := range c.Call.Args {
						if walk(a) {
							return true
						}
					}
				}
			}
		case *ssa.Call:
			if f := x.Call.StaticCallee(); f != nil && strings.HasPrefix(f.Name(), "Convert") {
				for _, a := range x.Call.Args {
					if walk(a) {
						return true
					}
				}
			}
		}
		return false
	}
	return walk(v)
}

// derivesFromParamOrLen: v derives from p or from len(p).
func derivesFromParamOrLen(v ssa.Value, p *ssa.Parameter) bool {
	if derivesFromParam(v, p) {
		return true
	}
	switch x := v.(type) {
	case *ssa.Parameter:
		// a parameter of a new helper: what its callers (below the method in focus) pass
		for _, a := range helperArgs(x) {
			if a != v && derivesFromParamOrLen(a, p) {
				return true
			}
		}
	case *ssa.Call:
		if b, ok := x.Call.Value.(*ssa.Builtin); ok && b.Name() == "len" && len(x.Call.Args) == 1 {
			return derivesFromParamOrLen(x.Call.Args[0], p)
		}
	case *ssa.Convert:
		return derivesFromParamOrLen(x.X, p)
	case *ssa.BinOp:
		return derivesFromParamOrLen(x.X, p) || derivesFromParamOrLen(x.Y, p)
	}
	return false
}

// guardedByNilErr: every path to `in` carries "errOf(call) == nil".
func guardedByNilErr(fn *ssa.Function, in ssa.Instruction, call *ssa.Call) bool {
	ev := errResult(call)
	if ev == nil {
		return false
	}
	paths, ok := reachingLits(fn, nil, in)
	if !ok || len(paths) == 0 {
		return false
	}
	for _, p := range paths {
		good := false
		for _, l := range p {
			if isNilCheckOf(l, ev, true) {
				good = true
			}
		}
		if !good {
			if os.Getenv("VERIF_DEBUG_GUARD") != "" {
				fmt.Fprintf(os.Stderr, "guardedByNilErr %s: path without nil-check of %s: %s\n", fnName(fn), exprName(ev), litsString(p))
			}
			return false
		}
	}
	return true
}

// R03.1 position validated before an operation is built
func ruleR03_1(w *World, r *Report) {
	u := w.Client()
	r.Rule("R03.1", "every datatype method with a position parameter hands it first to a validate* function of the snapshot and uses it (operation constructor, finder, SentenceInTx) only on the error-free edge; or delegates it to a sibling method that does", 9)
	for _, dt := range []string{"list", "document"} {
		n := u.Named(pOrda, dt)
		if n == nil {
			r.Lost("datatype struct " + dt)
			continue
		}
		for i := 0; i < n.NumMethods(); i++ {
			m := n.Method(i)
			fn := flatRoot(u.Prog.FuncValue(m))
			if fn == nil || len(fn.Blocks) == 0 {
				continue
			}
			var pos *ssa.Parameter
			for _, p := range fn.Params[1:] {
				if p.Name() == "pos" && isIntegral(p.Type()) {
					pos = p
				}
			}
			if pos == nil || m.Name() == "ExecuteLocal" || m.Name() == "ExecuteRemote" {
				continue
			}
			cons := dt + "." + m.Name() + "/pos"
			var validates []*ssa.Call
			var uses []ssa.CallInstruction
			delegated := false
			for _, c := range callsIn(fn) {
				_, args := recvAndArgs(c)
				takes := false
				for _, a := range args {
					if derivesFromParam(a, pos) {
						takes = true
					}
				}
				if !takes {
					continue
				}
				name := calleeName(c)
				switch {
				case strings.HasPrefix(name, "validate"):
					if call, ok := c.(*ssa.Call); ok {
						validates = append(validates, call)
					}
				case isSiblingWithPos(c, n):
					delegated = true
				case name == "Infof" || name == "Debugf" || name == "Errorf" || name == "Sprintf" || name == "New":
				default:
					uses = append(uses, c)
				}
			}
			if len(uses) == 0 && delegated {
				r.OK(cons, u.Pos(fn.Pos()), "delegates the position to a sibling method that is itself checked")
				continue
			}
			if len(validates) == 0 {
				r.Bad(cons, u.Pos(fn.Pos()), "the position reaches "+callNames(uses)+" without any validate* call")
				continue
			}
			bad := ""
			for _, c := range uses {
				ok := false
				for _, v := range validates {
					if guardedByNilErr(fn, c.(ssa.Instruction), v) {
						ok = true
					}
				}
				if !ok {
					bad = calleeName(c)
				}
			}
			r.Check(bad == "", cons, u.Pos(fn.Pos()), fmt.Sprintf("validated by %s before %s", calleeName(validates[0]), callNames(uses)),
				"the position is used by "+bad+" on a path that has not passed the error-free edge of a validate* call")
			// range clause: a method that addresses several existing elements (a count or a list of values next to
			// the position) validates the whole range, not only its first position. Inserts address one position only.
			isInsert := false
			for _, c := range uses {
				if strings.Contains(calleeName(c), "Insert") {
					isInsert = true
				}
			}
			var cnt *ssa.Parameter
			for _, p := range fn.Params[1:] {
				if p == pos {
					continue
				}
				if _, isSlice := p.Type().Underlying().(*types.Slice); isSlice || isIntegral(p.Type()) {
					cnt = p
				}
			}
			if cnt != nil && !isInsert {
				covered := false
				for _, v := range validates {
					for _, a := range v.Call.Args {
						if derivesFromParamOrLen(a, cnt) {
							covered = true
						}
					}
				}
				r.Check(covered, dt+"."+m.Name()+"/range", u.Pos(fn.Pos()), "the validate* call also receives the number of addressed elements",
					"the method addresses a range of existing elements (position and "+cnt.Name()+") but validates the position only: a range that starts inside and runs past the end is not refused before the operation is executed")
			}
		}
	}
}

func callNames(cs []ssa.CallInstruction) string {
	var s []string
	for _, c := range cs {
		s = append(s, calleeName(c))
	}
	return strings.Join(s, ",")
}

func isSiblingWithPos(c ssa.CallInstruction, n *types.Named) bool {
	o := calleeObj(c)
	if o == nil {
		return false
	}
	if recvTypeName(o) != n.Obj().Name() {
		// calls through the exported interface (Document/List) count as well
		if !c.Common().IsInvoke() {
			return false
		}
	}
	sig := o.Type().(*types.Signature)
	for i := 0; i < sig.Params().Len(); i++ {
		if sig.Params().At(i).Name() == "pos" {
			return true
		}
	}
	return false
}

// rejectsNilElements summarises a helper: it compares an element of its slice parameter with nil
// and returns a non-nil last result on that edge.
func rejectsNilElements(f *ssa.Function) bool { return rejectsNil(f, true, 0) }

// rejectsNil: f refuses (returns a non-nil last result) when the reflective null predicate holds for an element of
// one of its parameters (elem) or for a parameter itself (!elem); the test may sit in a new helper that is handed
// the element and whose error f passes on.
func rejectsNil(f *ssa.Function, elem bool, depth int) bool {
	if f == nil || len(f.Blocks) == 0 || depth > 2 {
		return false
	}
	found := false
	for _, c := range ownCallsIn(f) {
		call, isCall := c.(*ssa.Call)
		h := staticCallee(c)
		if !isCall || h == nil || h == f || h.Pkg == nil || !isOrda(h.Pkg.Pkg.Path()) {
			continue
		}
		// either an element (or the parameter itself) is handed to a new helper that tests it, or the parameter as a
		// whole is handed on to a function that refuses nil the same way f is asked to
		takes, whole := false, false
		for _, a := range call.Call.Args {
			o := origins(throughValueOf(a))
			if !o.hasPrefix("param:") {
				continue
			}
			if flattenable[h] && (!elem || o["index"] || o["rangeiter"]) {
				takes = true
			}
			if !o["index"] && !o["rangeiter"] {
				whole = true
			}
		}
		ev := errResult(call)
		if ev == nil {
			continue
		}
		if !(takes && rejectsNil(h, false, depth+1)) && !(whole && rejectsNil(h, elem, depth+1)) {
			continue
		}
		// the helper's error ends f with an error
		for _, b := range f.Blocks {
			if len(b.Instrs) == 0 {
				continue
			}
			ifi, ok := b.Instrs[len(b.Instrs)-1].(*ssa.If)
			if !ok {
				continue
			}
			l := normLit(condEdge{ifi.Cond, true})
			if l.Kind != "cmp" || (l.Op != token.NEQ && l.Op != token.EQL) || (loadSource(l.X) != ev && loadSource(l.Y) != ev) {
				continue
			}
			succ := b.Succs[0]
			if l.Op == token.EQL {
				succ = b.Succs[1]
			}
			if okAll, _ := mustReachFromBlock(succ, func(in ssa.Instruction) bool {
				ret, ok := in.(*ssa.Return)
				return ok && returnsNonNilLast(ret)
			}); okAll {
				found = true
			}
		}
	}
	for _, b := range f.Blocks {
		if len(b.Instrs) == 0 {
			continue
		}
		ifi, ok := b.Instrs[len(b.Instrs)-1].(*ssa.If)
		if !ok {
			continue
		}
		l := normLit(condEdge{ifi.Cond, true})
		var succ *ssa.BasicBlock
		if l.Kind == "call" && isNullPredicate(staticCallee(l.Call)) {
			// if isNull(element) { return error }: the predicate is applied to an element of the parameter
			onElem := false
			for _, a := range l.Call.Call.Args {
				o := origins(throughValueOf(a))
				if o.hasPrefix("param:") && (!elem || o["index"] || o["rangeiter"]) {
					onElem = true
				}
			}
			if !onElem {
				continue
			}
			succ = b.Succs[0]
			if !l.Pol {
				succ = b.Succs[1]
			}
		} else {
			// a bare "element == nil" misses typed nil pointers and nulls nested in containers (F40, F42)
			continue
		}
		// the nil edge must lead to a return with a non-nil last result
		okAll, _ := mustReachFromBlock(succ, func(in ssa.Instruction) bool {
			ret, ok := in.(*ssa.Return)
			return ok && returnsNonNilLast(ret)
		})
		if okAll {
			found = true
		}
	}
	return found
}

// literalSliceHolds: v is a slice literal ([]interface{}{..., p, ...}) one of whose elements derives from p.
func literalSliceHolds(v ssa.Value, p *ssa.Parameter) bool {
	sl, ok := v.(*ssa.Slice)
	if !ok {
		return false
	}
	al, ok := sl.X.(*ssa.Alloc)
	if !ok {
		return false
	}
	for _, ref := range *al.Referrers() {
		ia, isIA := ref.(*ssa.IndexAddr)
		if !isIA {
			continue
		}
		for _, r2 := range *ia.Referrers() {
			if st, isSt := r2.(*ssa.Store); isSt && st.Addr == ssa.Value(ia) && derivesFromParam(st.Val, p) {
				return true
			}
		}
	}
	return false
}

// throughValueOf strips a reflect.ValueOf(x) wrapper.
func throughValueOf(v ssa.Value) ssa.Value {
	if c, ok := v.(*ssa.Call); ok && calleeName(c) == "ValueOf" && len(c.Call.Args) == 1 {
		return stripIface(c.Call.Args[0])
	}
	return v
}

// isNullPredicate: a boolean function of one value that answers true for nil: its test "param == nil" (or, for a
// reflect.Value parameter, "Kind() == Invalid") leads to "return true" (types.IsNullValue, hasNullValue).
func isNullPredicate(f *ssa.Function) bool {
	if f == nil || len(f.Blocks) == 0 || len(f.Params) != 1 || f.Signature.Results().Len() != 1 {
		return false
	}
	if b, ok := f.Signature.Results().At(0).Type().Underlying().(*types.Basic); !ok || b.Kind() != types.Bool {
		return false
	}
	p := ssa.Value(f.Params[0])
	// a one-line wrapper "return isNull(x)" (possibly around reflect.ValueOf) is what it wraps
	if len(f.Blocks) == 1 && f.Pkg != nil && isOrda(f.Pkg.Pkg.Path()) {
		var only *ssa.Call
		n := 0
		for _, in := range f.Blocks[0].Instrs {
			if c, isCall := in.(*ssa.Call); isCall {
				if g := c.Call.StaticCallee(); g != nil && g != f && g.Pkg != nil && isOrda(g.Pkg.Pkg.Path()) {
					only = c
					n++
				}
			}
		}
		if n == 1 {
			if ret, isRet := f.Blocks[0].Instrs[len(f.Blocks[0].Instrs)-1].(*ssa.Return); isRet && len(ret.Results) == 1 && ret.Results[0] == ssa.Value(only) {
				takes := false
				for _, a := range only.Call.Args {
					if stripIface(throughValueOf(a)) == p || throughValueOf(a) == p {
						takes = true
					}
				}
				if takes && isNullPredicate(only.Call.StaticCallee()) {
					return true
				}
			}
		}
	}
	for _, b := range f.Blocks {
		if len(b.Instrs) == 0 {
			continue
		}
		ifi, ok := b.Instrs[len(b.Instrs)-1].(*ssa.If)
		if !ok {
			continue
		}
		l := normLit(condEdge{ifi.Cond, true})
		var succ *ssa.BasicBlock
		switch {
		case l.Kind == "cmp" && (l.Op == token.EQL || l.Op == token.NEQ):
			c, isC := l.Y.(*ssa.Const)
			x := l.X
			if !isC {
				c, isC = l.X.(*ssa.Const)
				x = l.Y
			}
			if !isC {
				continue
			}
			if c.Value == nil && stripIface(loadSource(x)) == p {
				succ = b.Succs[0]
				if l.Op == token.NEQ {
					succ = b.Succs[1]
				}
			} else if k, isK := constInt(c); isK && k == 0 {
				// rv.Kind() == reflect.Invalid
				if call, isCall := x.(*ssa.Call); isCall && calleeName(call) == "Kind" {
					recv, _ := recvAndArgs(call)
					if recv != nil && loadSource(recv) == p || recv == p {
						succ = b.Succs[0]
						if l.Op == token.NEQ {
							succ = b.Succs[1]
						}
					}
				}
			}
		}
		if succ == nil {
			continue
		}
		yes, _ := mustReachFromBlock(succ, func(in ssa.Instruction) bool {
			ret, isRet := in.(*ssa.Return)
			if !isRet || len(ret.Results) != 1 {
				return false
			}
			for _, v := range resolvePhisOwn(ret.Results[0]) {
				c, isC := v.(*ssa.Const)
				if !isC || c.Value == nil || c.Value.Kind() != constant.Bool || !constant.BoolVal(c.Value) {
					return false
				}
			}
			return true
		})
		if yes {
			// ... and it looks through pointers (a typed nil pointer is not == nil as an interface value), and it knows
			// that a nil slice and a nil map are encoded as null too (F46): the kinds Ptr, Slice and Map are all tested
			ptr := false
			kinds := map[int64]bool{}
			// (the kind tests may sit in a small new helper that is handed rv.Kind())
			var fns []*ssa.Function
			fns = append(fns, f)
			for _, c := range ownCallsIn(f) {
				if h := staticCallee(c); h != nil && flattenable[h] {
					fns = append(fns, h)
				}
			}
			var instrs []ssa.Instruction
			for _, g := range fns {
				forEachOwnInstr(g, func(in ssa.Instruction) { instrs = append(instrs, in) })
			}
			each := func(visit func(ssa.Instruction)) {
				for _, in := range instrs {
					visit(in)
				}
			}
			each(func(in ssa.Instruction) {
				if c, ok := in.(ssa.CallInstruction); ok && (calleeName(c) == "IsNil" || calleeName(c) == "Elem") {
					ptr = true
				}
				if b, ok := in.(*ssa.BinOp); ok && (b.Op == token.EQL || b.Op == token.NEQ) {
					for _, pair := range [][2]ssa.Value{{b.X, b.Y}, {b.Y, b.X}} {
						subject := pair[0]
						if prm, isPrm := subject.(*ssa.Parameter); isPrm {
							if args := helperArgs(prm); len(args) > 0 {
								subject = args[0]
							}
						}
						if call, isCall := subject.(*ssa.Call); isCall && calleeName(call) == "Kind" {
							if k, isK := constInt(pair[1]); isK {
								kinds[k] = true
							}
						}
					}
				}
			})
			return ptr && kinds[int64(reflect.Ptr)] && kinds[int64(reflect.Slice)] && kinds[int64(reflect.Map)]
		}
	}
	return false
}

// mustReachFromBlock: every path from the start of b to an exit executes a target instruction.
// A Return that is itself a target counts.
func mustReachFromBlock(b *ssa.BasicBlock, target func(ssa.Instruction) bool) (bool, ssa.Instruction) {
	return mustReachAt(b, 0, target, false)
}

// R03.2 nil never enters an operation value
func ruleR03_2(w *World, r *Report) {
	u := w.Client()
	r.Rule("R03.2", "every interface{} / ...interface{} parameter of a datatype method that flows into the value argument of an operation constructor passes a nil rejection first (value != nil on every path, or a helper that refuses nil elements with its error checked)", 6)
	for _, dt := range datatypeStructs {
		n := u.Named(pOrda, dt)
		if n == nil {
			r.Lost("datatype struct " + dt)
			continue
		}
		for i := 0; i < n.NumMethods(); i++ {
			m := n.Method(i)
			fn := flatRoot(u.Prog.FuncValue(m))
			if fn == nil || len(fn.Blocks) == 0 || !m.Exported() {
				continue
			}
			for _, p := range fn.Params[1:] {
				isVal := false
				switch t := p.Type().Underlying().(type) {
				case *types.Interface:
					isVal = t.NumMethods() == 0
				case *types.Slice:
					if it, ok := t.Elem().Underlying().(*types.Interface); ok && it.NumMethods() == 0 {
						isVal = true
					}
				}
				if !isVal {
					continue
				}
				// constructor calls fed by p
				for _, c := range callsIn(fn) {
					f := staticCallee(c)
					if f == nil || f.Pkg == nil || f.Pkg.Pkg.Path() != pOperations || !strings.HasPrefix(f.Name(), "New") {
						continue
					}
					feeds := false
					for _, a := range c.Common().Args {
						if derivesFromParam(a, p) || convertedFromParam(a, p) {
							feeds = true
						}
					}
					if !feeds {
						continue
					}
					cons := dt + "." + m.Name() + "/" + p.Name() + " -> " + f.Name()
					paths, ok := reachingLits(fn, nil, c.(ssa.Instruction))
					good := ok && len(paths) > 0
					for _, path := range paths {
						pathOK := false
						for _, l := range path {
							// a bare "value != nil" is not enough: a typed nil pointer passes it (F40) - see bareNil below
							// !isNull(value): a null predicate applied to p answered false
							if l.Kind == "call" && !l.Pol && isNullPredicate(staticCallee(l.Call)) {
								for _, a := range l.Call.Call.Args {
									if derivesFromParam(throughValueOf(a), p) {
										pathOK = true
									}
								}
							}
							// err == nil of a nil-rejecting helper applied to p
							if l.Kind == "cmp" && l.Op == token.EQL {
								if ex := errSourceCall(l.X); ex != nil {
									hf := staticCallee(ex)
									takes := false
									for _, a := range ex.Call.Args {
										if derivesFromParam(a, p) || literalSliceHolds(a, p) {
											takes = true
										}
									}
									if takes && rejectsNilElements(hf) {
										pathOK = true
									}
								}
							}
						}
						good = good && pathOK
					}
					r.Check(good, cons, u.Pos(c.Pos()), "null (nil, a nil pointer, a null nested in a container for documents) is refused on every path before the operation is built",
						"a null value can reach the operation constructor: no reflective null test (types.IsNullValue, or a helper built on such a predicate, with its error checked) guards it on every path; a bare comparison with nil lets a typed nil pointer through. nil is the tombstone encoding of list and map nodes, and panics in reflect for documents")
				}
			}
		}
	}
}

// convertedFromParam: v is (an element of) the result of an orda function that was handed p, e.g. the values brought
// into their JSON form: what the constructor receives still stems from the caller's parameter.
func convertedFromParam(v ssa.Value, p *ssa.Parameter) bool {
	for i := 0; i < 8; i++ {
		switch x := v.(type) {
		case *ssa.UnOp:
			v = x.X
			continue
		case *ssa.IndexAddr:
			v = x.X
			continue
		case *ssa.Index:
			v = x.X
			continue
		case *ssa.Slice:
			v = x.X
			continue
		case *ssa.MakeInterface:
			v = x.X
			continue
		case *ssa.Extract:
			v = x.Tuple
			continue
		}
		break
	}
	call, ok := v.(*ssa.Call)
	if !ok {
		return false
	}
	f := call.Call.StaticCallee()
	if f == nil || f.Pkg == nil || !isOrda(f.Pkg.Pkg.Path()) {
		return false
	}
	for _, a := range call.Call.Args {
		if derivesFromParam(a, p) || literalSliceHolds(a, p) {
			return true
		}
	}
	return false
}

// errSourceCall: v is the error result (possibly extracted) of a call.
func errSourceCall(v ssa.Value) *ssa.Call {
	v = loadSource(v)
	switch x := v.(type) {
	case *ssa.Call:
		return x
	case *ssa.Extract:
		if c, ok := x.Tuple.(*ssa.Call); ok {
			return c
		}
	}
	return nil
}

// R03.3 identifier rolled back on failure
func ruleR03_3(w *World, r *Report) {
	u := w.Client()
	r.Rule("R03.3", "in the function that takes the next operation id and then executes locally, every path on which the execution error may be non-nil passes RollBack before returning", 1)
	fn := u.Fn(pDatatypes, "BaseDatatype", "executeLocalBase")
	if fn == nil {
		r.Lost("BaseDatatype.executeLocalBase")
		return
	}
	var exec *ssa.Call
	for _, c := range callsNamed(fn, "ExecuteLocal") {
		if call, ok := c.(*ssa.Call); ok {
			exec = call
		}
	}
	next := callsNamed(fn, "SetNextOpID", "Next")
	if exec == nil || len(next) == 0 {
		r.Lost("executeLocalBase: SetNextOpID/Next followed by ExecuteLocal")
		return
	}
	cons := "BaseDatatype.executeLocalBase/rollback"
	if !instrDominates(next[0].(ssa.Instruction), exec) {
		r.Bad(cons, u.Pos(exec.Pos()), "the operation id is not taken before the local execution")
		return
	}
	ev := errResult(exec)
	good := ev != nil
	detail := ""
	forEachInstr(fn, func(in ssa.Instruction) {
		ret, ok := in.(*ssa.Return)
		if !ok || !good {
			return
		}
		paths, okp := pathsWithBlocks(fn, exec.Block(), ret.Block())
		if !okp {
			good, detail = false, "too many paths"
			return
		}
		for _, p := range paths {
			errNil := false
			for _, l := range p.Lits {
				if isNilCheckOf(l, ev, true) {
					errNil = true
				}
			}
			if errNil {
				continue
			}
			rolled := false
			for _, c := range callsNamed(fn, "RollBack") {
				if p.Blocks[c.Block()] {
					rolled = true
				}
			}
			if !rolled {
				good, detail = false, "a return is reachable with a possibly non-nil error without RollBack: "+litsString(p.Lits)
			}
		}
	})
	r.Check(good, cons, u.Pos(exec.Pos()), "every failing path rolls the identifier back", detail)
}

// R03.4 failed call queues nothing
func ruleR03_4(w *World, r *Report) {
	u := w.Client()
	r.Rule("R03.4", "in SentenceInTx the operation is appended to the transaction buffer on the local branch only on the error-free edge of the local execution", 1)
	fn := u.Fn(pDatatypes, "TransactionDatatype", "SentenceInTx")
	if fn == nil {
		r.Lost("TransactionDatatype.SentenceInTx")
		return
	}
	var exec *ssa.Call
	for _, c := range callsNamed(fn, "executeLocalBase") {
		exec, _ = c.(*ssa.Call)
	}
	apps := bufferAppends(fn)
	if exec == nil || len(apps) == 0 {
		r.Lost("SentenceInTx: executeLocalBase and appendOperation")
		return
	}
	ev := errResult(exec)
	n := 0
	for _, a := range apps {
		paths, ok := pathsWithBlocks(fn, nil, a.Block())
		if !ok {
			r.Undecided("SentenceInTx/append", u.Pos(a.Pos()), "too many paths")
			continue
		}
		local := false
		good := true
		for _, p := range paths {
			if !p.Blocks[exec.Block()] {
				continue
			}
			local = true
			nilErr := false
			for _, l := range p.Lits {
				if isNilCheckOf(l, ev, true) {
					nilErr = true
				}
			}
			good = good && nilErr
		}
		if local {
			n++
			r.Check(good, "TransactionDatatype.SentenceInTx/append-after-local-execute", u.Pos(a.Pos()), "append only when err == nil",
				"an operation whose local execution failed is still appended to the transaction buffer (it would be pushed and replayed)")
		}
	}
	// a remote operation is recorded in the transaction buffer as well: EndTransaction moves the buffer to the
	// replay list of the next rollback, which would otherwise lose every operation received since the rollback point
	for _, c := range callsNamed(fn, "executeRemoteBase") {
		follows, _ := mustReach(c.(ssa.Instruction), func(in ssa.Instruction) bool {
			return isBufferAppend(in)
		}, false)
		r.Check(follows, "TransactionDatatype.SentenceInTx/append-after-remote-execute", u.Pos(c.Pos()), "a remote operation is appended to the transaction buffer on every path",
			"an operation applied from remote is not appended to the transaction buffer: it is never recorded for replay, so the next rollback (restore snapshot, replay recorded operations) silently drops it")
	}
	if n == 0 {
		r.Lost("SentenceInTx: an append reached through the local execution")
	}
}

// nilOnError summarises a callee: for which result indexes is the result the nil constant on every
// return whose last result is not nil?
func nilOnError(f *ssa.Function) map[int]bool {
	out := map[int]bool{}
	if f == nil || len(f.Blocks) == 0 {
		return out
	}
	res := f.Signature.Results()
	if res.Len() < 2 || !isErrorLike(res.At(res.Len()-1).Type()) {
		return out
	}
	first := true
	forEachInstr(f, func(in ssa.Instruction) {
		ret, ok := in.(*ssa.Return)
		if !ok || !returnsNonNilLast(ret) {
			return
		}
		// a return that forwards another call's error (non-const) counts as an error return too
		cur := map[int]bool{}
		for i := 0; i < len(ret.Results)-1; i++ {
			if c, ok := ret.Results[i].(*ssa.Const); ok && c.Value == nil {
				cur[i] = true
			}
		}
		if first {
			out, first = cur, false
		} else {
			for k := range out {
				if !cur[k] {
					delete(out, k)
				}
			}
		}
	})
	if first {
		return map[int]bool{}
	}
	return out
}

// R03.5 no use of a result before its error is checked
func ruleR03_5(w *World, r *Report) {
	u := w.Client()
	r.Rule("R03.5", "a result that its callee leaves nil on every error return is not indexed, dereferenced or type-asserted before the error has been compared with nil", 10)
	for _, fn := range u.ordaFuncs(func(p string) bool { return p == pOrda || p == pDatatypes || p == pCManagers }) {
		for _, ci := range callsIn(fn) {
			call, ok := ci.(*ssa.Call)
			if !ok {
				continue
			}
			f := staticCallee(call)
			if f == nil || f.Pkg == nil || !isOrda(f.Pkg.Pkg.Path()) {
				continue
			}
			nils := nilOnError(f)
			if len(nils) == 0 {
				continue
			}
			ev := errResult(call)
			cons := fnName(fn) + "/result of " + fnName(f)
			bad := ""
			for idx := range nils {
				v := resultN(call, idx)
				if v == nil || v.Referrers() == nil {
					continue
				}
				for _, ref := range *v.Referrers() {
					risky := false
					switch x := ref.(type) {
					case *ssa.IndexAddr:
						risky = x.X == v
					case *ssa.Index:
						risky = x.X == v
					case *ssa.TypeAssert:
						risky = x.X == v && !x.CommaOk
					case *ssa.FieldAddr:
						risky = x.X == v
					case *ssa.UnOp:
						risky = x.Op == token.MUL && x.X == v
					}
					if !risky {
						continue
					}
					if ev == nil {
						bad = "error result discarded, value used"
						continue
					}
					paths, okp := reachingLits(fn, nil, ref)
					if !okp {
						bad = "too many paths"
						continue
					}
					for _, p := range paths {
						checked := false
						for _, l := range p {
							if isNilCheckOf(l, ev, true) {
								checked = true
							}
							// a non-empty / non-nil test of the value itself also protects it
							if l.Kind == "cmp" && (l.X == v || l.Y == v) {
								checked = true
							}
							if l.Kind == "cmp" && strings.HasPrefix(exprName(l.X), "len(") && origins(l.X)["call:"+fnName(f)] {
								checked = true
							}
						}
						if !checked {
							bad = fmt.Sprintf("result #%d is used (%T) at %s on a path where the error was not checked", idx, ref, u.Pos(ref.Pos()))
						}
					}
				}
			}
			r.Check(bad == "", cons, u.Pos(call.Pos()), "no use before the error check", bad)
		}
	}
}

// R03.6 the size of a map counts live keys
func ruleR03_6(w *World, r *Report) {
	u := w.Client()
	r.Rule("R03.6", "the size of a map snapshot counts live keys: a put into an absent key increments it, a put that replaces an existing entry increments it exactly when that entry is a tombstone, and a remove decrements it exactly when the entry is live", 2)
	fn := u.Fn(pOrda, "mapSnapshot", "putCommonWithTimedType")
	if fn == nil {
		r.Lost("mapSnapshot.putCommonWithTimedType")
		return
	}
	absent, revive := false, false
	nInc := 0
	forEachInstr(fn, func(in ssa.Instruction) {
		st, ok := isSizeStore(in, "mapSnapshot", "Size", 1)
		if !ok {
			return
		}
		nInc++
		paths, _ := reachingLits(fn, nil, st)
		allAbsent, allTomb := len(paths) > 0, len(paths) > 0
		for _, p := range paths {
			a, t := false, false
			for _, l := range p {
				if l.Kind == "ok" && !l.Pol {
					a = true
				}
				if is, pol := litIsTombOnExisting(l); is && pol {
					t = true
				}
			}
			allAbsent, allTomb = allAbsent && a, allTomb && t
		}
		if allAbsent {
			absent = true
		}
		if allTomb {
			// and it belongs to the replacing path: the same path stores into the map
			revive = true
		}
	})
	r.Check(absent, "mapSnapshot.putCommonWithTimedType/count a new key", u.Pos(fn.Pos()), "Size++ when the key is absent", "a put into an absent key does not increment the size")
	r.Check(revive, "mapSnapshot.putCommonWithTimedType/count a revived key", u.Pos(fn.Pos()), "Size++ when the replaced entry is a tombstone", "a put that replaces a removed (tombstoned) key does not increment the size: Put, Remove, Put leaves Size() == 0 with one live key")
	r.Check(nInc == 2, "mapSnapshot.putCommonWithTimedType/no other increment", u.Pos(fn.Pos()), "exactly two increments", fmt.Sprintf("%d increments of the size, expected two (absent key, revived key)", nInc))
}

// R03.7 mutating document methods refuse deleted containers and wrong container kinds
func ruleR03_7(w *World, r *Report) {
	u := w.Client()
	r.Rule("R03.7", "every document method that builds an operation first calls assertLocalOp for the container kind it works on with workOnGarbage=false, and builds the operation only on its error-free edge", 5)
	n := u.Named(pOrda, "document")
	if n == nil {
		r.Lost("orda.document")
		return
	}
	wantKind := map[string]int64{"PutToObject": 2, "DeleteInObject": 2, "InsertToArray": 3, "UpdateManyInArray": 3, "DeleteManyInArray": 3}
	for i := 0; i < n.NumMethods(); i++ {
		m := n.Method(i)
		fn := flatRoot(u.Prog.FuncValue(m))
		if fn == nil {
			continue
		}
		var ctor ssa.CallInstruction
		for _, c := range callsIn(fn) {
			if f := staticCallee(c); f != nil && f.Pkg != nil && f.Pkg.Pkg.Path() == pOperations && strings.HasPrefix(f.Name(), "NewDoc") {
				ctor = c
			}
		}
		if ctor == nil {
			continue
		}
		cons := "document." + m.Name() + "/assertLocalOp"
		var as *ssa.Call
		for _, c := range callsNamed(fn, "assertLocalOp") {
			as, _ = c.(*ssa.Call)
		}
		if as == nil {
			r.Bad(cons, u.Pos(fn.Pos()), "an operation is built without assertLocalOp: a deleted container or a container of the wrong kind is modified")
			continue
		}
		args := as.Call.Args
		// through a new helper the flag and the kind are the helper's parameters: what the method in focus passes counts
		k, isK := throughHelperParam(args[len(args)-1]).(*ssa.Const)
		garbageFalse := isK && k.Value != nil && k.Value.ExactString() == "false"
		kind, _ := constInt(throughHelperParam(args[len(args)-2]))
		wk, known := wantKind[m.Name()]
		good := garbageFalse && guardedByNilErr(fn, ctor.(ssa.Instruction), as) && (!known || kind == wk)
		r.Check(good, cons, u.Pos(as.Pos()), "asserted (live container of the right kind) before the operation is built",
			fmt.Sprintf("assertLocalOp(kind=%d, workOnGarbage=%s) does not guard the construction of the operation as required (expected kind %d, workOnGarbage=false, operation built only when it returned nil)", kind, exprName(args[len(args)-1]), wk))
	}
}

// isBufferAppend: the instruction records an operation in the transaction buffer - a call of appendOperation, or
// (when that one-line helper was inlined) the store "opBuffer = append(opBuffer, op)".
func isBufferAppend(in ssa.Instruction) bool {
	if ci, ok := in.(ssa.CallInstruction); ok && calleeName(ci) == "appendOperation" {
		return true
	}
	if st, ok := in.(*ssa.Store); ok && strings.HasSuffix(canonName(st.Addr), ".opBuffer") {
		if c, isCall := st.Val.(*ssa.Call); isCall {
			if b, isB := c.Call.Value.(*ssa.Builtin); isB && b.Name() == "append" {
				return true
			}
		}
	}
	return false
}

func bufferAppends(fn *ssa.Function) []ssa.Instruction {
	var out []ssa.Instruction
	forEachInstr(fn, func(in ssa.Instruction) {
		if isBufferAppend(in) && !(in.Parent() != fn && in.Parent().Name() == "appendOperation") {
			out = append(out, in)
		}
	})
	return out
}
