package main

import (
	"fmt"
	"go/ast"
	"go/token"
	"go/types"
	"sort"
	"strings"

	"golang.org/x/tools/go/ssa"
)

// litStrings renders every literal of every path to in as a canonical string.
func litStrings(fn *ssa.Function, in ssa.Instruction) ([][]string, bool) {
	paths, ok := reachingLits(fn, nil, in)
	var out [][]string
	for _, p := range paths {
		var ls []string
		for _, l := range p {
			switch l.Kind {
			case "cmp":
				ls = append(ls, canonName(loadSource(l.X))+" "+l.Op.String()+" "+canonName(loadSource(l.Y)))
			case "call":
				recv, _ := recvAndArgs(l.Call)
				s := calleeName(l.Call) + "(" + canonName(recv) + ")"
				if !l.Pol {
					s = "!" + s
				}
				ls = append(ls, s)
			default:
				s := canonName(l.X)
				if !l.Pol {
					s = "!" + s
				}
				ls = append(ls, s)
			}
		}
		out = append(out, ls)
	}
	return out, ok
}

func allPathsContain(paths [][]string, subs ...string) bool {
	if len(paths) == 0 {
		return false
	}
	for _, p := range paths {
		for _, s := range subs {
			found := false
			for _, l := range p {
				if strings.Contains(l, s) {
					found = true
				}
			}
			if !found {
				return false
			}
		}
	}
	return true
}

// dispatchTable parses processSubscribeOrCreate into (bits, case) -> outcome.
func dispatchTable(u *Universe) (map[string]string, map[string]string, []string, bool) {
	fd, p := u.DeclOf(pService, "PushPullHandler", "processSubscribeOrCreate")
	if fd == nil {
		return nil, nil, nil, false
	}
	info := p.TypesInfo
	// all case constants of type pushPullCase
	var cases []string
	sc := p.Types.Scope()
	for _, n := range sc.Names() {
		if c, ok := sc.Lookup(n).(*types.Const); ok {
			if nn, ok := c.Type().(*types.Named); ok && nn.Obj().Name() == "pushPullCase" {
				cases = append(cases, n)
			}
		}
	}
	sort.Strings(cases)
	outcome := func(ai armInfo) string {
		switch {
		case ai.Kind == "empty":
			return "proceed"
		case ai.Callee != nil && oldObjName(ai.Callee) == "createDatatype":
			return "create"
		case ai.Callee != nil && oldObjName(ai.Callee) == "subscribeDatatype":
			return "subscribe"
		case ai.Callee != nil && isMethod(ai.Callee, pErrors, "ErrorCode", "New"):
			return "error"
		case ai.Callee != nil && alwaysNewError(u, ai.Callee):
			return "error" // a small function of the handler that only builds the refusal
		case ai.Callee != nil && oldObjName(ai.Callee) == "initClientInfoWithDatatypeDoc":
			return "proceed"
		}
		return "other:" + ai.Kind
	}
	table := map[string]string{}
	pos := map[string]string{}
	// locals that hold a bit test (wantsSubscribe := its.gotOption.HasSubscribeBit()) stand for their initialiser
	inits := map[types.Object]ast.Expr{}
	ast.Inspect(fd.Body, func(n ast.Node) bool {
		as, ok := n.(*ast.AssignStmt)
		if !ok || as.Tok != token.DEFINE || len(as.Lhs) != len(as.Rhs) {
			return true
		}
		for i, l := range as.Lhs {
			if id, isID := l.(*ast.Ident); isID {
				if obj := info.Defs[id]; obj != nil {
					inits[obj] = as.Rhs[i]
				}
			}
		}
		return true
	})
	bitsOf := func(cond ast.Expr) string {
		s, c := false, false
		var visit func(e ast.Node, depth int)
		visit = func(e ast.Node, depth int) {
			ast.Inspect(e, func(n ast.Node) bool {
				if sel, ok := n.(*ast.SelectorExpr); ok {
					switch sel.Sel.Name {
					case "HasSubscribeBit":
						s = true
					case "HasCreateBit":
						c = true
					}
				}
				if id, ok := n.(*ast.Ident); ok && depth < 3 {
					if init, has := inits[info.Uses[id]]; has {
						visit(init, depth+1)
					}
				}
				return true
			})
		}
		visit(cond, 0)
		switch {
		case s && c:
			return "S|C"
		case s:
			return "S"
		case c:
			return "C"
		}
		return "?"
	}
	seenBits := map[string]bool{}
	var walkIf func(st *ast.IfStmt)
	walkIf = func(st *ast.IfStmt) {
		bits := bitsOf(st.Cond)
		seenBits[bits] = true
		var sw *ast.SwitchStmt
		for _, s := range st.Body.List {
			if x, ok := s.(*ast.SwitchStmt); ok {
				sw = x
			}
		}
		deflt := "proceed"
		if sw != nil {
			for _, s := range sw.Body.List {
				cc := s.(*ast.CaseClause)
				o := outcome(classifyArm(info, cc.Body))
				if differs, inner, isGuarded := duidGuardedArm(u, info, cc.Body); isGuarded {
					// the arm decides by whether the request names the datatype that was found by its key
					io := outcome(classifyArm(info, inner))
					if differs {
						o = "differs:" + io + "|same:proceed"
					} else {
						o = "differs:proceed|same:" + io
					}
				}
				if cc.List == nil {
					deflt = o
				}
				for _, e := range cc.List {
					k := bits + "," + enumConstName(info, e)
					table[k] = o
					pos[k] = u.Pos(cc.Pos())
				}
			}
		}
		for _, c := range cases {
			if _, ok := table[bits+","+c]; !ok {
				table[bits+","+c] = deflt
				pos[bits+","+c] = u.Pos(st.Pos())
			}
		}
		if e, ok := st.Else.(*ast.IfStmt); ok {
			walkIf(e)
		} else if st.Else != nil {
			// a final else: plain push-pull
			seenBits["-"] = true
			if blk, ok := st.Else.(*ast.BlockStmt); ok {
				var sw2 *ast.SwitchStmt
				for _, s := range blk.List {
					if x, ok := s.(*ast.SwitchStmt); ok {
						sw2 = x
					}
				}
				if sw2 != nil {
					for _, s := range sw2.Body.List {
						cc := s.(*ast.CaseClause)
						for _, e := range cc.List {
							table["-,"+enumConstName(info, e)] = outcome(classifyArm(info, cc.Body))
							pos["-,"+enumConstName(info, e)] = u.Pos(cc.Pos())
						}
					}
				} else if len(blk.List) > 0 {
					o := outcome(classifyArm(info, blk.List))
					for _, c := range cases {
						table["-,"+c] = o
					}
				}
			}
		}
	}
	for _, s := range fd.Body.List {
		if st, ok := s.(*ast.IfStmt); ok {
			walkIf(st)
			break
		}
		// the same chain written as a tagless switch
		if sw, ok := s.(*ast.SwitchStmt); ok && sw.Tag == nil {
			var head, tail *ast.IfStmt
			for _, c := range sw.Body.List {
				cc := c.(*ast.CaseClause)
				if len(cc.List) != 1 {
					if cc.List == nil && tail != nil {
						tail.Else = &ast.BlockStmt{List: cc.Body}
					}
					continue
				}
				n := &ast.IfStmt{If: cc.Pos(), Cond: cc.List[0], Body: &ast.BlockStmt{Lbrace: cc.Pos(), List: cc.Body}}
				if head == nil {
					head, tail = n, n
				} else {
					tail.Else = n
					tail = n
				}
			}
			if head != nil {
				walkIf(head)
				break
			}
		}
	}
	for _, c := range cases {
		if _, ok := table["-,"+c]; !ok {
			table["-,"+c] = "proceed"
			pos["-,"+c] = u.Pos(fd.Pos())
		}
	}
	// the first branch must be the S|C one (else "S" would swallow it)
	return table, pos, cases, seenBits["S|C"] && seenBits["S"] && seenBits["C"]
}

// duidGuardedArm recognises an arm that is exactly "if <the request's DUID is (not) the found datatype's DUID> { ... }"
// with nothing after it (the other case falls out of the switch, i.e. proceeds). The test is a comparison of a
// selector ending in DUID on the handler with the DUID of its datatypeDoc, written in place or as the only returned
// expression of a handler method; a leading ! inverts it.
func duidGuardedArm(u *Universe, info *types.Info, body []ast.Stmt) (differs bool, inner []ast.Stmt, ok bool) {
	if len(body) != 1 {
		return
	}
	st, isIf := body[0].(*ast.IfStmt)
	if !isIf || st.Init != nil || st.Else != nil {
		return
	}
	var cmp func(e ast.Expr, depth int) (same bool, ok bool)
	cmp = func(e ast.Expr, depth int) (bool, bool) {
		e = ast.Unparen(e)
		switch x := e.(type) {
		case *ast.UnaryExpr:
			if x.Op == token.NOT {
				s, k := cmp(x.X, depth)
				return !s, k
			}
		case *ast.BinaryExpr:
			if x.Op != token.EQL && x.Op != token.NEQ {
				return false, false
			}
			l, r := types.ExprString(ast.Unparen(x.X)), types.ExprString(ast.Unparen(x.Y))
			isDoc := func(t string) bool { return strings.HasSuffix(t, "datatypeDoc.DUID") }
			isReq := func(t string) bool { return strings.HasSuffix(t, ".DUID") && !isDoc(t) && strings.Count(t, ".") == 1 }
			if (isDoc(l) && isReq(r)) || (isDoc(r) && isReq(l)) {
				return x.Op == token.EQL, true
			}
		case *ast.CallExpr:
			if depth > 1 || len(x.Args) != 0 {
				return false, false
			}
			f := calleeOf(info, x)
			if f == nil {
				return false, false
			}
			fd, p := u.Decl(f)
			if fd == nil || fd.Body == nil || len(fd.Body.List) != 1 {
				return false, false
			}
			ret, isRet := fd.Body.List[0].(*ast.ReturnStmt)
			if !isRet || len(ret.Results) != 1 {
				return false, false
			}
			_ = p
			return cmp(ret.Results[0], depth+1)
		}
		return false, false
	}
	same, recognised := cmp(st.Cond, 0)
	if !recognised {
		return
	}
	return !same, st.Body.List, true
}

type cellOb struct {
	bits, cas string
	allowed   []string
	why       string
}

var r131 = []cellOb{
	{"C", "caseMatchNothing", []string{"create"}, "create of a new key creates"},
	{"C", "caseMatchKeyNotType", []string{"error"}, "create of a key that exists with another type must be refused"},
	{"C", "caseAllMatchedNotSubscribed", []string{"error"}, "create of an existing key must be refused"},
	{"C", "caseAllMatchedNotVisible", []string{"error"}, "create of an existing (hidden) key must be refused"},
	{"S", "caseMatchNothing", []string{"error"}, "subscribe to a key that does not exist must be refused"},
	{"S", "caseUsedDUID", []string{"error"}, "subscribe to a key that does not exist (only the DUID is in use elsewhere) must be refused"},
	{"S", "caseMatchKeyNotType", []string{"error"}, "subscribe with another datatype type must be refused"},
	{"S", "caseAllMatchedNotSubscribed", []string{"subscribe"}, "subscribe to an existing key subscribes"},
	{"S|C", "caseMatchNothing", []string{"create"}, "subscribe-or-create of a new key creates"},
	{"S|C", "caseAllMatchedNotSubscribed", []string{"subscribe"}, "subscribe-or-create of an existing key subscribes"},
	{"S|C", "caseMatchKeyNotType", []string{"error"}, "subscribe-or-create with another datatype type must be refused"},
	{"C", "caseAllMatchedSubscribed", []string{"proceed", "differs:error|same:proceed"}, "the retry of a create that was already committed (response lost) names the datatype and must go on as a normal push-pull; a create under another DUID may only be refused"},
	{"S", "caseAllMatchedSubscribed", []string{"proceed", "subscribe", "differs:subscribe|same:proceed"}, "the retry of a subscribe that was already committed must not be refused (whether it has to subscribe again is R13.6)"},
	{"S|C", "caseAllMatchedSubscribed", []string{"proceed", "differs:subscribe|same:proceed"}, "the retry of a subscribe-or-create that was already committed must not be refused, and the retry of its creator (which names the datatype) must go on as a normal push-pull: subscribing would drop the operations it pushes (whether a non-creator has to subscribe again is R13.6)"},
	{"C", "caseUsedDUID", []string{"error"}, "create with a DUID that belongs to another datatype must be refused (going on would attach the requester to that datatype)"},
	{"S", "caseAllMatchedNotVisible", []string{"error"}, "subscribe to a hidden datatype must be refused"},
	{"S|C", "caseAllMatchedNotVisible", []string{"error"}, "subscribe-or-create on a hidden datatype must be refused"},
	{"S|C", "caseUsedDUID", []string{"create", "error"}, "the key does not exist here and the DUID belongs to another datatype: create under a new DUID or refuse, never attach to the foreign datatype"},
}

// R13.1 the dispatch table against the contract
func ruleR13_1(w *World, r *Report) {
	u := w.Server()
	r.Rule("R13.1", "the (option bits, case) dispatch table of processSubscribeOrCreate gives the outcomes the contract fixes: create-only with an existing key, subscribe-only without the key and any use with a different type are refused; subscribe-or-create creates a new key and subscribes to an existing one; a repeated request of an already subscribed client proceeds", 18)
	table, pos, _, ok := dispatchTable(u)
	if !ok {
		r.Undecided("processSubscribeOrCreate/table", "", "the if-chain over (subscribe&&create, subscribe, create) with a switch over the case was not recognised")
		return
	}
	for _, c := range r131 {
		k := c.bits + "," + c.cas
		got := table[k]
		r.Check(has(c.allowed, got), "processSubscribeOrCreate/("+c.bits+","+c.cas+")", pos[k], got, fmt.Sprintf("outcome is %q, the contract requires %v: %s", got, c.allowed, c.why))
	}
}

// R16.7 an unknown datatype is refused, not dereferenced
func ruleR16_7(w *World, r *Report) {
	u := w.Server()
	r.Rule("R16.7", "a plain push-pull (no create/subscribe bit) naming a datatype that does not exist is refused: the proceed path dereferences the datatype document", 1)
	table, pos, _, ok := dispatchTable(u)
	if !ok {
		r.Undecided("processSubscribeOrCreate/table", "", "dispatch table not recognised")
		return
	}
	got := table["-,caseMatchNothing"]
	r.Check(got == "error", "processSubscribeOrCreate/(-,caseMatchNothing)", pos["-,caseMatchNothing"], got, "a plain push-pull for an unknown datatype is '"+got+"': initClientInfoWithDatatypeDoc dereferences the nil datatype document (panic; with the recover branch repaired it is answered as an internal error, but only by way of a panic)")
}

// R13.2 classification consults type, visibility and subscription
func ruleR13_2(w *World, r *Report) {
	u := w.Server()
	r.Rule("R13.2", "evaluatePushPullCase classifies only after consulting what it found: each case constant is returned under the facts that define it (document found or not, same type, visible, client subscribed), and every storage error becomes caseError with the error", 6)
	fn := u.Fn(pService, "PushPullHandler", "evaluatePushPullCase")
	if fn == nil {
		r.Lost("PushPullHandler.evaluatePushPullCase")
		return
	}
	p := u.Pkgs[pService]
	caseName := func(k int64) string {
		sc := p.Types.Scope()
		for _, n := range sc.Names() {
			if c, ok := sc.Lookup(n).(*types.Const); ok {
				if nn, ok := c.Type().(*types.Named); ok && nn.Obj().Name() == "pushPullCase" && c.Val().ExactString() == fmt.Sprint(k) {
					return n
				}
			}
		}
		return fmt.Sprint(k)
	}
	need := map[string][]string{
		"caseMatchNothing":            {"$0.datatypeDoc == nil", "GetDatatype("},
		"caseUsedDUID":                {"GetDatatype(", "$0.datatypeDoc != nil"},
		"caseMatchKeyNotType":         {".Type != $0.gotPushPullPack.Type.String()"},
		"caseAllMatchedSubscribed":    {".Type == $0.gotPushPullPack.Type.String()", ".Visible", "GetClientInDatatypeDoc($0.CUID,$0.isReadOnly) != nil"},
		"caseAllMatchedNotSubscribed": {".Type == $0.gotPushPullPack.Type.String()", ".Visible", "GetClientInDatatypeDoc($0.CUID,$0.isReadOnly) == nil"},
		"caseAllMatchedNotVisible":    {".Type == $0.gotPushPullPack.Type.String()", "!$0.datatypeDoc.UpdatedDatatypeDoc.Visible"},
	}
	seen := map[string]bool{}
	var visit func(in ssa.Instruction)
	defer func() {
		for n := range need {
			if !seen[n] {
				r.Bad("evaluatePushPullCase/"+n, u.Pos(fn.Pos()), "the case "+n+" is never returned")
			}
		}
	}()
	// the returns of a new helper that only yields the case (its caller adds the nil error) are not the caller's
	// own returns for the engine: they are visited here
	defer func() {
		forEachInstr(fn, func(in ssa.Instruction) {
			c, ok := in.(*ssa.Call)
			if !ok {
				return
			}
			h := c.Call.StaticCallee()
			if h == nil || !flattenable[h] || h.Signature.Results().Len() != 1 || tailReturn(c) != nil {
				return
			}
			if nn, isN := h.Signature.Results().At(0).Type().(*types.Named); !isN || nn.Obj().Name() != "pushPullCase" {
				return
			}
			forEachOwnInstr(h, func(x ssa.Instruction) {
				if _, isRet := x.(*ssa.Return); isRet {
					visit(x)
				}
			})
		})
	}()
	visit = func(in ssa.Instruction) {
		ret, ok := in.(*ssa.Return)
		if !ok {
			return
		}
		// a new helper that classifies part of the cases and returns only the case
		caseOnly := false
		if len(ret.Results) == 1 && ret.Parent() != fn && flattenable[ret.Parent()] {
			if nn, isN := ret.Results[0].Type().(*types.Named); isN && nn.Obj().Name() == "pushPullCase" {
				caseOnly = true
			}
		}
		if len(ret.Results) != 2 && !caseOnly {
			return
		}
		k, isK := constInt(ret.Results[0])
		if !isK {
			// handed on from a new helper, whose own returns are judged
			fromHelper := false
			var src ssa.Value = ret.Results[0]
			if ex, isEx := src.(*ssa.Extract); isEx {
				src = ex.Tuple
			}
			if c, isC := src.(*ssa.Call); isC {
				if h := c.Call.StaticCallee(); h != nil && flattenable[h] {
					fromHelper = true
				}
			}
			if !fromHelper {
				r.Undecided("evaluatePushPullCase/return", u.Pos(ret.Pos()), "non-constant case")
			}
			return
		}
		name := caseName(k)
		if caseOnly {
			// the error that accompanies it is the one its caller returns with it
		} else if c, isC := ret.Results[1].(*ssa.Const); !isC || c.Value != nil {
			r.Check(name == "caseError", "evaluatePushPullCase/error return", u.Pos(ret.Pos()), "caseError with the error", "a storage error is returned together with "+name)
			return
		}
		paths, okp := litStrings(fn, ret)
		// loads of its.datatypeDoc after the store are forwarded to the call results: normalise
		var norm [][]string
		for _, pth := range paths {
			var ls []string
			for _, l := range pth {
				ls = append(ls, l)
				if strings.Contains(l, "GetDatatype(") && strings.HasSuffix(l, "#0 == nil") {
					ls = append(ls, "$0.datatypeDoc == nil")
				}
				if strings.Contains(l, "GetDatatype(") && strings.HasSuffix(l, "#0 != nil") {
					ls = append(ls, "$0.datatypeDoc != nil")
				}
			}
			norm = append(norm, ls)
		}
		seen[name] = true
		req, known := need[name]
		if !known {
			r.Bad("evaluatePushPullCase/"+name, u.Pos(ret.Pos()), "unexpected case constant returned without error")
			return
		}
		r.Check(okp && allPathsContain(norm, req...), "evaluatePushPullCase/"+name, u.Pos(ret.Pos()), "returned under "+strings.Join(req, " && "), fmt.Sprintf("%s is returned under %v; expected every path to establish %v", name, norm, req))
	}
	forEachInstr(fn, visit)
	// key lookup is scoped by the handler's collection
	for _, c := range callsNamed(fn, "GetDatatypeByKey") {
		a := c.Common().Args
		r.Check(canonName(a[len(a)-2]) == "$0.collectionDoc.Num" && canonName(a[len(a)-1]) == "$0.gotPushPullPack.Key", "evaluatePushPullCase/key lookup scope", u.Pos(c.Pos()), "(collection number, key)", "the key lookup uses ("+canonName(a[len(a)-2])+", "+canonName(a[len(a)-1])+")")
	}
}

// R13.3 client state machine
func ruleR13_3(w *World, r *Report) {
	u := w.Client()
	r.Rule("R13.3", "the client becomes SUBSCRIBED only from the three DUE_TO_* states, together with the OnChangeDatatypeState call; the state handler is invoked iff old != new, independently of errors; an error response suppresses the state change and reaches the error handler; the subscribe reset clears the wire state before the rollback point is captured", 5)
	fn := u.Fn(pDatatypes, "WiredDatatype", "updateStateOfDatatype")
	if fn == nil {
		r.Lost("WiredDatatype.updateStateOfDatatype")
	} else {
		n := 0
		for _, st := range storesTo(fn, ".BaseDatatype.state") {
			n++
			k, _ := constInt(st.Val)
			paths, ok := pathLinCmps(fn, st, rewriter(`\$0\.TransactionDatatype\.BaseDatatype\.state`, "STATE"))
			good := ok && k == 3
			for _, p := range paths {
				due := false
				for _, l := range p {
					if l == "+STATE == 0" || l == "+STATE-1 == 0" || l == "+STATE-2 == 0" {
						due = true
					}
				}
				good = good && due
			}
			follows, _ := mustReach(st, func(in ssa.Instruction) bool {
				c, ok := in.(ssa.CallInstruction)
				return ok && calleeName(c) == "OnChangeDatatypeState"
			}, false)
			r.Check(good && follows, "updateStateOfDatatype/state = SUBSCRIBED", u.Pos(st.Pos()), "only from DUE_TO_CREATE/SUBSCRIBE/SUBSCRIBE_CREATE, followed by OnChangeDatatypeState",
				fmt.Sprintf("the state is set to %d under %v (followed by OnChangeDatatypeState: %v); expected SUBSCRIBED(3) only from the three DUE_TO_* states", k, paths, follows))
		}
		if n == 0 {
			r.Bad("updateStateOfDatatype/state = SUBSCRIBED", u.Pos(fn.Pos()), "the datatype never becomes SUBSCRIBED")
		}
		// every response that passed the error check moves a waiting replica to SUBSCRIBED: from the entry of the
		// DUE_TO_* arm the store is reached on every path (the server answers a retried create/subscribe whose first
		// response was lost with a plain response, so the transition must not depend on the response's option bits)
		ab := rewriter(`\$0\.TransactionDatatype\.BaseDatatype\.state`, "STATE")
		nArm, armGood := 0, true
		for _, b := range fn.Blocks {
			if len(b.Instrs) == 0 {
				continue
			}
			ifi, isIf := b.Instrs[len(b.Instrs)-1].(*ssa.If)
			if !isIf {
				continue
			}
			lc, ok := canonLinCmp(normLit(condEdge{ifi.Cond, true}))
			if !ok {
				continue
			}
			lc.L = abstractLin(lc.L, ab)
			var entry *ssa.BasicBlock
			switch lc.String() {
			case "+STATE == 0", "+STATE-1 == 0", "+STATE-2 == 0":
				entry = b.Succs[0]
			case "+STATE != 0", "+STATE-1 != 0", "+STATE-2 != 0":
				entry = b.Succs[1]
			default:
				continue
			}
			// the arm entry is where all three tests lead: skip the fall-through to the next test of a != chain
			if len(entry.Instrs) > 0 {
				if nx, isNx := entry.Instrs[len(entry.Instrs)-1].(*ssa.If); isNx && len(entry.Instrs) <= 3 {
					if lc2, ok2 := canonLinCmp(normLit(condEdge{nx.Cond, true})); ok2 && strings.Contains(abstractLin(lc2.L, ab).String(), "STATE") {
						continue
					}
				}
			}
			nArm++
			reach, _ := mustReachFromBlock(entry, func(in ssa.Instruction) bool {
				st, isSt := in.(*ssa.Store)
				if !isSt || !strings.HasSuffix(canonName(st.Addr), ".BaseDatatype.state") {
					return false
				}
				k, _ := constInt(st.Val)
				return k == 3
			})
			armGood = armGood && reach
		}
		r.Check(nArm > 0 && armGood, "updateStateOfDatatype/every accepted response subscribes a waiting replica", u.Pos(fn.Pos()), "state = SUBSCRIBED on every path of the DUE_TO_* arm",
			"in a DUE_TO_* state there is a path through updateStateOfDatatype that does not set SUBSCRIBED (it depends on something besides the state, e.g. on the option bits of the response): the answer to a retried create/subscribe is a plain response, so the replica would never become subscribed and its state handler never runs")
		ids := storesTo(fn, ".BaseDatatype.id")
		r.Check(len(ids) == 1 && canonName(ids[0].Val) == "$1.DUID", "updateStateOfDatatype/adopt DUID", u.Pos(fn.Pos()), "id = response DUID", "the datatype does not adopt the DUID of the response when it becomes subscribed")
	}
	// every other writer of the state
	for _, f := range u.ordaFuncs(func(p string) bool { return p == pDatatypes || p == pOrda || p == pCManagers }) {
		for _, st := range storesTo(f, ".state") {
			o, fld, base, ok := storeField(st.Addr)
			if !ok || o != "BaseDatatype" || fld != "state" || isFreshBase(base) {
				continue
			}
			name := fnName(f)
			r.Check(name == "WiredDatatype.updateStateOfDatatype" || name == "BaseDatatype.SetState", name+"/writes state", u.Pos(st.Pos()), "known writer", "an unexpected function changes the datatype state")
		}
	}
	if ch := u.Fn(pDatatypes, "WiredDatatype", "callHandlers"); ch == nil {
		r.Lost("WiredDatatype.callHandlers")
	} else {
		var hs ssa.CallInstruction
		for _, c := range callsNamed(ch, "HandleStateChange") {
			hs = c
		}
		if hs == nil {
			r.Bad("callHandlers/state handler", u.Pos(ch.Pos()), "the state-change handler is never invoked")
		} else {
			// the two states handed to the handler, whatever position or carrier (parameter, field of a parameter) they have
			want := map[string]bool{}
			if a := hs.Common().Args; len(a) >= 2 {
				x, y := canonName(a[len(a)-2]), canonName(a[len(a)-1])
				want["+"+x+"-"+y+" != 0"] = true
				want["-"+x+"+"+y+" != 0"] = true
				want["+"+y+"-"+x+" != 0"] = true
				want["-"+y+"+"+x+" != 0"] = true
			}
			paths, _ := pathLinCmps(ch, hs.(ssa.Instruction), nil)
			good := len(paths) > 0
			for _, p := range paths {
				good = good && len(p) == 1 && want[p[0]]
			}
			// and every exit on which old != new has passed it
			forEachInstr(ch, func(in ssa.Instruction) {
				ret, ok := in.(*ssa.Return)
				if !ok {
					return
				}
				ps, _ := pathsWithBlocks(ch, nil, ret.Block())
				for _, p := range ps {
					changed := false
					for _, l := range p.Lits {
						if lc, ok := canonLinCmp(l); ok && want[lc.String()] {
							changed = true
						}
					}
					if changed && !p.Blocks[hs.Block()] {
						good = false
					}
				}
			})
			r.Check(good, "callHandlers/state handler", u.Pos(hs.Pos()), "HandleStateChange iff old != new", "the state-change handler is not invoked exactly when old != new (it depends on something else, e.g. on errors, or an exit skips it)")
		}
	}
	if ap := u.Fn(pDatatypes, "WiredDatatype", "ApplyPushPullPack"); ap != nil {
		var chk, upd *ssa.Call
		for _, c := range callsNamed(ap, "checkOptionAndError") {
			chk, _ = c.(*ssa.Call)
		}
		for _, c := range callsNamed(ap, "updateStateOfDatatype") {
			upd, _ = c.(*ssa.Call)
		}
		good := chk != nil && upd != nil && guardedByNilErr(ap, upd, chk)
		// the error reaches the handlers: Append(err) on the error edge and callHandlers gets errs
		app := false
		for _, c := range callsNamed(ap, "Append") {
			if chk != nil && len(c.Common().Args) > 0 && stripIface(c.Common().Args[len(c.Common().Args)-1]) == ssa.Value(chk) {
				app = true
			}
		}
		goes := false
		forEachInstr(ap, func(in ssa.Instruction) {
			if g, ok := in.(*ssa.Go); ok && calleeName(g) == "callHandlers" {
				// the collected errors are among what is handed over (as an argument, or as a field of a struct argument)
				var cands []ssa.Value
				for _, a := range g.Call.Args {
					cands = append(cands, a)
					if ld, isLd := a.(*ssa.UnOp); isLd && ld.Op == token.MUL {
						if al, isAl := ld.X.(*ssa.Alloc); isAl {
							for _, ref := range *al.Referrers() {
								if fa, isFA := ref.(*ssa.FieldAddr); isFA {
									for _, r2 := range *fa.Referrers() {
										if st, isSt := r2.(*ssa.Store); isSt && st.Addr == ssa.Value(fa) {
											cands = append(cands, st.Val)
										}
									}
								}
							}
						}
					}
				}
				for _, cnd := range cands {
					if o := origins(cnd); o["invoke:Append"] || o["call:MultipleOrdaErrors.Append"] {
						goes = true
					}
				}
			}
		})
		r.Check(good && app && goes, "ApplyPushPullPack/refusal reaches the error handler", u.Pos(ap.Pos()), "error appended and handed to callHandlers; no state change on error", "an error response does not suppress the state change, or is not handed to the error handler")
	}
	if co := u.Fn(pDatatypes, "WiredDatatype", "checkOptionAndError"); co != nil {
		d := deepOfDepth(co, 1)
		rws, rss, rts := d.calls("ResetWired"), d.calls("ResetSnapshot"), d.calls("ResetTransaction")
		// the rollback point that counts for a subscriber is the one updateStateOfDatatype takes afterwards (R09.6); a
		// point taken here is replaced by it, so neither its presence nor its place is demanded any more
		_ = rts
		good := len(rws) == 1 && len(rss) == 1
		r.Check(good, "checkOptionAndError/subscribe reset order", u.Pos(co.Pos()), "the wire state and the snapshot are reset", "the subscribe reset no longer resets the wire state and the snapshot of the waiting replica")
		// the reset (and the checkpoint rewind that goes with it) only happens to a replica that is still
		// waiting for its subscription: a duplicated or delayed subscribe response must not wipe a subscribed one (F26)
		ab := rewriter(`\$0\.TransactionDatatype\.BaseDatatype\.state`, "STATE")
		var resets []dins
		resets = append(resets, rws...)
		resets = append(resets, rss...)
		resets = append(resets, d.stores(".checkPoint.Sseq")...)
		resets = append(resets, d.stores(".checkPoint.Cseq")...)
		waiting := len(resets) >= 4
		var bad string
		for _, x := range resets {
			ps, ok := d.paths(x, ab)
			if !ok || len(ps) == 0 {
				waiting, bad = false, "undecided path condition"
				continue
			}
			for _, p := range ps {
				if !has(p.lins, "+STATE-1 == 0") && !has(p.lins, "+STATE-2 == 0") {
					waiting, bad = false, fmt.Sprintf("%v", p.lins)
				}
			}
		}
		r.Check(waiting, "checkOptionAndError/subscribe reset only while waiting", u.Pos(co.Pos()), "state is DUE_TO_SUBSCRIBE or DUE_TO_SUBSCRIBE_CREATE on every path to the reset", "a response carrying the subscribe bit resets the wire state, the snapshot or the checkpoint of a replica that is not waiting for its subscription (path: "+bad+"): a duplicated or delayed subscribe response wipes a subscribed replica and the operations it has not pushed yet")
	}
}

// alwaysNewError: every return of f hands back an error freshly built by ErrorCode.New (and nothing else happens that
// could matter to the dispatch: the function calls nothing but the error constructor and getters).
func alwaysNewError(u *Universe, f *types.Func) bool {
	fn := u.Prog.FuncValue(f)
	if fn == nil || len(fn.Blocks) == 0 || fn.Signature.Results().Len() != 1 {
		return false
	}
	n, good := 0, true
	forEachOwnInstr(fn, func(in ssa.Instruction) {
		ret, ok := in.(*ssa.Return)
		if !ok {
			return
		}
		n++
		for _, v := range resolvePhisOwn(ret.Results[0]) {
			c, isCall := stripIface(v).(*ssa.Call)
			if !isCall {
				good = false
				continue
			}
			co := calleeObj(c)
			if co == nil || !isMethod(co, pErrors, "ErrorCode", "New") {
				good = false
			}
		}
	})
	return good && n > 0
}
