package main

import (
	"fmt"
	"go/constant"
	"go/token"
	"go/types"
	"sort"
	"strings"

	"golang.org/x/tools/go/ssa"
)

// ---------------------------------------------------------------------------------------------
// A4: reaching conditions (path-sensitive, acyclic)

// condEdge is one branch decision on a path: the If condition and the branch taken.
type condEdge struct {
	Cond ssa.Value
	Pol  bool
}

const maxPaths = 2048

// pathsTo enumerates the simple (acyclic) CFG paths from block `from` (nil: entry) to block `to`
// and returns, for each, the branch decisions taken. ok is false when the enumeration was cut.
func pathsTo(fn *ssa.Function, from, to *ssa.BasicBlock) (paths [][]condEdge, ok bool) {
	paths, _, ok = pathsToO(fn, from, to)
	return paths, ok
}

// pathsToO is pathsTo that also returns, for each path, the blocks it visits in order.
func pathsToO(fn *ssa.Function, from, to *ssa.BasicBlock) (paths [][]condEdge, orders [][]*ssa.BasicBlock, ok bool) {
	if from == nil {
		from = fn.Blocks[0]
	}
	// only walk blocks from which `to` is reachable
	canReach := map[*ssa.BasicBlock]bool{to: true}
	work := []*ssa.BasicBlock{to}
	for len(work) > 0 {
		b := work[len(work)-1]
		work = work[:len(work)-1]
		for _, p := range b.Preds {
			if !canReach[p] {
				canReach[p] = true
				work = append(work, p)
			}
		}
	}
	if !canReach[from] {
		return nil, nil, true
	}
	ok = true
	onPath := map[*ssa.BasicBlock]bool{}
	var cur []condEdge
	var order []*ssa.BasicBlock
	var dfs func(b *ssa.BasicBlock)
	dfs = func(b *ssa.BasicBlock) {
		if !ok {
			return
		}
		order = append(order, b)
		defer func() { order = order[:len(order)-1] }()
		if b == to {
			if len(paths) >= maxPaths {
				ok = false
				return
			}
			paths = append(paths, append([]condEdge(nil), cur...))
			orders = append(orders, append([]*ssa.BasicBlock(nil), order...))
			return
		}
		onPath[b] = true
		defer func() { onPath[b] = false }()
		var ifc ssa.Value
		if len(b.Instrs) > 0 {
			if i, isIf := b.Instrs[len(b.Instrs)-1].(*ssa.If); isIf {
				ifc = i.Cond
			}
		}
		known := -1
		if ifc != nil {
			ifc, known = resolveCondOnPath(ifc, order)
		}
		for si, s := range b.Succs {
			if onPath[s] || !canReach[s] {
				continue
			}
			if known >= 0 && (si == 0) != (known == 1) {
				continue // the branch condition is a constant on this path (a materialised && / ||)
			}
			if ifc != nil && known < 0 {
				cur = append(cur, condEdge{ifc, si == 0})
			}
			dfs(s)
			if ifc != nil && known < 0 {
				cur = cur[:len(cur)-1]
			}
		}
	}
	dfs(from)
	return paths, orders, ok
}

// boolReturnLits: the literal paths of a boolean function on which it returns `want` (the returned expression is
// resolved per path: constant edges of a materialised && / || select or drop the path, anything else becomes the
// last literal of the path).
func boolReturnLits(h *ssa.Function, want bool) ([][]Lit, bool) {
	if h == nil || h.Signature.Results().Len() != 1 {
		return nil, false
	}
	return boolResultLits(h, 0, want)
}

// boolResultLits: boolReturnLits for result idx of a function with several results (the "found" of a lookup helper).
func boolResultLits(h *ssa.Function, idx int, want bool) ([][]Lit, bool) {
	if h == nil || len(h.Blocks) == 0 || h.Signature.Results().Len() <= idx {
		return nil, false
	}
	if b, isB := h.Signature.Results().At(idx).Type().Underlying().(*types.Basic); !isB || b.Kind() != types.Bool {
		return nil, false
	}
	var out [][]Lit
	okAll := true
	for _, b := range h.Blocks {
		if len(b.Instrs) == 0 {
			continue
		}
		ret, isRet := b.Instrs[len(b.Instrs)-1].(*ssa.Return)
		if !isRet || len(ret.Results) <= idx {
			continue
		}
		paths, orders, ok := pathsToO(h, nil, b)
		okAll = okAll && ok
		for i, p := range paths {
			var lits []Lit
			for _, e := range p {
				lits = append(lits, normLit(e))
			}
			v, known := resolveCondOnPath(ret.Results[idx], orders[i])
			if known >= 0 {
				if (known == 1) == want {
					out = append(out, lits)
				}
				continue
			}
			out = append(out, append(lits, normLit(condEdge{v, want})))
		}
	}
	return out, okAll
}

// resolveCondOnPath looks through a boolean phi (the value form of a && b, a || b, e.g. the case
// expression of a tagless switch): on a given block path the phi's value is the edge of the
// predecessor the path came through. It returns the resolved condition (polarity folded into a
// NOT chain is left to normLit) and 1/0 when it is the constant true/false on this path, -1 otherwise.
func resolveCondOnPath(cond ssa.Value, order []*ssa.BasicBlock) (ssa.Value, int) {
	neg := false
	v := cond
	for i := 0; i < 16; i++ {
		switch x := v.(type) {
		case *ssa.UnOp:
			if x.Op == token.NOT {
				v, neg = x.X, !neg
				continue
			}
		case *ssa.Phi:
			pb := x.Block()
			idx := -1
			for k := len(order) - 1; k > 0; k-- {
				if order[k] == pb {
					for pi, p := range pb.Preds {
						if p == order[k-1] {
							idx = pi
						}
					}
					break
				}
			}
			if idx < 0 {
				return cond, -1
			}
			v = x.Edges[idx]
			continue
		case *ssa.Const:
			if x.Value != nil && x.Value.Kind() == constant.Bool {
				b := constant.BoolVal(x.Value)
				if neg {
					b = !b
				}
				if b {
					return cond, 1
				}
				return cond, 0
			}
		}
		break
	}
	if v == cond {
		return cond, -1
	}
	if neg {
		// keep the NOT chain of the original around the resolved value: rebuild is not possible in SSA,
		// so report the resolved value with inverted polarity through a marker UnOp-free path
		return &negated{Value: v}, -1
	}
	return v, -1
}

// negated wraps a resolved phi edge whose use site was under an odd number of NOTs.
type negated struct{ ssa.Value }

// Lit is a normalised branch literal.
type Lit struct {
	Kind string // "cmp" | "call" | "ok" | "bool"
	Op   token.Token
	X, Y ssa.Value
	Call *ssa.Call
	Pol  bool
	Raw  ssa.Value
}

func negOp(op token.Token) token.Token {
	switch op {
	case token.LSS:
		return token.GEQ
	case token.LEQ:
		return token.GTR
	case token.GTR:
		return token.LEQ
	case token.GEQ:
		return token.LSS
	case token.EQL:
		return token.NEQ
	case token.NEQ:
		return token.EQL
	}
	return op
}

func swapOp(op token.Token) token.Token {
	switch op {
	case token.LSS:
		return token.GTR
	case token.LEQ:
		return token.GEQ
	case token.GTR:
		return token.LSS
	case token.GEQ:
		return token.LEQ
	}
	return op
}

func normLit(e condEdge) Lit {
	v, pol := e.Cond, e.Pol
	for {
		if u, ok := v.(*ssa.UnOp); ok && u.Op == token.NOT {
			v, pol = u.X, !pol
			continue
		}
		if n, ok := v.(*negated); ok {
			v, pol = n.Value, !pol
			continue
		}
		break
	}
	switch x := v.(type) {
	case *ssa.BinOp:
		switch x.Op {
		case token.LSS, token.LEQ, token.GTR, token.GEQ, token.EQL, token.NEQ:
			op := x.Op
			if !pol {
				op = negOp(op)
			}
			return Lit{Kind: "cmp", Op: op, X: x.X, Y: x.Y, Pol: true, Raw: v}
		}
	case *ssa.Call:
		return Lit{Kind: "call", Call: x, Pol: pol, Raw: v}
	case *ssa.Extract:
		switch x.Tuple.(type) {
		case *ssa.Lookup, *ssa.TypeAssert:
			if x.Index == 1 {
				return Lit{Kind: "ok", X: x.Tuple, Pol: pol, Raw: v}
			}
		}
	}
	return Lit{Kind: "bool", X: v, Pol: pol, Raw: v}
}

// reachingLits returns the normalised literals of every acyclic path from `from` to the block of
// instr.
func reachingLits(fn *ssa.Function, from *ssa.BasicBlock, instr ssa.Instruction) ([][]Lit, bool) {
	if flatOff || len(flattenable) == 0 {
		return reachingLitsOwn(fn, from, instr)
	}
	var paths [][]Lit
	var ok bool
	if from == nil {
		paths, ok = reachingLitsFlat(fn, instr, 0)
	} else {
		paths, ok = reachingLitsOwn(fn, from, instr)
	}
	paths, oke := expandHelperNilChecks(paths, 0)
	return paths, ok && oke
}

func reachingLitsOwn(fn *ssa.Function, from *ssa.BasicBlock, instr ssa.Instruction) ([][]Lit, bool) {
	paths, ok := pathsTo(fn, from, instr.Block())
	out := make([][]Lit, len(paths))
	for i, p := range paths {
		for _, e := range p {
			out[i] = append(out[i], normLit(e))
		}
	}
	return out, ok
}

// ---------------------------------------------------------------------------------------------
// callee helpers

func staticCallee(c ssa.CallInstruction) *ssa.Function {
	if c == nil {
		return nil
	}
	return c.Common().StaticCallee()
}

// calleeName returns the method or function name of a call (static or through an interface).
func calleeName(c ssa.CallInstruction) string {
	cc := c.Common()
	if cc.IsInvoke() {
		return cc.Method.Name()
	}
	if f := cc.StaticCallee(); f != nil {
		if o, ok := f.Object().(*types.Func); ok {
			if old, renamed := funcOldName[o]; renamed {
				return old
			}
		}
		return f.Name()
	}
	if b, ok := cc.Value.(*ssa.Builtin); ok {
		return b.Name()
	}
	return ""
}

// calleeObj returns the types.Func called (interface method for invokes).
func calleeObj(c ssa.CallInstruction) *types.Func {
	cc := c.Common()
	if cc.IsInvoke() {
		return cc.Method
	}
	if f := cc.StaticCallee(); f != nil {
		if o, ok := f.Object().(*types.Func); ok {
			return o
		}
	}
	return nil
}

// recvAndArgs returns the receiver (nil for plain functions) and the ordinary arguments.
func recvAndArgs(c ssa.CallInstruction) (ssa.Value, []ssa.Value) {
	cc := c.Common()
	if cc.IsInvoke() {
		return cc.Value, cc.Args
	}
	if f := cc.StaticCallee(); f != nil && f.Signature.Recv() != nil && len(cc.Args) > 0 {
		return cc.Args[0], cc.Args[1:]
	}
	return nil, cc.Args
}

// recvTypeName returns the name of the named receiver type of a method object ("" if none).
func recvTypeName(o *types.Func) string {
	if o == nil {
		return ""
	}
	sig, _ := o.Type().(*types.Signature)
	if sig == nil || sig.Recv() == nil {
		return ""
	}
	t := sig.Recv().Type()
	if p, ok := t.(*types.Pointer); ok {
		t = p.Elem()
	}
	if n, ok := t.(*types.Named); ok {
		return n.Obj().Name()
	}
	return ""
}

func isMethod(o *types.Func, pkg, recv, name string) bool {
	if o == nil || o.Name() != name || o.Pkg() == nil || o.Pkg().Path() != pkg {
		return false
	}
	return recvTypeName(o) == recv
}

// ---------------------------------------------------------------------------------------------
// Timestamp comparison orientation

// Orient is "A <rel> B" obtained from a literal over a Compare call: rel is the relation between
// the receiver and the argument of Compare in time order.
type Orient struct {
	A, B ssa.Value
	Rel  string // "older" (A<B) | "older-eq" | "newer" | "newer-eq" | "eq" | "ne"
}

func isCompareCall(v ssa.Value) (*ssa.Call, bool) {
	c, ok := v.(*ssa.Call)
	if !ok {
		return nil, false
	}
	o := calleeObj(c)
	if o == nil || o.Name() != "Compare" || o.Pkg() == nil || o.Pkg().Path() != pModel {
		return nil, false
	}
	switch recvTypeName(o) {
	case "Timestamp", "OperationID":
		return c, true
	}
	return nil, false
}

func constInt(v ssa.Value) (int64, bool) {
	c, ok := v.(*ssa.Const)
	if !ok || c.Value == nil || c.Value.Kind() != constant.Int {
		return 0, false
	}
	i, ok := constant.Int64Val(c.Value)
	return i, ok
}

// orientOf recognises "x.Compare(y) op 0" (either operand order) in a literal.
func orientOf(l Lit) (Orient, bool) {
	if l.Kind != "cmp" {
		return Orient{}, false
	}
	x, y, op := l.X, l.Y, l.Op
	if _, ok := isCompareCall(y); ok {
		x, y, op = y, x, swapOp(op)
	}
	c, ok := isCompareCall(x)
	if !ok {
		return Orient{}, false
	}
	k, ok := constInt(y)
	if !ok {
		return Orient{}, false
	}
	// Compare returns -1, 0 or 1: normalise comparisons with ±1 to comparisons with 0.
	switch {
	case k == 0:
	case k == 1 && op == token.LSS: // <1  == <=0
		op = token.LEQ
	case k == 1 && op == token.GEQ: // >=1 == >0
		op = token.GTR
	case k == 1 && op == token.EQL:
		op = token.GTR
	case k == -1 && op == token.GTR: // >-1 == >=0
		op = token.GEQ
	case k == -1 && op == token.LEQ: // <=-1 == <0
		op = token.LSS
	case k == -1 && op == token.EQL:
		op = token.LSS
	default:
		return Orient{}, false
	}
	recv, args := recvAndArgs(c)
	if recv == nil || len(args) != 1 {
		return Orient{}, false
	}
	rel := map[token.Token]string{token.LSS: "older", token.LEQ: "older-eq", token.GTR: "newer", token.GEQ: "newer-eq",
		token.EQL: "eq", token.NEQ: "ne"}[op]
	return Orient{A: recv, B: args[0], Rel: rel}, true
}

// flip returns the same fact stated from B's side.
func (o Orient) flip() Orient {
	m := map[string]string{"older": "newer", "older-eq": "newer-eq", "newer": "older", "newer-eq": "older-eq", "eq": "eq", "ne": "ne"}
	return Orient{A: o.B, B: o.A, Rel: m[o.Rel]}
}

// ---------------------------------------------------------------------------------------------
// A5: provenance tags

type tagSet map[string]bool

func (t tagSet) has(s string) bool { return t[s] }
func (t tagSet) hasPrefix(p string) bool {
	for k := range t {
		if strings.HasPrefix(k, p) {
			return true
		}
	}
	return false
}
func (t tagSet) list() []string {
	var l []string
	for k := range t {
		l = append(l, k)
	}
	sort.Strings(l)
	return l
}

func fieldName(t types.Type, idx int) string {
	if p, ok := t.Underlying().(*types.Pointer); ok {
		t = p.Elem()
	}
	st, ok := t.Underlying().(*types.Struct)
	if !ok || idx >= st.NumFields() {
		return "?"
	}
	owner := "?"
	if n, ok := t.(*types.Named); ok {
		owner = n.Obj().Name()
	}
	name := st.Field(idx).Name()
	if old, renamed := fieldOldName[owner+"."+name]; renamed {
		name = old
	}
	return owner + "." + name
}

// origins computes the provenance tags of v inside its function (and through the bindings of a
// closure). Tags: param:<name>, field:<T.F>, maplookup:<T.F>|maplookup, call:<T.m|pkg.f>,
// invoke:<m>, const:<v>, global:<name>, alloc, freevar:<name>.
func origins(v ssa.Value) tagSet {
	out := tagSet{}
	seen := map[ssa.Value]bool{}
	var walk func(v ssa.Value, depth int)
	walk = func(v ssa.Value, depth int) {
		if v == nil || seen[v] || depth > 40 {
			return
		}
		seen[v] = true
		switch x := v.(type) {
		case *ssa.Parameter:
			if args := helperArgs(x); len(args) > 0 {
				// a parameter of a new helper stands for what its callers pass
				for _, a := range args {
					walk(a, depth+1)
				}
				return
			}
			out["param:"+x.Name()] = true
		case *ssa.Const:
			if x.Value == nil {
				out["const:nil"] = true
			} else {
				out["const:"+x.Value.ExactString()] = true
			}
		case *ssa.Global:
			out["global:"+x.Name()] = true
		case *ssa.FreeVar:
			out["freevar:"+x.Name()] = true
			// follow the binding in the enclosing function
			if fn := x.Parent(); fn != nil && fn.Parent() != nil {
				idx := -1
				for i, fv := range fn.FreeVars {
					if fv == x {
						idx = i
					}
				}
				for _, b := range fn.Parent().Blocks {
					for _, in := range b.Instrs {
						if mc, ok := in.(*ssa.MakeClosure); ok && mc.Fn == fn && idx >= 0 && idx < len(mc.Bindings) {
							walk(mc.Bindings[idx], depth+1)
						}
					}
				}
			}
		case *ssa.Call:
			cc := x.Common()
			if vals, ok := helperResults(x, 0); ok && cc.Signature().Results().Len() == 1 {
				// the result of a new helper is what it returns
				for _, e := range vals {
					walk(e, depth+1)
				}
				return
			}
			if cc.IsInvoke() {
				out["invoke:"+cc.Method.Name()] = true
				walk(cc.Value, depth+1)
			} else if f := cc.StaticCallee(); f != nil {
				out["call:"+fnName(f)] = true
			} else if b, ok := cc.Value.(*ssa.Builtin); ok {
				out["builtin:"+b.Name()] = true
			} else {
				out["call:?"] = true
				walk(cc.Value, depth+1)
			}
			for _, a := range cc.Args {
				walk(a, depth+1)
			}
		case *ssa.Extract:
			if call, ok := x.Tuple.(*ssa.Call); ok {
				if vals, ok := helperResults(call, x.Index); ok {
					for _, e := range vals {
						walk(e, depth+1)
					}
					return
				}
			}
			walk(x.Tuple, depth+1)
		case *ssa.Lookup:
			name := "maplookup"
			if fa := mapFieldOf(x.X); fa != "" {
				name = "maplookup:" + fa
			}
			out[name] = true
			walk(x.X, depth+1)
			walk(x.Index, depth+1)
		case *ssa.UnOp:
			walk(x.X, depth+1)
		case *ssa.FieldAddr:
			out["field:"+fieldName(x.X.Type(), x.Field)] = true
			walk(x.X, depth+1)
		case *ssa.Field:
			out["field:"+fieldName(x.X.Type(), x.Field)] = true
			walk(x.X, depth+1)
		case *ssa.Phi:
			for _, e := range x.Edges {
				walk(e, depth+1)
			}
		case *ssa.MakeInterface:
			walk(x.X, depth+1)
		case *ssa.ChangeType:
			walk(x.X, depth+1)
		case *ssa.ChangeInterface:
			walk(x.X, depth+1)
		case *ssa.Convert:
			walk(x.X, depth+1)
		case *ssa.TypeAssert:
			walk(x.X, depth+1)
		case *ssa.Slice:
			out["slice"] = true
			walk(x.X, depth+1)
		case *ssa.IndexAddr:
			out["index"] = true
			walk(x.X, depth+1)
			walk(x.Index, depth+1)
		case *ssa.Index:
			out["index"] = true
			walk(x.X, depth+1)
			walk(x.Index, depth+1)
		case *ssa.BinOp:
			out["binop:"+x.Op.String()] = true
			walk(x.X, depth+1)
			walk(x.Y, depth+1)
		case *ssa.Alloc:
			out["alloc"] = true
			// a spilled local: union of everything stored into it
			if refs := x.Referrers(); refs != nil {
				for _, r := range *refs {
					if st, ok := r.(*ssa.Store); ok && st.Addr == x {
						walk(st.Val, depth+1)
					}
					// elements of a local array / fields of a local struct (variadic argument lists, literals)
					var sub ssa.Value
					switch y := r.(type) {
					case *ssa.IndexAddr:
						if y.X == ssa.Value(x) {
							sub = y
						}
					case *ssa.FieldAddr:
						if y.X == ssa.Value(x) {
							sub = y
						}
					}
					if sub != nil && sub.Referrers() != nil {
						for _, r2 := range *sub.Referrers() {
							if st, ok := r2.(*ssa.Store); ok && st.Addr == sub {
								walk(st.Val, depth+1)
							}
						}
					}
				}
			}
		case *ssa.MakeSlice, *ssa.MakeMap, *ssa.MakeChan:
			out["make"] = true
		case *ssa.Next:
			out["rangeiter"] = true
			walk(x.Iter, depth+1)
		case *ssa.Range:
			walk(x.X, depth+1)
		case *ssa.MakeClosure:
			out["closure"] = true
		case *ssa.Function:
			out["func:"+fnName(x)] = true
		}
	}
	walk(v, 0)
	return out
}

// mapFieldOf names the struct field a map value was loaded from ("T.F"), or "".
func mapFieldOf(m ssa.Value) string {
	for i := 0; i < 6; i++ {
		switch x := m.(type) {
		case *ssa.UnOp:
			if x.Op == token.MUL {
				if fa, ok := x.X.(*ssa.FieldAddr); ok {
					return fieldName(fa.X.Type(), fa.Field)
				}
				m = x.X
				continue
			}
		case *ssa.Field:
			return fieldName(x.X.Type(), x.Field)
		case *ssa.ChangeType:
			m = x.X
			continue
		case *ssa.Phi:
			if len(x.Edges) > 0 {
				m = x.Edges[0]
				continue
			}
		}
		break
	}
	return ""
}

// ---------------------------------------------------------------------------------------------
// canonical expression names and linear forms

// exprName gives a canonical, position-free name to an SSA value: parameters by name, field reads
// as paths, protobuf-style getters as the field they return, conversions transparent.
func exprName(v ssa.Value) string { return exprNameD(v, 0) }

// canonName is exprName with parameters replaced by their position ($0 is the receiver), so that a
// renamed parameter does not change the name.
func canonName(v ssa.Value) string {
	aliasParams = true
	defer func() { aliasParams = false }()
	return exprNameD(v, 0)
}

// canonLinear is linearOf with canonical parameter names.
func canonLinear(v ssa.Value) Linear {
	aliasParams = true
	defer func() { aliasParams = false }()
	return linearOfD(v, 0)
}

func canonLinCmp(l Lit) (linCmp, bool) {
	aliasParams = true
	defer func() { aliasParams = false }()
	return linCmpOf(l)
}

var aliasParams bool

// substStack holds, for pure helpers being expanded, the binding of the helper's parameters to
// the caller's argument values (evaluated in the caller's own environment).
var substStack []map[*ssa.Parameter]ssa.Value

// pureHelperReturn: f is a small function of an orda package whose body computes one value from
// its parameters without side effects (one return, no stores, no calls except getters/len);
// returns the returned value.
func pureHelperReturn(f *ssa.Function) ssa.Value {
	if f == nil || f.Pkg == nil || !isOrda(f.Pkg.Pkg.Path()) || len(f.Blocks) != 1 || f.Signature.Results().Len() != 1 {
		return nil
	}
	if len(substStack) > 3 {
		return nil
	}
	var ret ssa.Value
	for _, in := range f.Blocks[0].Instrs {
		switch x := in.(type) {
		case *ssa.Return:
			ret = x.Results[0]
		case *ssa.Store, *ssa.MapUpdate, *ssa.Go, *ssa.Defer, *ssa.Send, *ssa.Panic:
			return nil
		case *ssa.Call:
			if _, isB := x.Call.Value.(*ssa.Builtin); isB {
				continue
			}
			if getterField(x) == "" {
				return nil
			}
		}
	}
	if ret == nil || !isIntegral(ret.Type()) {
		return nil
	}
	return ret
}

func withSubst(c *ssa.Call, f func() string) string {
	callee := c.Call.StaticCallee()
	env := map[*ssa.Parameter]ssa.Value{}
	for i, p := range callee.Params {
		if i < len(c.Call.Args) {
			env[p] = c.Call.Args[i]
		}
	}
	substStack = append(substStack, env)
	defer func() { substStack = substStack[:len(substStack)-1] }()
	return f()
}

// nameAlias: values that a rule has shown to stand for another named value (e.g. the decoded copy of a received
// unit for the unit itself, as far as lengths and positions go) carry that name while the rule runs.
var nameAlias = map[ssa.Value]string{}

func exprNameD(v ssa.Value, d int) string {
	if v == nil {
		return "<nil>"
	}
	if len(nameAlias) > 0 {
		if a, ok := nameAlias[v]; ok && aliasParams {
			return a
		}
	}
	if d > 25 {
		return "…"
	}
	switch x := v.(type) {
	case *ssa.Parameter:
		if n := len(substStack); n > 0 {
			if arg, ok := substStack[n-1][x]; ok {
				// evaluate the argument in the caller's environment
				saved := substStack
				substStack = substStack[:n-1]
				name := exprNameD(arg, d+1)
				substStack = saved
				return name
			}
		}
		if n, ok := helperParamName(x, d); ok {
			return n
		}
		if aliasParams && x.Parent() != nil {
			for i, p := range x.Parent().Params {
				if p == x {
					return fmt.Sprintf("$%d", i)
				}
			}
		}
		return x.Name()
	case *ssa.FreeVar:
		if aliasParams {
			// a captured receiver/parameter of the enclosing function keeps that function's alias
			if fn := x.Parent(); fn != nil && fn.Parent() != nil {
				for i, fv := range fn.FreeVars {
					if fv != x {
						continue
					}
					for _, b := range fn.Parent().Blocks {
						for _, in := range b.Instrs {
							if mc, ok := in.(*ssa.MakeClosure); ok && mc.Fn == fn && i < len(mc.Bindings) {
								return exprNameD(mc.Bindings[i], d+1)
							}
						}
					}
				}
			}
		}
		return x.Name()
	case *ssa.Global:
		return x.Name()
	case *ssa.Const:
		if x.Value == nil {
			return "nil"
		}
		return x.Value.ExactString()
	case *ssa.FieldAddr:
		return exprNameD(x.X, d+1) + "." + lastDot(fieldName(x.X.Type(), x.Field))
	case *ssa.Field:
		return exprNameD(x.X, d+1) + "." + lastDot(fieldName(x.X.Type(), x.Field))
	case *ssa.UnOp:
		switch x.Op {
		case token.MUL:
			return exprNameD(x.X, d+1)
		case token.SUB:
			return "-(" + exprNameD(x.X, d+1) + ")"
		case token.NOT:
			return "!(" + exprNameD(x.X, d+1) + ")"
		}
		return x.Op.String() + exprNameD(x.X, d+1)
	case *ssa.Convert:
		return exprNameD(x.X, d+1)
	case *ssa.ChangeType:
		return exprNameD(x.X, d+1)
	case *ssa.MakeInterface:
		return exprNameD(x.X, d+1)
	case *ssa.ChangeInterface:
		return exprNameD(x.X, d+1)
	case *ssa.TypeAssert:
		return exprNameD(x.X, d+1) + ".(" + types.TypeString(x.AssertedType, func(p *types.Package) string { return p.Name() }) + ")"
	case *ssa.Extract:
		if call, ok := x.Tuple.(*ssa.Call); ok {
			if n, ok := helperResultName(call, x.Index, d); ok {
				return n
			}
		}
		return exprNameD(x.Tuple, d+1) + "#" + fmt.Sprint(x.Index)
	case *ssa.Call:
		cc := x.Common()
		if cc.Signature().Results().Len() == 1 {
			if n, ok := helperResultName(x, 0, d); ok {
				return n
			}
		}
		if b, ok := cc.Value.(*ssa.Builtin); ok {
			var as []string
			for _, a := range cc.Args {
				as = append(as, exprNameD(a, d+1))
			}
			return b.Name() + "(" + strings.Join(as, ",") + ")"
		}
		if rv := pureHelperReturn(cc.StaticCallee()); rv != nil && getterField(x) == "" {
			return withSubst(x, func() string { return "{" + linearOfD(rv, d+1).String() + "}" })
		}
		recv, args := recvAndArgs(x)
		name := calleeName(x)
		if recv != nil && len(args) == 0 && strings.HasPrefix(name, "Get") && len(name) > 3 {
			if f := getterField(x); f != "" {
				return exprNameD(recv, d+1) + "." + f
			}
		}
		var as []string
		for _, a := range args {
			as = append(as, exprNameD(a, d+1))
		}
		if recv != nil {
			return exprNameD(recv, d+1) + "." + name + "(" + strings.Join(as, ",") + ")"
		}
		if f := cc.StaticCallee(); f != nil && f.Pkg != nil {
			return f.Pkg.Pkg.Name() + "." + name + "(" + strings.Join(as, ",") + ")"
		}
		return name + "(" + strings.Join(as, ",") + ")"
	case *ssa.BinOp:
		if (x.Op == token.ADD || x.Op == token.SUB) && isIntegral(x.Type()) && d < 20 {
			return "{" + linearOfD(x, d+1).String() + "}"
		}
		return "(" + exprNameD(x.X, d+1) + x.Op.String() + exprNameD(x.Y, d+1) + ")"
	case *ssa.Phi:
		if phiCyclic(x) {
			// a loop-carried variable: named after the source variable
			return "φ" + x.Comment
		}
		var es []string
		seen := map[string]bool{}
		for _, e := range x.Edges {
			if e == v {
				continue
			}
			n := exprNameD(e, d+8)
			if !seen[n] {
				seen[n] = true
				es = append(es, n)
			}
		}
		sort.Strings(es)
		if len(es) == 1 {
			return es[0]
		}
		return "phi(" + strings.Join(es, "|") + ")"
	case *ssa.Alloc:
		var stores []ssa.Value
		if refs := x.Referrers(); refs != nil {
			for _, r := range *refs {
				if st, ok := r.(*ssa.Store); ok && st.Addr == x {
					stores = append(stores, st.Val)
				}
			}
		}
		if len(stores) == 1 {
			return exprNameD(stores[0], d+1)
		}
		if x.Comment != "" {
			return x.Comment
		}
		return "alloc"
	case *ssa.IndexAddr:
		return exprNameD(x.X, d+1) + "[" + exprNameD(x.Index, d+1) + "]"
	case *ssa.Index:
		return exprNameD(x.X, d+1) + "[" + exprNameD(x.Index, d+1) + "]"
	case *ssa.Lookup:
		return exprNameD(x.X, d+1) + "[" + exprNameD(x.Index, d+1) + "]"
	case *ssa.Slice:
		lo, hi := "", ""
		if x.Low != nil {
			lo = exprNameD(x.Low, d+1)
		}
		if x.High != nil {
			hi = exprNameD(x.High, d+1)
		}
		return exprNameD(x.X, d+1) + "[" + lo + ":" + hi + "]"
	case *ssa.Function:
		return fnName(x)
	case *ssa.MakeClosure:
		return "closure(" + exprNameD(x.Fn, d+1) + ")"
	}
	return v.Name()
}

func lastDot(s string) string {
	if i := strings.LastIndex(s, "."); i >= 0 {
		return s[i+1:]
	}
	return s
}

// getterField recognises a trivial getter "func (x *T) GetF() U { [if x != nil] return x.F }" (the
// generated protobuf getters and hand-written ones) and returns F.
func getterField(c *ssa.Call) string {
	f := c.Common().StaticCallee()
	if f == nil || len(f.Blocks) == 0 || len(f.Params) != 1 {
		return ""
	}
	field := ""
	for _, b := range f.Blocks {
		for _, in := range b.Instrs {
			switch x := in.(type) {
			case *ssa.FieldAddr:
				if x.X != ssa.Value(f.Params[0]) {
					return ""
				}
				n := lastDot(fieldName(x.X.Type(), x.Field))
				if field != "" && field != n {
					return ""
				}
				field = n
			case *ssa.Field:
				n := lastDot(fieldName(x.X.Type(), x.Field))
				if field != "" && field != n {
					return ""
				}
				field = n
			case *ssa.Call, *ssa.Store, *ssa.MapUpdate, *ssa.Go, *ssa.Defer:
				return ""
			}
		}
	}
	return field
}

// Linear is Σ coef·atom + K over canonical atom names.
type Linear struct {
	Terms map[string]int64
	K     int64
}

func (l Linear) String() string {
	var ks []string
	for k, c := range l.Terms {
		if c != 0 {
			ks = append(ks, k)
		}
	}
	sort.Strings(ks)
	var sb strings.Builder
	for _, k := range ks {
		c := l.Terms[k]
		switch {
		case c == 1:
			sb.WriteString("+" + k)
		case c == -1:
			sb.WriteString("-" + k)
		default:
			fmt.Fprintf(&sb, "%+d*%s", c, k)
		}
	}
	if l.K != 0 || sb.Len() == 0 {
		fmt.Fprintf(&sb, "%+d", l.K)
	}
	return sb.String()
}

func (l Linear) add(o Linear, sign int64) Linear {
	r := Linear{Terms: map[string]int64{}, K: l.K + sign*o.K}
	for k, c := range l.Terms {
		r.Terms[k] += c
	}
	for k, c := range o.Terms {
		r.Terms[k] += sign * c
	}
	for k, c := range r.Terms {
		if c == 0 {
			delete(r.Terms, k)
		}
	}
	return r
}

func (l Linear) scale(s int64) Linear {
	r := Linear{Terms: map[string]int64{}, K: l.K * s}
	for k, c := range l.Terms {
		if c*s != 0 {
			r.Terms[k] = c * s
		}
	}
	return r
}

// linearOf rewrites an integer SSA value into a linear form; conversions are transparent.
func linearOf(v ssa.Value) Linear { return linearOfD(v, 0) }

func linearOfD(v ssa.Value, d int) Linear {
	if d < 30 {
		switch x := v.(type) {
		case *ssa.Const:
			if k, ok := constInt(x); ok {
				return Linear{Terms: map[string]int64{}, K: k}
			}
		case *ssa.Convert:
			if isIntegral(x.X.Type()) && isIntegral(x.Type()) {
				return linearOfD(x.X, d+1)
			}
		case *ssa.ChangeType:
			return linearOfD(x.X, d+1)
		case *ssa.BinOp:
			switch x.Op {
			case token.ADD:
				return linearOfD(x.X, d+1).add(linearOfD(x.Y, d+1), 1)
			case token.SUB:
				return linearOfD(x.X, d+1).add(linearOfD(x.Y, d+1), -1)
			case token.MUL:
				if k, ok := constInt(x.X); ok {
					return linearOfD(x.Y, d+1).scale(k)
				}
				if k, ok := constInt(x.Y); ok {
					return linearOfD(x.X, d+1).scale(k)
				}
			}
		case *ssa.UnOp:
			if x.Op == token.SUB {
				return linearOfD(x.X, d+1).scale(-1)
			}
		case *ssa.Call:
			if rv := pureHelperReturn(x.Call.StaticCallee()); rv != nil && getterField(x) == "" {
				var out Linear
				withSubst(x, func() string { out = linearOfD(rv, d+1); return "" })
				return out
			}
		case *ssa.Alloc:
			// single-store spill
			var stores []ssa.Value
			if refs := x.Referrers(); refs != nil {
				for _, r := range *refs {
					if st, ok := r.(*ssa.Store); ok && st.Addr == x {
						stores = append(stores, st.Val)
					}
				}
			}
			if len(stores) == 1 {
				return linearOfD(stores[0], d+1)
			}
		}
	}
	return Linear{Terms: map[string]int64{exprName(v): 1}}
}

func isIntegral(t types.Type) bool {
	b, ok := t.Underlying().(*types.Basic)
	return ok && b.Info()&types.IsInteger != 0
}

// linCmp is the normal form of an integer comparison literal: L op 0 with op in {<,<=,==,!=}.
type linCmp struct {
	L  Linear
	Op token.Token
}

func (c linCmp) String() string { return c.L.String() + " " + c.Op.String() + " 0" }

func linCmpOf(l Lit) (linCmp, bool) {
	if l.Kind != "cmp" || !isIntegral(l.X.Type()) {
		return linCmp{}, false
	}
	d := linearOf(l.X).add(linearOf(l.Y), -1)
	op := l.Op
	switch op {
	case token.GTR: // x-y > 0  ==  y-x < 0
		d, op = d.scale(-1), token.LSS
	case token.GEQ:
		d, op = d.scale(-1), token.LEQ
	case token.EQL, token.NEQ:
		// len(x) != 0 is len(x) > 0, len(x) == 0 is len(x) <= 0 (a length is never negative)
		if d.K == 0 && len(d.Terms) == 1 {
			for k, c := range d.Terms {
				if strings.HasPrefix(k, "len(") && (c == 1 || c == -1) {
					if op == token.NEQ {
						return linCmp{L: Linear{Terms: map[string]int64{k: -1}}, Op: token.LSS}, true
					}
					return linCmp{L: Linear{Terms: map[string]int64{k: 1}}, Op: token.LEQ}, true
				}
			}
		}
		// canonical sign: first term (sorted) positive
		var ks []string
		for k := range d.Terms {
			ks = append(ks, k)
		}
		sort.Strings(ks)
		if len(ks) > 0 && d.Terms[ks[0]] < 0 {
			d = d.scale(-1)
		}
	}
	return linCmp{L: d, Op: op}, true
}

// ---------------------------------------------------------------------------------------------
// instruction helpers

// withClosures returns fn and the anonymous functions nested in it.
func withClosures(fn *ssa.Function) []*ssa.Function {
	out := []*ssa.Function{fn}
	for _, a := range fn.AnonFuncs {
		out = append(out, withClosures(a)...)
	}
	return out
}

// callsIn lists the call instructions (call, go, defer) of fn in block order.
func callsIn(fn *ssa.Function) []ssa.CallInstruction {
	var out []ssa.CallInstruction
	forEachInstr(fn, func(in ssa.Instruction) {
		if c, ok := in.(ssa.CallInstruction); ok {
			out = append(out, c)
		}
	})
	return out
}

// storeTarget describes the destination of a Store: the named struct and field written, if any.
func storeField(addr ssa.Value) (owner string, field string, base ssa.Value, ok bool) {
	fa, isFA := addr.(*ssa.FieldAddr)
	if !isFA {
		return "", "", nil, false
	}
	fn := fieldName(fa.X.Type(), fa.Field)
	i := strings.LastIndex(fn, ".")
	return fn[:i], fn[i+1:], fa.X, true
}

// dominates reports whether block a dominates block b.
func dominates(a, b *ssa.BasicBlock) bool { return a.Dominates(b) }

// instrIndex returns the index of in inside its block.
func instrIndex(in ssa.Instruction) int {
	for i, x := range in.Block().Instrs {
		if x == in {
			return i
		}
	}
	return -1
}

// instrDominates: a is executed before b on every path reaching b.
func instrDominates(a, b ssa.Instruction) bool {
	if a.Parent() != b.Parent() {
		return instrDominatesCross(a, b)
	}
	if a.Block() == b.Block() {
		return instrIndex(a) < instrIndex(b)
	}
	return a.Block().Dominates(b.Block())
}

// phiCyclic: the phi depends on itself (a loop-carried variable).
func phiCyclic(p *ssa.Phi) bool {
	seen := map[ssa.Value]bool{}
	var walk func(v ssa.Value, d int) bool
	walk = func(v ssa.Value, d int) bool {
		if d > 12 || v == nil {
			return false
		}
		if v == ssa.Value(p) && d > 0 {
			return true
		}
		if seen[v] {
			return false
		}
		seen[v] = true
		in, ok := v.(ssa.Instruction)
		if !ok {
			return false
		}
		for _, op := range in.Operands(nil) {
			if *op != nil && walk(*op, d+1) {
				return true
			}
		}
		return false
	}
	return walk(p, 0)
}

// realRefs lists the referrers of v that are not debug references.
func realRefs(v ssa.Value) []ssa.Instruction {
	var out []ssa.Instruction
	if v == nil || v.Referrers() == nil {
		return nil
	}
	for _, r := range *v.Referrers() {
		if _, ok := r.(*ssa.DebugRef); ok {
			continue
		}
		out = append(out, r)
	}
	return out
}
