package main

import (
	_ "embed"
	"encoding/json"
	"fmt"
	"go/types"
	"os"
	"sort"
	"strings"
)

// The baseline symbol table records, for the pinned tree the rules were written against, the
// names and signatures of the functions and the names and types of the struct fields of the orda
// packages. When an anchored name is missing in the analysed tree and exactly one new symbol with
// the same receiver and signature (or the same struct and type) has appeared, the new symbol is
// taken to be the old one renamed: a rename of an unexported function or field is not an alarm.

//go:embed baseline_symbols.json
var baselineJSON []byte

type baselineTable struct {
	Funcs  map[string]string   `json:"funcs"`  // "pkg|recv|name" -> signature
	Fields map[string][]string `json:"fields"` // "pkg|struct" -> ["name type", ...] in order
}

var baseline = func() *baselineTable {
	b := &baselineTable{Funcs: map[string]string{}, Fields: map[string][]string{}}
	if len(baselineJSON) > 0 {
		_ = json.Unmarshal(baselineJSON, b)
	}
	return b
}()

func qual(p *types.Package) string { return p.Name() }

func sigString(f *types.Func) string {
	sig := f.Type().(*types.Signature)
	return types.TypeString(types.NewSignatureType(nil, nil, nil, sig.Params(), sig.Results(), sig.Variadic()), qual)
}

// symbolsOf collects the table of a universe.
func symbolsOf(u *Universe, into *baselineTable) {
	for path, p := range u.Pkgs {
		if strings.HasSuffix(path, "_test") {
			continue
		}
		sc := p.Types.Scope()
		for _, name := range sc.Names() {
			switch o := sc.Lookup(name).(type) {
			case *types.Func:
				if !isTestFile(u.Fset, o.Pos()) && !isGenerated(u.Fset, o.Pos()) {
					into.Funcs[path+"||"+name] = sigString(o)
				}
			case *types.TypeName:
				n, ok := o.Type().(*types.Named)
				if !ok || isGenerated(u.Fset, o.Pos()) || isTestFile(u.Fset, o.Pos()) {
					continue
				}
				for i := 0; i < n.NumMethods(); i++ {
					m := n.Method(i)
					if !isTestFile(u.Fset, m.Pos()) {
						into.Funcs[path+"|"+name+"|"+m.Name()] = sigString(m)
					}
				}
				if st, ok := n.Underlying().(*types.Struct); ok {
					var fs []string
					for i := 0; i < st.NumFields(); i++ {
						fs = append(fs, st.Field(i).Name()+" "+types.TypeString(st.Field(i).Type(), qual))
					}
					into.Fields[path+"|"+name] = fs
				}
			}
		}
	}
}

func writeBaseline(w *World, out string) {
	b := &baselineTable{Funcs: map[string]string{}, Fields: map[string][]string{}}
	symbolsOf(w.uni("client"), b)
	symbolsOf(w.uni("server"), b)
	js, _ := json.MarshalIndent(b, "", " ")
	if err := os.WriteFile(out, js, 0o644); err != nil {
		machineryFailure("writing %s: %v", out, err)
	}
	fmt.Printf("baseline: %d functions, %d structs\n", len(b.Funcs), len(b.Fields))
}

// rename maps, filled while loading a universe
var funcOldName = map[*types.Func]string{} // renamed function object -> its baseline name
var fieldOldName = map[string]string{}     // "Struct.newField" -> "oldField"

// computeRenames fills u.fnAlias and the global rename maps.
func (u *Universe) computeRenames() {
	u.fnAlias = map[string]*types.Func{}
	cur := &baselineTable{Funcs: map[string]string{}, Fields: map[string][]string{}}
	symbolsOf(u, cur)
	// functions
	type cand struct {
		key string
	}
	byGroup := map[string][]string{} // "pkg|recv|sig" -> new keys (not in baseline)
	for k, sig := range cur.Funcs {
		if _, known := baseline.Funcs[k]; known {
			continue
		}
		parts := strings.SplitN(k, "|", 3)
		byGroup[parts[0]+"|"+parts[1]+"|"+sig] = append(byGroup[parts[0]+"|"+parts[1]+"|"+sig], k)
	}
	missingByGroup := map[string][]string{}
	for k, sig := range baseline.Funcs {
		parts := strings.SplitN(k, "|", 3)
		if _, loaded := u.Pkgs[parts[0]]; !loaded {
			continue
		}
		if _, still := cur.Funcs[k]; still {
			continue
		}
		g := parts[0] + "|" + parts[1] + "|" + sig
		missingByGroup[g] = append(missingByGroup[g], k)
	}
	var notes []string
	for g, missing := range missingByGroup {
		news := byGroup[g]
		if len(missing) == 1 && len(news) == 1 {
			op := strings.SplitN(missing[0], "|", 3)
			np := strings.SplitN(news[0], "|", 3)
			if obj := u.funcObjExact(np[0], np[1], np[2]); obj != nil {
				u.fnAlias[missing[0]] = obj
				funcOldName[obj] = op[2]
				notes = append(notes, fmt.Sprintf("function %s.%s -> %s", op[1], op[2], np[2]))
			}
		}
	}
	// functions the baseline does not know (and that are not renamed baseline functions)
	u.newFuncObjs = map[*types.Func]bool{}
	if len(baseline.Funcs) > 0 {
		for k := range cur.Funcs {
			if _, known := baseline.Funcs[k]; known {
				continue
			}
			parts := strings.SplitN(k, "|", 3)
			hasPkg := false
			for bk := range baseline.Funcs {
				if strings.HasPrefix(bk, parts[0]+"|") {
					hasPkg = true
					break
				}
			}
			if !hasPkg {
				continue
			}
			if obj := u.funcObjExact(parts[0], parts[1], parts[2]); obj != nil {
				if _, renamed := funcOldName[obj]; !renamed {
					u.newFuncObjs[obj] = true
				}
			}
		}
	}
	// fields
	for k, old := range baseline.Fields {
		now, ok := cur.Fields[k]
		if !ok {
			continue
		}
		structName := k[strings.LastIndex(k, "|")+1:]
		has := map[string]bool{}
		for _, f := range now {
			has[f] = true
		}
		oldHas := map[string]bool{}
		for _, f := range old {
			oldHas[f] = true
		}
		var gone, added []string
		for _, f := range old {
			if !has[f] {
				gone = append(gone, f)
			}
		}
		for _, f := range now {
			if !oldHas[f] {
				added = append(added, f)
			}
		}
		// pair by type when unambiguous
		for _, g := range gone {
			gt := g[strings.Index(g, " ")+1:]
			var match []string
			for _, a := range added {
				if a[strings.Index(a, " ")+1:] == gt {
					match = append(match, a)
				}
			}
			var sameTypeGone int
			for _, g2 := range gone {
				if g2[strings.Index(g2, " ")+1:] == gt {
					sameTypeGone++
				}
			}
			if len(match) == 1 && sameTypeGone == 1 {
				on, nn := g[:strings.Index(g, " ")], match[0][:strings.Index(match[0], " ")]
				fieldOldName[structName+"."+nn] = on
				notes = append(notes, fmt.Sprintf("field %s.%s -> %s", structName, on, nn))
			}
		}
	}
	sort.Strings(notes)
	u.Renames = notes
}
