package main

import (
	"fmt"
	"go/token"
	"sort"
	"strings"

	"golang.org/x/tools/go/ssa"
)

func ordaOnly(p string) bool { return p == pOrda }

// isFreshBase: the struct being written was allocated in this function (composite literal).
func isFreshBase(v ssa.Value) bool {
	for i := 0; i < 5; i++ {
		switch x := v.(type) {
		case *ssa.Alloc:
			return true
		case *ssa.FieldAddr:
			v = x.X
		default:
			return false
		}
	}
	return false
}

// R04.2 nothing unlinks or forgets a node
func ruleR04_2(w *World, r *Report) {
	u := w.Client()
	r.Rule("R04.2", "list links (orderedNode.prev/next) are written only by insertNext/setPrev/setNext, setPrev/setNext are called only from insertNext, nothing deletes from a list's identity map, and the document node map is only shrunk by removeFromNodeMap (reached only through funeral, for elements)", 5)
	allowedWriters := map[string]bool{"orderedNode.insertNext": true, "orderedNode.setPrev": true, "orderedNode.setNext": true}
	nLink, nDel := 0, 0
	for _, fn := range u.ordaFuncs(ordaOnly) {
		name := fnName(fn)
		forEachInstr(fn, func(in ssa.Instruction) {
			switch x := in.(type) {
			case *ssa.Store:
				owner, field, base, ok := storeField(x.Addr)
				if !ok || owner != "orderedNode" || (field != "prev" && field != "next") {
					return
				}
				if isFreshBase(base) {
					return
				}
				nLink++
				r.Check(allowedWriters[name], name+"/writes orderedNode."+field, u.Pos(x.Pos()), "link writer", "a function other than insertNext/setPrev/setNext rewrites a list link: elements can be unlinked or reordered")
			case ssa.CallInstruction:
				cn := calleeName(x)
				if cn == "setPrev" || cn == "setNext" {
					nLink++
					r.Check(name == "orderedNode.insertNext", name+"/calls "+cn, u.Pos(x.Pos()), "called from insertNext", cn+" is called outside insertNext: a link is rewritten without inserting")
				}
				if b, ok := x.Common().Value.(*ssa.Builtin); ok && b.Name() == "delete" && len(x.Common().Args) > 0 {
					mf := mapFieldOf(x.Common().Args[0])
					switch mf {
					case "listSnapshot.Map":
						nDel++
						r.Bad(name+"/delete listSnapshot.Map", u.Pos(x.Pos()), "an entry of a list's identity map is deleted: later operations addressed to that element are lost")
					case "jsonCommon.NodeMap":
						nDel++
						r.Check(name == "jsonPrimitive.removeFromNodeMap", name+"/delete jsonCommon.NodeMap", u.Pos(x.Pos()), "only removeFromNodeMap shrinks the node map", "the document node map is shrunk outside removeFromNodeMap")
					case "mapSnapshot.Map":
						nDel++
						r.Bad(name+"/delete mapSnapshot.Map", u.Pos(x.Pos()), "an entry of a map snapshot is deleted instead of being tombstoned: a concurrent older put would resurrect the key")
					}
				}
				if cn == "removeFromNodeMap" {
					nDel++
					good := name == "jsonPrimitive.funeral"
					if good {
						// must be on the "is an element" edge
						paths, ok := reachingLits(fn, nil, x.(ssa.Instruction))
						good = ok
						for _, p := range paths {
							found := false
							for _, l := range p {
								if l.Kind == "cmp" && l.Op == token.EQL && strings.Contains(exprName(l.X)+exprName(l.Y), "getType()") {
									found = true
								}
							}
							good = good && found
						}
					}
					r.Check(good, name+"/calls removeFromNodeMap", u.Pos(x.Pos()), "only funeral, only for JSON elements", "removeFromNodeMap is reachable outside funeral's element branch: objects and arrays must stay addressable as parents")
				}
			}
		})
	}
	if nLink < 4 {
		r.Lost(fmt.Sprintf("link writers (found %d, expected at least 4)", nLink))
	}
	if nDel < 2 {
		r.Lost(fmt.Sprintf("node-map shrinking sites (found %d, expected at least 2)", nDel))
	}
}

func isSizeStore(in ssa.Instruction, owner, field string, delta int64) (*ssa.Store, bool) {
	st, ok := in.(*ssa.Store)
	if !ok {
		return nil, false
	}
	o, f, _, ok := storeField(st.Addr)
	if !ok || o != owner || f != field {
		return nil, false
	}
	bo, ok := st.Val.(*ssa.BinOp)
	if !ok {
		return nil, false
	}
	k, isK := constInt(bo.Y)
	switch {
	case bo.Op == token.ADD && isK && k == delta:
		return st, true
	case bo.Op == token.SUB && isK && k == -delta:
		return st, true
	}
	return nil, false
}

// R04.3 insert registers exactly once
func ruleR04_3(w *World, r *Report) {
	u := w.Client()
	r.Rule("R04.3", "every insertNext on an insert path is followed on all paths by the store into the list's identity map (keyed by the node's order time) and by exactly one size++", 2)
	for _, name := range []string{"insertLocalWithTimedTypes", "insertRemoteWithTimedTypes"} {
		fn := u.Fn(pOrda, "listSnapshot", name)
		if fn == nil {
			r.Lost("listSnapshot." + name)
			continue
		}
		ins := callsNamed(fn, "insertNext")
		if len(ins) == 0 {
			r.Lost("listSnapshot." + name + "/insertNext")
			continue
		}
		nInc := 0
		forEachInstr(fn, func(in ssa.Instruction) {
			if _, ok := isSizeStore(in, "listSnapshot", "size", 1); ok {
				nInc++
			}
		})
		for _, c := range ins {
			in := c.(ssa.Instruction)
			okMap, _ := mustReach(in, func(x ssa.Instruction) bool {
				mu, ok := x.(*ssa.MapUpdate)
				return ok && mapFieldOf(mu.Map) == "listSnapshot.Map"
			}, false)
			okSize, _ := mustReach(in, func(x ssa.Instruction) bool {
				_, ok := isSizeStore(x, "listSnapshot", "size", 1)
				return ok
			}, false)
			cons := "listSnapshot." + name + "/register"
			switch {
			case !okMap:
				r.Bad(cons, u.Pos(in.Pos()), "an inserted node is not stored into the identity map on every path: it cannot be addressed by later operations")
			case !okSize:
				r.Bad(cons, u.Pos(in.Pos()), "an inserted node is not counted (size++) on every path")
			case nInc != len(ins):
				r.Bad(cons, u.Pos(in.Pos()), fmt.Sprintf("%d size++ for %d insertNext", nInc, len(ins)))
			default:
				r.OK(cons, u.Pos(in.Pos()), "insertNext -> Map[hash]=node -> size++ on every path")
			}
		}
	}
}

// R04.4 size decremented once
func ruleR04_4(w *World, r *Report) {
	u := w.Client()
	r.Rule("R04.4", "a size decrement on a path that can be reached remotely is controlled by the not-a-tombstone edge of isTomb() of the same element (a node is uncounted once)", 3)
	sites := []struct{ recv, fn, owner, field string }{
		{"listSnapshot", "deleteRemote", "listSnapshot", "size"},
		{"mapSnapshot", "removeRemoteWithTimedType", "mapSnapshot", "Size"},
		{"mapSnapshot", "removeLocalWithTimedType", "mapSnapshot", "Size"},
	}
	for _, s := range sites {
		fn := u.Fn(pOrda, s.recv, s.fn)
		cons := s.recv + "." + s.fn + "/size--"
		if fn == nil {
			r.Lost(s.recv + "." + s.fn)
			continue
		}
		n := 0
		forEachInstr(fn, func(in ssa.Instruction) {
			st, ok := isSizeStore(in, s.owner, s.field, -1)
			if !ok {
				return
			}
			n++
			paths, okp := reachingLits(fn, nil, st)
			good := okp
			for _, p := range paths {
				found := false
				for _, l := range p {
					if is, pol := litIsTombOnExisting(l); is && !pol {
						found = true
					}
				}
				good = good && found
			}
			r.Check(good, cons, u.Pos(st.Pos()), "decrement only for a live element", "the size is decremented on a path that has not established that the element is live: a second delete of the same element uncounts it twice")
		})
		if n == 0 {
			r.Lost(cons)
		}
	}
	// and every function that decrements a size is known
	for _, fn := range u.ordaFuncs(ordaOnly) {
		forEachInstr(fn, func(in ssa.Instruction) {
			for _, of := range [][2]string{{"listSnapshot", "size"}, {"mapSnapshot", "Size"}} {
				if st, ok := isSizeStore(in, of[0], of[1], -1); ok {
					name := fnName(fn)
					known := name == "listSnapshot.deleteLocal"
					for _, s := range sites {
						known = known || name == s.recv+"."+s.fn
					}
					if !known {
						r.Bad(name+"/size--", u.Pos(st.Pos()), "an unexpected function decrements a snapshot size")
					}
				}
			}
		})
	}
}

// R04.5 who may walk raw links
func ruleR04_5(w *World, r *Report) {
	u := w.Client()
	r.Rule("R04.5", "index-based (local) walks skip tombstones: getNext (the raw link) is called only from the identity-based insert, getNextLive itself, marshalling, printing and equality; every other cursor advance uses getNextLive", 6)
	allowed := map[string]string{
		"listSnapshot.insertRemoteWithTimedTypes": "identity-based insert walks raw siblings",
		"orderedNode.getNextLive":                 "implements the skipping",
		"listSnapshot.MarshalJSON":                "captures tombstones too",
		"jsonArray.marshal":                       "captures tombstones too",
		"listSnapshot.String":                     "debug print",
		"jsonArray.equal":                         "structural equality",
		"orderedNode.insertNext":                  "link maintenance",
	}
	n := 0
	for _, fn := range u.ordaFuncs(ordaOnly) {
		name := fnName(fn)
		for _, c := range callsNamed(fn, "getNext") {
			n++
			why, ok := allowed[name]
			r.Check(ok, name+"/calls getNext", u.Pos(c.Pos()), why, "a function outside the enumerated raw-link walkers advances with getNext: an index-based walk would land on tombstones (deleted elements are read, re-deleted or resurrected)")
		}
	}
	if n < 6 {
		r.Lost(fmt.Sprintf("raw getNext call sites (found %d)", n))
	}
	// the live walkers must use getNextLive
	for _, fnn := range [][2]string{{"listSnapshot", "retrieve"}, {"listSnapshot", "updateLocal"}, {"listSnapshot", "deleteLocal"},
		{"listSnapshot", "findManyTimedTypes"}, {"listSnapshot", "findManyValues"}, {"listSnapshot", "ToJSON"}, {"jsonArray", "updateLocal"}, {"jsonArray", "ToJSON"}} {
		fn := u.Fn(pOrda, fnn[0], fnn[1])
		if fn == nil {
			r.Lost(fnn[0] + "." + fnn[1])
			continue
		}
		r.Check(len(callsNamed(fn, "getNextLive")) > 0, fnn[0]+"."+fnn[1]+"/advances with getNextLive", u.Pos(fn.Pos()), "live walk", "the index-based walk no longer advances with getNextLive")
	}
}

// R04.6 the identity map of a list is keyed by the order time
func ruleR04_6(w *World, r *Report) {
	u := w.Client()
	r.Rule("R04.6", "every store into a list's identity map uses the hash of the node's order time (hash() / getOrderTime().Hash()), never the value time; lookups use the Hash of a transmitted target", 4)
	n := 0
	var fns []*ssa.Function
	fns = append(fns, u.ordaFuncs(ordaOnly)...)
	sort.Slice(fns, func(i, j int) bool { return fns[i].String() < fns[j].String() })
	for _, fn := range fns {
		forEachInstr(fn, func(in ssa.Instruction) {
			mu, ok := in.(*ssa.MapUpdate)
			if !ok || mapFieldOf(mu.Map) != "listSnapshot.Map" {
				return
			}
			n++
			good := false
			if c, ok := mu.Key.(*ssa.Call); ok {
				switch calleeName(c) {
				case "hash": // orderedNode.hash() is O.Hash()
					good = true
				case "Hash":
					recv, _ := recvAndArgs(c)
					if rc, ok := recv.(*ssa.Call); ok && calleeName(rc) == "getOrderTime" {
						good = true
					}
				}
			}
			r.Check(good, fnName(fn)+"/store listSnapshot.Map[key]", u.Pos(mu.Pos()), "keyed by order time: "+exprName(mu.Key),
				"the identity map is keyed by "+exprName(mu.Key)+", not by the node's order time: operations addressed to an updated or deleted element miss it")
		})
	}
	if n < 4 {
		r.Lost(fmt.Sprintf("stores into listSnapshot.Map (found %d)", n))
	}
}
