package main

import (
	"fmt"
	"go/constant"
	"go/token"
	"go/types"
	"strings"

	"golang.org/x/tools/go/ssa"
)

// Rules added in round 7 (guards of the repairs F52..F55 and what the round-7 changes showed).

// R10.8 local and remote delete of a Document array bury the same elements: what goes to the Cemetery are the
// timed types the list layer reports as deleted (never the result of a NodeMap lookup by the nodes' order times:
// NodeMap is keyed by create times, which differ once an element was updated - F52).
func ruleR10_8(w *World, r *Report) {
	u := w.Client()
	r.Rule("R10.8", "jsonArray.deleteLocal and jsonArray.deleteRemote bury exactly the timed types that listSnapshot.deleteLocal / deleteRemote report as deleted (sibling agreement; no NodeMap lookup by order time)", 2)
	for _, sp := range []struct {
		name string
		idx  int
	}{{"deleteLocal", 1}, {"deleteRemote", 0}} {
		fn := u.Fn(pOrda, "jsonArray", sp.name)
		if fn == nil {
			r.Lost("jsonArray." + sp.name)
			continue
		}
		cons := "jsonArray." + sp.name + "/buried elements"
		calls := callsNamed(fn, "addToCemetery")
		if len(calls) == 0 {
			r.Bad(cons, u.Pos(fn.Pos()), "no deleted element is added to the Cemetery: the deleting replica's snapshot differs from the one every other replica (and a snapshot import) builds, and a later remote delete of the same tombstone finds nothing to re-key")
			continue
		}
		for _, c := range calls {
			args := c.Common().Args
			if len(args) == 0 {
				continue
			}
			arg := args[len(args)-1]
			good, why := true, ""
			for _, v := range resolvePhis(throughHelperParam(arg)) {
				v = throughHelperParam(stripIface(v))
				if ta, ok := v.(*ssa.TypeAssert); ok {
					v = throughHelperParam(stripIface(ta.X))
				}
				ld, ok := v.(*ssa.UnOp)
				if !ok || ld.Op != token.MUL {
					good, why = false, exprName(v)
					continue
				}
				ia, ok := ld.X.(*ssa.IndexAddr)
				if !ok {
					good, why = false, exprName(v)
					continue
				}
				fromList := false
				for _, s := range resolvePhis(throughHelperParam(ia.X)) {
					s = throughHelperParam(s)
					if ex, ok := s.(*ssa.Extract); ok && ex.Index == sp.idx {
						if call, ok := ex.Tuple.(*ssa.Call); ok && calleeName(call) == sp.name {
							if cal := staticCallee(call); cal != nil && recvNameOfFn(cal) == "listSnapshot" {
								fromList = true
							}
						}
					}
				}
				if !fromList {
					good, why = false, exprName(ia.X)
				}
			}
			r.Check(good, cons, u.Pos(c.Pos()), "the buried value is an element of the deleted timed types reported by listSnapshot."+sp.name,
				"the value added to the Cemetery ("+why+") is not an element of the timed types that listSnapshot."+sp.name+" reports as deleted: an element that was updated before (its create time differs from the node's order time) is missed or a replaced one is buried instead (F52)")
		}
	}
}

func recvNameOfFn(f *ssa.Function) string {
	if f == nil || f.Signature.Recv() == nil {
		return ""
	}
	t := f.Signature.Recv().Type()
	if p, ok := t.(*types.Pointer); ok {
		t = p.Elem()
	}
	if n, ok := t.(*types.Named); ok {
		return n.Obj().Name()
	}
	return ""
}

// isOpDecoder: a function of the operations package that turns a *model.Operation into an iface.Operation.
func isOpDecoder(f *ssa.Function) bool {
	if f == nil || f.Pkg == nil || f.Pkg.Pkg.Path() != pOperations || f.Signature.Recv() != nil {
		return false
	}
	ps, rs := f.Signature.Params(), f.Signature.Results()
	if ps.Len() != 1 || rs.Len() < 1 {
		return false
	}
	return strings.HasSuffix(ps.At(0).Type().String(), "model.Operation") && strings.HasSuffix(rs.At(0).Type().String(), "iface.Operation")
}

// recoversPanics: f defers a closure that calls recover().
func recoversPanics(f *ssa.Function) bool {
	found := false
	forEachOwnInstr(f, func(in ssa.Instruction) {
		d, ok := in.(*ssa.Defer)
		if !ok {
			return
		}
		var cl *ssa.Function
		switch x := d.Call.Value.(type) {
		case *ssa.MakeClosure:
			cl, _ = x.Fn.(*ssa.Function)
		case *ssa.Function:
			cl = x
		}
		if cl == nil {
			return
		}
		forEachOwnInstr(cl, func(i2 ssa.Instruction) {
			if c, ok := i2.(*ssa.Call); ok {
				if b, ok := c.Call.Value.(*ssa.Builtin); ok && b.Name() == "recover" {
					found = true
				}
			}
		})
	})
	return found
}

// R09.11 a received unit is decoded as a whole before any of it is applied, with a decoder whose failure is an
// error (F53: a body that is not JSON panicked in the middle of the unit and the deferred EndTransaction committed
// the part applied so far).
func ruleR09_11(w *World, r *Report) {
	u := w.Client()
	r.Rule("R09.11", "the operations of a received unit are decoded before the first of them is applied, by a decoder that reports an undecodable operation as an error (no decoding inside the apply loop, no panicking decoder on the receive path, which includes the first operation of an error or subscribe response)", 5)
	fnE := u.Fn(pDatatypes, "TransactionDatatype", "ExecuteRemoteTransactionWithCtx")
	fnR := u.Fn(pDatatypes, "WiredDatatype", "ReceiveRemoteModelOperations")
	if fnE == nil {
		r.Lost("TransactionDatatype.ExecuteRemoteTransactionWithCtx")
	}
	if fnR == nil {
		r.Lost("WiredDatatype.ReceiveRemoteModelOperations")
	}
	fnC := u.Fn(pDatatypes, "WiredDatatype", "checkOptionAndError")
	if fnC == nil {
		r.Lost("WiredDatatype.checkOptionAndError")
	}
	for _, fn := range []*ssa.Function{fnE, fnR, fnC} {
		if fn == nil {
			continue
		}
		short := fn.Name()
		n := 0
		var decodes []ssa.CallInstruction
		for _, c := range callsIn(fn) {
			cal := staticCallee(c)
			if !isOpDecoder(cal) {
				continue
			}
			n++
			decodes = append(decodes, c)
			r.Check(recoversPanics(cal), short+"/decoder "+cal.Name(), u.Pos(c.Pos()), "the decoder turns a panic of the body decoding into an error",
				"received operations are decoded with "+cal.Name()+", which panics on a body that is not valid JSON and on an unknown operation type: a malformed unit or response ends the apply path by a panic (in ExecuteRemoteTransactionWithCtx the deferred EndTransaction then commits the part applied so far) instead of being refused as a whole and reported (F53, F58)")
		}
		if n == 0 {
			r.Lost(short + ": decoding of the received operations")
			continue
		}
		if fn != fnE {
			continue
		}
		applies := callsNamed(fn, "SentenceInTx")
		if len(applies) == 0 {
			r.Lost("ExecuteRemoteTransactionWithCtx: SentenceInTx")
			continue
		}
		bad := ""
		for _, s := range applies {
			for _, d := range decodes {
				if reachableFrom(s.(ssa.Instruction), d.(ssa.Instruction)) {
					bad = u.Pos(d.Pos())
				}
			}
		}
		r.Check(bad == "", "ExecuteRemoteTransactionWithCtx/decode before apply", u.Pos(fn.Pos()), "no decoding is reachable after an operation of the unit was applied",
			"an operation of the unit is decoded (at "+bad+") after an earlier one was applied: when that decoding fails the unit is applied in part, neither all nor none (F53)")
	}
}

// R16.9 the optional parts of a response are looked at only after a test that they are there (F54, F55).
func ruleR16_9(w *World, r *Report) {
	u := w.Client()
	r.Rule("R16.9", "the client reads the first operation and the CheckPoint of a response only under a test that the response has them, and accepts (returns no error for) no response without a CheckPoint", 3)
	fn := u.Fn(pDatatypes, "WiredDatatype", "checkOptionAndError")
	if fn == nil {
		r.Lost("WiredDatatype.checkOptionAndError")
		return
	}
	isOps := func(v ssa.Value) bool {
		n := canonName(v)
		return n == "$1.GetOperations()" || n == "$1.Operations"
	}
	isCP := func(v ssa.Value) bool {
		n := canonName(v)
		return n == "$1.GetCheckPoint()" || n == "$1.CheckPoint"
	}
	abs := rewriter(`len\(\$1\.(GetOperations\(\)|Operations)\)`, "NOPS")
	hasOpsGuard := func(p []Lit) bool {
		for _, l := range p {
			if lc, ok := canonLinCmp(l); ok {
				lc.L = abstractLin(lc.L, abs)
				switch lc.String() {
				case "-NOPS < 0", "-NOPS+1 <= 0", "+NOPS != 0", "-NOPS != 0":
					return true
				}
			}
		}
		return false
	}
	hasCPGuard := func(p []Lit) bool {
		for _, l := range p {
			if l.Kind != "cmp" || l.Op != token.NEQ {
				continue
			}
			x, y := l.X, l.Y
			if c, ok := x.(*ssa.Const); ok && c.Value == nil {
				x, y = y, x
			}
			if c, ok := y.(*ssa.Const); ok && c.Value == nil && isCP(x) {
				return true
			}
		}
		return false
	}
	nIdx, nCP := 0, 0
	forEachInstr(fn, func(in ssa.Instruction) {
		var x ssa.Value
		switch v := in.(type) {
		case *ssa.IndexAddr:
			x = v.X
		case *ssa.Index:
			x = v.X
		case *ssa.FieldAddr:
			if isCP(v.X) {
				nCP++
				paths, ok := reachingLits(fn, nil, in)
				good := ok && len(paths) > 0
				for _, p := range paths {
					good = good && hasCPGuard(p)
				}
				r.Check(good, "checkOptionAndError/CheckPoint field read", u.Pos(in.Pos()), "under CheckPoint != nil",
					"a field of the response's CheckPoint is read on a path that did not test it for nil: a response without its CheckPoint panics in the sync path (in the subscribe branch after the replica and its unpushed operations were reset) instead of reaching the error handler (F55)")
			}
			return
		default:
			return
		}
		if !isOps(x) {
			return
		}
		nIdx++
		paths, ok := reachingLits(fn, nil, in)
		good := ok && len(paths) > 0
		for _, p := range paths {
			good = good && hasOpsGuard(p)
		}
		r.Check(good, "checkOptionAndError/first operation of the response", u.Pos(in.Pos()), "indexed under len(operations) > 0",
			"the first operation of the response is indexed on a path that did not test that there is one: an error (or subscribe) response without operations panics inside the sync path instead of being reported through the error handler (F54)")
	})
	if nIdx < 2 {
		r.Lost(fmt.Sprintf("checkOptionAndError: the reads of the first operation in the error and subscribe branches (found %d)", nIdx))
	}
	// every accepted response has a CheckPoint: the steps after checkOptionAndError derive everything from it
	nRet := 0
	forEachInstr(fn, func(in ssa.Instruction) {
		ret, ok := in.(*ssa.Return)
		if !ok || ret.Parent() != fn || ret.Block().Comment == "recover" || returnsNonNilLast(ret) {
			return
		}
		nRet++
		paths, ok2 := reachingLits(fn, nil, ret)
		good := ok2 && len(paths) > 0
		for _, p := range paths {
			good = good && hasCPGuard(p)
		}
		r.Check(good, "checkOptionAndError/accepted response has a CheckPoint", u.Pos(ret.Pos()), "returns no error only under CheckPoint != nil",
			"a response is accepted (no error) on a path that did not test its CheckPoint for nil: excludeDuplicatedOperations and syncCheckPoint dereference it next (F55)")
	})
	if nRet == 0 {
		r.Lost("checkOptionAndError: an exit without error")
	}
	_ = nCP
}

// ---------------------------------------------------------------------------------------------
// rules from the round-7 changes

// freshResult: every value fn returns as result idx is an object allocated by this very call (directly, or by a
// callee that is fresh itself) - never something loaded from a field or a variable that outlives the call.
func freshResult(fn *ssa.Function, idx int, depth int) (bool, string) {
	if fn == nil || len(fn.Blocks) == 0 || depth > 4 {
		return false, "no body"
	}
	bad := ""
	n := 0
	forEachOwnInstr(fn, func(in ssa.Instruction) {
		ret, ok := in.(*ssa.Return)
		if !ok || ret.Parent() != fn || idx >= len(ret.Results) {
			return
		}
		for _, v := range resolvePhisOwn(ret.Results[idx]) {
			n++
			if ok2, why := freshValue(v, depth); !ok2 {
				bad = why
			}
		}
	})
	if n == 0 && bad == "" {
		bad = "no return"
	}
	return bad == "", bad
}

// returnsReceiver: every return of method fn yields its receiver (a fluent setter).
func returnsReceiver(fn *ssa.Function) bool {
	if fn == nil || len(fn.Blocks) == 0 || fn.Signature.Recv() == nil || len(fn.Params) == 0 {
		return false
	}
	all, n := true, 0
	forEachOwnInstr(fn, func(in ssa.Instruction) {
		ret, ok := in.(*ssa.Return)
		if !ok || ret.Parent() != fn || len(ret.Results) != 1 {
			return
		}
		n++
		if ret.Results[0] != ssa.Value(fn.Params[0]) {
			all = false
		}
	})
	return all && n > 0
}

func freshValue(v ssa.Value, depth int) (bool, string) {
	switch x := v.(type) {
	case *ssa.Alloc:
		if x.Heap {
			return true, ""
		}
	case *ssa.Const:
		return true, "" // nil
	case *ssa.Call:
		cal := staticCallee(x)
		if cal == nil {
			return false, exprName(v)
		}
		if returnsReceiver(cal) && len(x.Call.Args) > 0 {
			return freshValue(x.Call.Args[0], depth+1)
		}
		if ok, why := freshResult(cal, 0, depth+1); !ok {
			return false, fnName(cal) + ": " + why
		}
		return true, ""
	}
	return false, exprName(v)
}

// R15.7 the timestamp handed to the execution of an operation is a fresh object on every call: the execution consumes
// delimiters by mutating it (GetAndNextDelimiter), and Rollback replays the very same operation objects.
func ruleR15_7(w *World, r *Report) {
	u := w.Client()
	r.Rule("R15.7", "the functions that hand out identifiers return a newly allocated object on every call: baseOperation.GetTimestamp and OperationID.GetTimestamp (executions allocate element identifiers by advancing the delimiter of what they get, and a replayed operation must allocate the same identifiers again), OperationID.Next and Timestamp.GetAndNextDelimiter (each operation and each element owns its identifier; the allocator keeps counting), and the Clone methods", 7)
	for _, sp := range [][3]string{{pOperations, "baseOperation", "GetTimestamp"}, {pModel, "OperationID", "GetTimestamp"},
		{pModel, "OperationID", "Next"}, {pModel, "OperationID", "Clone"}, {pModel, "Timestamp", "GetAndNextDelimiter"},
		{pModel, "Timestamp", "Clone"}, {pModel, "CheckPoint", "Clone"}} {
		fn := u.Fn(sp[0], sp[1], sp[2])
		if fn == nil {
			r.Lost(sp[1] + "." + sp[2])
			continue
		}
		ok, why := freshResult(fn, 0, 0)
		r.Check(ok, sp[1]+"."+sp[2]+"/fresh timestamp", u.Pos(fn.Pos()), "every returned Timestamp is allocated by the call",
			"the returned object is not allocated by the call ("+why+"): whoever gets it shares it with the allocator or with the previous caller - the executions of an operation advance the delimiter of the timestamp they are handed (a replay then continues with used-up delimiters and names its elements differently from every other replica), and an identifier that is still the allocator's own object changes under the operation or element that holds it")
	}
}

// R07.5 a replica waiting for subscribe-or-create discards its unpushed buffer and its operation id only when the
// response says that it subscribed to an existing datatype (subscribe bit).
func ruleR07_5(w *World, r *Report) {
	u := w.Client()
	r.Rule("R07.5", "updateStateOfDatatype discards the local buffer and installs a fresh operation id only under the subscribe bit of the response (the answer a retried create gets - no bit at all - must keep what the replica has not pushed yet)", 2)
	fn := u.Fn(pDatatypes, "WiredDatatype", "updateStateOfDatatype")
	if fn == nil {
		r.Lost("WiredDatatype.updateStateOfDatatype")
		return
	}
	underSubscribeBit := func(in ssa.Instruction) bool {
		paths, ok := reachingLits(fn, nil, in)
		if !ok || len(paths) == 0 {
			return false
		}
		for _, p := range paths {
			g := false
			for _, l := range p {
				if l.Kind == "call" && l.Call != nil && calleeName(l.Call) == "HasSubscribeBit" && l.Pol {
					g = true
				}
				if l.Kind == "bool" && l.Pol {
					if c, ok := l.X.(*ssa.Call); ok && calleeName(c) == "HasSubscribeBit" {
						g = true
					}
				}
			}
			if !g {
				return false
			}
		}
		return true
	}
	n := 0
	for _, st := range storesTo(fn, ".localBuffer") {
		n++
		r.Check(underSubscribeBit(st), "updateStateOfDatatype/localBuffer discarded", u.Pos(st.Pos()), "only under HasSubscribeBit()",
			"the buffer of operations not yet pushed is discarded on a path that is not under the subscribe bit of the response: the plain answer to a retried (lost) create makes the replica drop its own operations, which then never reach the server")
	}
	for _, c := range callsNamed(fn, "SetOpID") {
		n++
		r.Check(underSubscribeBit(c.(ssa.Instruction)), "updateStateOfDatatype/fresh operation id", u.Pos(c.Pos()), "only under HasSubscribeBit()",
			"a fresh operation id is installed on a path that is not under the subscribe bit of the response: the replica renumbers operations the server may already hold")
	}
	if n == 0 {
		r.Lost("updateStateOfDatatype: the reset of buffer and operation id for DUE_TO_SUBSCRIBE_CREATE")
	}
}

// R09.12 who may take a new rollback point
func ruleR09_12(w *World, r *Report) {
	u := w.Client()
	r.Rule("R09.12", "a new rollback point is taken (ResetTransaction) only where the datatype is (re)initialised: datatype.init, SetMetaAndSnapshot, and the two subscribe resets - never by the ordinary apply path, which can run while a local transaction is open", 4)
	allowed := map[string]string{
		"datatype.init":                              "initialisation",
		"SnapshotDatatype.SetMetaAndSnapshot":        "import",
		"WiredDatatype.checkOptionAndError":          "subscribe reset",
		"WiredDatatype.updateStateOfDatatype":        "subscribe reset",
		"TransactionDatatype.Rollback":               "rollback",
		"TransactionDatatype.ResetTransaction":       "itself",
		"TransactionDatatype.NewTransactionDatatype": "constructor",
	}
	n := 0
	for _, fn := range u.ordaFuncs(func(p string) bool { return p == pDatatypes || p == pOrda || p == pCManagers }) {
		for _, c := range ownCallsIn(fn) {
			if calleeName(c) != "ResetTransaction" {
				continue
			}
			n++
			site := c.Parent()
			for site.Parent() != nil {
				site = site.Parent()
			}
			ok := ownersAllow(site, func(name string) bool { _, a := allowed[name]; return a })
			r.Check(ok, fnName(fn)+"/takes a rollback point", u.Pos(c.Pos()), "an initialisation or reset site",
				fnName(fn)+" takes a new rollback point: this function is not one of the (re)initialisation sites; when it runs while a local transaction is open (a response that carries no operations does not wait for the transaction lock) the rollback point lies in the middle of that transaction, and a failure of the transaction no longer restores the state from before it began")
		}
	}
	if n < 3 { // initialisation, import, and the subscriber's point in updateStateOfDatatype; the one in checkOptionAndError is replaced by the latter
		r.Lost(fmt.Sprintf("callers of ResetTransaction (found %d, expected at least the three necessary sites)", n))
	}
}

// R14.8 the encoding echo keeps no state between requests
func ruleR14_8(w *World, r *Report) {
	u := w.Server()
	if u == nil {
		return
	}
	r.Rule("R14.8", "the snapshot arm of the encoding-echo service builds its datatype on a client created for this request: a client kept across requests remembers the key with the type of the first request and refuses the next type", 1)
	fn := u.Fn(pService, "OrdaService", "testEncodingSnapshotOperation")
	if fn == nil {
		r.Lost("OrdaService.testEncodingSnapshotOperation")
		return
	}
	n := 0
	for _, c := range callsNamed(fn, "CreateDatatype", "SubscribeOrCreateDatatype", "SubscribeDatatype") {
		n++
		recv, _ := recvAndArgs(c)
		good := false
		why := "?"
		if recv != nil {
			good = true
			for _, v := range resolvePhis(throughHelperParam(recv)) {
				call, ok := stripIface(v).(*ssa.Call)
				if !ok || calleeName(call) != "NewClient" {
					good = false
					why = exprName(v)
				}
			}
		}
		r.Check(good, "testEncodingSnapshotOperation/client of the echo", u.Pos(c.Pos()), "created by NewClient in this request",
			"the datatype of the encoding echo is created on a client that outlives the request ("+why+"): the client remembers key \"Testing\" with the type of the first snapshot, refuses a snapshot of another type, and the unchecked conversion of the nil result panics the handler")
	}
	if n == 0 {
		r.Lost("testEncodingSnapshotOperation: creation of the echo datatype")
	}
}

// R16.10 hand-written methods of the protocol model read a field through an optional sub-message only under a nil
// test (or through the generated getters); an ErrorOperation, which nobody assigns an id later, is built with one.
func ruleR16_10(w *World, r *Report) {
	u := w.Client()
	r.Rule("R16.10", "in the protocol model no hand-written method reads a field through an optional sub-message of its receiver (its.ID.Seq, its.CheckPoint.Sseq ...) without a nil test of that sub-message; the ErrorOperation constructors give the operation an id", 2)
	n := 0
	for _, fn := range u.ordaFuncs(func(p string) bool { return p == pModel }) {
		if isGenerated(u.Fset, fn.Pos()) || len(fn.Params) == 0 || fn.Signature.Recv() == nil {
			continue
		}
		recv := ssa.Value(fn.Params[0])
		forEachOwnInstr(fn, func(in ssa.Instruction) {
			fa, ok := in.(*ssa.FieldAddr)
			if !ok {
				return
			}
			ld, ok := fa.X.(*ssa.UnOp)
			if !ok || ld.Op != token.MUL {
				return
			}
			inner, ok := ld.X.(*ssa.FieldAddr)
			if !ok || inner.X != recv {
				return
			}
			pt, ok := ld.Type().Underlying().(*types.Pointer)
			if !ok {
				return
			}
			nt, ok := pt.Elem().(*types.Named)
			if !ok || nt.Obj().Pkg() == nil || nt.Obj().Pkg().Path() != pModel {
				return
			}
			n++
			paths, okp := reachingLitsOwn(fn, nil, fa)
			guarded := okp && len(paths) > 0
			for _, p := range paths {
				g := false
				for _, l := range p {
					if l.Kind != "cmp" || l.Op != token.NEQ {
						continue
					}
					x, y := l.X, l.Y
					if c, ok := x.(*ssa.Const); ok && c.Value == nil {
						x, y = y, x
					}
					if c, ok := y.(*ssa.Const); ok && c.Value == nil && exprName(x) == exprName(ld) {
						g = true
					}
				}
				guarded = guarded && g
			}
			r.Check(guarded, fnName(fn)+"/"+fieldName(inner.X.Type(), inner.Field)+"."+fieldName(fa.X.Type(), fa.Field), u.Pos(fa.Pos()), "under a nil test of the sub-message",
				fnName(fn)+" reads "+fieldName(fa.X.Type(), fa.Field)+" through the optional sub-message "+fieldName(inner.X.Type(), inner.Field)+" of its receiver without a nil test: logging a message that came (or was built) without it panics outside any recover")
		})
	}
	for _, name := range []string{"NewErrorOperation", "NewErrorOperationWithCodeAndMsg"} {
		fn := u.Fn(pOperations, "", name)
		if fn == nil {
			r.Lost("operations." + name)
			continue
		}
		for _, c := range callsNamed(fn, "newBaseOperation") {
			args := c.Common().Args
			if len(args) < 2 {
				continue
			}
			n++
			isNil := false
			for _, v := range resolvePhis(args[1]) {
				if k, ok := v.(*ssa.Const); ok && k.Value == nil {
					isNil = true
				}
			}
			r.Check(!isNil, name+"/operation id", u.Pos(c.Pos()), "built with an id",
				name+" builds the error operation without an operation id: unlike every other operation it is never given one later, and the answer to a refused push-pull is logged (server and client) through the id")
		}
	}
	if n < 2 {
		r.Lost(fmt.Sprintf("R16.10 instances (found %d)", n))
	}
}

// R16.11 bounds of a slice expression that are computed from a length are computed from the length of the sequence
// that is sliced (not of another representation of it: bytes vs runes).
func ruleR16_11(w *World, r *Report) {
	u := w.Client()
	r.Rule("R16.11", "in the logging helpers that run on every request outside any recover (client/pkg/log), a slice bound derived from a length is derived from the length of the very sequence that is sliced", 1)
	n := 0
	for _, fn := range u.ordaFuncs(func(p string) bool { return strings.HasSuffix(p, "/client/pkg/log") }) {
		forEachOwnInstr(fn, func(in ssa.Instruction) {
			sl, ok := in.(*ssa.Slice)
			if !ok {
				return
			}
			var lens []ssa.Value
			seen := map[ssa.Value]bool{}
			var walk func(v ssa.Value, d int)
			walk = func(v ssa.Value, d int) {
				if v == nil || seen[v] || d > 8 {
					return
				}
				seen[v] = true
				switch x := v.(type) {
				case *ssa.BinOp:
					walk(x.X, d+1)
					walk(x.Y, d+1)
				case *ssa.Phi:
					for _, e := range x.Edges {
						walk(e, d+1)
					}
				case *ssa.Convert:
					walk(x.X, d+1)
				case *ssa.Call:
					if b, ok := x.Call.Value.(*ssa.Builtin); ok && b.Name() == "len" && len(x.Call.Args) == 1 {
						lens = append(lens, x.Call.Args[0])
					}
				}
			}
			walk(sl.Low, 0)
			walk(sl.High, 0)
			if len(lens) == 0 {
				return
			}
			n++
			good := true
			for _, l := range lens {
				_, conv := sl.X.(*ssa.Convert)
				_, conv2 := l.(*ssa.Convert)
				if l != sl.X && (conv || conv2 || exprName(l) != exprName(sl.X)) {
					good = false
				}
			}
			r.Check(good, fnName(fn)+"/slice bounds", u.Pos(sl.Pos()), "bounds from the length of the sliced sequence",
				fnName(fn)+" slices "+exprName(sl.X)+" with a bound computed from the length of another sequence: for a tag with multi-byte characters the bound exceeds the sequence and the request's logging panics before the handler's recover is in place")
		})
	}
	if n == 0 {
		r.Lost("client/pkg/log: a slice bounded by a length (MakeShort)")
	}
}

func ruleR06_1full(w *World, r *Report) { ruleR06_1(w, r, false) }

// R16.12 the encoding echo does not use what it could not decode or create (F56)
func ruleR16_12(w *World, r *Report) {
	u := w.Server()
	if u == nil {
		return
	}
	r.Rule("R16.12", "the encoding-echo RPC calls a method on the decoded operation only under a test that the decoder returned one, and converts the datatype it creates for a snapshot with the comma-ok form: a request it cannot decode is answered with an error, not by a panic in the gRPC handler goroutine (nothing recovers there)", 2)
	fn := u.Fn(pService, "OrdaService", "TestEncodingOperation")
	if fn == nil {
		r.Lost("OrdaService.TestEncodingOperation")
		return
	}
	n := 0
	for _, c := range callsNamed(fn, "decodeModelOp") {
		dec, ok := c.(*ssa.Call)
		if !ok {
			continue
		}
		forEachInstr(fn, func(in ssa.Instruction) {
			use, ok := in.(*ssa.Call)
			if !ok || !use.Call.IsInvoke() || stripIface(use.Call.Value) != ssa.Value(dec) {
				return
			}
			n++
			paths, okp := reachingLits(fn, nil, use)
			good := okp && len(paths) > 0
			for _, p := range paths {
				g := false
				for _, l := range p {
					if isNilCheckOf(l, dec, false) {
						g = true
					}
				}
				good = good && g
			}
			r.Check(good, "TestEncodingOperation/decoded operation used", u.Pos(use.Pos()), "under decodedOp != nil",
				"a method is called on the decoded operation on a path that did not test it for nil: decodeModelOp returns nil for an unknown operation type or a body that is not JSON, and the call panics in the gRPC handler goroutine - the request is never answered and the server process ends (F56)")
		})
	}
	if sn := u.Fn(pService, "OrdaService", "testEncodingSnapshotOperation"); sn == nil {
		r.Lost("OrdaService.testEncodingSnapshotOperation")
	} else {
		forEachInstr(sn, func(in ssa.Instruction) {
			ta, ok := in.(*ssa.TypeAssert)
			if !ok {
				return
			}
			src, isCall := stripIface(ta.X).(*ssa.Call)
			if !isCall || calleeName(src) != "CreateDatatype" {
				return
			}
			n++
			r.Check(ta.CommaOk, "testEncodingSnapshotOperation/created datatype converted", u.Pos(ta.Pos()), "comma-ok conversion",
				"the datatype created for the echo is converted without the comma-ok form: CreateDatatype returns nil for an unknown datatype type (or a refused key), and the conversion panics in the gRPC handler goroutine (F56)")
		})
	}
	if n < 2 {
		r.Lost(fmt.Sprintf("R16.12 instances (found %d)", n))
	}
}

// R19.8 every patch operation that is accepted acted on an object or an array (F57)
func ruleR19_8(w *World, r *Report) {
	u := w.Client()
	r.Rule("R19.8", "patchEach returns without error only after an operation on the resolved parent (PutToObject, InsertToArray, DeleteInObject, DeleteInArray, UpdateManyInArray): a parent that is neither an object nor an array is an error, not a silent no-op", 1)
	fn := u.Fn(pOrda, "document", "patchEach")
	if fn == nil {
		r.Lost("document.patchEach")
		return
	}
	acts := map[*ssa.BasicBlock]bool{}
	var actInstrs []ssa.Instruction
	for _, c := range callsNamed(fn, "PutToObject", "InsertToArray", "DeleteInObject", "DeleteInArray", "UpdateManyInArray") {
		actInstrs = append(actInstrs, c.(ssa.Instruction))
		if c.Parent() == fn {
			acts[c.Block()] = true
		}
	}
	if len(actInstrs) < 5 {
		r.Lost(fmt.Sprintf("patchEach: the operations on the resolved parent (found %d)", len(actInstrs)))
		return
	}
	for _, a := range actInstrs {
		acts[a.Block()] = true
	}
	n := 0
	forEachInstr(fn, func(in ssa.Instruction) {
		// the returns of patchEach and of the new helpers whose result it returns unchanged
		ret, ok := in.(*ssa.Return)
		if !ok || ret.Block().Comment == "recover" || definiteErrorExit(ret.Parent(), ret) {
			return
		}
		n++
		paths, okp := pathsWithBlocks(ret.Parent(), nil, ret.Block())
		good := okp && len(paths) > 0
		why := ""
		// a return inside a new helper: what the caller had established when it called the helper
		var callerLits [][]Lit
		if g := ret.Parent(); g != fn && flattenable[g] && len(helperSites[g]) == 1 {
			callerLits, _ = reachingLits(fn, nil, helperSites[g][0])
		}
		for _, p := range paths {
			if len(callerLits) > 0 {
				feasible := false
				for _, cl := range callerLits {
					if !contradictoryLits(append(append([]Lit{}, cl...), p.Lits...)) {
						feasible = true
					}
				}
				if !feasible {
					continue
				}
			}
			// error exits that share this return (a returned err variable tested non-nil) are not judged here
			isErr := false
			for _, l := range p.Lits {
				if l.Kind == "cmp" && l.Op == token.NEQ {
					if k, isC := l.Y.(*ssa.Const); isC && k.Value == nil {
						for _, res := range ret.Results {
							for _, v := range resolvePhis(res) {
								if stripIface(v) == stripIface(loadSource(l.X)) || v == l.X {
									isErr = true
								}
							}
						}
					}
				}
			}
			if isErr || contradictoryLits(p.Lits) {
				continue
			}
			acted := false
			for b := range p.Blocks {
				if acts[b] {
					acted = true
				}
				// an operation inside a new helper called from this block
				for _, i2 := range b.Instrs {
					if c, isCall := i2.(*ssa.Call); isCall {
						if h := c.Call.StaticCallee(); h != nil && flattenable[h] {
							for _, a := range actInstrs {
								if a.Parent() == h {
									acted = true
								}
							}
						}
					}
				}
			}
			if !acted {
				good = false
				why = litsString(p.Lits)
			}
		}
		r.Check(good, "patchEach/accepted operation acted", u.Pos(ret.Pos()), "every error-free exit passed an operation on the parent",
			"patchEach returns no error on a path that performed no operation (under "+why+"): a patch whose parent is neither an object nor an array is accepted and does nothing, also in the middle of a unit of several patches, which then commits the others as if all had been applied (F57)")
	})
	if n == 0 {
		r.Lost("patchEach: an exit without error")
	}
}

// contradictoryLits: the path tests one and the same quantity for "== k" and for "!= k" (repeated calls of a getter
// on the same receiver count as the same quantity): no execution takes it.
func contradictoryLits(lits []Lit) bool {
	eq, ne := map[string]bool{}, map[string]bool{}
	for _, l := range lits {
		lc, ok := canonLinCmp(l)
		if !ok {
			continue
		}
		switch lc.Op {
		case token.EQL:
			eq[lc.L.String()] = true
		case token.NEQ:
			ne[lc.L.String()] = true
		}
	}
	for k := range eq {
		if ne[k] {
			return true
		}
	}
	return false
}

// R03.17 the walk along a path never steps onto a member that is not there
func ruleR03_17(w *World, r *Report) {
	u := w.Client()
	r.Rule("R03.17", "in getTargetByPaths the member found for a path segment is tested for nil before anything is asked of it - on every way from the lookup to the next use, including the way round the loop to the next segment", 2)
	fn := u.Fn(pOrda, "jsonPrimitive", "getTargetByPaths")
	if fn == nil {
		r.Lost("jsonPrimitive.getTargetByPaths")
		return
	}
	var lookups []*ssa.Call
	for _, c := range ownCallsIn(fn) {
		call, ok := c.(*ssa.Call)
		if !ok {
			continue
		}
		n := calleeName(call)
		if n == "getAsJSONType" || n == "getJSONType" {
			lookups = append(lookups, call)
			continue
		}
		// a new helper that does the lookup and hands the member back
		if h := call.Call.StaticCallee(); h != nil && flattenable[h] && len(callsNamed(h, "getAsJSONType", "getJSONType")) > 0 {
			if rs := h.Signature.Results(); rs.Len() >= 1 && strings.HasSuffix(rs.At(0).Type().String(), "jsonType") {
				lookups = append(lookups, call)
			}
		}
	}
	if len(lookups) == 0 {
		r.Lost("getTargetByPaths: the member lookups (getAsJSONType, getJSONType)")
		return
	}
	// values that may hold a lookup result: the lookup itself and the phis it flows into
	carries := func(v ssa.Value, l *ssa.Call) bool {
		seen := map[ssa.Value]bool{}
		var walk func(x ssa.Value, d int) bool
		walk = func(x ssa.Value, d int) bool {
			x = stripIface(x)
			if x == ssa.Value(l) {
				return true
			}
			if ex, ok := x.(*ssa.Extract); ok && ex.Tuple == ssa.Value(l) && ex.Index == 0 {
				return true
			}
			if seen[x] || d > 8 {
				return false
			}
			seen[x] = true
			if ph, ok := x.(*ssa.Phi); ok {
				for _, e := range ph.Edges {
					if walk(e, d+1) {
						return true
					}
				}
			}
			return false
		}
		return walk(v, 0)
	}
	n := 0
	for _, l := range lookups {
		forEachOwnInstr(fn, func(in ssa.Instruction) {
			use, ok := in.(*ssa.Call)
			if !ok || !use.Call.IsInvoke() || use == l || !carries(use.Call.Value, l) {
				return
			}
			if !reachableFrom(l, use) {
				return
			}
			n++
			paths, okp := reachingLitsOwn(fn, l.Block(), use)
			good := okp && len(paths) > 0
			for _, p := range paths {
				g := false
				for _, lit := range p {
					if lit.Kind != "cmp" || lit.Op != token.NEQ {
						continue
					}
					x, y := lit.X, lit.Y
					if c, isC := x.(*ssa.Const); isC && c.Value == nil {
						x, y = y, x
					}
					if c, isC := y.(*ssa.Const); isC && c.Value == nil && carries(x, l) {
						g = true
					}
				}
				good = good && g
			}
			r.Check(good, "getTargetByPaths/"+calleeName(l)+" result used by "+calleeName(use), u.Pos(use.Pos()), "under a nil test of the member on every way from the lookup",
				"the member found by "+calleeName(l)+" reaches "+calleeName(use)+" on a way that did not test it for nil (for instance round the loop to the next path segment): a path whose intermediate segment names a missing member panics in GetByPath / Patch instead of returning an error, and inside a patch of several operations the panic commits what was applied so far")
		})
	}
	if n < 2 {
		r.Lost(fmt.Sprintf("getTargetByPaths: uses of a looked-up member (found %d)", n))
	}
}

// R13.8 the response for a registered key is applied, whatever it says
func ruleR13_8(w *World, r *Report) {
	u := w.Client()
	r.Rule("R13.8", "syncPushPullPacks hands every response pack whose key is registered to that datatype's ApplyPushPullPack; nothing else decides whether it is applied (the answer to a subscription carries the DUID of the existing datatype, not the one the replica chose)", 1)
	fn := u.Fn(pCManagers, "DatatypeManager", "syncPushPullPacks")
	if fn == nil {
		r.Lost("DatatypeManager.syncPushPullPacks")
		return
	}
	n := 0
	for _, c := range callsNamed(fn, "ApplyPushPullPack") {
		n++
		paths, okp := reachingLits(fn, nil, c.(ssa.Instruction))
		good := okp && len(paths) > 0
		extra := ""
		for _, p := range paths {
			for _, l := range p {
				switch {
				case l.Kind == "ok":
				case l.Kind == "cmp" && (isNilErrLit(l) || isRangeLoopLit(l)):
				default:
					good = false
					extra = litsString([]Lit{l})
				}
			}
		}
		r.Check(good, "syncPushPullPacks/every response of a registered key is applied", u.Pos(c.Pos()), "applied under the registry lookup only",
			"a response is applied only under "+extra+": the answer to a subscribe (it carries the DUID of the existing datatype) or any other response that fails the extra test is dropped without an error - the replica never receives the state it subscribed to and never reports the transition to subscribed")
	}
	if n == 0 {
		r.Lost("syncPushPullPacks: ApplyPushPullPack")
	}
}

// isNilErrLit: "x == nil" / "x != nil" on a value of an error-like interface type.
func isNilErrLit(l Lit) bool {
	if l.Kind != "cmp" || (l.Op != token.EQL && l.Op != token.NEQ) {
		return false
	}
	x, y := l.X, l.Y
	if c, ok := x.(*ssa.Const); ok && c.Value == nil {
		x, y = y, x
	}
	c, ok := y.(*ssa.Const)
	if !ok || c.Value != nil {
		return false
	}
	_, isIface := x.Type().Underlying().(*types.Interface)
	return isIface && strings.Contains(x.Type().String(), "rror")
}

// R16.13 a reply channel is never closed
func ruleR16_13(w *World, r *Report) {
	u := w.Server()
	if u == nil {
		return
	}
	r.Rule("R16.13", "the reply channel of a push-pull handler is sent on exactly once and never closed: ProcessPushPull selects over the reply channels of all packs of a request and keeps a channel that has answered in the set, where a closed channel is ready for ever", 1)
	n := 0
	for _, fn := range u.ordaFuncs(func(p string) bool { return p == pService }) {
		forEachOwnInstr(fn, func(in ssa.Instruction) {
			if mk, ok := in.(*ssa.MakeChan); ok && strings.HasSuffix(mk.Type().String(), "model.PushPullPack") {
				n++
				r.OK(fnName(fn)+"/reply channel", u.Pos(mk.Pos()), "created here")
			}
			var cc *ssa.CallCommon
			switch x := in.(type) {
			case *ssa.Call:
				cc = &x.Call
			case *ssa.Defer:
				cc = &x.Call
			case *ssa.Go:
				cc = &x.Call
			}
			if cc == nil {
				return
			}
			if b, ok := cc.Value.(*ssa.Builtin); ok && b.Name() == "close" && len(cc.Args) == 1 && strings.HasSuffix(cc.Args[0].Type().String(), "model.PushPullPack") {
				n++
				r.Bad(fnName(fn)+"/reply channel closed", u.Pos(in.Pos()), "a reply channel is closed: the collector of ProcessPushPull takes the closed channel for another answer, ends before the other packs of the request have answered, and their handlers block for ever on their send with the datatype lock held")
			}
		})
	}
	if n == 0 {
		r.Lost("server/service: creation of a reply channel")
	}
}

// R18.8 the notifier does not give every server process the same MQTT client id
func ruleR18_8(w *World, r *Report) {
	u := w.Server()
	if u == nil {
		return
	}
	r.Rule("R18.7", "the MQTT options of the server's notifier set no client id that is the same for every server process (built from constants only): a broker lets a second connection with the same id take over the first, whose notifications are then dropped without an error", 1)
	fn := u.Fn(ordaPrefix+"/server/notification", "", "NewNotifier")
	if fn == nil {
		r.Lost("notification.NewNotifier")
		return
	}
	bad := ""
	for _, c := range callsNamed(fn, "SetClientID") {
		a := c.Common().Args
		if len(a) == 0 {
			continue
		}
		perProcess := false
		for tag := range origins(a[len(a)-1]) {
			if strings.HasPrefix(tag, "call:") && !strings.Contains(tag, "Sprintf") && !strings.Contains(tag, "Sprint") {
				perProcess = true
			}
			if strings.HasPrefix(tag, "param:") || strings.HasPrefix(tag, "invoke:") {
				perProcess = true
			}
		}
		if !perProcess {
			bad = u.Pos(c.Pos())
		}
	}
	r.Check(bad == "", "NewNotifier/client id", u.Pos(fn.Pos()), "no constant client id", "the notifier connects with a client id built from constants (at "+bad+"): two server processes of one build throw each other off the broker, and the pushes one of them commits are never announced")
}

// R09.13 what a replica received is not queued for push
func ruleR09_13(w *World, r *Report) {
	u := w.Client()
	r.Rule("R09.13", "ExecuteRemoteTransactionWithCtx ends the unit and executes its operations as not local (the literal false): a received unit is never appended to the replica's own push buffer", 2)
	fn := u.Fn(pDatatypes, "TransactionDatatype", "ExecuteRemoteTransactionWithCtx")
	if fn == nil {
		r.Lost("TransactionDatatype.ExecuteRemoteTransactionWithCtx")
		return
	}
	n := 0
	var visit func(g *ssa.Function)
	visit = func(g *ssa.Function) {
		for _, c := range callsNamed(g, "EndTransaction", "SentenceInTx") {
			a := c.Common().Args
			if len(a) == 0 {
				continue
			}
			n++
			last := a[len(a)-1]
			k, isC := last.(*ssa.Const)
			good := isC && k.Value != nil && k.Value.Kind() == constant.Bool && !constant.BoolVal(k.Value)
			r.Check(good, "ExecuteRemoteTransactionWithCtx/"+calleeName(c)+" isLocal", u.Pos(c.Pos()), "isLocal = false",
				calleeName(c)+" is told isLocal = "+exprName(last)+" for a received unit: when it is true the received operations are appended to the replica's own push buffer - foreign operations are pushed again and the positions of the replica's own pending operations shift")
		}
	}
	for _, g := range withClosures(fn) {
		visit(g)
	}
	if n < 2 {
		r.Lost(fmt.Sprintf("ExecuteRemoteTransactionWithCtx: EndTransaction and SentenceInTx (found %d)", n))
	}
}

// isRangeLoopLit: the continuation test of a range loop (an integral comparison on the hidden loop index).
func isRangeLoopLit(l Lit) bool {
	lc, ok := canonLinCmp(l)
	if !ok {
		return false
	}
	str := lc.String()
	// the hidden index of a range loop, or a written index compared with a length
	return strings.Contains(str, "rangeindex") || (strings.Contains(str, "φ") && strings.Contains(str, "len("))
}

// R09.14 a member of a received unit that panics fails the unit (F59)
func ruleR09_14(w *World, r *Report) {
	u := w.Client()
	r.Rule("R09.14", "the function that ends a received unit is deferred, recovers a panic of a member itself, and on that edge marks the transaction failed before EndTransaction runs (so that what was applied of the unit is rolled back)", 1)
	fn := u.Fn(pDatatypes, "TransactionDatatype", "ExecuteRemoteTransactionWithCtx")
	if fn == nil {
		r.Lost("TransactionDatatype.ExecuteRemoteTransactionWithCtx")
		return
	}
	n := 0
	forEachOwnInstr(fn, func(in ssa.Instruction) {
		d, ok := in.(*ssa.Defer)
		if !ok {
			return
		}
		b := startedBody(&d.Call)
		if b == nil || len(callsNamed(b, "EndTransaction")) == 0 {
			return
		}
		n++
		var rec *ssa.Call
		forEachOwnInstr(b, func(x ssa.Instruction) {
			if c, isC := x.(*ssa.Call); isC {
				if bi, isB := c.Call.Value.(*ssa.Builtin); isB && bi.Name() == "recover" {
					rec = c
				}
			}
		})
		good, why := rec != nil, "the deferred function does not call recover() itself"
		if good {
			good, why = false, "no SetTransactionFail on the edge recover() != nil before EndTransaction"
			for _, f := range callsNamed(b, "SetTransactionFail") {
				paths, okp := reachingLitsOwn(f.Parent(), nil, f.(ssa.Instruction))
				under := okp && len(paths) > 0
				for _, p := range paths {
					g := false
					for _, l := range p {
						if isNilCheckOf(l, rec, false) {
							g = true
						}
					}
					under = under && g
				}
				before := false
				for _, e := range callsNamed(b, "EndTransaction") {
					if reachableFrom(f.(ssa.Instruction), e.(ssa.Instruction)) && !reachableFrom(e.(ssa.Instruction), f.(ssa.Instruction)) {
						before = true
					}
				}
				if under && before {
					good = true
				}
			}
		}
		r.Check(good, "ExecuteRemoteTransactionWithCtx/panicking member fails the unit", u.Pos(d.Pos()), "recover, SetTransactionFail, then EndTransaction",
			why+": a member of a received unit that decodes but cannot be executed panics in the middle of the unit, and the deferred EndTransaction commits the members applied so far - the replica keeps a part of the unit, neither all nor nothing (F59)")
	})
	if n == 0 {
		r.Lost("ExecuteRemoteTransactionWithCtx: the deferred end of the unit")
	}
}
