package main

import (
	"fmt"
	"go/token"
	"go/types"
	"strings"

	"golang.org/x/tools/go/ssa"
)

// Rules added in round 7 (guards of the repairs F52..F55 and what the round-7 changes showed).

// R10.8 local and remote delete of a Document array bury the same elements: what goes to the Cemetery are the
// timed types the list layer reports as deleted (never the result of a NodeMap lookup by the nodes' order times:
// NodeMap is keyed by create times, which differ once an element was updated - F52).
func ruleR10_8(w *World, r *Report) {
	u := w.Client()
	r.Rule("R10.8", "jsonArray.deleteLocal and jsonArray.deleteRemote bury exactly the timed types that listSnapshot.deleteLocal / deleteRemote report as deleted (sibling agreement; no NodeMap lookup by order time)", 2)
	for _, sp := range []struct {
		name string
		idx  int
	}{{"deleteLocal", 1}, {"deleteRemote", 0}} {
		fn := u.Fn(pOrda, "jsonArray", sp.name)
		if fn == nil {
			r.Lost("jsonArray." + sp.name)
			continue
		}
		cons := "jsonArray." + sp.name + "/buried elements"
		calls := callsNamed(fn, "addToCemetery")
		if len(calls) == 0 {
			r.Bad(cons, u.Pos(fn.Pos()), "no deleted element is added to the Cemetery: the deleting replica's snapshot differs from the one every other replica (and a snapshot import) builds, and a later remote delete of the same tombstone finds nothing to re-key")
			continue
		}
		for _, c := range calls {
			args := c.Common().Args
			if len(args) == 0 {
				continue
			}
			arg := args[len(args)-1]
			good, why := true, ""
			for _, v := range resolvePhis(throughHelperParam(arg)) {
				v = throughHelperParam(stripIface(v))
				if ta, ok := v.(*ssa.TypeAssert); ok {
					v = throughHelperParam(stripIface(ta.X))
				}
				ld, ok := v.(*ssa.UnOp)
				if !ok || ld.Op != token.MUL {
					good, why = false, exprName(v)
					continue
				}
				ia, ok := ld.X.(*ssa.IndexAddr)
				if !ok {
					good, why = false, exprName(v)
					continue
				}
				fromList := false
				for _, s := range resolvePhis(throughHelperParam(ia.X)) {
					s = throughHelperParam(s)
					if ex, ok := s.(*ssa.Extract); ok && ex.Index == sp.idx {
						if call, ok := ex.Tuple.(*ssa.Call); ok && calleeName(call) == sp.name {
							if cal := staticCallee(call); cal != nil && recvNameOfFn(cal) == "listSnapshot" {
								fromList = true
							}
						}
					}
				}
				if !fromList {
					good, why = false, exprName(ia.X)
				}
			}
			r.Check(good, cons, u.Pos(c.Pos()), "the buried value is an element of the deleted timed types reported by listSnapshot."+sp.name,
				"the value added to the Cemetery ("+why+") is not an element of the timed types that listSnapshot."+sp.name+" reports as deleted: an element that was updated before (its create time differs from the node's order time) is missed or a replaced one is buried instead (F52)")
		}
	}
}

func recvNameOfFn(f *ssa.Function) string {
	if f == nil || f.Signature.Recv() == nil {
		return ""
	}
	t := f.Signature.Recv().Type()
	if p, ok := t.(*types.Pointer); ok {
		t = p.Elem()
	}
	if n, ok := t.(*types.Named); ok {
		return n.Obj().Name()
	}
	return ""
}

// isOpDecoder: a function of the operations package that turns a *model.Operation into an iface.Operation.
func isOpDecoder(f *ssa.Function) bool {
	if f == nil || f.Pkg == nil || f.Pkg.Pkg.Path() != pOperations || f.Signature.Recv() != nil {
		return false
	}
	ps, rs := f.Signature.Params(), f.Signature.Results()
	if ps.Len() != 1 || rs.Len() < 1 {
		return false
	}
	return strings.HasSuffix(ps.At(0).Type().String(), "model.Operation") && strings.HasSuffix(rs.At(0).Type().String(), "iface.Operation")
}

// recoversPanics: f defers a closure that calls recover().
func recoversPanics(f *ssa.Function) bool {
	found := false
	forEachOwnInstr(f, func(in ssa.Instruction) {
		d, ok := in.(*ssa.Defer)
		if !ok {
			return
		}
		var cl *ssa.Function
		switch x := d.Call.Value.(type) {
		case *ssa.MakeClosure:
			cl, _ = x.Fn.(*ssa.Function)
		case *ssa.Function:
			cl = x
		}
		if cl == nil {
			return
		}
		forEachOwnInstr(cl, func(i2 ssa.Instruction) {
			if c, ok := i2.(*ssa.Call); ok {
				if b, ok := c.Call.Value.(*ssa.Builtin); ok && b.Name() == "recover" {
					found = true
				}
			}
		})
	})
	return found
}

// R09.11 a received unit is decoded as a whole before any of it is applied, with a decoder whose failure is an
// error (F53: a body that is not JSON panicked in the middle of the unit and the deferred EndTransaction committed
// the part applied so far).
func ruleR09_11(w *World, r *Report) {
	u := w.Client()
	r.Rule("R09.11", "the operations of a received unit are decoded before the first of them is applied, by a decoder that reports an undecodable operation as an error (no decoding inside the apply loop, no panicking decoder on the receive path)", 3)
	fnE := u.Fn(pDatatypes, "TransactionDatatype", "ExecuteRemoteTransactionWithCtx")
	fnR := u.Fn(pDatatypes, "WiredDatatype", "ReceiveRemoteModelOperations")
	if fnE == nil {
		r.Lost("TransactionDatatype.ExecuteRemoteTransactionWithCtx")
	}
	if fnR == nil {
		r.Lost("WiredDatatype.ReceiveRemoteModelOperations")
	}
	for _, fn := range []*ssa.Function{fnE, fnR} {
		if fn == nil {
			continue
		}
		short := fn.Name()
		n := 0
		var decodes []ssa.CallInstruction
		for _, c := range callsIn(fn) {
			cal := staticCallee(c)
			if !isOpDecoder(cal) {
				continue
			}
			n++
			decodes = append(decodes, c)
			r.Check(recoversPanics(cal), short+"/decoder "+cal.Name(), u.Pos(c.Pos()), "the decoder turns a panic of the body decoding into an error",
				"received operations are decoded with "+cal.Name()+", which panics on a body that is not valid JSON and on an unknown operation type: a malformed unit ends the apply path by a panic (in ExecuteRemoteTransactionWithCtx the deferred EndTransaction then commits the part applied so far) instead of being refused as a whole (F53)")
		}
		if n == 0 {
			r.Lost(short + ": decoding of the received operations")
			continue
		}
		if fn != fnE {
			continue
		}
		applies := callsNamed(fn, "SentenceInTx")
		if len(applies) == 0 {
			r.Lost("ExecuteRemoteTransactionWithCtx: SentenceInTx")
			continue
		}
		bad := ""
		for _, s := range applies {
			for _, d := range decodes {
				if reachableFrom(s.(ssa.Instruction), d.(ssa.Instruction)) {
					bad = u.Pos(d.Pos())
				}
			}
		}
		r.Check(bad == "", "ExecuteRemoteTransactionWithCtx/decode before apply", u.Pos(fn.Pos()), "no decoding is reachable after an operation of the unit was applied",
			"an operation of the unit is decoded (at "+bad+") after an earlier one was applied: when that decoding fails the unit is applied in part, neither all nor none (F53)")
	}
}

// R16.9 the optional parts of a response are looked at only after a test that they are there (F54, F55).
func ruleR16_9(w *World, r *Report) {
	u := w.Client()
	r.Rule("R16.9", "the client reads the first operation and the CheckPoint of a response only under a test that the response has them, and accepts (returns no error for) no response without a CheckPoint", 3)
	fn := u.Fn(pDatatypes, "WiredDatatype", "checkOptionAndError")
	if fn == nil {
		r.Lost("WiredDatatype.checkOptionAndError")
		return
	}
	isOps := func(v ssa.Value) bool {
		n := canonName(v)
		return n == "$1.GetOperations()" || n == "$1.Operations"
	}
	isCP := func(v ssa.Value) bool {
		n := canonName(v)
		return n == "$1.GetCheckPoint()" || n == "$1.CheckPoint"
	}
	abs := rewriter(`len\(\$1\.(GetOperations\(\)|Operations)\)`, "NOPS")
	hasOpsGuard := func(p []Lit) bool {
		for _, l := range p {
			if lc, ok := canonLinCmp(l); ok {
				lc.L = abstractLin(lc.L, abs)
				switch lc.String() {
				case "-NOPS < 0", "-NOPS+1 <= 0", "+NOPS != 0", "-NOPS != 0":
					return true
				}
			}
		}
		return false
	}
	hasCPGuard := func(p []Lit) bool {
		for _, l := range p {
			if l.Kind != "cmp" || l.Op != token.NEQ {
				continue
			}
			x, y := l.X, l.Y
			if c, ok := x.(*ssa.Const); ok && c.Value == nil {
				x, y = y, x
			}
			if c, ok := y.(*ssa.Const); ok && c.Value == nil && isCP(x) {
				return true
			}
		}
		return false
	}
	nIdx, nCP := 0, 0
	forEachInstr(fn, func(in ssa.Instruction) {
		var x ssa.Value
		switch v := in.(type) {
		case *ssa.IndexAddr:
			x = v.X
		case *ssa.Index:
			x = v.X
		case *ssa.FieldAddr:
			if isCP(v.X) {
				nCP++
				paths, ok := reachingLits(fn, nil, in)
				good := ok && len(paths) > 0
				for _, p := range paths {
					good = good && hasCPGuard(p)
				}
				r.Check(good, "checkOptionAndError/CheckPoint field read", u.Pos(in.Pos()), "under CheckPoint != nil",
					"a field of the response's CheckPoint is read on a path that did not test it for nil: a response without its CheckPoint panics in the sync path (in the subscribe branch after the replica and its unpushed operations were reset) instead of reaching the error handler (F55)")
			}
			return
		default:
			return
		}
		if !isOps(x) {
			return
		}
		nIdx++
		paths, ok := reachingLits(fn, nil, in)
		good := ok && len(paths) > 0
		for _, p := range paths {
			good = good && hasOpsGuard(p)
		}
		r.Check(good, "checkOptionAndError/first operation of the response", u.Pos(in.Pos()), "indexed under len(operations) > 0",
			"the first operation of the response is indexed on a path that did not test that there is one: an error (or subscribe) response without operations panics inside the sync path instead of being reported through the error handler (F54)")
	})
	if nIdx < 2 {
		r.Lost(fmt.Sprintf("checkOptionAndError: the reads of the first operation in the error and subscribe branches (found %d)", nIdx))
	}
	// every accepted response has a CheckPoint: the steps after checkOptionAndError derive everything from it
	nRet := 0
	forEachInstr(fn, func(in ssa.Instruction) {
		ret, ok := in.(*ssa.Return)
		if !ok || ret.Parent() != fn || ret.Block().Comment == "recover" || returnsNonNilLast(ret) {
			return
		}
		nRet++
		paths, ok2 := reachingLits(fn, nil, ret)
		good := ok2 && len(paths) > 0
		for _, p := range paths {
			good = good && hasCPGuard(p)
		}
		r.Check(good, "checkOptionAndError/accepted response has a CheckPoint", u.Pos(ret.Pos()), "returns no error only under CheckPoint != nil",
			"a response is accepted (no error) on a path that did not test its CheckPoint for nil: excludeDuplicatedOperations and syncCheckPoint dereference it next (F55)")
	})
	if nRet == 0 {
		r.Lost("checkOptionAndError: an exit without error")
	}
	_ = nCP
}
