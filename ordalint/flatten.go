package main

import (
	"fmt"
	"go/ast"
	"go/token"
	"go/types"
	"os"
	"sort"
	"strings"

	"golang.org/x/tools/go/ssa"
)

// Flattening of new helpers.
//
// A function that the reviewed baseline (baseline_symbols.json) does not know, that is not the
// renamed successor of a baseline function, and that is only ever called statically, is a helper
// somebody extracted (or one half of a function somebody split). The rules were written against
// the baseline's functions, so such a helper is treated as part of its callers: for a function a
// rule looked up by name (u.Fn — a "flat root"),
//   - forEachInstr (and callsIn, callsNamed, storesTo, firstCall built on it) also visits the
//     helper's instructions, except its returns;
//   - a parameter of the helper is named after the argument passed for it (when all call sites
//     agree), a result of the helper after the values its success returns yield;
//   - dominance, reachability and path literals are lifted through the call sites.
// On the reviewed tree there are no such helpers and nothing changes.

var (
	flatRoots   = map[*ssa.Function]bool{}
	flattenable = map[*ssa.Function]bool{}
	helperSites = map[*ssa.Function][]*ssa.Call{}
	flatOff     = os.Getenv("VERIF_NOFLATTEN") != ""
)

func resetFlatRoots() { flatRoots = map[*ssa.Function]bool{}; focusRoot = nil }

func flatRoot(fn *ssa.Function) *ssa.Function {
	if fn != nil && !flatOff {
		flatRoots[fn] = true
		focusRoot = fn
	}
	return fn
}

// focusRoot: the anchored function a rule looked up last. A new helper that several anchored functions call with
// different arguments is read, for names and values, through the call sites that lie below the function in focus.
var focusRoot *ssa.Function

// sitesOf: the call sites of new helper h below the function in focus (all of them when none lies there).
func sitesOf(h *ssa.Function) []*ssa.Call {
	all := helperSites[h]
	if focusRoot == nil || len(all) < 2 {
		return all
	}
	var under func(f *ssa.Function, d int) bool
	under = func(f *ssa.Function, d int) bool {
		if f == focusRoot {
			return true
		}
		if d > 5 || !flattenable[f] {
			return false
		}
		for _, s := range helperSites[f] {
			if under(s.Parent(), d+1) {
				return true
			}
		}
		return false
	}
	var out []*ssa.Call
	for _, s := range all {
		if under(s.Parent(), 0) {
			out = append(out, s)
		}
	}
	if len(out) == 0 {
		return all
	}
	return out
}

// computeNewHelpers fills flattenable/helperSites for the universe.
func (u *Universe) computeNewHelpers() {
	if flatOff {
		return
	}
	cand := map[*ssa.Function]bool{}
	fns := u.ordaFuncs(nil)
	for _, f := range fns {
		if f.Parent() != nil || len(f.Blocks) == 0 {
			continue
		}
		obj, ok := f.Object().(*types.Func)
		if !ok || !u.newFuncObjs[obj] {
			continue
		}
		cand[f] = true
	}
	for h := range cand {
		newFuncs[h] = true
	}
	if len(cand) == 0 {
		return
	}
	bad := map[*ssa.Function]bool{}
	sites := map[*ssa.Function][]*ssa.Call{}
	for _, g := range fns {
		for _, b := range g.Blocks {
			for _, in := range b.Instrs {
				if ci, ok := in.(ssa.CallInstruction); ok {
					h := ci.Common().StaticCallee()
					if cand[h] {
						if c, isCall := in.(*ssa.Call); isCall && g != h {
							sites[h] = append(sites[h], c)
						} else {
							bad[h] = true // go/defer of the helper, or recursion
						}
					}
					for _, a := range ci.Common().Args {
						if f, isF := a.(*ssa.Function); isF && cand[f] {
							bad[f] = true
						}
					}
					continue
				}
				if _, isDbg := in.(*ssa.DebugRef); isDbg {
					continue
				}
				for _, op := range in.Operands(nil) {
					if *op == nil {
						continue
					}
					if f, isF := (*op).(*ssa.Function); isF && cand[f] {
						bad[f] = true // used as a value
					}
				}
			}
		}
	}
	for h := range cand {
		if !bad[h] && len(sites[h]) > 0 {
			flattenable[h] = true
			helperSites[h] = sites[h]
			u.Renames = append(u.Renames, "new helper "+fnName(h)+" is analysed as part of its callers")
		}
	}
	sort.Strings(u.Renames)
	if os.Getenv("VERIF_DEBUG_FLATTEN") != "" {
		for h := range cand {
			fmt.Fprintf(os.Stderr, "flatten: candidate %s flattenable=%v sites=%d bad=%v\n", h.String(), flattenable[h], len(sites[h]), bad[h])
		}
	}
}

// forEachInstr visits every instruction of fn (not of its closures); below a flat root also the
// instructions of the new helpers it calls.
func forEachInstr(fn *ssa.Function, f func(ssa.Instruction)) {
	if !flatRoots[fn] || flatOff {
		forEachOwnInstr(fn, f)
		return
	}
	skipRet := map[*ssa.Return]bool{}
	var walk func(g *ssa.Function, stack []*ssa.Function, returns bool)
	walk = func(g *ssa.Function, stack []*ssa.Function, returns bool) {
		for _, b := range g.Blocks {
			for _, in := range b.Instrs {
				if ret, isRet := in.(*ssa.Return); isRet && (!returns || skipRet[ret]) {
					continue
				}
				f(in)
				c, ok := in.(*ssa.Call)
				if !ok {
					continue
				}
				h := c.Call.StaticCallee()
				if !flattenable[h] || h == g {
					continue
				}
				rec := false
				for _, s := range stack {
					if s == h {
						rec = true
					}
				}
				if !rec && len(stack) < 4 {
					// "return helper(..)": the helper's returns are the caller's
					tail := tailReturn(c)
					if tail != nil && returns {
						skipRet[tail] = true
					}
					walk(h, append(stack, g), tail != nil && returns)
				}
			}
		}
	}
	walk(fn, nil, true)
}

// tailReturn: the return instruction that hands the results of call c to the caller unchanged.
func tailReturn(c *ssa.Call) *ssa.Return {
	n := c.Call.Signature().Results().Len()
	if n == 0 {
		return nil
	}
	var ret *ssa.Return
	if n == 1 {
		for _, r := range realRefs(c) {
			rt, ok := r.(*ssa.Return)
			if !ok || len(rt.Results) != 1 || rt.Results[0] != ssa.Value(c) || (ret != nil && ret != rt) {
				return nil
			}
			ret = rt
		}
		return ret
	}
	seen := 0
	for _, r := range realRefs(c) {
		ex, ok := r.(*ssa.Extract)
		if !ok {
			return nil
		}
		for _, r2 := range realRefs(ex) {
			rt, ok := r2.(*ssa.Return)
			if !ok || len(rt.Results) != n || rt.Results[ex.Index] != ssa.Value(ex) || (ret != nil && ret != rt) {
				return nil
			}
			ret = rt
		}
		seen++
	}
	if seen != n {
		return nil
	}
	return ret
}

func forEachOwnInstr(fn *ssa.Function, f func(ssa.Instruction)) {
	for _, b := range fn.Blocks {
		for _, in := range b.Instrs {
			f(in)
		}
	}
}

// ---------------------------------------------------------------------------------------------
// names

// helperParamName: the canonical name of the argument passed for parameter p of a new helper,
// when every call site passes the same thing.
func helperParamName(p *ssa.Parameter, d int) (string, bool) {
	h := p.Parent()
	if h == nil || !flattenable[h] || d > 20 {
		return "", false
	}
	idx := -1
	for i, q := range h.Params {
		if q == p {
			idx = i
		}
	}
	if idx < 0 {
		return "", false
	}
	name := ""
	for _, s := range sitesOf(h) {
		if idx >= len(s.Call.Args) {
			return "", false
		}
		saved := substStack
		substStack = nil
		n := exprNameD(s.Call.Args[idx], d+1)
		substStack = saved
		if name != "" && n != name {
			return "?" + h.Name() + "." + p.Name(), true
		}
		name = n
	}
	return name, name != ""
}

// mayBeNilValue: the value (an error result of a return) can be nil.
func mayBeNilValue(v ssa.Value) bool {
	for _, x := range resolveSpill(v) {
		switch t := stripIface(x).(type) {
		case *ssa.Const:
			if t.Value == nil {
				return true
			}
		case *ssa.Call:
			if !isConstructorOfError(t) {
				return true
			}
		case *ssa.MakeInterface, *ssa.Alloc:
		default:
			return true
		}
	}
	return false
}

// helperResults: the values result idx of the new helper called by call can take (the operands of
// its returns; for a non-error result only of the returns whose error result may be nil).
func helperResults(call *ssa.Call, idx int) ([]ssa.Value, bool) {
	h := call.Call.StaticCallee()
	if !flattenable[h] {
		return nil, false
	}
	res := h.Signature.Results()
	errIdx := -1
	if res.Len() > 1 && isErrorLike(res.At(res.Len()-1).Type()) {
		errIdx = res.Len() - 1
	}
	var out []ssa.Value
	for _, b := range h.Blocks {
		for _, in := range b.Instrs {
			ret, ok := in.(*ssa.Return)
			if !ok || idx >= len(ret.Results) {
				continue
			}
			if errIdx >= 0 && idx != errIdx && !mayBeNilValue(ret.Results[errIdx]) {
				continue
			}
			out = append(out, ret.Results[idx])
		}
	}
	return out, len(out) > 0
}

func helperResultName(call *ssa.Call, idx int, d int) (string, bool) {
	if d > 16 {
		return "", false
	}
	vals, ok := helperResults(call, idx)
	if !ok {
		return "", false
	}
	seen := map[string]bool{}
	var names []string
	for _, v := range vals {
		for _, e := range resolvePhisOwn(v) {
			n := withSubst(call, func() string { return exprNameD(e, d+6) })
			if !seen[n] {
				seen[n] = true
				names = append(names, n)
			}
		}
	}
	sort.Strings(names)
	if len(names) == 1 {
		return names[0], true
	}
	return "phi(" + strings.Join(names, "|") + ")", true
}

// ---------------------------------------------------------------------------------------------
// positions

// liftAll: the instructions of function target that stand for in — in itself, or the call sites
// in target through which the helper holding in is entered.
func liftAll(in ssa.Instruction, target *ssa.Function) []ssa.Instruction {
	var out []ssa.Instruction
	seen := map[ssa.Instruction]bool{}
	var walk func(x ssa.Instruction, d int)
	walk = func(x ssa.Instruction, d int) {
		if seen[x] || d > 5 {
			return
		}
		seen[x] = true
		if x.Parent() == target {
			out = append(out, x)
			return
		}
		for _, s := range helperSites[x.Parent()] {
			walk(s, d+1)
		}
	}
	walk(in, 0)
	return out
}

// ancestorsOf: the functions from which the function holding in is entered through new helpers
// (itself first).
func ancestorsOf(fn *ssa.Function) []*ssa.Function {
	out := []*ssa.Function{fn}
	seen := map[*ssa.Function]bool{fn: true}
	for i := 0; i < len(out) && i < 32; i++ {
		if !flattenable[out[i]] {
			continue
		}
		for _, s := range helperSites[out[i]] {
			if p := s.Parent(); !seen[p] {
				seen[p] = true
				out = append(out, p)
			}
		}
	}
	return out
}

func commonFunction(a, b ssa.Instruction) *ssa.Function {
	bs := map[*ssa.Function]bool{}
	for _, f := range ancestorsOf(b.Parent()) {
		bs[f] = true
	}
	for _, f := range ancestorsOf(a.Parent()) {
		if bs[f] {
			return f
		}
	}
	return nil
}

// runsBefore: a (inside a helper entered at site pa of common) has run whenever pb is reached.
func helperInstrRuns(a ssa.Instruction, common *ssa.Function, pb ssa.Instruction) bool {
	x := a
	for x.Parent() != common {
		sites := helperSites[x.Parent()]
		if len(sites) == 0 {
			return false
		}
		if !alwaysRuns(x) {
			if !runsOnSuccess(x) {
				return false
			}
			// the caller must test the helper's error before pb
			okAll := true
			for _, s := range sites {
				if s.Parent() == common {
					if !underNilErrOf(pb, s) {
						okAll = false
					}
				} else {
					okAll = false
				}
			}
			if !okAll {
				return false
			}
		}
		// continue with (any of) the call sites; all must satisfy the same condition
		x = sites[0]
	}
	return true
}

func instrDominatesCross(a, b ssa.Instruction) bool {
	common := commonFunction(a, b)
	if common == nil {
		return false
	}
	pas, pbs := liftAll(a, common), liftAll(b, common)
	if len(pas) == 0 || len(pbs) == 0 {
		return false
	}
	for _, pb := range pbs {
		found := false
		for _, pa := range pas {
			if pa == pb {
				continue
			}
			if instrDominates(pa, pb) && (a.Parent() == common || helperInstrRuns(a, common, pb)) {
				found = true
			}
		}
		if !found {
			return false
		}
	}
	return true
}

func reachableFromCross(a, b ssa.Instruction) bool {
	common := commonFunction(a, b)
	if common == nil {
		return false
	}
	for _, pa := range liftAll(a, common) {
		for _, pb := range liftAll(b, common) {
			if pa == pb || reachableFrom(pa, pb) {
				return true
			}
		}
	}
	return false
}

// ---------------------------------------------------------------------------------------------
// path literals

const maxFlatPaths = 768

// expandHelperNilChecks: a literal "err of helper(..) ==/!= nil" on a path is followed by the
// literals of the helper's matching return paths.
func expandHelperNilChecks(paths [][]Lit, depth int) ([][]Lit, bool) {
	if depth > 3 {
		return paths, true
	}
	var out [][]Lit
	okAll := true
	for _, p := range paths {
		cur := [][]Lit{{}}
		for _, l := range p {
			var alts [][]Lit
			if l.Kind == "cmp" && (l.Op == token.EQL || l.Op == token.NEQ) {
				x, y := l.X, l.Y
				if c, isC := x.(*ssa.Const); isC && c.Value == nil {
					x, y = y, x
				}
				if c, isC := y.(*ssa.Const); isC && c.Value == nil {
					if call := errSourceCall(stripIface(loadSource(x))); call != nil && flattenable[call.Call.StaticCallee()] {
						alts, _ = helperReturnLits(call.Call.StaticCallee(), l.Op == token.EQL, depth+1)
					}
				}
			}
			// "pred(...)" / "!pred(...)" where pred is a new boolean helper (a predicate extracted from a condition):
			// followed by the literals under which the helper returns that value
			if l.Kind == "call" && l.Call != nil && len(alts) == 0 {
				if callee := l.Call.Call.StaticCallee(); callee != nil && flattenable[callee] {
					if hl, okh := boolReturnLits(callee, l.Pol); okh && len(hl) > 0 && len(hl) <= 16 {
						alts, _ = expandHelperNilChecks(hl, depth+1)
					}
				}
			}
			// the boolean result of a new helper with several results ("x, found := lookup()"): followed by the
			// literals under which the helper returns that value there
			if (l.Kind == "bool" || l.Kind == "ok") && len(alts) == 0 {
				if ex, isEx := l.X.(*ssa.Extract); isEx {
					if c2, isCall := ex.Tuple.(*ssa.Call); isCall {
						if callee := c2.Call.StaticCallee(); callee != nil && flattenable[callee] {
							if hl, okh := boolResultLits(callee, ex.Index, l.Pol); okh && len(hl) > 0 && len(hl) <= 16 {
								alts, _ = expandHelperNilChecks(hl, depth+1)
							}
						}
					}
				}
			}
			var next [][]Lit
			for _, c := range cur {
				if len(alts) == 0 {
					next = append(next, append(append([]Lit{}, c...), l))
					continue
				}
				for _, a := range alts {
					next = append(next, append(append(append([]Lit{}, c...), l), a...))
				}
			}
			cur = next
			if len(cur) > maxFlatPaths {
				// too many combinations: the paths are handed on as they are (less is known about what the helpers
				// tested, nothing wrong is claimed)
				return paths, true
			}
		}
		out = append(out, cur...)
		if len(out) > maxFlatPaths {
			return paths, true
		}
	}
	return out, okAll
}

// helperReturnLits: the literal paths of helper h to its returns whose last result is nil
// (wantNil) or non-nil.
func helperReturnLits(h *ssa.Function, wantNil bool, depth int) ([][]Lit, bool) {
	var out [][]Lit
	ok := true
	for _, b := range h.Blocks {
		for _, in := range b.Instrs {
			ret, isRet := in.(*ssa.Return)
			if !isRet || len(ret.Results) == 0 {
				continue
			}
			last := ret.Results[len(ret.Results)-1]
			may := mayBeNilValue(last)
			definitelyNil := true
			for _, v := range resolveSpill(last) {
				if c, isC := stripIface(v).(*ssa.Const); !isC || c.Value != nil {
					definitelyNil = false
				}
			}
			if wantNil && !may {
				continue
			}
			if !wantNil && definitelyNil {
				continue
			}
			ps, okp := reachingLitsOwn(h, nil, ret)
			// a path on which the returned value itself was tested decides what it is there: "if err != nil { return
			// nil, err }" returns a non-nil error, whatever the static type of err allows
			var kept [][]Lit
			for _, p := range ps {
				known := 0 // +1 known nil, -1 known non-nil
				for _, l := range p {
					for _, v := range resolveSpill(last) {
						if isNilCheckOf(l, v, true) || isNilCheckOf(l, stripIface(v), true) {
							known = 1
						}
						if isNilCheckOf(l, v, false) || isNilCheckOf(l, stripIface(v), false) {
							known = -1
						}
					}
				}
				if (wantNil && known == -1) || (!wantNil && known == 1) {
					continue
				}
				kept = append(kept, p)
			}
			ps, oke := expandHelperNilChecks(kept, depth)
			ok = ok && okp && oke
			out = append(out, ps...)
		}
	}
	return out, ok
}

// reachingLitsFlat: the paths from the entry of fn to an instruction inside a new helper.
func reachingLitsFlat(fn *ssa.Function, instr ssa.Instruction, depth int) ([][]Lit, bool) {
	if instr.Parent() == fn {
		return litsWithHelpers(fn, instr, depth)
	}
	if depth > 4 {
		return nil, false
	}
	own, ok := litsWithHelpers(instr.Parent(), instr, depth)
	var out [][]Lit
	for _, s := range helperSites[instr.Parent()] {
		up, oku := reachingLitsFlat(fn, s, depth+1)
		ok = ok && oku
		for _, a := range up {
			for _, b := range own {
				out = append(out, append(append([]Lit{}, a...), b...))
				if len(out) > maxFlatPaths {
					return nil, false
				}
			}
		}
	}
	return out, ok
}

func ownCallsIn(fn *ssa.Function) []ssa.CallInstruction {
	var out []ssa.CallInstruction
	forEachOwnInstr(fn, func(in ssa.Instruction) {
		if c, ok := in.(ssa.CallInstruction); ok {
			out = append(out, c)
		}
	})
	return out
}

// helperArgs: the values passed for parameter p of a new helper at its call sites.
func helperArgs(p *ssa.Parameter) []ssa.Value {
	h := p.Parent()
	if h == nil || !flattenable[h] {
		return nil
	}
	idx := -1
	for i, q := range h.Params {
		if q == p {
			idx = i
		}
	}
	var out []ssa.Value
	for _, s := range sitesOf(h) {
		if idx >= 0 && idx < len(s.Call.Args) {
			out = append(out, s.Call.Args[idx])
		}
	}
	return out
}

// rootOwners: the baseline functions that enter new helper h (directly or through other new
// helpers).
func rootOwners(h *ssa.Function) []*ssa.Function {
	var out []*ssa.Function
	seen := map[*ssa.Function]bool{}
	var walk func(f *ssa.Function, d int)
	walk = func(f *ssa.Function, d int) {
		if seen[f] || d > 6 {
			return
		}
		seen[f] = true
		if !flattenable[f] {
			// closures count as their enclosing function
			for f.Parent() != nil {
				f = f.Parent()
			}
			for _, o := range out {
				if o == f {
					return
				}
			}
			out = append(out, f)
			return
		}
		for _, s := range helperSites[f] {
			walk(s.Parent(), d+1)
		}
	}
	walk(h, 0)
	return out
}

// ownersAllow: a who-may-do-this test on function names; a new helper is allowed when every
// baseline function that enters it is.
func ownersAllow(f *ssa.Function, allowed func(name string) bool) bool {
	if !flattenable[f] {
		return allowed(fnName(f))
	}
	owners := rootOwners(f)
	if len(owners) == 0 {
		return false
	}
	for _, o := range owners {
		if !allowed(fnName(o)) {
			return false
		}
	}
	return true
}

// throughHelperParam: a parameter of a new helper with one call site is the argument passed there.
func throughHelperParam(v ssa.Value) ssa.Value {
	for i := 0; i < 6; i++ {
		p, ok := v.(*ssa.Parameter)
		if !ok {
			return v
		}
		args := helperArgs(p)
		if len(args) != 1 {
			return v
		}
		v = args[0]
	}
	return v
}

// enteredInLoop: some call site leading to new helper h is inside a loop.
func enteredInLoop(h *ssa.Function) bool {
	seen := map[*ssa.Function]bool{}
	var walk func(f *ssa.Function, d int) bool
	walk = func(f *ssa.Function, d int) bool {
		if seen[f] || d > 6 || !flattenable[f] {
			return false
		}
		seen[f] = true
		for _, s := range helperSites[f] {
			if inLoop(s.Block()) || walk(s.Parent(), d+1) {
				return true
			}
		}
		return false
	}
	return walk(h, 0)
}

// voidHelperCall: a call of a new helper that reports no error (its return paths hold after it).
func voidHelperCall(in ssa.Instruction) *ssa.Function {
	c, ok := in.(*ssa.Call)
	if !ok {
		return nil
	}
	h := c.Call.StaticCallee()
	if !flattenable[h] {
		return nil
	}
	res := h.Signature.Results()
	if res.Len() > 0 && isErrorLike(res.At(res.Len()-1).Type()) {
		return nil
	}
	return h
}

// litsWithHelpers: the literal paths from the entry of g to instr (an instruction of g); after a
// call of a new helper that reports no error, the literals of the helper's return paths follow.
func litsWithHelpers(g *ssa.Function, instr ssa.Instruction, depth int) ([][]Lit, bool) {
	hasVoid := false
	for _, b := range g.Blocks {
		for _, in := range b.Instrs {
			if voidHelperCall(in) != nil {
				hasVoid = true
			}
		}
	}
	if !hasVoid || depth > 3 {
		return reachingLitsOwn(g, nil, instr)
	}
	type item struct {
		lit  Lit
		call *ssa.Function
	}
	to := instr.Block()
	canReach := map[*ssa.BasicBlock]bool{to: true}
	work := []*ssa.BasicBlock{to}
	for len(work) > 0 {
		b := work[len(work)-1]
		work = work[:len(work)-1]
		for _, p := range b.Preds {
			if !canReach[p] {
				canReach[p] = true
				work = append(work, p)
			}
		}
	}
	from := g.Blocks[0]
	if !canReach[from] {
		return nil, true
	}
	ok := true
	var seqs [][]item
	onPath := map[*ssa.BasicBlock]bool{}
	var cur []item
	var order []*ssa.BasicBlock
	var dfs func(b *ssa.BasicBlock)
	dfs = func(b *ssa.BasicBlock) {
		if !ok {
			return
		}
		order = append(order, b)
		defer func() { order = order[:len(order)-1] }()
		mark := len(cur)
		defer func() { cur = cur[:mark] }()
		for _, in := range b.Instrs {
			if b == to && in == instr {
				break
			}
			if h := voidHelperCall(in); h != nil {
				cur = append(cur, item{call: h})
			}
		}
		if b == to {
			if len(seqs) >= maxPaths {
				ok = false
				return
			}
			seqs = append(seqs, append([]item(nil), cur...))
			return
		}
		onPath[b] = true
		defer func() { onPath[b] = false }()
		var ifc ssa.Value
		if len(b.Instrs) > 0 {
			if i, isIf := b.Instrs[len(b.Instrs)-1].(*ssa.If); isIf {
				ifc = i.Cond
			}
		}
		known := -1
		if ifc != nil {
			ifc, known = resolveCondOnPath(ifc, order)
		}
		for si, s := range b.Succs {
			if onPath[s] || !canReach[s] {
				continue
			}
			if known >= 0 && (si == 0) != (known == 1) {
				continue
			}
			n := len(cur)
			if ifc != nil && known < 0 {
				cur = append(cur, item{lit: normLit(condEdge{ifc, si == 0})})
			}
			dfs(s)
			cur = cur[:n]
		}
	}
	dfs(from)
	var out [][]Lit
	for _, sq := range seqs {
		acc := [][]Lit{{}}
		for _, it := range sq {
			if it.call == nil {
				for i := range acc {
					acc[i] = append(acc[i], it.lit)
				}
				continue
			}
			var alts [][]Lit
			for _, b := range it.call.Blocks {
				for _, in := range b.Instrs {
					if ret, isRet := in.(*ssa.Return); isRet {
						ps, okp := litsWithHelpers(it.call, ret, depth+1)
						ok = ok && okp
						alts = append(alts, ps...)
					}
				}
			}
			if len(alts) == 0 {
				continue
			}
			var next [][]Lit
			for _, a := range acc {
				for _, alt := range alts {
					next = append(next, append(append([]Lit{}, a...), alt...))
				}
			}
			acc = next
			if len(acc) > maxFlatPaths {
				return nil, false
			}
		}
		out = append(out, acc...)
		if len(out) > maxFlatPaths {
			return nil, false
		}
	}
	return out, ok
}

// closuresOf: the anonymous functions of fn and of the new helpers it calls.
// newFuncs: the top-level functions the reviewed baseline does not know (flattenable or not).
var newFuncs = map[*ssa.Function]bool{}

func closuresOf(fn *ssa.Function) []*ssa.Function {
	out := append([]*ssa.Function(nil), fn.AnonFuncs...)
	seen := map[*ssa.Function]bool{fn: true}
	var walk func(g *ssa.Function, d int)
	walk = func(g *ssa.Function, d int) {
		for _, c := range ownCallsIn(g) {
			h := staticCallee(c)
			// a closure that was turned into a named method and is started with go / defer plays the closure's role
			if _, isCall := c.(*ssa.Call); !isCall && h != nil && newFuncs[h] && !seen[h] {
				seen[h] = true
				out = append(out, h)
				out = append(out, h.AnonFuncs...)
				walk(h, d+1)
				continue
			}
			if _, isCall := c.(*ssa.Call); !isCall || !flattenable[h] || seen[h] || d > 4 {
				continue
			}
			seen[h] = true
			out = append(out, h.AnonFuncs...)
			walk(h, d+1)
		}
	}
	walk(fn, 0)
	return out
}

// declWithNewHelpers: the declaration of an anchored function followed by the declarations of the new helpers
// (functions unknown to the reviewed baseline) it calls, transitively, within the same package. AST-based rules
// look for their construct in all of them, so that extracting a block into a helper does not lose the anchor.
func (u *Universe) declWithNewHelpers(pkg, recv, name string) []*ast.FuncDecl {
	fd, _ := u.DeclOf(pkg, recv, name)
	if fd == nil {
		return nil
	}
	out := []*ast.FuncDecl{fd}
	root := u.Prog.FuncValue(u.FuncObj(pkg, recv, name))
	if root == nil {
		return out
	}
	seen := map[*ssa.Function]bool{root: true}
	work := []*ssa.Function{root}
	for len(work) > 0 {
		f := work[0]
		work = work[1:]
		for _, c := range ownCallsIn(f) {
			h := staticCallee(c)
			if h == nil || seen[h] || !flattenable[h] || h.Pkg == nil || h.Pkg.Pkg.Path() != pkg {
				continue
			}
			seen[h] = true
			work = append(work, h)
			if obj, ok := h.Object().(*types.Func); ok {
				if hd, _ := u.Decl(obj); hd != nil {
					out = append(out, hd)
				}
			}
		}
	}
	return out
}
